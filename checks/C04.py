"""C04 — FFT multiplication exact inside the precision envelope, independent of the object's history (engine `fft`)."""
import os
import re

ID = "C04"
ENGINE = "fft"
CRATE = "e_fft"
DRIVER = "drv_fft"
DRIVER_MODULE = "Driver.Fft"
PROPS = "RlibModel.Props.C04"
PROFILES = ["release", "debug"]     # debug: debug_assert! / cfg(debug_assertions) code of rlib_fft is live; a reduced stream (harness_args)
SHRINK_SEP = ";"
RULE = ("a case is a call history on ONE FFT object (`fft <f64|f32> ; op ; … ; op`, ops: update_n, multiply, multiply_into, fft, fft_into, "
        "fft_inv, fft_inv_into, fft+pointwise product+fft_inv on the same object (`fm`), with the inverse on a brand-new object (`fmx`) and "
        "with fft_inv_into into a pre-filled destination (`fmi`)); the answer is the result of the LAST call. View (verdict): for calls whose "
        "value the property fixes (inside the literal envelope max^2*min(len) <= 1e12 f64 / 1e3 f32): the rounded i64 vector = exact "
        "integer convolution (destination + convolution on the common prefix, unchanged beyond; cyclic of size n for the composites), "
        "checked by an i128 schoolbook oracle in the harness and by Lean `conv` (= `convSpec`, proved) on the S side; for every call: "
        "`fresh=same` (same call on a brand-new object, bit for bit) and `tail=kept` for *_into destinations longer than the transform. "
        "Raw (drift): only in-envelope i64 values; float bit patterns of fft()/fft_into(), fft_inv of arbitrary complex input and "
        "out-of-envelope products are compared with the Lean IEEE model in a separate diagnostic pass recorded in the evidence "
        "(`diagnostic_float_bits_impl_vs_lean_model`), never a verdict. Generators: every length pair 1..=40 x 1..=40; lengths 2^k-1, 2^k, "
        "2^k+1 against 1,2,3,33, against each other and every split with |a|+|b|-1 in {2^k-1..2^k+2}, k <= 12 (quick) / 17 (thorough); "
        "random structured lengths; 8 coefficient patterns scaled to max^2*min(len) = bound; cyclic wrap-around; destinations shorter / "
        "equal / longer than the written prefix, than n and than 2n; histories fresh / larger / smaller / same / interleaved; far outside "
        "the envelope (incl. f32 above length 1000, where no non-zero coefficient fits the f32 envelope) only history independence is "
        "specified. ALL streams are generated AT the literal envelope max^2*min(len) = bound, however unbalanced the lengths (since the "
        "repair of finding F11 multiply_into multiplies a much longer operand block by block - blocks of the shorter operand's length, "
        "by recursive calls - so the whole literal envelope is exact); stream `unbalanced`: 1 x 4096, 2 x 8192, 7 x 1000, 16 x 8192, "
        "lengths at the switch long > 2*short (33 x 66 / 67, 100 x 200 / 201), ragged last blocks, ragged blocks that split again in the "
        "recursive call (7 x 1003, 16 x 645), both operand orders, multiply and multiply_into with destinations that are empty, shorter "
        "than a block, one before / exactly at / one after a block boundary (first, middle, last block), inside a block, around the "
        "product length (histogram `blocks:*`, `dest:block-relative`); the former F11 inputs are replayed from corpus/C04.txt and any "
        "inexact result inside the literal envelope is a VIOLATION (there is no known finding any more). "
        "Wave 3 (after seeded C04_m10: fft_inv_into overwrote instead of adding in its n == 1 branch): a case is now a program over a POOL "
        "of 4 live objects (`@k op` = call on object k; `cl j k` clone, `cf j k` clone_from into a used destination, `df k` default(), "
        "`nw k` new(), `tk j k` std::mem::take) - one bulk case in six is spread over the pool with pool operations in between, so "
        "objects are used interleaved and copies taken mid-history are both used afterwards (histogram `pool:*`); stream `degenerate`: "
        "EVERY entry point (multiply_into, fft, fft_into, fft_inv, fft_inv_into, the three composites) at transform sizes 1, 2, 4, 8 "
        "and the auto-size n = 0 (`fft(v, 0)` for lengths 0..4; the composites accept n = 0 when both transforms choose the same "
        "size), operands of length 0..4, destinations of length 0, 1, 2, n-1, n, n+1, 2n, 2n+1, ALL NON-ZERO, all 4 constructor "
        "kinds, 5 light histories; new views: `add=ok` for fft_into / fft_inv_into (destination += what fft / fft_inv returns on a "
        "brand-new object, bit for bit resp. value for value, rest of the destination untouched) and `eq=true ne=false peq=ok` for "
        "fft (PartialEq of Complex<F>, both methods, against the fresh object's output and on every pair of the first 8 bins); "
        "op `fx rpn n dest v0 v1 ...` and stream `spectral` (46 expression templates x sizes 1..256 quick / 1..1024 thorough x both "
        "float types): forward transforms of up to 10 operands, a per-bin expression in reverse Polish notation over the PUBLIC "
        "operators of Complex<F> - `+ - * /` in operator AND assign form, Neg, conj, abs2, abs, Mul<F>/MulAssign<F>/Div<F>/DivAssign<F> "
        "by a scalar, Copy / .clone() / clone_from operands, ZERO / default() / ONE / I -, then fft_inv_into into a destination of any length; "
        "expected = the same expression evaluated exactly in Z[i][x]/(x^n - 1) (`*` = cyclic convolution, conj = index reversal, "
        "abs2 = autocorrelation, `/` by the spectrum of a unit monomial = cyclic shift; i128 in the harness, Lean `SExpr.expected` "
        "on the S side); the envelope is carried through the expression (every product charged max(S1,S2)^2*min(L1,L2), sums add; "
        "for one product of two operands exactly the literal envelope). "
        "Wave 4 (after seeded C04_m12: a `debug_assert!` in the block loop of multiply_into that rejects a destination ending inside a "
        "block - debug builds only): BOTH build profiles - release (overflow-checks on) and debug (a plain `cargo build`: "
        "debug_assert! / cfg(debug_assertions) code of rlib_fft live, overflow-checks on); the debug profile runs the same generator "
        "families on a reduced stream (`--profile debug`: all length pairs <= 40, degenerate, tiny-first-calls, dest-sweep, spectral, "
        "solo transforms, cyclic, every history / constructor / pool kind in full; thinned out are only the sizes: 2^6 every other "
        "pair, 2^7 one in four, 2^8 and 2^9 one in eight, one pair per size 2^10..2^12, random lengths <= 256, unbalanced shapes above 110 "
        "terms with three calls each, of the 4096 / 8192-term shapes three in f64; thorough tier: the whole quick stream); stream "
        "`dest-sweep` (both profiles): EVERY destination length one by one - multiply_into on 18 small shapes (8 single-transform, "
        "10 taking the block loop, both operand orders, lengths 0..=|a|+|b|+1, histogram `dest-sweep:mi:blocks:dest<long,inside-block` "
        "etc.), fmi / fx / ii / fi for transform sizes 1..16 with lengths 0..=n+2, 2n, 2n+1; stream `unbalanced`: ALL block-relative "
        "destination classes (not a choice of three) for every shape up to 700 terms. "
        "Wave 5 (after seeded C04_m14: a squaring fast path in multiply_into keyed on `a.as_ptr() == b.as_ptr()`, wrong for a slice and "
        "a prefix of it): ALIASED operands - a flag `al<o>` in front of a two-operand call (m, mi, fm, fmx, fmi) makes the harness pass "
        "a and b as slices of ONE buffer, b starting o entries after a (before, for o < 0), whenever their contents agree on the "
        "overlap (otherwise separate vectors); the model and the specification know no addresses (the driver drops the flag), so the "
        "expected answer is the one for separate copies, and `fresh=same` compares with the same call on a brand-new object that gets "
        "SEPARATE copies; stream `aliased` (both profiles): the very same slice, prefix (same start address, different lengths), "
        "suffix, inner sub-slice, partly overlapping slices, neighbouring parts of one allocation, both operand orders, all pairs "
        "|b| <= |a| <= 6 and 15 larger shapes up to 1000 x 7 / 512 x 512 (quick; 8192 x 16, 65536 x 3 thorough) incl. shapes that "
        "take the block loop, every history / constructor kind, pool cases (histogram `aliased:*`). "
        "non-trivial = distinct in-domain case whose last call carries at least 3 coefficients")
ASSUMPTIONS = [
    "the Lean model of rlib_fft is hand-written; it is tied to the code by running both on the same call histories",
    "Lean `Float`/`Float32` arithmetic, `sin`, `cos`, `round` and Rust f64/f32 are the same IEEE-754 / libm operations on this machine "
    "(checked on every run: the raw comparison includes bit patterns of fft() outputs)",
    "IEEE rounding error of the operation sequence stays below 0.5 inside the envelope max^2*min(len) <= 1e12 (f64) / 1e3 (f32): TESTED "
    "(differentially, at the envelope boundary), NOT proved",
    "harness built with overflow-checks=true",
    "views computed by independent oracles INSIDE the harness (not by the Lean model): `oracle=` (i128 schoolbook convolution; for `fx` "
    "exact arithmetic in Z[i][x]/(x^n-1)), `add=` (destination + output of the non-accumulating sibling on a brand-new object), "
    "`peq=` (== / != of Complex<F> against the component-wise float comparison); the Lean side prints the proved specification",
    "`fft_into_adds` needs `x + (ZERO + y) = x + y`: true in exact arithmetic (proved for the exact instance), in IEEE arithmetic false only "
    "for x = y = -0.0; destinations are built from i32 values and are never -0.0 (TESTED by the `add=ok` view, bit for bit)",
    "the debug-profile run uses a reduced case stream (the unoptimised build is ~10 times slower and the Lean model answers the stream "
    "a second time); it is there for debug_assert! / cfg(debug_assertions) code in rlib_fft - overflow checks are on in both profiles; "
    "calls that violate a precondition fft.rs states as debug_assert! (fft_into with |v| > n, fft_inv_into of an empty or non-power-of-two "
    "spectrum) are made in neither profile (`valid`); the Lean model has no profile: it is the specification both builds must meet",
    "aliasing of the OPERANDS with each other is exercised (`al<o>`); aliasing of an operand with the destination of a *_into call is "
    "ruled out by the borrow checker (`&[i32]` / `&mut [i64]`, different element types) and is not a case",
    "the envelope rule for spectral expressions (`SExpr.weight`) is the engine's reading of the property for expressions with more than "
    "one product: conservative (sums add, every product charged max^2*min), a single product is the literal envelope",
]
MANIFEST = {
    "level": "proof (partial)",
    "text": ("Lean 4 theorems over a model of FFT<F> that is polymorphic in the arithmetic (a record of the operations complex.rs performs, "
             "no laws). Level A, for EVERY arithmetic, hence bit for bit for f32/f64: update_n refines the doubling recursion (canonical "
             "tables, `tables_canonical`), a grown table read with fft_internal's stride/shift is the table of the smaller size "
             "(`stride_w`, `stride_rev`), fft_internal gives the same buffer on objects with any two histories (`fft_internal_table_indep`), "
             "every public call returns on a used object exactly what it returns on a brand-new one for ALL call histories incl. panicking "
             "calls (`call_history_independent`, `multiply_history_independent`, fft / fft_inv / forward-pointwise-inverse variants), "
             "multiply has length |a|+|b|-1 or is empty, multiply_into ADDS the product on the common prefix (`multiply_into_adds`), "
             "also through the block recursion for unbalanced operands (`multiply_into_blocks`: operands ordered by length, blocks of "
             "the shorter operand's length multiplied by recursive calls into res[offset..], early break; what it adds does not "
             "depend on the destination, `multiply_into_value_independent_of_destination`; termination of the recursion is proved). "
             "Level B, exact complex arithmetic (Mathlib ℂ, tw = e^{i*pi*i/cur}): the twiddle table is the roots of unity, fft_internal is "
             "the DFT / inverse DFT (iterative Cooley-Tukey over the bit-reversal table, `fft_internal_is_dft`), multiply returns and "
             "multiply_into adds exactly the integer convolution sum_{s+t=u} a_s b_t for all lengths and signs (`multiply_exact`, "
             "`multiply_into_exact`; packing a+ib, conjugate-symmetry unpacking, half-size inverse; the block recursion by additivity of "
             "the convolution in the long operand, `conv_block_additive`, `conv_comm`, `multiply_blocks_exact`), forward-pointwise-inverse = multiply "
             "(`fft_mul_inv_eq_multiply`). Wave 3: Level A - fft_inv_into adds what fft_inv returns at EVERY size incl. the one-bin branch "
             "(`fft_inv_into_adds`), fft_into adds what fft returns (`fft_into_adds`), fft(v, 0) is fft(v, ceil-pow2) (`fft_autosize`), every "
             "object of a pool of live objects used interleaved with clone / clone_from / default / new / mem::take between them answers "
             "like a brand-new one (`pool_objects_independent`), any expression over the operators of Complex<F> applied to spectra is "
             "history independent (`spectral_history_independent`); Level B - such an expression followed by fft_inv_into adds exactly the "
             "integer sequence the same expression denotes in Z[i][x]/(x^n-1) (`spectral_exact`: cyclic convolution theorem "
             "`dft_cyc_conv`, conjugation = index reversal, unit-monomial division = shift, linearity). "
             "The hand-written model is tied to rlib_fft by a differential run on every check, against the release AND the debug build of the crate."),
    "note": ("PARTIAL: NOT proved, only TESTED differentially on every run: that the IEEE-754 rounding error of this operation sequence "
             "(binary64 / binary32, libm sin/cos) stays below 0.5 inside the envelope, i.e. that the float instance rounds to the value the "
             "exact instance is proved to have. Tested at the envelope boundary max^2*min(len) = 1e12 (f64) / 1e3 (f32) with 8 coefficient "
             "patterns, all length pairs <= 40, lengths around every power of two up to 2^12 (quick) / 2^17 (thorough), and very unbalanced "
             "lengths (1 x 4096 ... 16 x 8192 quick, up to 1 x 65536 thorough): that is the property's LITERAL envelope. Finding F11 (multiply off by one for very unbalanced operands inside the literal "
             "envelope, e.g. f64 [1000000] x 4096-term ramp, [707106,707106] x 8192 copies of 707106; f32 [31] x 8192-term ramp) is "
             "REPAIRED in rlib (multiply_into splits the longer operand into blocks of the shorter one's length); its inputs are replayed "
             "from corpus/C04.txt and must be exact; there is no known finding left for C04. Fixed finding F9 (fft_inv on a fresh "
             "object, /repo 3d98b12) is replayed from corpus/C04.txt. "
             "Trusted: Lean kernel, axioms propext/Classical.choice/Quot.sound, Mathlib, the hand-written model (checked against the code "
             "on the generated histories, raw comparison includes bit patterns of fft() outputs), Lean Float/Float32 = IEEE, harness, driver."),
    "technique": "Lean 4 proof of a hand-written model polymorphic in the arithmetic (all arithmetics + exact ℂ) + differential correspondence check against the Rust crate; rounding residue tested, not proved",
    "design_ref": "DESIGN.md §6 C04",
}


BOUNDS = {"f64": 10**12, "f32": 10**3}


def harness_args(params, profile):
    """the generator reduces its stream for the unoptimised build (`--profile debug`: same families, fewer large sizes);
    `run` ignores the argument"""
    return ["--profile", profile]


def _table(src, name):
    m = re.search(name + r".*?= \[(.*?)\n\];", src, re.S)
    if not m:
        return None
    rows = []
    for line in m.group(1).split("\n"):
        line = line.split("*/")[-1] if "/*" in line else line
        if "[" not in line:
            continue
        rows.append([float(x) for x in re.findall(r"[-+]?\d+\.?\d*(?:e\d+)?", line.split("[", 1)[1])])
    return rows


def extract(repo):
    """Genuine parameters only: the published precision tables of precision.rs, from which the distance between the
    generated sub-envelope max^2*max(len) <= bound and the table is computed (side condition: the envelope must lie inside
    the table). Structural facts of fft.rs are NOT anchored textually (the correspondence run and corpus/C04.txt cover them)."""
    params, problems = {}, []
    try:
        ps = open(os.path.join(repo, "rlib", "fft", "src", "precision.rs")).read()
    except OSError as e:
        return {}, [f"cannot read precision.rs: {e}"]
    mv = re.search(r"VALS_TO_CHECK: \[i32; \d+\] = \[(.*?)\];", ps, re.S)
    vals = [int(x) for x in re.findall(r"\d+", mv.group(1))] if mv else None
    if not vals:
        return {}, ["precision.rs: VALS_TO_CHECK not found"]
    for prec, name in (("f64", "CORRECT_F64_BOUNDS"), ("f32", "CORRECT_F32_BOUNDS")):
        rows = _table(ps, name)
        if not rows or len(rows) != len(vals) or any(len(r) != len(vals) for r in rows):
            problems.append(f"precision.rs: table {name} not found or not {len(vals)}x{len(vals)}")
            continue
        # smallest max(A,B)^2 * L over the non-zero entries: every (max, L) with max^2*L below it lies under the table
        # (entries equal to the largest L of the table are the cap of the authors' experiment, "at least", and are skipped;
        #  the generators stay below that L)
        cap = max(max(r) for r in rows)
        params[f"{prec}_table_cap_len"] = cap
        ratios = [max(vals[i], vals[j]) ** 2 * rows[i][j] / BOUNDS[prec]
                  for i in range(len(vals)) for j in range(len(vals)) if 0 < rows[i][j] < cap] or [float("inf")]
        params[f"{prec}_bound"] = BOUNDS[prec]
        params[f"{prec}_table_margin_min"] = round(min(ratios), 2)
        if min(ratios) < 10:
            problems.append(f"the {prec} envelope bound {BOUNDS[prec]} is less than 10x inside {name} (margin {min(ratios)})")
    return params, problems


def _vec_len(tok):
    return 0 if tok in ("-", "") else tok.count(",") + 1


_blocks = {"cases": 0, "ratio>=1000": 0, "max_ratio": 0}


def _last_tokens(case):
    """tokens of the measured (last) step without its `@k` object prefix"""
    last = case.rsplit(";", 1)[-1].split()
    if last and last[0].startswith("@"):
        last = last[1:]
    if last and re.fullmatch(r"al-?\d+", last[0]):      # aliased operands: a flag for the harness only
        last = last[1:]
    return last


def nontrivial(case, rec):
    last = _last_tokens(case)
    if not last:
        return False
    if last[0] in ("u", "cl", "cf", "df", "nw", "tk"):
        return False
    if last[0] == "fx":
        return sum(0 if t == "-" else t.count(",") + 1 for t in last[4:]) >= 3
    if last[0] in ("m", "mi") and len(last) >= 3:
        # (also counts, per run, the measured calls that take the block loop of multiply_into; reported by extra())
        la, lb = _vec_len(last[1]), _vec_len(last[2])
        if la and lb and max(la, lb) > 2 * min(la, lb):
            _blocks["cases"] += 1
            r = max(la, lb) // min(la, lb)
            _blocks["max_ratio"] = max(_blocks["max_ratio"], r)
            if r >= 1000:
                _blocks["ratio>=1000"] += 1
    n = sum(0 if t == "-" else t.count(",") + 1 for t in last[1:3])
    return n >= 3


DIAG_OPS = ("f", "fi", "inv", "ii")


def extra(ctx):
    """(1) evidence: how many distinct measured multiply / multiply_into calls took the block loop (unbalanced operands);
    (2) diagnostic, never a verdict: bit patterns
    of fft()/fft_into() outputs, fft_inv of arbitrary complex input and out-of-envelope products, implementation against the
    Lean IEEE model (C04_DIAG=1 makes both sides print full digests)."""
    import subprocess
    cov = ctx["coverage"]
    cov["unbalanced_block_loop_cases"] = dict(_blocks)
    diag = {"cases": 0, "agree": 0, "differ": 0, "first_difference": None}
    for pipe in ctx["pipes"]:
        cases_path = os.path.join(ctx["workdir"], f"cases.{pipe.profile}")
        if not os.path.exists(cases_path):
            continue
        sel = []
        with open(cases_path) as f:
            for line in f:
                last = _last_tokens(line)
                if last and (last[0] in DIAG_OPS or "outside" in line[:0]) and len(line) < 200000:
                    sel.append(line)
        # out-of-envelope products: recognised by the model's spec being `fresh=same` only -> cheap proxy: take the tail stream
        sub = os.path.join(ctx["workdir"], "diag.cases")
        with open(sub, "w") as f:
            f.writelines(sel[:4000])
        env = dict(os.environ, C04_DIAG="1")
        try:
            with open(sub) as fi:
                ri = subprocess.run([pipe.bin, "run"], stdin=fi, capture_output=True, text=True, env=env, timeout=1800)
            with open(sub) as fi:
                rm = subprocess.run([pipe.drv], stdin=fi, capture_output=True, text=True, env=env, timeout=1800)
        except Exception as e:  # diagnostics must never decide anything
            diag["error"] = str(e)[:200]
            break
        for c, il, ml in zip(sel, ri.stdout.split("\n"), rm.stdout.split("\n")):
            diag["cases"] += 1
            iraw = il[2:].rsplit(" | V ", 1)[0] if il.startswith("I ") else None
            mraw = ml[2:].split(" | V ", 1)[0] if ml.startswith("M ") else None
            if iraw is not None and iraw == mraw:
                diag["agree"] += 1
            else:
                diag["differ"] += 1
                if diag["first_difference"] is None:
                    diag["first_difference"] = {"case": c[:300], "impl": il[:200], "model": ml[:200]}
    cov["diagnostic_float_bits_impl_vs_lean_model"] = diag
    return []
