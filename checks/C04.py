"""C04 — FFT multiplication exact inside the precision envelope, independent of the object's history (engine `fft`)."""
import os
import re

ID = "C04"
ENGINE = "fft"
CRATE = "e_fft"
DRIVER = "drv_fft"
DRIVER_MODULE = "Driver.Fft"
PROPS = "RlibModel.Props.C04"
PROFILES = ["release"]
SHRINK_SEP = ";"
RULE = ("a case is a call history on ONE FFT object (`fft <f64|f32> ; op ; … ; op`, ops: update_n, multiply, multiply_into with a "
        "pre-filled destination, fft, fft_into, fft_inv, fft_inv_into, fft+pointwise product+fft_inv on the same object (`fm`) and with "
        "the inverse on a brand-new object (`fmx`)); the answer is the result of the LAST call, compared (i) as rounded i64 vector with "
        "the exact integer convolution (Lean `conv` = spec, and independently an i128 schoolbook oracle in the harness), (ii) with the "
        "same call on a brand-new object, bit for bit (`fresh=same`), (iii) raw, incl. the bit patterns of fft()/fft_into() outputs, with "
        "the Lean model executed on IEEE binary64 / binary32. Generators: every length pair 1..=40 x 1..=40; lengths 2^k-1, 2^k, 2^k+1 "
        "against 1,2,3,33 and against each other and every split with |a|+|b|-1 in {2^k-1..2^k+2}, k <= 12 (quick) / 17 (thorough); "
        "random structured lengths; coefficient patterns mixed-sign / all +max / all -max / alternating / sparse / non-negative / "
        "ends / ramp scaled to the envelope max^2*min(len) = 1e12 (f64) resp. 1e3 (f32, >= 100x inside CORRECT_F32_BOUNDS); histories "
        "fresh / larger / smaller / same / interleaved; destinations shorter, equal, longer than |a|+|b|-1 and non-zero. "
        "non-trivial = distinct in-domain case whose last call transforms at least 4 points")
ASSUMPTIONS = [
    "the Lean model of rlib_fft is hand-written; it is tied to the code by running both on the same call histories",
    "Lean `Float`/`Float32` arithmetic, `sin`, `cos`, `round` and Rust f64/f32 are the same IEEE-754 / libm operations on this machine "
    "(checked on every run: the raw comparison includes bit patterns of fft() outputs)",
    "IEEE rounding error of the operation sequence stays below 0.5 inside the envelope max^2*min(len) <= 1e12 (f64) / 1e3 (f32): TESTED "
    "(differentially, at the envelope boundary), NOT proved",
    "harness built with overflow-checks=true",
]
MANIFEST = {
    "level": "proof",
    "text": "filled in below",
    "note": "filled in below",
    "technique": "Lean 4 proof of a hand-written model polymorphic in the arithmetic + differential correspondence check against the Rust crate",
    "design_ref": "DESIGN.md §6 C04",
}


def _src(repo):
    return open(os.path.join(repo, "rlib", "fft", "src", "fft.rs")).read()


def extract(repo):
    """Constants and structural facts the model hard-wires; every miss is a broken correspondence."""
    params, problems = {}, []
    try:
        src = _src(repo)
    except OSError as e:
        return {}, [f"cannot read fft.rs: {e}"]

    def need(name, rx, flags=re.S):
        m = re.search(rx, src, flags)
        if not m:
            problems.append(f"fft.rs: anchor `{name}` not found (model hard-wires it)")
            return None
        params[name] = m.group(1) if m.groups() else True
        return m

    need("new_initial_tables", r"w:\s*vec!\[Complex::ONE,\s*Complex::ONE\],\s*reversed:\s*vec!\[0\],")
    m = need("new_update_n", r"pub fn new\(\) -> Self \{.*?res\.update_n\((\d+)\);\s*res\s*\}")
    if m and m.group(1) != "4":
        problems.append(f"FFT::new calls update_n({m.group(1)}), the model is written for 4")
    need("update_n_assert", r"pub fn update_n\(&mut self, n: usize\) \{\s*assert_eq!\(n & \(n - 1\), 0\);")
    need("update_n_last_one", r"\*self\.w\.last_mut\(\)\.unwrap\(\) = Complex::ONE;")
    need("fft_internal_update_first", r"fn fft_internal<const B: usize>\(&mut self, from: usize, n: usize, inv: bool\) \{\s*self\.update_n\(n\);")
    need("fft_inv_into_update_first", r"pub fn fft_inv_into\(.*?return;\s*\}\s*(?://[^\n]*\n\s*)*self\.update_n\(n\);\s*let buf")
    need("multiply_into_size_from_2", r"pub fn multiply_into\(.*?let mut n = (2);\s*while n < a\.len\(\) \+ b\.len\(\) - 1 \{\s*n \*= 2;")
    prec = os.path.join(repo, "rlib", "fft", "src", "precision.rs")
    try:
        ps = open(prec).read()
        m = re.search(r"CORRECT_F32_BOUNDS.*?/\*\s*1 \*/\s*\[([^\]]*)\]", ps, re.S)
        if m:
            params["f32_bounds_row_1"] = m.group(1).replace(" ", "")
        else:
            problems.append("precision.rs: CORRECT_F32_BOUNDS not found")
    except OSError as e:
        problems.append(f"cannot read precision.rs: {e}")
    return params, problems


def nontrivial(case, rec):
    last = case.split(";")[-1].split()
    if not last:
        return False
    if last[0] == "u":
        return False
    n = sum(0 if t == "-" else t.count(",") + 1 for t in last[1:3])
    return n >= 3
