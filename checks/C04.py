"""C04 — FFT multiplication exact inside the precision envelope, independent of the object's history (engine `fft`)."""
import os
import re

ID = "C04"
ENGINE = "fft"
CRATE = "e_fft"
DRIVER = "drv_fft"
DRIVER_MODULE = "Driver.Fft"
PROPS = "RlibModel.Props.C04"
PROFILES = ["release"]
SHRINK_SEP = ";"
RULE = ("a case is a call history on ONE FFT object (`fft <f64|f32> ; op ; … ; op`, ops: update_n, multiply, multiply_into with a "
        "pre-filled destination, fft, fft_into, fft_inv, fft_inv_into, fft+pointwise product+fft_inv on the same object (`fm`) and with "
        "the inverse on a brand-new object (`fmx`)); the answer is the result of the LAST call, compared (i) as rounded i64 vector with "
        "the exact integer convolution (Lean `conv` = spec, proved equal to the coefficient formula `convSpec`; independently an i128 "
        "schoolbook oracle in the harness), (ii) with the same call on a brand-new object, bit for bit (`fresh=same`), (iii) raw, incl. "
        "the bit patterns of fft()/fft_into() outputs, with the Lean model executed on IEEE binary64 / binary32. Spec domain = the "
        "property's literal envelope max^2*min(len) <= 1e12 (f64) / 1e3 (f32, >= 100x inside CORRECT_F32_BOUNDS). Generators: every "
        "length pair 1..=40 x 1..=40; lengths 2^k-1, 2^k, 2^k+1 against 1,2,3,33 and against each other and every split with "
        "|a|+|b|-1 in {2^k-1..2^k+2}, k <= 12 (quick) / 17 (thorough); random structured lengths; coefficient patterns mixed-sign / "
        "all +max / all -max / alternating / sparse / non-negative / ends / ramp scaled to max^2*max(len) = bound (the sub-envelope "
        "precision.rs actually tabulates: both operands of length L; at min(len)=max(len) it is the literal envelope); BETWEEN the two "
        "envelopes (very unbalanced lengths) only the two recorded inputs of known finding F10 are generated, every run; histories "
        "fresh / larger / smaller / same / interleaved; destinations shorter, equal, longer than |a|+|b|-1 and non-zero; a small "
        "out-of-domain stream (update_n asserts, coefficients at i32::MAX) where only model = implementation is compared. "
        "non-trivial = distinct in-domain case whose last call carries at least 3 coefficients")
ASSUMPTIONS = [
    "the Lean model of rlib_fft is hand-written; it is tied to the code by running both on the same call histories",
    "Lean `Float`/`Float32` arithmetic, `sin`, `cos`, `round` and Rust f64/f32 are the same IEEE-754 / libm operations on this machine "
    "(checked on every run: the raw comparison includes bit patterns of fft() outputs)",
    "IEEE rounding error of the operation sequence stays below 0.5 inside the envelope max^2*min(len) <= 1e12 (f64) / 1e3 (f32): TESTED "
    "(differentially, at the envelope boundary), NOT proved",
    "harness built with overflow-checks=true",
]
MANIFEST = {
    "level": "proof (partial)",
    "text": ("Lean 4 theorems over a model of FFT<F> that is polymorphic in the arithmetic (a record of the operations complex.rs performs, "
             "no laws). Level A, for EVERY arithmetic, hence bit for bit for f32/f64: update_n refines the doubling recursion (canonical "
             "tables, `tables_canonical`), a grown table read with fft_internal's stride/shift is the table of the smaller size "
             "(`stride_w`, `stride_rev`), fft_internal gives the same buffer on objects with any two histories (`fft_internal_table_indep`), "
             "every public call returns on a used object exactly what it returns on a brand-new one for ALL call histories incl. panicking "
             "calls (`call_history_independent`, `multiply_history_independent`, fft / fft_inv / forward-pointwise-inverse variants), "
             "multiply has length |a|+|b|-1 or is empty, multiply_into ADDS the product on the common prefix (`multiply_into_adds`). "
             "Level B, exact complex arithmetic (Mathlib ℂ, tw = e^{i*pi*i/cur}): the twiddle table is the roots of unity, fft_internal is "
             "the DFT / inverse DFT (iterative Cooley-Tukey over the bit-reversal table, `fft_internal_is_dft`), multiply returns and "
             "multiply_into adds exactly the integer convolution sum_{s+t=u} a_s b_t for all lengths and signs (`multiply_exact`, "
             "`multiply_into_exact`; packing a+ib, conjugate-symmetry unpacking, half-size inverse), forward-pointwise-inverse = multiply "
             "(`fft_mul_inv_eq_multiply`). The hand-written model is tied to rlib_fft by a differential run on every check."),
    "note": ("PARTIAL: NOT proved, only TESTED differentially on every run: that the IEEE-754 rounding error of this operation sequence "
             "(binary64 / binary32, libm sin/cos) stays below 0.5 inside the envelope, i.e. that the float instance rounds to the value the "
             "exact instance is proved to have. Tested at the envelope boundary max^2*max(len) = 1e12 (f64) / 1e3 (f32) with 8 coefficient "
             "patterns, all length pairs <= 40, lengths around every power of two up to 2^12 (quick) / 2^17 (thorough). Unbalanced operands "
             "BETWEEN max^2*max(len) and the property's literal max^2*min(len) bound are covered only by the two recorded inputs of known "
             "finding F10 (a=[1000000] x 4096-term ramp in f64, a=[31] x 8192-term ramp in f32), where the real code is off by one: the "
             "literal envelope over-claims there. Fixed finding F9 (fft_inv on a fresh object, /repo 3d98b12) is replayed from corpus/C04.txt. "
             "Trusted: Lean kernel, axioms propext/Classical.choice/Quot.sound, Mathlib, the hand-written model (checked against the code "
             "on the generated histories, raw comparison includes bit patterns of fft() outputs), Lean Float/Float32 = IEEE, harness, driver."),
    "technique": "Lean 4 proof of a hand-written model polymorphic in the arithmetic (all arithmetics + exact ℂ) + differential correspondence check against the Rust crate; rounding residue tested, not proved",
    "design_ref": "DESIGN.md §6 C04",
}


def _src(repo):
    return open(os.path.join(repo, "rlib", "fft", "src", "fft.rs")).read()


def extract(repo):
    """Constants and structural facts the model hard-wires; every miss is a broken correspondence."""
    params, problems = {}, []
    try:
        src = _src(repo)
    except OSError as e:
        return {}, [f"cannot read fft.rs: {e}"]

    def need(name, rx, flags=re.S):
        m = re.search(rx, src, flags)
        if not m:
            problems.append(f"fft.rs: anchor `{name}` not found (model hard-wires it)")
            return None
        params[name] = m.group(1) if m.groups() else True
        return m

    need("new_initial_tables", r"w:\s*vec!\[Complex::ONE,\s*Complex::ONE\],\s*reversed:\s*vec!\[0\],")
    m = need("new_update_n", r"pub fn new\(\) -> Self \{.*?res\.update_n\((\d+)\);\s*res\s*\}")
    if m and m.group(1) != "4":
        problems.append(f"FFT::new calls update_n({m.group(1)}), the model is written for 4")
    need("update_n_assert", r"pub fn update_n\(&mut self, n: usize\) \{\s*assert_eq!\(n & \(n - 1\), 0\);")
    need("update_n_last_one", r"\*self\.w\.last_mut\(\)\.unwrap\(\) = Complex::ONE;")
    need("fft_internal_update_first", r"fn fft_internal<const B: usize>\(&mut self, from: usize, n: usize, inv: bool\) \{\s*self\.update_n\(n\);")
    need("fft_inv_into_update_first", r"pub fn fft_inv_into\(.*?return;\s*\}\s*(?://[^\n]*\n\s*)*self\.update_n\(n\);\s*let buf")
    need("multiply_into_size_from_2", r"pub fn multiply_into\(.*?let mut n = (2);\s*while n < a\.len\(\) \+ b\.len\(\) - 1 \{\s*n \*= 2;")
    prec = os.path.join(repo, "rlib", "fft", "src", "precision.rs")
    try:
        ps = open(prec).read()
        m = re.search(r"CORRECT_F32_BOUNDS.*?/\*\s*1 \*/\s*\[([^\]]*)\]", ps, re.S)
        if m:
            params["f32_bounds_row_1"] = m.group(1).replace(" ", "")
        else:
            problems.append("precision.rs: CORRECT_F32_BOUNDS not found")
    except OSError as e:
        problems.append(f"cannot read precision.rs: {e}")
    return params, problems


def nontrivial(case, rec):
    last = case.split(";")[-1].split()
    if not last:
        return False
    if last[0] == "u":
        return False
    n = sum(0 if t == "-" else t.count(",") + 1 for t in last[1:3])
    return n >= 3
