"""C15 — combinatorial iterators: submasks, supermasks, next_permutation, iter_permutations, grid neighbours (engine `iter`)."""
ID = "C15"
ENGINE = "iter"
CRATE = "e_iter"
DRIVER = "drv_iter"
DRIVER_MODULE = "Driver.Iter"
PROPS = "RlibModel.Props.C15"
PROFILES = ["release", "debug"]     # debug: debug assertions on, no optimisation; a reduced stream of the same families (harness_args)
SHRINK_SEP = ";"
RULE = ("cases: every mask of u8/i8 for iter_submasks and iter_supermasks; u16/i16 exhaustively in the thorough tier (quick: every mask with "
        "<= 6 free bits + a seeded 1/16 sample of the rest); the 8 wider types with <= 12 free bits (contiguous / top-bit / boundary-anchored / random patterns, "
        "plus 0, 1, MIN, MAX, all-ones); next_permutation on every sequence over {0,1,2} of length <= 7, every permutation of <= 8 "
        "(quick: 7) distinct elements, random multisets incl. i64::MIN/MAX, sequences built so that the pivot value occurs again in the suffix, and walks of 1000 (thorough 5000) "
        "successive steps from a few hundred (thorough 1000) start points of 8 distinct elements / 8-element multisets; LONG sequences (10..40 elements, 2..5 distinct values): "
        "systematically every tail length 1..39 x 0..3 copies of the pivot value in the non-increasing tail x 1..3 values above it, random words with a sorted-descending tail "
        "of random length, first / last arrangement, and walks of 400 (thorough 1000) steps over long multisets; iter_permutations on every multiset over {0,1,2} of length <= 7, "
        "0..8 distinct elements (unsorted input), random multisets, and sequences of 10..40 elements with few arrangements (one majority value and 1..3 others, <= 3000 "
        "arrangements, thorough 20000); the three neighbour iterators on every grid <= 6x6 (0xk, kx0, 1x1 "
        "included) at every cell and at the cells just outside, plus large grids (< 2^62) at border cells. Collected outputs are compared "
        "(long ones by length, first, last and a 64-bit digest; on an oracle mismatch the harness view names the first differing position and the elements around it). "
        "SCRIPTS `it <iterator> ; op ; op ...` on ONE iterator value of each of the six iterators (every u8/i8 mask x both mask iterators x 3 scripts, the wider types with <= 10 free bits, "
        "every multiset over {0,1,2} up to length 5 and random / long multisets for iter_permutations, small and large grids): 0..4 calls by &mut self (next, size_hint, nth, "
        "by_ref().take(k), find, position, any, all) followed by one call by value (count, last, fold, for_each, collect, reduce, min, max, min_by_key, max_by_key, min_by, max_by "
        "with keys that tie, sum, product) - i.e. every provided Iterator method an iterator type can override, also after partial consumption; size_hint must bracket the "
        "true number of items still to come; other live iterators of the crate are created before and after the one under test and stepped between its ops (they must equal their own "
        "fresh runs). A case whose call never returns ends the harness after 20 s (watchdog) and is reported as a violation with that input. Every iter_permutations output is fed "
        "back item by item into next_permutation; next_permutation / iter_permutations also run on records ordered by a key with a distinguishing tag (the records handed back must be "
        "the ones given). A second, reduced stream of all families runs against a debug build of the library (debug assertions on). non-trivial = distinct in-domain case whose collected "
        "output has more than one element (masks, permutations), resp. a sequence of length >= 2 (next_permutation), resp. a non-empty grid (neighbours), resp. a script with at least one op")
ASSUMPTIONS = [
    "the Lean model of rlib_iter is hand-written; it is tied to the code by running both on the same cases",
    "sequence elements are modelled as mathematical integers (the harness uses i64); next_permutation only uses `<`/`>` of `Ord` "
    "(the harness also steps every sequence as Vec<Reverse<i128>> and as a struct ordered by a string key and reports a difference)",
    "neighbour iterators: n, m, i, j < 2^63 - 1 (no isize overflow in `i + x`)",
    "scripts: the functions return `impl Iterator`, so only `Iterator`'s own methods are reachable (no DoubleEndedIterator / ExactSizeIterator / Clone); "
    "nothing is called on an iterator after it has returned None once (std leaves that unspecified; PermutationIter is not fused)",
    "scripts: `size_hint` is judged by the harness (lower <= items still to come <= upper, the count taken from the harness' own brute-force enumeration); the model prints `hint=ok`",
    "scripts: the model side runs std's default method bodies (written in Lean as loops over next), the spec side what the methods mean on the sequence still to come; "
    "proved equal (provided_methods_spec); the harness additionally evaluates every op on its own brute-force sequence",
    "sequences longer than 64, iter_permutations outputs longer than 100000 arrangements (scripts: 50000; masks in scripts: 2^16; min/max family: 1024 items) are refused by both sides",
]
TRUSTED_EXTRA = ["64-bit digest (FNV-style, written twice: Lean driver and Rust harness) used to compare collected outputs longer than 32 masks / 24 arrangements",
                 "the reading of std's default bodies of the provided Iterator methods (library/core/src/iter/traits/iterator.rs) as the Lean loops `std…` of Model/IterProto.lean",
                 "the harness watchdog (a case without an answer for 20 s ends the process; `check` reports the first unanswered case)"]
MANIFEST = {
    "level": "proof",
    "text": ("Lean 4 theorems about the modelled iterators, for every width and every mask: iter_submasks yields exactly the submasks of x, once each, "
             "in decreasing order ending with 0 (iterSubmasks = filter over [x..0]); iter_supermasks dually, ending with all-ones; next_permutation "
             "(modelled index by index as in the Rust loop, proved panic-free and equal to a structural formulation) returns the lexicographic "
             "successor among all arrangements with duplicates allowed, and false exactly on non-increasing input, leaving the sorted arrangement; "
             "iter_permutations is a strictly increasing chain from the sorted to the non-increasing arrangement containing every arrangement "
             "exactly once (enough fuel proved); the neighbour iterators equal the offset lists filtered by the grid bounds, with a distance "
             "characterisation of membership. The provided Iterator methods (nth, take, find, position, any, all, count, last, fold, reduce, min/max and the "
             "by-key forms with ties, checked sum/product), modelled as std's loops over next, equal their meaning on the sequence still to come, so every way of "
             "consuming the iterators - also after partial consumption - is fixed by the enumeration theorems; a direct enumeration of the distinct arrangements of a "
             "multiset equals the by-definition one (used for long sequences with few arrangements). The model is tied to rlib_iter by a differential correspondence run on every check."),
    "note": ("Trusted: Lean kernel, axioms propext/Classical.choice/Quot.sound, the hand-written model (checked against the code only on the generated "
             "cases), harness and driver plumbing incl. the digest used for long outputs. Element type of sequences is Int in the model."),
    "technique": "Lean 4 proof of a hand-written model + differential correspondence check against the Rust crate",
    "design_ref": "DESIGN.md §6 C15",
}


def harness_args(params, profile):
    """`--profile debug`: the generator emits the same streams at a reduced size (quick: the `light` sizes; thorough: the quick sizes)."""
    return ["--profile", profile]


def nontrivial(case, rec):
    toks = case.split()
    op = toks[0].split(":")[0]
    try:
        if op == "it":
            return any(seg.strip() for seg in case.split(";")[1:])
        if op in ("sub", "sup"):
            return "," in rec["model"][2] or rec["model"][2].startswith("n=")
        if op == "np":
            return toks[1].count(",") >= 1
        if op == "perms":
            return rec["model"][2].startswith("n=") or rec["model"][2].count("],[") >= 1
        if op in ("n4", "n4d", "n8"):
            return int(toks[1]) > 0 and int(toks[2]) > 0
    except (ValueError, IndexError, TypeError):
        return True
    return True
