"""C15 — combinatorial iterators: submasks, supermasks, next_permutation, iter_permutations, grid neighbours (engine `iter`)."""
ID = "C15"
ENGINE = "iter"
CRATE = "e_iter"
DRIVER = "drv_iter"
DRIVER_MODULE = "Driver.Iter"
PROPS = "RlibModel.Props.C15"
PROFILES = ["release"]
SHRINK_SEP = None
RULE = ("cases: every mask of u8/i8 for iter_submasks and iter_supermasks; u16/i16 exhaustively in the thorough tier (quick: every mask with "
        "<= 6 free bits + a seeded 1/16 sample of the rest); the 8 wider types with <= 12 free bits (contiguous / top-bit / boundary-anchored / random patterns, "
        "plus 0, 1, MIN, MAX, all-ones); next_permutation on every sequence over {0,1,2} of length <= 7, every permutation of <= 8 "
        "(quick: 7) distinct elements, random multisets incl. i64::MIN/MAX, sequences built so that the pivot value occurs again in the suffix, and walks of 1000 (thorough 5000) "
        "successive steps from a few hundred (thorough 1000) start points of 8 distinct elements / 8-element multisets; iter_permutations on every multiset over {0,1,2} of length <= 7, "
        "0..8 distinct elements (unsorted input), random multisets; the three neighbour iterators on every grid <= 6x6 (0xk, kx0, 1x1 "
        "included) at every cell and at the cells just outside, plus large grids (< 2^62) at border cells. Collected outputs are compared "
        "(long ones by length, first, last and a 64-bit digest; on an oracle mismatch the harness view names the first differing position and the elements around it). non-trivial = distinct in-domain case whose collected output has more "
        "than one element (masks, permutations), resp. a sequence of length >= 2 (next_permutation), resp. a non-empty grid (neighbours)")
ASSUMPTIONS = [
    "the Lean model of rlib_iter is hand-written; it is tied to the code by running both on the same cases",
    "sequence elements are modelled as mathematical integers (the harness uses i64); next_permutation only uses `<`/`>` of `Ord` "
    "(the harness also steps every sequence as Vec<Reverse<i128>> and as a struct ordered by a string key and reports a difference)",
    "neighbour iterators: n, m, i, j < 2^63 - 1 (no isize overflow in `i + x`)",
]
TRUSTED_EXTRA = ["64-bit digest (FNV-style, written twice: Lean driver and Rust harness) used to compare collected outputs longer than 32 masks / 24 arrangements"]
MANIFEST = {
    "level": "proof",
    "text": ("Lean 4 theorems about the modelled iterators, for every width and every mask: iter_submasks yields exactly the submasks of x, once each, "
             "in decreasing order ending with 0 (iterSubmasks = filter over [x..0]); iter_supermasks dually, ending with all-ones; next_permutation "
             "(modelled index by index as in the Rust loop, proved panic-free and equal to a structural formulation) returns the lexicographic "
             "successor among all arrangements with duplicates allowed, and false exactly on non-increasing input, leaving the sorted arrangement; "
             "iter_permutations is a strictly increasing chain from the sorted to the non-increasing arrangement containing every arrangement "
             "exactly once (enough fuel proved); the neighbour iterators equal the offset lists filtered by the grid bounds, with a distance "
             "characterisation of membership. The model is tied to rlib_iter by a differential correspondence run on every check."),
    "note": ("Trusted: Lean kernel, axioms propext/Classical.choice/Quot.sound, the hand-written model (checked against the code only on the generated "
             "cases), harness and driver plumbing incl. the digest used for long outputs. Element type of sequences is Int in the model."),
    "technique": "Lean 4 proof of a hand-written model + differential correspondence check against the Rust crate",
    "design_ref": "DESIGN.md §6 C15",
}


def nontrivial(case, rec):
    toks = case.split()
    op = toks[0].split(":")[0]
    try:
        if op in ("sub", "sup"):
            return "," in rec["model"][2] or rec["model"][2].startswith("n=")
        if op == "np":
            return toks[1].count(",") >= 1
        if op == "perms":
            return rec["model"][2].startswith("n=") or rec["model"][2].count("],[") >= 1
        if op in ("n4", "n4d", "n8"):
            return int(toks[1]) > 0 and int(toks[2]) > 0
    except (ValueError, IndexError, TypeError):
        return True
    return True
