"""C05 — DSU tracks connectivity and sizes and stays log-depth (engine `dsu`)."""
import os
import re

ID = "C05"
ENGINE = "dsu"
CRATE = "e_dsu"
DRIVER = "drv_dsu"
DRIVER_MODULE = "Driver.Dsu"
PROPS = "RlibModel.Props.C05"
PROFILES = ["release"]
SHRINK_SEP = ";"
RULE = ("cases are histories `n0 ; op ; ...` over un/par/check/size/reset/clone/swap/dump: (1) every union-only history (all orders and "
        "orientations) for small n and depth (quick: n=3 to depth 4, n=4 to 3, n=5 to 2, a 1/97 sample of n=5 depth 5; thorough: n=3 to 6, "
        "n=4 to 5, n=5 to 4, n=6 to 3, 1/7 sample of n=5 depth 5), each followed by a dump (depth measured BEFORE any lookup), check of every pair, size and par of every element and two more "
        "dumps; (2) every in-range history over the whole op alphabet incl. resets growing/shrinking, clone, swap (n=2,3, depth 3; thorough depth 4; histories that index beyond the current size are skipped there, the observation suffix uses the final size); "
        "(3) random histories n<=12 up to 200 ops (1.5k / 30k); (4) adversarial orders (binomial worst case on block ends, chains and stars in "
        "both argument orders, random, joined halves, with resets and clones) for every n in 2..40 and around powers of two up to 1024 "
        "(thorough: up to 10^5, then 10^6 and 2^20); (5) randmix (un/par/size/check interleaved on random elements) at every adversarial size; (6) a small out-of-range stream: the out-of-range op ends the history, its view/spec token is `ood`, everything before it is still compared. Compared: every return value; par through the "
        "representative rule; the parent forest read from format!(\"{:?}\", dsu.clone()) -> depth(v) <= log2(size of its root) for every v, "
        "and p/sz arrays against the model's. non-trivial = distinct in-domain history containing at least one union")
ASSUMPTIONS = [
    "the Lean model of rlib_dsu is hand-written; it is tied to the code by running both on the same histories",
    "macro ops (chain/binom/star/rand/parall/...) are expanded to the same primitive calls by the harness and by the driver",
    "real stack size and usize overflow of sizes are outside the model (the proved recursion depth is <= log2 n)",
]
MANIFEST = {
    "level": "proof",
    "text": ("Lean 4 theorems about the executable array model of DSU, for every element count and every history of "
             "un/par/check/size/reset/clone/swap: the invariant (parents in range, a rank function increasing along parent links with "
             "2^rank <= size at roots, size at a root = number of vertices below it) is established by new/reset and preserved by every "
             "operation; find terminates within log2 n + 1 frames (the executed model runs every find with exactly that budget), returns the root and keeps every vertex's root; check = equivalence "
             "closure of the unions since the last reset, un returns true iff the classes differed, size = cardinality of the class, the "
             "representative is a member of its class, the same for all members and stable until a union joins two classes; forest depth "
             "<= log2(class size) in the state reached by every valid history (history_depth) and hence in every intermediate state. The hand-written model is tied to rlib_dsu by a differential correspondence run on every check."),
    "note": ("Trusted: Lean kernel, axioms propext/Classical.choice/Quot.sound, the hand-written model (checked against the code on the generated "
             "histories only), harness and driver plumbing. Residue: real stack limit, usize overflow of sizes (unreachable)."),
    "technique": "Lean 4 proof (rank invariant + refinement of the equivalence closure) of a hand-written model + differential correspondence check against the Rust crate",
    "design_ref": "DESIGN.md §6 C05",
}


def nontrivial(case, rec):
    return any(k in case for k in ("un ", "chain", "binom", "star", "rand ", "randmix"))


def extract(repo):
    """The forest depth is read from the derived `Debug` of `DSU { p, sz }`.  If the struct no longer has exactly these two
    fields (or no longer derives Debug/Clone) the harness cannot read the forest: that is a broken correspondence
    (reported as such, `no-failing-input-found` unless the search finds one), never a property verdict."""
    path = os.path.join(repo, "rlib", "dsu", "src", "lib.rs")
    try:
        src = open(path).read()
    except OSError as e:
        return {}, [f"cannot read {path}: {e}"]
    flat = re.sub(r"\s+", " ", src)
    m = re.search(r"#\[derive\(([^)]*)\)\] pub struct DSU \{ p: Vec<usize>, sz: Vec<usize>,? \}", flat)
    params = {"dsu_struct_anchor": bool(m)}
    problems = []
    if not m:
        problems.append("`pub struct DSU { p: Vec<usize>, sz: Vec<usize> }` with a derive no longer matches rlib/dsu/src/lib.rs: "
                        "the harness reads the parent forest from the derived Debug text of exactly these two fields")
    else:
        derives = {d.strip() for d in m.group(1).split(",")}
        params["derives"] = sorted(derives)
        for d in ("Clone", "Debug"):
            if d not in derives:
                problems.append(f"DSU no longer derives {d}")
    return params, problems
