"""C05 — DSU tracks connectivity and sizes and stays log-depth (engine `dsu`)."""
ID = "C05"
ENGINE = "dsu"
CRATE = "e_dsu"
DRIVER = "drv_dsu"
DRIVER_MODULE = "Driver.Dsu"
PROPS = "RlibModel.Props.C05"
PROFILES = ["release"]
SHRINK_SEP = ";"
RULE = ("cases are histories `n0 ; op ; ...` over un/par/check/size/reset/clone/swap/dump: (1) every union-only history (all orders and "
        "orientations) for small n and depth (quick: n=3 to depth 4, n=4 to 3, n=5 to 2, a 1/97 sample of n=5 depth 5; thorough: n=3 to 6, "
        "n=4 to 5, n=5 to 4, n=6 to 3, 1/7 sample of n=5 depth 5), each followed by check of every pair, size and par of every element and two "
        "dumps; (2) every history over the whole op alphabet incl. resets growing/shrinking, clone, swap (n=2,3, depth 3; thorough depth 4); "
        "(3) random histories n<=12 up to 200 ops (1.5k / 30k); (4) adversarial orders (binomial worst case on block ends, chains and stars in "
        "both argument orders, random, joined halves, with resets and clones) for every n in 2..40 and around powers of two up to 1024 "
        "(thorough: up to 10^5, then 10^6 and 2^20); (5) a small out-of-range stream (S any). Compared: every return value; par through the "
        "representative rule; the parent forest read from format!(\"{:?}\", dsu.clone()) -> depth(v) <= log2(size of its root) for every v, "
        "and p/sz arrays against the model's. non-trivial = distinct in-domain history containing at least one union")
ASSUMPTIONS = [
    "the Lean model of rlib_dsu is hand-written; it is tied to the code by running both on the same histories",
    "macro ops (chain/binom/star/rand/parall/...) are expanded to the same primitive calls by the harness and by the driver",
    "real stack size and usize overflow of sizes are outside the model (the proved recursion depth is <= log2 n)",
]
MANIFEST = {
    "level": "proof",
    "text": ("Lean 4 theorems about the executable array model of DSU, for every element count and every history of "
             "un/par/check/size/reset/clone/swap: the invariant (parents in range, a rank function increasing along parent links with "
             "2^rank <= size at roots, size at a root = number of vertices below it) is established by new/reset and preserved by every "
             "operation; find terminates with fuel n (depth <= log2 n), returns the root and keeps every vertex's root; check = equivalence "
             "closure of the unions since the last reset, un returns true iff the classes differed, size = cardinality of the class, the "
             "representative is a member of its class, the same for all members and stable until a union joins two classes; forest depth "
             "<= log2(size). The hand-written model is tied to rlib_dsu by a differential correspondence run on every check."),
    "note": ("Trusted: Lean kernel, axioms propext/Classical.choice/Quot.sound, the hand-written model (checked against the code on the generated "
             "histories only), harness and driver plumbing. Residue: real stack limit, usize overflow of sizes (unreachable)."),
    "technique": "Lean 4 proof (rank invariant + refinement of the equivalence closure) of a hand-written model + differential correspondence check against the Rust crate",
    "design_ref": "DESIGN.md §6 C05",
}


def nontrivial(case, rec):
    return any(k in case for k in ("un ", "chain", "binom", "star", "rand "))
