"""C05 — DSU tracks connectivity and sizes and stays log-depth (engine `dsu`)."""
import os
import re

ID = "C05"
ENGINE = "dsu"
CRATE = "e_dsu"
DRIVER = "drv_dsu"
DRIVER_MODULE = "Driver.Dsu"
PROPS = "RlibModel.Props.C05"
PROPS_SRC = "RlibModel.Props.C05Src"     # second tie: `src_*` theorems about the definitions regenerated from the source text
PROFILES = ["release", "debug"]          # debug: debug assertions on, no optimisation (a reduced stream, see harness_args)
SHRINK_SEP = ";"
RULE = ("cases are histories `n0 ; op ; ...` over un/par/check/size/reset/clone/swap/clonefrom/restore/feed/dump on TWO live structures (current and saved; "
        "`clonefrom` = saved.clone_from(&current), `restore` = current.clone_from(&saved), i.e. Clone::clone_from in both directions onto whatever the "
        "destination is by then: fresh, used, shorter, longer; `feed v` feeds returned values back: r = par v, check v r, size r, par r, un r v): (1) every union-only history (all orders and "
        "orientations) for small n and depth (quick: n=3 to depth 4, n=4 to 3, n=5 to 2, a 1/97 sample of n=5 depth 5; thorough: n=3 to 6, "
        "n=4 to 5, n=5 to 4, n=6 to 3, 1/7 sample of n=5 depth 5), each followed by a dump (depth measured BEFORE any lookup), check of every pair, size and par of every element and two more "
        "dumps; (2) every in-range history over the whole op alphabet incl. resets growing/shrinking, clone, swap (n=2,3, depth 3; thorough depth 4; histories that index beyond the current size are skipped there, the observation suffix uses the final size); "
        "(3) random histories n<=12 up to 200 ops (1.5k / 30k), every third one with the header flag `dk`: three decoy structures of the same type are alive on the "
        "same thread and get two pseudo-random operations (un/check/size/par/reset/drop+new/clone/clone_from among themselves, each checked against its own oracle) before every "
        "operation of the history; (3b) snapshot/roll-back histories (1.2k / 20k): bursts of work on either structure, resets to other sizes, then clone / clonefrom / restore, "
        "the size of every element read after each copy, both copies continued; (4) adversarial orders (binomial worst case on block ends, chains and stars in "
        "both argument orders, random, joined halves, with resets and clones) for every n in 2..40 and around powers of two up to 1024 "
        "(thorough: up to 10^5, then 10^6, 2^20 and 2^21), among them two scripts that roll back / copy onto a used structure with fewer / more elements and go on with both; "
        "(4b) element counts past 10^6: the binomial worst case on 2^21 elements (depth 21; quick: one history, lookups at the deepest vertex first; thorough: 2^21..2^24); (5) randmix (un/par/size/check interleaved on random elements) at every adversarial size; (6) a small out-of-range stream: the out-of-range op ends the history, its view/spec token is `ood`, everything before it is still compared. Compared: every return value; par through the "
        "representative rule; the parent forest recovered from format!(\"{:?}\", dsu.clone()) (any layout with a parent-like and a size-like column) -> "
        "depth(v) <= log2(oracle class size) for every v; the private arrays are NOT compared (logged diagnostic only); `ss` histories "
        "(n = 10^5, thorough 10^6) run in a child process with a 256 KiB stack, a crash there is the view STACK!. non-trivial = distinct in-domain history containing at least one union")
ASSUMPTIONS = [
    "the Lean model of rlib_dsu is hand-written; it is tied to the code by running both on the same histories",
    "macro ops (chain/binom/star/rand/parall/...) are expanded to the same primitive calls by the harness and by the driver",
    "real stack size and usize overflow of sizes are outside the model (the proved recursion depth is <= log2 n)",
    "Clone::clone_from is specified by std's contract for the provided method: a.clone_from(&b) behaves as a = b.clone() (model ops cloneFrom / restore, theorems "
    "cloneFrom_spec / restore_spec); which allocations are reused is not observable and not modelled",
    "the decoy structures of `dk` histories are invisible to the model: the history's answers must be what they are without them; the decoys' own answers are "
    "checked by the harness against an independent quick-find oracle only (view token DECOY! on a mismatch), not against the Lean model",
    "element counts: every n up to 40, around powers of two up to 1024 (thorough 2^16, 10^5, 10^6, 2^20, 2^21 with all adversarial scripts), the binomial order at 2^21 "
    "in quick and up to 2^24 in thorough; a depth bound that only fails beyond depth 24 (2^25 elements or more) is out of reach of the differential run "
    "(the theorems are for every n; the second tie reports a non-recursive find as outside its subset)",
]
MANIFEST = {
    "level": "proof",
    "text": ("Lean 4 theorems about the executable array model of DSU, for every element count and every history of "
             "un/par/check/size/reset/clone/swap/clone_from (both directions between two live structures): the invariant (parents in range, a rank function increasing along parent links with "
             "2^rank <= size at roots, size at a root = number of vertices below it) is established by new/reset and preserved by every "
             "operation; find terminates within log2 n + 1 frames (the executed model runs every find with exactly that budget), returns the root and keeps every vertex's root; check = equivalence "
             "closure of the unions since the last reset, un returns true iff the classes differed, size = cardinality of the class, the "
             "representative is a member of its class, the same for all members and stable until a union joins two classes; forest depth "
             "<= log2(class size) in the state reached by every valid history (history_depth) and hence in every intermediate state. The hand-written model is tied to rlib_dsu by a differential correspondence run on every check."),
    "note": ("Trusted: Lean kernel, axioms propext/Classical.choice/Quot.sound, the hand-written model (checked against the code on the generated "
             "histories only), harness and driver plumbing. Residue: real stack limit, usize overflow of sizes (unreachable)."),
    "technique": "Lean 4 proof (rank invariant + refinement of the equivalence closure) of a hand-written model + differential correspondence check against the Rust crate",
    "design_ref": "DESIGN.md §6 C05",
}


def nontrivial(case, rec):
    return any(k in case for k in ("un ", "chain", "binom", "star", "rand ", "randmix"))


def extract(repo):
    """Informational only: how the structure is laid out in the source.  The harness recovers the parent forest from the
    derived `Debug` text of whatever layout it finds (two vectors, a vector of two-field structs, ...); a layout it cannot
    read is NOT a broken correspondence - depth is then simply not observable without hooks (see `extra`)."""
    path = os.path.join(repo, "rlib", "dsu", "src", "lib.rs")
    try:
        src = open(path).read()
    except OSError as e:
        return {"dsu_source_readable": False, "note": str(e)}, []
    flat = re.sub(r"\s+", " ", src)
    m = re.search(r"#\[derive\(([^)]*)\)\] pub struct DSU \{([^}]*)\}", flat)
    params = {"dsu_source_readable": True}
    if m:
        params["derives"] = sorted(d.strip() for d in m.group(1).split(","))
        params["fields"] = [f.strip() for f in m.group(2).split(",") if f.strip()]
    else:
        params["note"] = "struct DSU with a derive attribute not found by the informational regex"
    return params, []


def _diagnostic(ctx):
    """Logged diagnostic, never a verdict: can the forest be read from the Debug text, and do the private arrays coincide
    with the model's?  (The compared raw column contains return values only; `dump` contributes the depth predicate.)"""
    cov = ctx["coverage"]
    probes = ["4 ; un 0 1 ; un 2 3 ; un 1 3 ; dumpdiag ; par 0 ; dumpdiag",
              "6 ; un 0 1 ; un 2 3 ; un 4 5 ; un 1 3 ; un 3 5 ; dumpdiag ; check 0 5 ; dumpdiag ; reset 3 ; un 2 0 ; dumpdiag"]
    diag = {"probes": []}
    try:
        for pipe in ctx["pipes"][:1]:
            for r in pipe.eval_cases(probes, "forestdiag"):
                diag["probes"].append({"case": r["case"], "impl": (r["impl"] or ("?", "?"))[0][:300], "model": (r["model"] or ("?", "?", "?"))[0][:300]})
        impl_txt = " ".join(p["impl"] for p in diag["probes"])
        diag["forest_readable_from_debug"] = "depth=unknown" not in impl_txt and bool(diag["probes"])
        diag["private_arrays_equal_model"] = all(p["impl"] == p["model"] for p in diag["probes"]) and bool(diag["probes"])
        if not diag["forest_readable_from_debug"]:
            diag["NOTE"] = ("the parent forest could not be recovered from format!(\"{:?}\", dsu.clone()): the depth <= log2(size) predicate of `dump` "
                            "is not observable for this layout (view stays depth-ok); the no-stack-exhaustion clause is still exercised by the "
                            "`ss` histories (lookups at n = 10^5 / 10^6 in a child process with a 256 KiB stack)")
        elif not diag["private_arrays_equal_model"]:
            diag["NOTE"] = ("the private parent/size arrays differ from the model's (not compared: the property observes return values and the forest "
                            "depth, which are compared on every case)")
    except Exception as e:  # diagnostic only
        diag["error"] = str(e)[:300]
    cov["forest_diagnostic"] = diag
    return []


# ---- second tie: the whole crate regenerated from the source text on every run (tools/rs2lean_typed.py) -----------------------
ASSUMPTIONS.append(
    "second tie: new/reset/par/un/check/size of the hand-written model are proved equal (theorems src_*_eq_model, through the embedding "
    "Nat -> Int of the two arrays) to the definitions that tools/rs2lean_typed.py regenerates from the text of rlib/dsu/src/lib.rs on every "
    "run (Generated/DsuSrc.lean: Vec<usize> = Array Int with checked indexing, `+=` = checked usize addition, recursion and `for` loops on "
    "fuel); hypotheses: reset needs fuel > n; un is stated for states whose two vectors have the same length and in which the sum of any two "
    "stored sizes fits usize (the model does not have that overflow check); par/un/check/size are equal for every fuel except that where the "
    "model, out of fuel at an out-of-range vertex, answers index the generated text answers fuel; trusted there: the translator and its reading of Vec (Generated/VecPrelude.lean), derived Clone/Debug are not translated")
MANIFEST["technique"] += " + source-to-Lean translation of rlib/dsu/src/lib.rs regenerated and proved equal to the model on every run"

_extract_layout = extract


def extract(repo):
    """The informational layout (above), then the translation of <repo>/rlib/dsu/src/lib.rs into Generated/DsuSrc.lean (written only
    when its text changes).  A construct outside the translator's subset is a broken correspondence; the generated file then has no
    definitions, so the src_* theorems stop compiling as well (never a stale file left in place)."""
    import sys
    params, problems = _extract_layout(repo)
    verif = os.path.dirname(os.path.dirname(os.path.abspath(__file__)))
    tools = os.path.join(verif, "tools")
    if tools not in sys.path:
        sys.path.insert(0, tools)
    import rs2lean_typed
    rel = "rlib/dsu/src/lib.rs"
    fns = ["new", "reset", "par", "un", "check", "size"]
    out = os.path.join(verif, "lean", "RlibModel", "Generated", "DsuSrc.lean")
    info, p2 = rs2lean_typed.run(os.path.join(repo, rel), out, "Rlib.DsuSrc", rel, ID, "DSU", fns)
    params.update({"translated_from": rel, "translated_functions": info.get("functions", []), "translated_loops": info.get("loops", []),
                   "not_translated": ["#[derive(Clone, Debug)] (taken at face value: clone = the identity on values)"],
                   "generated_file": "lean/RlibModel/Generated/DsuSrc.lean", "generated_file_rewritten": info.get("rewritten", False)})
    return params, problems + p2


def harness_args(params, profile):
    """The debug build gets the same streams without the bulk sample and without the sizes >= 10^5 (`gen` reads `--profile`)."""
    return ["--profile", profile]


def extra(ctx):
    """The logged diagnostic, then a plain-words verdict on the second tie when the src_* proofs did not build."""
    out = list(_diagnostic(ctx))
    import rs2lean
    ok = bool(ctx["params"].get("translated_functions"))
    return out + rs2lean.tie_findings(["RlibModel/Generated/DsuSrc.lean"], "RlibModel/Lemmas/DsuSrc.lean", ok, "rlib/dsu/src/lib.rs")
