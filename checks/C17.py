"""C17 — treaps can be built concurrently on different threads without racing (engine `treapconc`).

Three parts (DESIGN §6 C17):
  1. `extract(repo)`  — a syntactic classifier of the priority generator in rlib/treap/src/treap_node.rs
                         (declaration form + access form) and of the LCG in rlib/rand/src/{lib,lcg}.rs.
                         Whitelist only: anything that is not exactly one of the known shapes is `unknown`.
                         Writes lean/RlibModel/Generated/RngDiscipline.lean (only when the content changes);
                         `Props/C17.lean: c17 : Safe RngDiscipline.current` compiles only for a safe discipline.
  2. harness `e_treapconc` (generic pipeline) — real threads against the Lean model / sequential stream.
  3. `extra(ctx)`      — Miri on a two-thread program (thorough tier, or whenever 1 or 2 failed) and, for a
                         split (racy/unknown) discipline, the failing schedule of the model.
"""
import os
import re
import subprocess
import sys

sys.path.insert(0, os.path.join(os.path.dirname(os.path.dirname(os.path.abspath(__file__))), "tools"))
import veriflib as V  # noqa: E402

ID = "C17"
ENGINE = "treapconc"
CRATE = "e_treapconc"
DRIVER = "drv_treapconc"
DRIVER_MODULE = "Driver.TreapConc"
PROPS = "RlibModel.Props.C17"
PROFILES = ["release", "debug"]   # debug: rlib's cfg(debug_assertions)/debug_assert! code under real threads (reduced case set)
SHRINK_SEP = None
RULE = ("cases: `stream` = the real rlib_rand::Rng against the Lean LCG (constants extracted from the source) on boundary and random "
        "seeds; `sched` = every interleaving of small thread programs (the model follows the schedule, the real threads are scheduled "
        "by the OS) + random schedules with stutter steps; `fsched` = the same for the model's fine-grained system (get/set, "
        "lock/read/write/unlock, load/CAS/retry): every interleaving of the micro-operations of tiny programs + random ones; `conc` = k in {2,4,8,16} real threads released by a barrier, m draws each "
        "(TreapNode::new / Treap::insert_at) interleaved with remove_at and split/merge on the thread's own treap, the model runs the "
        "same programs under a pseudo-random schedule. Judged per the extracted discipline: thread-local => every thread's priority "
        "stream equals the sequential stream; shared => all priorities together are exactly the first k*m elements of the sequential "
        "stream (multiset) and each thread's stream is a subsequence of it; treap results equal a Vec oracle and the same operations "
        "run alone. Round 3: a thread's work covers EVERY public operation of the crate it can run on its own treaps — also Treap::from_item, "
        "Treap::default, TreapNode::split_by/push/update/collect_into called directly, a third treap of bare keys (trait's default update/push), "
        "and RENDERING (TreePrinter, Debug of Treap and of TreapNode): every rendering is compared with the documented layout computed by hand "
        "from the public fields and with the rendering of the run alone; `render` = as `conc` with all treaps rendered twice after every draw. "
        "Wave 3 (seeded C17_m8, m10, m9) — interference that needs a particular SITUATION rather than a particular schedule, made deterministic by the harness: "
        "`stack` = every thread owns a TALL treap (a spine of m levels: priorities 1,2,3,.. written through the public field, right spine for even, "
        "left spine for odd threads) and ALL k threads are held, by a rendezvous inside the item's push callback at the deepest node, at the bottom of the "
        "same recursive operation at the same instant — merge, split_at, split_by, collect_into in turn (k*m = 4 800 .. 12 800 live frames quick, 128 000 thorough); "
        "`panic` = every second thread uses an item whose update/push callback panics (caught with catch_unwind inside the thread, or ending the "
        "thread, which is joined); the other threads do the full operation mix, wait until all faulty neighbours have panicked, and go on with 200 more "
        "rounds of operations on their own treaps: their results must equal the Vec oracle and the same operations run alone IN A FRESH PROCESS; "
        "`exit` = the last min(m/2,16) draws of every thread are made from the destructor of a thread-local while the thread exits (registered before "
        "the thread's first node for even threads, after its last for odd ones): they must continue the thread's stream. "
        "Wave 4 (seeded C17_m12): `long <disc> k m` = 2 LONG-LIVED threads make m/2 draws each (full operation mix), stay alive while a CROWD of k "
        "short-lived threads (one node each through from_item / insert_at / TreapNode::new, 8 at a time, every one joined) comes and goes — k = 300 and 700 "
        "quick, up to 5000 thorough: more than 256 and 2*256 thread ordinals — and then make the remaining draws on fresh treaps: every thread's stream "
        "(the long-lived ones across the pause, every crowd thread's single draw) must be what the discipline promises and their treap results/shapes "
        "those of the same work run alone; the situation is constructed (serialised by barriers), so the failing input reproduces. "
        "BOTH BUILD PROFILES: the real-thread cases (conc, tie, render, deep in smaller sizes; stack, panic, exit in full) also run against the debug build "
        "of rlib (cfg(debug_assertions), debug_assert!, overflow checks). "
        "non-trivial = distinct `sched`/`conc`-like case with at least two threads that both draw, or `stream` case with n >= 2")
ASSUMPTIONS = [
    "the hardware/compiler memory model is NOT modelled: the racy discipline is modelled in its most favourable reading (sequentially consistent load and store, no tearing)",
    "'no data race' for thread_local!/Cell, Mutex and AtomicU64::fetch_update rests on Rust's guarantees for these std types (trusted)",
    "the discipline extractor is a syntactic whitelist classifier of treap_node.rs, rand/src/lib.rs and rand/src/lcg.rs; an unrecognised shape is reported as a broken correspondence, never as safe",
    "real thread schedules are chosen by the OS: the stress run samples schedules, it does not enumerate them (the Lean theorems quantify over all schedules of the model)",
    "treap results independent of the priorities drawn: proved for the treap model in C03 (results_independent_of_priorities); here tested against a Vec oracle",
    "the text a rendering must produce (TreePrinter: `- item` per node, `- [None]` per missing child, 3 columns per level; Debug: items in order, each "
    "followed by a blank) is an independent brute-force oracle inside the harness (a walk over the public left/right fields); it is not modelled in Lean",
    "wave 4: for `long` lines the Lean model runs the programs [m, m, 1 x k] under the serial schedule the harness constructs (first halves, crowd, "
    "second halves; the theorems quantify over all programs and schedules, so no new model definition is involved); treap results are judged inside the harness as for `conc`",
    "wave 3: for `stack`/`panic`/`exit` lines the Lean model answers as for `conc` (k threads x m draws: the priority streams); what the threads do with "
    "their treaps is judged inside the harness by independent oracles — plain Vecs, and the same operations run alone (for `panic`: in a fresh child "
    "process in which no callback ever panics). Tall treaps with hand-written priorities are valid treaps (heap order holds; C16's height half is about "
    "rlib's own priorities only), callbacks that panic and are caught are ordinary Rust: both are inside the property's domain — "
    "the judged threads never share a treap, node or item with the faulty ones",
]
TRUSTED_EXTRA = ["std::thread_local!, std::cell::Cell, std::sync::Mutex, std::sync::atomic::AtomicU64 (data-race freedom of the safe disciplines)",
                 "Miri (nightly) data-race detector, when present (thorough tier)"]
MANIFEST = {
    "level": "proof (partial)",
    "text": ("Lean 4 theorems about a transition system of k threads drawing priorities under a discipline that is extracted from the source "
             "on every run: for the atomic-RMW, mutex and thread-local disciplines every schedule is equivalent to a serial one, no draw is "
             "lost or duplicated (shared cell: the chronological results are exactly the sequential stream) and a thread-local cell gives "
             "every thread the sequential stream; one level down, every interleaving of get/set, lock/read/write/unlock and load/CAS/retry "
             "refines these one-step systems (mutual exclusion included); for the unsynchronised load/store discipline a 2-thread schedule "
             "duplicates a draw and is not serialisable. `c17 : Safe RngDiscipline.current` is stated over the generated discipline, so it "
             "stops compiling when the source goes back to `static mut`. Tie: extractor + barrier-released stress threads (every public "
             "operation of the crate incl. rendering, each thread's results compared with the same operations run alone; all threads held deep inside "
             "the same recursion at once; neighbours whose item callbacks panic; nodes created in thread-exit destructors; long-lived threads observed before and after hundreds of short-lived "
             "node-creating threads have come and gone; release AND debug build) against the "
             "model and the implementation's own sequential run + Miri."),
    "note": ("Partial: the hardware/compiler memory model is not modelled; data-race freedom of thread_local!/Mutex/atomics is Rust's guarantee "
             "(trusted); the extractor is a syntactic whitelist classifier; real schedules are sampled (stress, Miri), not enumerated."),
    "technique": "Lean 4 proof over a micro-step transition system + discipline extracted from source into a generated Lean file + thread stress harness + Miri",
    "design_ref": "DESIGN.md §6 C17",
}

REAL_THREAD_KINDS = ("conc", "tie", "deep", "render", "stack", "panic", "exit", "long", "sched", "fsched")
GENERATED = os.path.join(V.LEAN, "RlibModel", "Generated", "RngDiscipline.lean")
SAFE = ("threadLocal", "mutex", "atomicRmw")

# ----------------------------------------------------------------------------------------------
# 1. extractor
# ----------------------------------------------------------------------------------------------


def strip_rust_comments(src):
    out, i, n = [], 0, len(src)
    while i < n:
        if src.startswith("//", i):
            while i < n and src[i] != "\n":
                i += 1
        elif src.startswith("/*", i):
            depth = 1
            i += 2
            while i < n and depth > 0:
                if src.startswith("/*", i):
                    depth += 1
                    i += 2
                elif src.startswith("*/", i):
                    depth -= 1
                    i += 2
                else:
                    i += 1
            out.append(" ")
        elif src[i] == '"':
            # string literal: keep it (none is expected in these files; a quote anywhere makes the shapes fail to match)
            out.append(src[i])
            i += 1
        else:
            out.append(src[i])
            i += 1
    return "".join(out)


def norm(s):
    """whitespace-insensitive normal form: single blanks between words, none around punctuation"""
    s = re.sub(r"\s+", " ", s).strip()
    s = re.sub(r"\s*([{}()\[\];:,<>=|&!.+\-*/^#])\s*", r"\1", s)
    return s


def match_brace(s, open_idx):
    """index just after the brace/paren group opening at open_idx"""
    pairs = {"{": "}", "(": ")"}
    o = s[open_idx]
    c = pairs[o]
    depth = 0
    for j in range(open_idx, len(s)):
        if s[j] == o:
            depth += 1
        elif s[j] == c:
            depth -= 1
            if depth == 0:
                return j + 1
    return -1


def parse_int(tok):
    t = tok.replace("_", "")
    t = re.sub(r"(u64|u32|usize)$", "", t)
    return int(t, 16) if t.lower().startswith("0x") else int(t)


INT = r"((?:0x[0-9a-fA-F_]+|\d[\d_]*)(?:u64)?)"
CELL = r"(?:std::cell::)?Cell"
REFCELL = r"(?:std::cell::)?RefCell"
MUTEX = r"(?:std::sync::)?Mutex"
ATOMIC = r"(?:std::sync::atomic::)?AtomicU64"
ORD = r"(?:std::sync::atomic::)?Ordering::(?:Relaxed|SeqCst|AcqRel|Acquire|Release)"
W = r"([A-Za-z_]\w*)"

# Exact shapes for which the ARITHMETIC of the generator is known too (seed + `Rng` stepping), so that the Lean LCG
# stream can be compared with the real one.  (discipline, declaration regex, access regexes(name)) on the `norm` form.
# The discipline itself is decided per item below (`decide_discipline`); these only say whether the stream is predictable.
SHAPES = [
    ("racy",
     rf"static mut {W}:Rng=Rng::from_seed\({INT}\);",
     lambda n: [rf"unsafe\{{{n}\.next_raw\(\)as Priority\}}"]),
    ("threadLocal",
     rf"static {W}:{CELL}<Rng>=(?:const\{{)?{CELL}::new\(Rng::from_seed\({INT}\)\)\}}?;?",
     lambda n: [rf"{n}\.with\(\|{W}\|\{{let mut {W}=\1\.get\(\);let {W}=\2\.next_raw\(\)as Priority;\1\.set\(\2\);\3\}}\)"]),
    ("threadLocal",
     rf"static {W}:{REFCELL}<Rng>=(?:const\{{)?{REFCELL}::new\(Rng::from_seed\({INT}\)\)\}}?;?",
     lambda n: [rf"{n}\.with\(\|{W}\|\1\.borrow_mut\(\)\.next_raw\(\)as Priority\)"]),
    ("mutex",
     rf"static {W}:{MUTEX}<Rng>={MUTEX}::new\(Rng::from_seed\({INT}\)\);",
     lambda n: [rf"{n}\.lock\(\)\.unwrap\(\)\.next_raw\(\)as Priority",
                rf"let mut {W}={n}\.lock\(\)\.unwrap\(\);\1\.next_raw\(\)as Priority",
                rf"let mut {W}={n}\.lock\(\)\.unwrap\(\);let {W}=\1\.next_raw\(\)as Priority;\2"]),
    ("atomicRmw",
     rf"static {W}:{ATOMIC}={ATOMIC}::new\({INT}\);",
     lambda n: [rf"let {W}={n}\.fetch_update\({ORD},{ORD},\|{W}\|\{{?Some\(\2\.wrapping_mul\({INT}\)\.wrapping_add\({INT}\)\)\}}?\)\.unwrap\(\);"
                rf"(?:let mut {W}=Rng::from_seed\(\1\);\5\.next_raw\(\)as Priority|Rng::from_seed\(\1\)\.next_raw\(\)as Priority)"]),
]

def blank_strings(code):
    """replace the contents of string and char literals by nothing (keeps the quotes)"""
    code = re.sub(r'"(?:\\.|[^"\\])*"', '""', code)
    return re.sub(r"'(?:\\.|[^'\\])'", "''", code)


def strip_cfg_test_mods(code):
    """remove `#[cfg(test)] mod name { ... }` blocks (test-only code is not part of the library)"""
    while True:
        m = re.search(r"#\[cfg\(test\)\]\s*(?:pub\s+)?mod\s+\w+\s*\{", code)
        if not m:
            return code
        end = match_brace(code, m.end() - 1)
        if end < 0:
            return code
        code = code[:m.start()] + " " + code[end:]


def crate_closure(repo, roots=("rlib/treap", "rlib/rand")):
    """the crates the treap depends on (path dependencies, transitively), as paths relative to the repository"""
    seen, todo = [], list(roots)
    while todo:
        c = os.path.normpath(todo.pop(0))
        if c in seen:
            continue
        seen.append(c)
        try:
            toml = open(os.path.join(repo, c, "Cargo.toml")).read()
        except OSError:
            continue
        for dep in re.findall(r'path\s*=\s*"([^"]+)"', toml):
            todo.append(os.path.join(c, dep))
    return seen



# ----------------------------------------------------------------------------------------------
# items
# ----------------------------------------------------------------------------------------------

def preprocess(src):
    return strip_cfg_test_mods(blank_strings(strip_rust_comments(src)))


def _skip_ws(code, i):
    while i < len(code) and code[i].isspace():
        i += 1
    return i


def _match_any(code, i):
    """index just after the bracket group ((), [], {}) opening at i"""
    pairs = {"(": ")", "[": "]", "{": "}"}
    stack = []
    for j in range(i, len(code)):
        c = code[j]
        if c in pairs:
            stack.append(pairs[c])
        elif stack and c == stack[-1]:
            stack.pop()
            if not stack:
                return j + 1
    return len(code)


HEAD_RX = re.compile(r"(?:pub(?:\s*\([^)]*\))?\s+)?(?:default\s+)?"
                     r"(?:(?P<k1>(?:use|type|mod|struct|enum|union|trait|impl|extern\s+crate)\b|macro_rules\s*!|thread_local\s*!)"
                     r"|(?P<static>static)\b(?!\s*!)"
                     r"|(?P<fn>(?:(?:const|async|unsafe|extern(?:\s*\"\")?)\s+)*fn)\b"
                     r"|(?P<const>const)\b"
                     r"|(?P<unsafe>unsafe\s+(?:impl|trait|extern))\b"
                     r"|(?P<extern>extern)\b)")


def split_items(code):
    """top-level items of a file (attributes dropped, inline `mod x { … }` flattened) as dicts kind/name/text"""
    items, i, n = [], 0, len(code)
    while True:
        i = _skip_ws(code, i)
        if i >= n:
            break
        while code.startswith("#", i):          # attributes
            j = code.find("[", i)
            if j < 0:
                break
            i = _skip_ws(code, _match_any(code, j))
        m = HEAD_RX.match(code, i)
        kind = "other"
        if m:
            kind = (m.group("k1") or ("static" if m.group("static") else None) or ("fn" if m.group("fn") else None)
                    or ("const" if m.group("const") else None) or ("unsafe-item" if m.group("unsafe") else None) or "extern")
            kind = re.sub(r"\s+", "", kind)
        semi_only = kind in ("use", "type", "static", "const", "externcrate")
        j, depth = i, 0
        while j < n:
            c = code[j]
            if c in "([{":
                depth += 1
            elif c in ")]}":
                depth -= 1
                if depth <= 0 and c == "}" and not semi_only:
                    j += 1
                    # `macro!{…};` / `struct X{…};`
                    k = _skip_ws(code, j)
                    if k < n and code[k] == ";":
                        j = k + 1
                    break
            elif c == ";" and depth == 0:
                j += 1
                break
            j += 1
        text = code[i:j]
        i = j
        if not text.strip():
            continue
        mm = re.match(r"(?:pub(?:\s*\([^)]*\))?\s+)?mod\s+(\w+)\s*\{", text)
        if kind == "mod" and mm:
            inner = text[mm.end():text.rfind("}")]
            items.extend(split_items(inner))
            continue
        nm = re.search(r"\b(?:fn|struct|enum|union|trait|type|const|static(?:\s+mut)?|mod|macro_rules\s*!)\s+([A-Za-z_]\w*)", text)
        items.append({"kind": kind, "name": nm.group(1) if nm else "", "text": text})
    return items


PRIM = r"(?:bool|char|f32|f64|[ui](?:8|16|32|64|128|size))"
PLAIN_TY = rf"(?:&\s*(?:'static\s+)?)?(?:str|{PRIM}|\[\s*(?:&\s*(?:'static\s+)?str|{PRIM})\s*(?:;\s*[\w\s+*]+)?\])"
STATIC_RX = re.compile(r"(?:pub(?:\s*\([^)]*\))?\s+)?static\s+(mut\s+)?([A-Za-z_]\w*)\s*:\s*(.*?)\s*=\s*(.*?)\s*;?\s*$", re.S)
WATCHED = r"(?:Cell|RefCell|UnsafeCell|Mutex|RwLock|Atomic\w+|Ordering|OnceLock|OnceCell|LazyLock|LazyCell|thread_local)"
TOKENS_ANYWHERE = [
    (r"\bUnsafeCell\b|\bSyncUnsafeCell\b", "UnsafeCell"),
    (r"\*\s*mut\b|\*\s*const\b|\bNonNull\b|\bAtomicPtr\b|\baddr_of", "raw pointer"),
    (r"\bimpl\s*(?:<[^>]*>\s*)?(?:Sync|Send)\b", "`impl Sync/Send`"),
    (r"\bextern\b|no_mangle|link_name|\basm!|global_asm!", "extern/asm"),
    (r"\binclude!|#\[path", "code pulled in from another file"),
    (r"\bset_var\b|\bremove_var\b", "process environment written"),
    (r"\btransmute\b", "transmute"),
]
TL_TY = rf"(?:(?:std|core)::cell::)?(?:Cell|RefCell)<\s*[\w:]+(?:<[\w:,\s]+>)?\s*>"
AT_TY = r"(?:(?:std|core)::sync::atomic::)?Atomic(?:U64|U32|Usize|U16|U8|I64|I32|Isize|Bool)"
MX_TY = r"(?:std::sync::)?Mutex<\s*[\w:]+(?:<[\w:,\s]+>)?\s*>"
TL_ACCESS = r"\.(?:with|set|get|replace|take|with_borrow|with_borrow_mut)\("
AT_RMW = r"\.(?:fetch_update|fetch_add|fetch_sub|fetch_xor|fetch_or|fetch_and|fetch_nand|fetch_max|fetch_min|swap)\("
AT_CAS = r"\.compare_exchange(?:_weak)?\("
AT_LOAD = r"\.load\("


def collect_items(repo):
    """every .rs under src/ of the treap crate, rlib_rand and the crates they reach -> [(relpath, code, items)], problems"""
    out, problems = [], []
    for crate in crate_closure(repo):
        src = os.path.join(repo, crate, "src")
        for dirpath, _dirs, names in os.walk(src):
            for fn in sorted(names):
                if fn.endswith(".rs"):
                    path = os.path.join(dirpath, fn)
                    rel = os.path.relpath(path, repo)
                    try:
                        code = preprocess(open(path).read())
                    except OSError as e:
                        problems.append(f"{rel}: not readable: {e}")
                        continue
                    out.append((rel, code, split_items(code)))
    return out, problems


def decide_discipline(files):
    """Per item: `const`s, type aliases, enums/structs/traits/impls/fns without `static`/`unsafe` are irrelevant wherever they
    stand.  Only `static` items (also inside `thread_local!` and inside function bodies) and `unsafe` decide.
    -> info (discipline, declaration, access, name, file, decl_norm, body_norm, consts, aliases, bits), problems"""
    problems = []
    statics = []          # dicts: name, ty, init, mut, tl, file, text
    consts, aliases = {}, {}
    info = {"discipline": "unknown", "declaration": "", "access": "", "seed": None, "bits": None}
    for rel, code, items in files:
        for it in items:
            t, k = it["text"], it["kind"]
            if k == "const":
                m = re.match(r"(?:pub(?:\s*\([^)]*\))?\s+)?const\s+(\w+)\s*:\s*[\w:]+\s*=\s*" + INT + r"\s*;", t)
                if m:
                    consts[m.group(1)] = parse_int(m.group(2))
            elif k == "type":
                m = re.match(r"(?:pub(?:\s*\([^)]*\))?\s+)?type\s+(\w+)\s*=\s*(.*?)\s*;", t, re.S)
                if m:
                    aliases[m.group(1)] = norm(m.group(2))
            elif k == "use":
                m = re.search(r"\bas\s+(\w+)", t)
                if m and re.fullmatch(WATCHED + r"|Rng|Priority", m.group(1)):
                    problems.append(f"{rel}: import renames something to `{m.group(1)}`: `{norm(t)}`")
            elif k in ("unsafe-item", "extern"):
                problems.append(f"{rel}: `{norm(t)[:80]}`")
            if k in ("struct", "enum", "union", "trait", "type", "fn", "mod", "macro_rules!") and re.fullmatch(WATCHED, it["name"] or ""):
                problems.append(f"{rel}: local definition named `{it['name']}` shadows a std synchronisation type")
            # statics declared by this item
            if k == "static":
                m = STATIC_RX.match(t.strip())
                if not m:
                    problems.append(f"{rel}: static item not parsed: `{norm(t)[:100]}`")
                    continue
                if not m.group(1) and re.fullmatch(PLAIN_TY, m.group(3).strip()):
                    continue                   # constant table
                statics.append({"name": m.group(2), "ty": norm(m.group(3)), "init": norm(m.group(4)), "mut": bool(m.group(1)),
                                "tl": False, "file": rel, "text": norm(t)})
            elif k == "thread_local!":
                inner = t[t.index("{") + 1:t.rindex("}")] if "{" in t else ""
                parts, depth, cur = [], 0, ""
                for ch in inner:
                    if ch in "([{":
                        depth += 1
                    elif ch in ")]}":
                        depth -= 1
                    if ch == ";" and depth == 0:
                        parts.append(cur)
                        cur = ""
                    else:
                        cur += ch
                if cur.strip():
                    parts.append(cur)
                for part in parts:
                    part = re.sub(r"#\[[^\]]*\]", " ", part).strip()
                    if not part:
                        continue
                    m = STATIC_RX.match(part + ";")
                    if not m or m.group(1):
                        problems.append(f"{rel}: thread_local! entry not parsed: `{norm(part)[:100]}`")
                        continue
                    statics.append({"name": m.group(2), "ty": norm(m.group(3)), "init": norm(m.group(4)), "mut": False, "tl": True,
                                    "file": rel, "text": norm(part) + ";"})
            else:
                for m in re.finditer(r"(?<!')\bstatic\b", t):
                    snippet = t[m.start():]
                    end = snippet.find(";")
                    snippet = snippet[:end + 1] if end >= 0 else snippet[:160]
                    mm = STATIC_RX.match(snippet.strip())
                    if mm and not mm.group(1) and re.fullmatch(PLAIN_TY, mm.group(3).strip()):
                        continue
                    statics.append({"name": mm.group(2) if mm else "?", "ty": norm(mm.group(3)) if mm else "?", "init": norm(mm.group(4)) if mm else "?",
                                    "mut": bool(mm and mm.group(1)) or bool(re.match(r"static\s+mut\b", snippet)), "tl": False, "nested": True,
                                    "file": rel, "text": norm(snippet)[:160]})
    pb = [b for b in (re.fullmatch(r"u(8|16|32|64)", aliases.get("Priority", "")),) if b]
    info["bits"] = int(pb[0].group(1)) if pb else None
    info["consts"], info["aliases"] = consts, aliases

    if len(statics) != 1:
        if not statics:
            problems.append("no process-wide or thread-local state found at all: the priority source is not recognised")
        else:
            problems.append("more than one stateful `static` in the crates the treap is built from ("
                            + "; ".join(f"{x['file']}: {x['text'][:70]}" for x in statics[:4])
                            + "): only a single priority-generator cell is covered by the model")
        if statics:
            info["declaration"] = " | ".join(x["text"][:120] for x in statics[:3])
        return info, problems, None
    st = statics[0]
    name = st["name"]
    info["declaration"] = ("thread_local!{" + st["text"] + "}") if st["tl"] else st["text"]
    info["name"], info["file"], info["decl_norm"] = name, st["file"], st["text"]

    # every mention of the cell outside its declaration, with the item it stands in
    uses = []
    for rel, code, items in files:
        for it in items:
            nt = norm(it["text"])
            if it["kind"] in ("static", "thread_local!") and rel == st["file"] and re.search(rf"\bstatic(?: mut)? {re.escape(name)}\b", nt):
                continue
            for m in re.finditer(rf"\b{re.escape(name)}\b", nt):
                uses.append({"file": rel, "item": it, "norm": nt, "after": nt[m.end():m.end() + 40]})
    user_items = {id(u["item"]) for u in uses}
    body = ""
    if len(user_items) == 1:
        it = uses[0]["item"]
        nt = uses[0]["norm"]
        fm = re.search(r"\bfn \w+\([^)]*\)(?:->[^{]+)?\{", nt)
        if it["kind"] == "fn" and fm:
            body = nt[fm.end():nt.rfind("}")]
    info["access"] = body[:300] if body else " | ".join((u["norm"][:80]) for u in uses[:2])
    info["body_norm"] = body
    racy_fn_text = None

    def all_uses(rx):
        return bool(uses) and all(re.match(rx, u["after"]) for u in uses)

    disc = "unknown"
    if st.get("nested"):
        problems.append(f"{st['file']}: stateful `static` inside a function body: `{st['text'][:100]}`")
    elif st["mut"]:
        if (re.fullmatch(SHAPES[0][1], st["text"]) and body and any(re.fullmatch(rx, body) for rx in SHAPES[0][2](re.escape(name)))):
            disc = "racy"
            racy_fn_text = uses[0]["item"]["text"]
        else:
            problems.append(f"{st['file']}: `static mut {name}` accessed in a way that is not even the plain unsynchronised shape")
    elif re.search(r"\bunsafe\b", st["init"]):
        problems.append(f"{st['file']}: initialiser of `{name}` contains `unsafe`")
    elif st["tl"]:
        if not re.fullmatch(TL_TY, st["ty"]) or re.search(r"\b(?:Arc|Rc|Mutex|RwLock|Atomic\w*)\b|&|\*", st["ty"]):
            problems.append(f"{st['file']}: thread_local `{name}` has type `{st['ty']}` (only Cell<_>/RefCell<_> of a plain value are recognised)")
        elif not all_uses(TL_ACCESS):
            problems.append(f"{st['file']}: thread_local `{name}` is used other than through with/get/set/replace/take: "
                            + "; ".join(name + u["after"][:30] for u in uses if not re.match(TL_ACCESS, u["after"]))[:200])
        else:
            disc = "threadLocal"
    elif re.fullmatch(AT_TY, st["ty"]):
        rmw = [u for u in uses if re.match(AT_RMW, u["after"])]
        cas = [u for u in uses if re.match(AT_CAS, u["after"])]
        load = [u for u in uses if re.match(AT_LOAD, u["after"])]
        if len(uses) == 1 and len(rmw) == 1:
            disc = "atomicRmw"
        elif len(cas) == 1 and len(cas) + len(load) == len(uses) and len(user_items) == 1:
            disc = "atomicRmw"              # load … compare_exchange loop inside one function
        else:
            problems.append(f"{st['file']}: atomic `{name}` is not updated by exactly one read-modify-write per draw "
                            f"({len(uses)} uses: " + "; ".join(name + u["after"][:24] for u in uses[:4]) + ") — load/store pairs lose updates")
    elif re.fullmatch(MX_TY, st["ty"]):
        if len(uses) == 1 and re.match(r"\.lock\(\)", uses[0]["after"]):
            disc = "mutex"
        else:
            problems.append(f"{st['file']}: mutex `{name}` is not locked exactly once per draw ({len(uses)} uses: "
                            + "; ".join(name + u["after"][:24] for u in uses[:4]) + ")")
    else:
        problems.append(f"{st['file']}: `static {name}: {st['ty']}` is not a recognised kind of shared cell")

    # `unsafe` and friends anywhere (outside the recognised racy accessor) leave nothing to assume
    for rel, code, items in files:
        scan = code.replace(racy_fn_text, " ", 1) if (racy_fn_text and rel == st["file"]) else code
        if re.search(r"\bunsafe\b", scan):
            problems.append(f"{rel}: `unsafe` code")
            if disc != "racy":
                disc = "unknown"
        for rx, what in TOKENS_ANYWHERE:
            if re.search(rx, scan):
                problems.append(f"{rel}: {what}")
                disc = "unknown" if disc != "racy" else disc
    info["discipline"] = disc
    return info, problems, st


def recognise_arithmetic(info, lcg):
    """Is the generator exactly `Rng` seeded with a literal and stepped by `next_raw` (so that the Lean LCG predicts the
    stream)?  Uses the exact shapes; constants and aliases of the file are substituted first. -> seed or None, notes"""
    decl, body, name = info.get("decl_norm"), info.get("body_norm"), info.get("name")
    if not decl or not body or lcg.get("A") is None or lcg.get("mixmul") is None:
        return None, ["generator arithmetic not recognised: the Lean stream is not compared (diagnostic only)"]
    rng_alias = rf"lcg::LinearCongruentialGenerator64<{lcg['A']},{lcg['C']}>"

    def subst(t):
        for c, v in info.get("consts", {}).items():
            t = re.sub(rf"\b{re.escape(c)}\b", str(v), t)
        for al, target in info.get("aliases", {}).items():
            tt = target
            for c, v in info.get("consts", {}).items():
                tt = re.sub(rf"\b{re.escape(c)}\b", str(v), tt)
            if re.fullmatch(rf"(?:rlib_rand::)?(?:lcg::)?LinearCongruentialGenerator64<{lcg['A']},{lcg['C']}>", tt) and al != "Rng":
                t = re.sub(rf"\b{re.escape(al)}\b", "Rng", t)
        return t
    _ = rng_alias
    d, b = subst(decl), subst(body)
    for disc, drx, accs in SHAPES:
        dm = re.fullmatch(drx, d)
        if not dm or disc != info["discipline"]:
            continue
        for arx in accs(re.escape(name)):
            am = re.fullmatch(arx, b)
            if am:
                if disc == "atomicRmw" and (parse_int(am.group(3)) != lcg["A"] or parse_int(am.group(4)) != lcg["C"]):
                    return None, ["the fetch_update closure does not step with Rng's multiplier/increment: stream not predicted"]
                try:
                    return parse_int(dm.group(2)), []
                except ValueError:
                    return None, ["seed literal not parsed"]
    return None, ["generator arithmetic not recognised: the Lean stream is not compared (diagnostic only)"]


def extract_lcg(repo):
    """-> (dict A, C, mixmul, mixshift), problems"""
    problems = []
    out = {}
    try:
        lib = norm(strip_rust_comments(open(os.path.join(repo, "rlib/rand/src/lib.rs")).read()))
        lcg_src = strip_rust_comments(open(os.path.join(repo, "rlib/rand/src/lcg.rs")).read())
    except OSError as e:
        return out, [f"rlib/rand sources not readable: {e}"]
    m = re.findall(r"pub type Rng=lcg::LinearCongruentialGenerator64<" + INT + "," + INT + r">;", lib)
    if len(m) != 1:
        problems.append("rand/src/lib.rs: `pub type Rng = lcg::LinearCongruentialGenerator64<A, C>;` not found exactly once")
        return out, problems
    out["A"], out["C"] = parse_int(m[0][0]), parse_int(m[0][1])
    lcg = norm(lcg_src)
    if not re.search(r"#\[derive\((?:Copy,Clone|Clone,Copy)\)\]pub struct LinearCongruentialGenerator64<const A:u64,const C:u64>\{state:u64,?\}", lcg):
        problems.append("rand/src/lcg.rs: struct LinearCongruentialGenerator64 { state: u64 } (Copy, Clone) not found")
    if not re.search(r"pub const fn from_seed\(seed:u64\)->Self\{Self\{state:seed,?\}\}", lcg):
        problems.append("rand/src/lcg.rs: `from_seed` is no longer `Self { state: seed }`")
    for tok in (r"\bstatic\b", r"\bunsafe\b", r"thread_local", r"\bCell\b", r"\bAtomic\w*", r"\bMutex\b"):
        if re.search(tok, lcg_src):
            problems.append(f"rand/src/lcg.rs: `{tok}` present: the generator is no longer a plain value type")
    fm = re.search(r"pub fn next_raw\(&mut self\)->u64\{", lcg)
    if not fm:
        problems.append("rand/src/lcg.rs: `pub fn next_raw(&mut self) -> u64` not found")
        return out, problems
    end = match_brace(lcg, fm.end() - 1)
    body = lcg[fm.end():end - 1]
    stepx = r"self\.state=self\.state\.wrapping_mul\(A\)\.wrapping_add\(C\);"
    m1 = re.fullmatch(stepx + r"let mut z=self\.state;z=\(z\^\(z>>(\d+)\)\)\.wrapping_mul\(" + INT + r"\);z\^\(z>>(\d+)\)", body)
    m0 = re.fullmatch(stepx + r"self\.state", body)
    if m1:
        if m1.group(1) != m1.group(3):
            problems.append("rand/src/lcg.rs: the two shifts of the output scramble differ (model has one shift parameter)")
        out["mixshift"] = int(m1.group(1))
        out["mixmul"] = parse_int(m1.group(2))
        if out["mixmul"] == 0:
            problems.append("rand/src/lcg.rs: scramble multiplier 0")
    elif m0:
        out["mixshift"], out["mixmul"] = 0, 0
    else:
        problems.append(f"rand/src/lcg.rs: body of next_raw is not a recognised shape: {body[:200]}")
    return out, problems


def render_generated(info):
    disc = info["discipline"]
    decl = info.get("declaration", "").replace("-/", "- /").replace("/-", "/ -")[:300]
    acc = info.get("access", "").replace("-/", "- /").replace("/-", "/ -")[:300]
    return f"""import RlibModel.Model.TreapConc
/-!
GENERATED by `checks/C17.py` (`extract`) from the source text of `rlib/treap/src/treap_node.rs`
on every run of `./check C17` — do not edit by hand.

declaration : {decl}
access      : {acc}
-/
namespace Rlib.RngDiscipline

/-- The synchronisation discipline of the treap priority generator as found in the source. -/
def current : Rlib.TreapConc.Discipline := .{disc}

end Rlib.RngDiscipline
"""



def extract(repo):
    problems, notes = [], []
    files, p0 = collect_items(repo)
    problems += p0
    info, p1, _st = decide_discipline(files)
    problems += p1
    if problems and info["discipline"] in SAFE:
        info["discipline"] = "unknown"
    lcg, p2 = extract_lcg(repo)
    notes += p2                      # the arithmetic of rlib_rand is C14's business; here it only decides whether the stream is predicted
    seed, n2 = recognise_arithmetic(info, lcg if not p2 else {})
    notes += n2
    params = {"discipline": info["discipline"], "declaration": info["declaration"], "access": info["access"],
              "seed": seed, "priority_bits": info.get("bits"), "files_scanned": [f[0] for f in files]}
    params.update(lcg)
    for k in ("A", "C", "mixmul", "seed"):
        if params.get(k) is not None and not (0 <= params[k] < 2 ** 64):
            notes.append(f"{k} = {params[k]} is not a u64")
            params["seed"] = None
    if params.get("mixshift") is not None and not (0 <= params["mixshift"] < 64):
        params["seed"] = None
    if info["discipline"] == "racy":
        problems.append("treap_node.rs: the priority generator is a `static mut` mutated in an unsynchronised `unsafe` block "
                        "(discipline racy): data race as soon as two threads create nodes")
    params["constants_complete"] = all(params.get(k) is not None for k in ("A", "C", "mixmul", "mixshift", "seed", "priority_bits")) and not p2
    params["stream_model"] = "compared" if params["constants_complete"] else "not compared: " + "; ".join(notes)[:300]
    text = render_generated(info)
    old = open(GENERATED).read() if os.path.exists(GENERATED) else None
    if old != text:
        os.makedirs(os.path.dirname(GENERATED), exist_ok=True)
        tmp = GENERATED + ".tmp"
        with open(tmp, "w") as f:
            f.write(text)
        os.replace(tmp, GENERATED)
        V.log(f"Generated/RngDiscipline.lean rewritten: discipline = {info['discipline']}")
    return params, problems


def harness_args(params, profile):
    args = ["--disc", params.get("discipline", "unknown"), "--profile", profile]
    if params.get("constants_complete"):
        args += ["--A", str(params["A"]), "--C", str(params["C"]), "--mixmul", str(params["mixmul"]), "--mixshift", str(params["mixshift"]),
                 "--bits", str(params["priority_bits"]), "--rngseed", str(params["seed"])]
    # otherwise: no constants -> the case lines carry the block `0 0 0 0 32 0`, both sides print lengths instead of digests
    return args


def nontrivial(case, rec):
    parts = [p.strip() for p in case.split(";")]
    ts = parts[0].split()
    if not ts:
        return False
    if ts[0] == "stream":
        return int(ts[-1]) >= 2
    if ts[0] in REAL_THREAD_KINDS[:-2]:
        return int(ts[2]) >= 2 and int(ts[3]) >= 1
    if ts[0] in ("sched", "fsched") and len(parts) == 3:
        return sum(1 for m in parts[1].split() if int(m) > 0) >= 2
    return False


# ----------------------------------------------------------------------------------------------
# 3. extra steps: Miri and the failing schedule of the model
# ----------------------------------------------------------------------------------------------

MIRI_TARGET = "/tmp/verif-c17-miri-target"


def miri_available():
    try:
        r = V.run(["cargo", "+nightly", "miri", "--version"], timeout=60)
    except Exception as e:  # noqa: BLE001
        return False, f"cargo +nightly miri not runnable: {e}"
    if r.returncode != 0:
        return False, "cargo +nightly miri --version failed: " + (r.stderr or r.stdout)[-200:].strip()
    return True, (r.stdout or "").strip()


def run_miri(crate_dir, seed, disc):
    """The harness binary in `miri` mode under Miri: two threads, the harness's full `thread_work` (insert_at, remove_at,
    split_at, split_by, merge, first, last, root, root_mut, size, collect), then the same with forced equal priorities;
    compared with the same operations run alone.
    -> dict(status = clean | race | ub | interference | failed | skipped, detail, seed, cmd)"""
    cmd = ["cargo", "+nightly", "miri", "run", "--offline", "--", "miri", disc]
    env = {"MIRIFLAGS": f"-Zmiri-seed={seed}", "CARGO_TARGET_DIR": MIRI_TARGET}
    res = {"seed": seed, "cmd": f"cd {crate_dir} && CARGO_TARGET_DIR={MIRI_TARGET} MIRIFLAGS=-Zmiri-seed={seed} " + " ".join(cmd)}
    try:
        r = V.run(cmd, cwd=crate_dir, env=env, timeout=900)
    except subprocess.TimeoutExpired:
        res.update(status="failed", detail=["miri did not finish within 900 s (deadlock or livelock?)"])
        return res
    out = (r.stdout or "") + "\n" + (r.stderr or "")
    lines = out.split("\n")
    if r.returncode == 0:
        res.update(status="clean", detail=[l for l in (r.stdout or "").split("\n") if " thread " in l][:2])
        return res
    k = next((i for i, l in enumerate(lines) if "Undefined Behavior" in l), None)
    if k is not None:
        excerpt = [l.rstrip() for l in lines[k:k + 24] if l.strip()]
        res.update(status="race" if "Data race" in lines[k] else "ub", detail=excerpt)
        return res
    inter = [l for l in lines if l.startswith("INTERFERENCE")]
    if inter:
        res.update(status="interference", detail=inter[:4])
        return res
    if re.search(r"could not compile|error\[E\d+\]|failed to (?:build|find|run)|sysroot|is not installed|no such (?:sub)?command|cargo miri setup", out):
        res.update(status="skipped", detail="miri could not build/run the program (sysroot/setup missing or build error): " + out[-600:])
        return res
    # Miri ran the program and it did not end normally: deadlock, panic, abort, leak ...
    k = next((i for i, l in enumerate(lines) if l.startswith("error")), 0)
    res.update(status="failed", detail=[l.rstrip() for l in lines[k:k + 16] if l.strip()] or [out[-400:]])
    return res


def stress_failures(ctx):
    """the disagreements the generic run saw on real-thread cases, read back from its work files"""
    found = []
    for pipe in ctx["pipes"]:
        cp = os.path.join(ctx["workdir"], f"cases.{pipe.profile}")
        ip = os.path.join(ctx["workdir"], f"impl.{pipe.profile}")
        mp = os.path.join(ctx["workdir"], f"model.{pipe.profile}")
        if not (os.path.exists(cp) and os.path.exists(ip) and os.path.exists(mp)):
            continue
        with open(cp) as fc, open(ip) as fi, open(mp) as fm:
            for case in fc:
                il = fi.readline().rstrip("\n")
                ml = fm.readline().rstrip("\n")
                case = case.rstrip("\n")
                if case.split(" ", 1)[0] not in REAL_THREAD_KINDS:
                    continue
                rec = {"impl": V.parse_impl(il), "model": V.parse_model(ml)}
                if rec["impl"] is None or rec["model"] is None:
                    found.append((case, il or "<missing: harness died>", ml, pipe.profile))
                elif V.classify(rec) == "violation":
                    found.append((case, il, ml, pipe.profile))
    return found


def extra(ctx):
    findings = []
    cov = ctx["coverage"]
    params = ctx["params"]
    disc = params.get("discipline", "unknown")
    tier = ctx["tier"]
    pipes = ctx["pipes"]
    extraction_failed = disc not in SAFE
    cov["discipline"] = disc

    # -- real-thread runs are not reproducible: what was observed IS the finding (the judge is deterministic given the
    #    observed streams / results), reported here without relying on a re-run
    fails = stress_failures(ctx)
    stress_failed = (not pipes) or bool(fails)
    cov["stress_disagreements"] = len(fails)
    cov["stress_disagreement_examples"] = [{"case": c, "impl": i[:400], "model": m[:200], "profile": pr} for c, i, m, pr in fails[:5]]
    for c, i, m, pr in fails[:1]:
        findings.append({"class": "violation",
                         "what": "threads building their own treaps at the same time: observed result is not what the same operations give "
                                 "sequentially (observed once on real threads; the case line re-runs the same programs)",
                         "case": c, "impl": i, "model": m, "profile": pr, "observed_once": True,
                         "other_failing_cases": [x[0] for x in fails[1:6]]})

    # -- the failing schedule of the model (split disciplines only)
    witness = None
    if extraction_failed and pipes and params.get("constants_complete"):
        p = params
        block = f"{p['A']} {p['C']} {p['mixmul']} {p['mixshift']} {p['priority_bits']} {p['seed']}"
        case = f"sched {disc} {block} ; 1 1 ; 0 1 0 1"
        try:
            r = pipes[0].eval_cases([case], "witness")[0]
            witness = {"case": case, "impl": r["impl_line"], "model": r["model_line"],
                       "explanation": "model schedule t0.load t1.load t0.store t1.store: both threads draw the same priority and one "
                                      "generator step is lost (Lean: Rlib.C17.racy_duplicate / racy_not_serializable); the implementation "
                                      "line is what two real threads produced for the same programs on this run"}
        except V.Machinery as e:
            witness = {"case": case, "error": str(e)}
        cov["model_failing_schedule"] = witness

    # -- Miri: one seed in every run, three in the thorough tier or after a failure
    miri_runs = []
    ok, note = miri_available()
    if not ok:
        cov["miri"] = {"status": "skipped", "note": note}
        V.log("miri skipped: " + note)
    else:
        crate_dir, _root = V.harness_dir(CRATE, ctx["repo"])
        seeds = [1, 2, 3] if (tier == "thorough" or extraction_failed or stress_failed) else [1]
        for s in seeds:
            res = run_miri(crate_dir, s, disc)
            miri_runs.append(res)
            if res["status"] != "clean":
                break
        cov["miri"] = {"version": note, "runs": miri_runs,
                       "program": "harness binary in `miri` mode: 2 threads x (14 draws, all treap operations) + 2 threads x (12 draws, forced equal priorities), each compared with the run alone"}
        cov["extra_evaluations"] = cov.get("extra_evaluations", 0) + sum(1 for r in miri_runs if r["status"] != "skipped")
        cov["extra_nontrivial"] = cov.get("extra_nontrivial", 0) + sum(1 for r in miri_runs if r["status"] != "skipped")

    for r in miri_runs:
        if r["status"] in ("race", "ub", "interference", "failed"):
            what = {"race": "Miri reports a data race", "ub": "Miri reports undefined behaviour",
                    "interference": "under Miri a thread's treap differs from the same operations run alone",
                    "failed": "the two-thread program did not end normally under Miri"}[r["status"]]
            findings.append({"class": "violation",
                             "what": what + " in a two-thread program creating nodes and operating on thread-owned treaps",
                             "case": f"miri two-threads -Zmiri-seed={r['seed']}",
                             "impl": " / ".join(r["detail"][:6]) if isinstance(r["detail"], list) else str(r["detail"]),
                             "model": (witness or {}).get("model", ""),
                             "replay_cmd": r["cmd"], "miri": r["detail"], "model_failing_schedule": witness})
        elif r["status"] == "skipped":
            V.log("miri skipped: " + str(r["detail"])[:300])
    if not findings and extraction_failed and disc == "racy" and witness and "model" in witness:
        # recognised as the unsynchronised shape: the model's failing schedule is the replay
        findings.append({"class": "violation",
                         "what": "priority generator is an unsynchronised static mut: the model duplicates a draw on the schedule below",
                         "case": witness["case"], "impl": witness.get("impl", ""), "model": witness.get("model", ""),
                         "model_failing_schedule": witness})
    return findings


def replay(ctx, rp):
    """`./check C17 --replay f`: the generic code has already re-run the case lines through harness and driver; a Miri
    finding is re-run here with the recorded seed (deterministic for a given -Zmiri-seed)."""
    bad = False
    for c in rp.get("cases", []):
        m = re.match(r"miri two-threads -Zmiri-seed=(\d+)", c.get("case", ""))
        if not m:
            continue
        ok, note = miri_available()
        if not ok:
            print(f"miri replay skipped: {note}")
            continue
        crate_dir, _root = V.harness_dir(CRATE, ctx["repo"])
        res = run_miri(crate_dir, int(m.group(1)), ctx["params"].get("discipline", "unknown"))
        print(f"miri replay (seed {m.group(1)}): {res['status']}")
        bad = bad or res["status"] in ("race", "ub", "interference", "failed")
        for line in (res["detail"] if isinstance(res["detail"], list) else [str(res["detail"])]):
            print("  " + line)
    return bad
