"""C17 — treaps can be built concurrently on different threads without racing (engine `treapconc`).

Three parts (DESIGN §6 C17):
  1. `extract(repo)`  — a syntactic classifier of the priority generator in rlib/treap/src/treap_node.rs
                         (declaration form + access form) and of the LCG in rlib/rand/src/{lib,lcg}.rs.
                         Whitelist only: anything that is not exactly one of the known shapes is `unknown`.
                         Writes lean/RlibModel/Generated/RngDiscipline.lean (only when the content changes);
                         `Props/C17.lean: c17 : Safe RngDiscipline.current` compiles only for a safe discipline.
  2. harness `e_treapconc` (generic pipeline) — real threads against the Lean model / sequential stream.
  3. `extra(ctx)`      — Miri on a two-thread program (thorough tier, or whenever 1 or 2 failed) and, for a
                         split (racy/unknown) discipline, the failing schedule of the model.
"""
import os
import re
import subprocess
import sys

sys.path.insert(0, os.path.join(os.path.dirname(os.path.dirname(os.path.abspath(__file__))), "tools"))
import veriflib as V  # noqa: E402

ID = "C17"
ENGINE = "treapconc"
CRATE = "e_treapconc"
DRIVER = "drv_treapconc"
DRIVER_MODULE = "Driver.TreapConc"
PROPS = "RlibModel.Props.C17"
PROFILES = ["release"]
SHRINK_SEP = None
RULE = ("cases: `stream` = the real rlib_rand::Rng against the Lean LCG (constants extracted from the source) on boundary and random "
        "seeds; `sched` = every interleaving of small thread programs (the model follows the schedule, the real threads are scheduled "
        "by the OS) + random schedules with stutter steps; `fsched` = the same for the model's fine-grained system (get/set, "
        "lock/read/write/unlock, load/CAS/retry): every interleaving of the micro-operations of tiny programs + random ones; `conc` = k in {2,4,8,16} real threads released by a barrier, m draws each "
        "(TreapNode::new / Treap::insert_at) interleaved with remove_at and split/merge on the thread's own treap, the model runs the "
        "same programs under a pseudo-random schedule. Judged per the extracted discipline: thread-local => every thread's priority "
        "stream equals the sequential stream; shared => all priorities together are exactly the first k*m elements of the sequential "
        "stream (multiset) and each thread's stream is a subsequence of it; treap results equal a Vec oracle and the same operations "
        "run alone. non-trivial = distinct `sched`/`conc` case with at least two threads that both draw, or `stream` case with n >= 2")
ASSUMPTIONS = [
    "the hardware/compiler memory model is NOT modelled: the racy discipline is modelled in its most favourable reading (sequentially consistent load and store, no tearing)",
    "'no data race' for thread_local!/Cell, Mutex and AtomicU64::fetch_update rests on Rust's guarantees for these std types (trusted)",
    "the discipline extractor is a syntactic whitelist classifier of treap_node.rs, rand/src/lib.rs and rand/src/lcg.rs; an unrecognised shape is reported as a broken correspondence, never as safe",
    "real thread schedules are chosen by the OS: the stress run samples schedules, it does not enumerate them (the Lean theorems quantify over all schedules of the model)",
    "treap results independent of the priorities drawn: proved for the treap model in C03 (results_independent_of_priorities); here tested against a Vec oracle",
]
TRUSTED_EXTRA = ["std::thread_local!, std::cell::Cell, std::sync::Mutex, std::sync::atomic::AtomicU64 (data-race freedom of the safe disciplines)",
                 "Miri (nightly) data-race detector, when present (thorough tier)"]
MANIFEST = {
    "level": "proof (partial)",
    "text": ("Lean 4 theorems about a transition system of k threads drawing priorities under a discipline that is extracted from the source "
             "on every run: for the atomic-RMW, mutex and thread-local disciplines every schedule is equivalent to a serial one, no draw is "
             "lost or duplicated (shared cell: the chronological results are exactly the sequential stream) and a thread-local cell gives "
             "every thread the sequential stream; one level down, every interleaving of get/set, lock/read/write/unlock and load/CAS/retry "
             "refines these one-step systems (mutual exclusion included); for the unsynchronised load/store discipline a 2-thread schedule "
             "duplicates a draw and is not serialisable. `c17 : Safe RngDiscipline.current` is stated over the generated discipline, so it "
             "stops compiling when the source goes back to `static mut`. Tie: extractor + barrier-released stress threads against the "
             "model and the implementation's own sequential run + Miri."),
    "note": ("Partial: the hardware/compiler memory model is not modelled; data-race freedom of thread_local!/Mutex/atomics is Rust's guarantee "
             "(trusted); the extractor is a syntactic whitelist classifier; real schedules are sampled (stress, Miri), not enumerated."),
    "technique": "Lean 4 proof over a micro-step transition system + discipline extracted from source into a generated Lean file + thread stress harness + Miri",
    "design_ref": "DESIGN.md §6 C17",
}

GENERATED = os.path.join(V.LEAN, "RlibModel", "Generated", "RngDiscipline.lean")
SAFE = ("threadLocal", "mutex", "atomicRmw")

# ----------------------------------------------------------------------------------------------
# 1. extractor
# ----------------------------------------------------------------------------------------------


def strip_rust_comments(src):
    out, i, n = [], 0, len(src)
    while i < n:
        if src.startswith("//", i):
            while i < n and src[i] != "\n":
                i += 1
        elif src.startswith("/*", i):
            depth = 1
            i += 2
            while i < n and depth > 0:
                if src.startswith("/*", i):
                    depth += 1
                    i += 2
                elif src.startswith("*/", i):
                    depth -= 1
                    i += 2
                else:
                    i += 1
            out.append(" ")
        elif src[i] == '"':
            # string literal: keep it (none is expected in these files; a quote anywhere makes the shapes fail to match)
            out.append(src[i])
            i += 1
        else:
            out.append(src[i])
            i += 1
    return "".join(out)


def norm(s):
    """whitespace-insensitive normal form: single blanks between words, none around punctuation"""
    s = re.sub(r"\s+", " ", s).strip()
    s = re.sub(r"\s*([{}()\[\];:,<>=|&!.+\-*/^#])\s*", r"\1", s)
    return s


def match_brace(s, open_idx):
    """index just after the brace/paren group opening at open_idx"""
    pairs = {"{": "}", "(": ")"}
    o = s[open_idx]
    c = pairs[o]
    depth = 0
    for j in range(open_idx, len(s)):
        if s[j] == o:
            depth += 1
        elif s[j] == c:
            depth -= 1
            if depth == 0:
                return j + 1
    return -1


def parse_int(tok):
    t = tok.replace("_", "")
    t = re.sub(r"(u64|u32|usize)$", "", t)
    return int(t, 16) if t.lower().startswith("0x") else int(t)


INT = r"((?:0x[0-9a-fA-F_]+|\d[\d_]*)(?:u64)?)"
CELL = r"(?:std::cell::)?Cell"
REFCELL = r"(?:std::cell::)?RefCell"
MUTEX = r"(?:std::sync::)?Mutex"
ATOMIC = r"(?:std::sync::atomic::)?AtomicU64"
ORD = r"(?:std::sync::atomic::)?Ordering::(?:Relaxed|SeqCst|AcqRel|Acquire|Release)"
W = r"([A-Za-z_]\w*)"

# (discipline, declaration regex, access regex builder(name) ) — all on the `norm` form, full match.
SHAPES = [
    ("racy",
     rf"static mut {W}:Rng=Rng::from_seed\({INT}\);",
     lambda n: [rf"unsafe\{{{n}\.next_raw\(\)as Priority\}}"]),
    ("threadLocal",
     rf"thread_local!\{{static {W}:{CELL}<Rng>=(?:const\{{)?{CELL}::new\(Rng::from_seed\({INT}\)\)\}}?;?\}}",
     lambda n: [rf"{n}\.with\(\|{W}\|\{{let mut {W}=\1\.get\(\);let {W}=\2\.next_raw\(\)as Priority;\1\.set\(\2\);\3\}}\)"]),
    ("threadLocal",
     rf"thread_local!\{{static {W}:{REFCELL}<Rng>=(?:const\{{)?{REFCELL}::new\(Rng::from_seed\({INT}\)\)\}}?;?\}}",
     lambda n: [rf"{n}\.with\(\|{W}\|\1\.borrow_mut\(\)\.next_raw\(\)as Priority\)"]),
    ("mutex",
     rf"static {W}:{MUTEX}<Rng>={MUTEX}::new\(Rng::from_seed\({INT}\)\);",
     lambda n: [rf"{n}\.lock\(\)\.unwrap\(\)\.next_raw\(\)as Priority",
                rf"let mut {W}={n}\.lock\(\)\.unwrap\(\);\1\.next_raw\(\)as Priority",
                rf"let mut {W}={n}\.lock\(\)\.unwrap\(\);let {W}=\1\.next_raw\(\)as Priority;\2"]),
    ("atomicRmw",
     rf"static {W}:{ATOMIC}={ATOMIC}::new\({INT}\);",
     lambda n: [rf"let {W}={n}\.fetch_update\({ORD},{ORD},\|{W}\|\{{?Some\(\2\.wrapping_mul\({INT}\)\.wrapping_add\({INT}\)\)\}}?\)\.unwrap\(\);"
                rf"let mut {W}=Rng::from_seed\(\1\);\5\.next_raw\(\)as Priority"]),
]

# tokens that must not occur anywhere in treap_node.rs unless the generator was classified `racy`
FORBIDDEN_TOKENS = [r"\bunsafe\b", r"\bstatic mut\b", r"UnsafeCell", r"\*mut\b", r"\*const\b", r"addr_of", r"transmute", r"\bextern\b",
                    r"no_mangle", r"link_name", r"macro_rules", r"\basm!", r"include!", r"#\[path", r"\bmod\b", r"\bimpl Sync\b", r"\bimpl Send\b",
                    r"\bunion\b", r"\bas_ptr\b", r"\bNonNull\b", r"\bAtomicPtr\b"]
ALLOWED_USES = {
    "use rlib_rand::Rng;", "use std::cell::Cell;", "use std::cell::RefCell;", "use std::sync::Mutex;",
    "use std::sync::atomic::{AtomicU64,Ordering};", "use std::sync::atomic::{Ordering,AtomicU64};",
    "use std::sync::atomic::AtomicU64;", "use std::sync::atomic::Ordering;",
}


def use_ok(u):
    """whitelisted, or an import that cannot bring in or rename anything the classification looks at"""
    n = norm(u)
    if n in {norm(x) for x in ALLOWED_USES}:
        return True
    if re.search(r"\bas\b", u) or "*" in u:
        return False
    return not re.search(r"\b(Rng|Priority|gen_priority|cell|Cell|RefCell|UnsafeCell|sync|Mutex|RwLock|Atomic\w*|Ordering|ptr|mem|ffi|alloc|"
                         r"intrinsics|arch|thread|LocalKey|Once\w*|Lazy\w*|rlib_rand)\b", n)


def classify_treap_node(src):
    """-> (info dict, problems).  info: discipline, declaration, access, seed, bits, name"""
    problems = []
    info = {"discipline": "unknown", "declaration": "", "access": "", "seed": None, "bits": None}
    code = strip_cfg_test_mods(blank_strings(strip_rust_comments(src)))
    a = code.find("pub trait TreapItemSized")
    b = code.find("pub struct TreapNode<T>")
    if a < 0 or b < 0 or b < a:
        return info, ["treap_node.rs: anchors `pub trait TreapItemSized` / `pub struct TreapNode<T>` not found"]
    a_open = code.find("{", a)
    a_end = match_brace(code, a_open) if a_open >= 0 else -1
    if a_end < 0 or a_end > b:
        return info, ["treap_node.rs: cannot delimit the generator region"]
    region = code[a_end:b]
    info["region_text"] = region
    rest = code[:a_end] + "\n" + code[b:]

    # -- the region: `type Priority = uN;`, optional attributes, `fn gen_priority`, and the declaration
    m = re.findall(r"\btype\s+Priority\s*=\s*u(8|16|32|64)\s*;", region)
    if len(m) != 1:
        problems.append("treap_node.rs: `type Priority = uN;` not found exactly once next to the generator")
    else:
        info["bits"] = int(m[0])
    region2 = re.sub(r"\btype\s+Priority\s*=\s*u(8|16|32|64)\s*;", " ", region)
    region2 = re.sub(r"#\[(?:allow\([\w,\s]*\)|inline(?:\(\w+\))?|must_use|cold)\]", " ", region2)
    region2 = re.sub(r"\bpub(?:\((?:crate|super|self)\))?\s+(?=fn\s+gen_priority\b)", "", region2)
    fm = re.search(r"\bfn\s+gen_priority\s*\(\s*\)\s*->\s*Priority\s*\{", region2)
    if not fm:
        problems.append("treap_node.rs: `fn gen_priority() -> Priority` not found next to the generator declaration")
        return info, problems
    f_end = match_brace(region2, fm.end() - 1)
    if f_end < 0:
        problems.append("treap_node.rs: unbalanced braces in gen_priority")
        return info, problems
    body = norm(region2[fm.end():f_end - 1])
    decl = norm(region2[:fm.start()] + " " + region2[f_end:])
    info["declaration"] = decl
    info["access"] = body

    found = None
    for disc, drx, accs in SHAPES:
        dm = re.fullmatch(drx, decl)
        if not dm:
            continue
        name = dm.group(1)
        for arx in accs(re.escape(name)):
            am = re.fullmatch(arx, body)
            if am:
                found = (disc, dm, am)
                break
        if found:
            break
        problems.append(f"treap_node.rs: declaration looks like `{disc}` but the access in gen_priority is not a recognised shape: {body[:160]}")
    if not found:
        if not problems:
            problems.append(f"treap_node.rs: generator declaration is not a recognised shape: {decl[:200]}")
        disc = "unknown"
    else:
        disc, dm, am = found
        try:
            info["seed"] = parse_int(dm.group(2))
        except ValueError:
            problems.append("treap_node.rs: seed literal not parsed")
        if disc == "atomicRmw":
            info["atomic_a"] = parse_int(am.group(3))
            info["atomic_c"] = parse_int(am.group(4))

    # -- the rest of the file: the constructor is the only user, nothing else touches generator-like things
    nrest = norm(rest)
    if not re.search(r"pub fn new\(item:T\)->Self\{Self\{item,priority:gen_priority\(\),left:None,right:None,?\}\}", nrest):
        problems.append("treap_node.rs: `TreapNode::new` is no longer `Self { item, priority: gen_priority(), left: None, right: None }`")
        disc = "unknown" if disc != "racy" else disc
    if len(re.findall(r"\bgen_priority\b", code)) != 2:
        problems.append("treap_node.rs: gen_priority is referenced other than by its definition and TreapNode::new")
        disc = "unknown" if disc != "racy" else disc
    if not re.search(r"pub priority:Priority,", nrest):
        problems.append("treap_node.rs: public field `priority: Priority` not found")
    rest_nouse = re.sub(r"^\s*use\s[^;]*;", "", rest, flags=re.M)
    for tok in [r"\bstatic\b", r"thread_local", r"\bnext_raw\b", r"\bRng\b", r"\bCell\b", r"\bRefCell\b", r"\bMutex\b", r"\bAtomic\w*"]:
        if re.search(tok, rest_nouse):
            problems.append(f"treap_node.rs: `{tok}` occurs outside the generator declaration / gen_priority")
            disc = "unknown" if disc != "racy" else disc
    for u in re.findall(r"^\s*(use\s[^;]*;)", code, flags=re.M):
        if not use_ok(u):
            problems.append(f"treap_node.rs: unexpected import `{norm(u)}`")
            disc = "unknown" if disc != "racy" else disc
    if disc != "racy":
        for tok in FORBIDDEN_TOKENS:
            if re.search(tok, code):
                problems.append(f"treap_node.rs: `{tok}` present although the generator does not look like a plain `static mut` "
                                f"(classified {disc}) — not recognised, nothing is assumed")
                disc = "unknown"
    info["discipline"] = disc
    return info, problems


def blank_strings(code):
    """replace the contents of string and char literals by nothing (keeps the quotes)"""
    code = re.sub(r'"(?:\\.|[^"\\])*"', '""', code)
    return re.sub(r"'(?:\\.|[^'\\])'", "''", code)


def strip_cfg_test_mods(code):
    """remove `#[cfg(test)] mod name { ... }` blocks (test-only code is not part of the library)"""
    while True:
        m = re.search(r"#\[cfg\(test\)\]\s*(?:pub\s+)?mod\s+\w+\s*\{", code)
        if not m:
            return code
        end = match_brace(code, m.end() - 1)
        if end < 0:
            return code
        code = code[:m.start()] + " " + code[end:]


def crate_closure(repo, roots=("rlib/treap", "rlib/rand")):
    """the crates the treap depends on (path dependencies, transitively), as paths relative to the repository"""
    seen, todo = [], list(roots)
    while todo:
        c = os.path.normpath(todo.pop(0))
        if c in seen:
            continue
        seen.append(c)
        try:
            toml = open(os.path.join(repo, c, "Cargo.toml")).read()
        except OSError:
            continue
        for dep in re.findall(r'path\s*=\s*"([^"]+)"', toml):
            todo.append(os.path.join(c, dep))
    return seen


PLAIN_STATIC = (r"static\s+\w+\s*:\s*(?:&\s*(?:'static\s+)?)?(?:str|bool|char|f32|f64|[ui](?:8|16|32|64|128|size)"
                r"|\[\s*(?:&\s*(?:'static\s+)?str|bool|char|f32|f64|[ui](?:8|16|32|64|128|size))\s*(?:;\s*[\w\s+*]+)?\])\s*=")
SHARED_STATE_TOKENS = [
    (r"(?<!')\bstatic\s+mut\b", "`static mut`"),
    (r"\bunsafe\b", "`unsafe`"),
    (r"\bUnsafeCell\b|\bSyncUnsafeCell\b", "UnsafeCell"),
    (r"\*\s*mut\b|\*\s*const\b|\bNonNull\b|\bAtomicPtr\b|\baddr_of", "raw pointer"),
    (r"\bimpl\s*(?:<[^>]*>\s*)?(?:Sync|Send)\b", "`impl Sync/Send`"),
    (r"\bextern\b|no_mangle|link_name|\basm!|global_asm!", "extern/asm"),
    (r"\binclude!|#\[path", "code pulled in from another file"),
    (r"\bset_var\b|\bremove_var\b", "process environment written"),
]


def scan_shared_state(repo, generator_file, generator_region):
    """Every .rs of the treap crate, of rlib_rand and of the crates they depend on: any process-wide mutable state
    besides the whitelisted generator declaration?  -> (problems, files scanned)"""
    problems, files = [], []
    for crate in crate_closure(repo):
        src = os.path.join(repo, crate, "src")
        for dirpath, _dirs, names in os.walk(src):
            for fn in sorted(names):
                if not fn.endswith(".rs"):
                    continue
                path = os.path.join(dirpath, fn)
                rel = os.path.relpath(path, repo)
                files.append(rel)
                try:
                    code = strip_rust_comments(open(path).read())
                except OSError as e:
                    problems.append(f"{rel}: not readable: {e}")
                    continue
                if os.path.abspath(path) == os.path.abspath(generator_file) and generator_region:
                    code = code.replace(generator_region, " ", 1)
                code = strip_cfg_test_mods(blank_strings(code))
                for m in re.finditer(r"(?<!')\bstatic\b(?!\s+mut\b)", code):
                    item = code[m.start():m.start() + 160]
                    if not re.match(PLAIN_STATIC, item):
                        problems.append(f"{rel}: process-wide `static` that is not a plain constant table: `{norm(item.split(';')[0])[:110]}` "
                                        "(interior mutability / shared state between threads is not covered by the extracted discipline)")
                for rx, what in SHARED_STATE_TOKENS:
                    if re.search(rx, code):
                        problems.append(f"{rel}: {what} outside the whitelisted generator declaration")
    return problems, files


def extract_lcg(repo):
    """-> (dict A, C, mixmul, mixshift), problems"""
    problems = []
    out = {}
    try:
        lib = norm(strip_rust_comments(open(os.path.join(repo, "rlib/rand/src/lib.rs")).read()))
        lcg_src = strip_rust_comments(open(os.path.join(repo, "rlib/rand/src/lcg.rs")).read())
    except OSError as e:
        return out, [f"rlib/rand sources not readable: {e}"]
    m = re.findall(r"pub type Rng=lcg::LinearCongruentialGenerator64<" + INT + "," + INT + r">;", lib)
    if len(m) != 1:
        problems.append("rand/src/lib.rs: `pub type Rng = lcg::LinearCongruentialGenerator64<A, C>;` not found exactly once")
        return out, problems
    out["A"], out["C"] = parse_int(m[0][0]), parse_int(m[0][1])
    lcg = norm(lcg_src)
    if not re.search(r"#\[derive\((?:Copy,Clone|Clone,Copy)\)\]pub struct LinearCongruentialGenerator64<const A:u64,const C:u64>\{state:u64,?\}", lcg):
        problems.append("rand/src/lcg.rs: struct LinearCongruentialGenerator64 { state: u64 } (Copy, Clone) not found")
    if not re.search(r"pub const fn from_seed\(seed:u64\)->Self\{Self\{state:seed,?\}\}", lcg):
        problems.append("rand/src/lcg.rs: `from_seed` is no longer `Self { state: seed }`")
    for tok in (r"\bstatic\b", r"\bunsafe\b", r"thread_local", r"\bCell\b", r"\bAtomic\w*", r"\bMutex\b"):
        if re.search(tok, lcg_src):
            problems.append(f"rand/src/lcg.rs: `{tok}` present: the generator is no longer a plain value type")
    fm = re.search(r"pub fn next_raw\(&mut self\)->u64\{", lcg)
    if not fm:
        problems.append("rand/src/lcg.rs: `pub fn next_raw(&mut self) -> u64` not found")
        return out, problems
    end = match_brace(lcg, fm.end() - 1)
    body = lcg[fm.end():end - 1]
    stepx = r"self\.state=self\.state\.wrapping_mul\(A\)\.wrapping_add\(C\);"
    m1 = re.fullmatch(stepx + r"let mut z=self\.state;z=\(z\^\(z>>(\d+)\)\)\.wrapping_mul\(" + INT + r"\);z\^\(z>>(\d+)\)", body)
    m0 = re.fullmatch(stepx + r"self\.state", body)
    if m1:
        if m1.group(1) != m1.group(3):
            problems.append("rand/src/lcg.rs: the two shifts of the output scramble differ (model has one shift parameter)")
        out["mixshift"] = int(m1.group(1))
        out["mixmul"] = parse_int(m1.group(2))
        if out["mixmul"] == 0:
            problems.append("rand/src/lcg.rs: scramble multiplier 0")
    elif m0:
        out["mixshift"], out["mixmul"] = 0, 0
    else:
        problems.append(f"rand/src/lcg.rs: body of next_raw is not a recognised shape: {body[:200]}")
    return out, problems


def render_generated(info):
    disc = info["discipline"]
    decl = info.get("declaration", "").replace("-/", "- /").replace("/-", "/ -")[:300]
    acc = info.get("access", "").replace("-/", "- /").replace("/-", "/ -")[:300]
    return f"""import RlibModel.Model.TreapConc
/-!
GENERATED by `checks/C17.py` (`extract`) from the source text of `rlib/treap/src/treap_node.rs`
on every run of `./check C17` — do not edit by hand.

declaration : {decl}
access      : {acc}
-/
namespace Rlib.RngDiscipline

/-- The synchronisation discipline of the treap priority generator as found in the source. -/
def current : Rlib.TreapConc.Discipline := .{disc}

end Rlib.RngDiscipline
"""


def extract(repo):
    problems = []
    params = {}
    path = os.path.join(repo, "rlib/treap/src/treap_node.rs")
    try:
        src = open(path).read()
    except OSError as e:
        src = None
        problems.append(f"treap_node.rs not readable: {e}")
    info = {"discipline": "unknown", "declaration": "", "access": "", "seed": None, "bits": None}
    if src is not None:
        info, p1 = classify_treap_node(src)
        problems += p1
    lcg, p2 = extract_lcg(repo)
    problems += p2
    params.update({"discipline": info["discipline"], "declaration": info["declaration"], "access": info["access"],
                   "seed": info.get("seed"), "priority_bits": info.get("bits")})
    params.update(lcg)
    # side conditions of the model
    for k in ("A", "C", "mixmul", "seed"):
        if params.get(k) is not None and not (0 <= params[k] < 2 ** 64):
            problems.append(f"side condition: {k} = {params[k]} is not a u64")
    if params.get("mixshift") is not None and not (0 <= params["mixshift"] < 64):
        problems.append("side condition: scramble shift >= 64")
    if info["discipline"] == "atomicRmw" and lcg.get("A") is not None:
        if info.get("atomic_a") != lcg["A"] or info.get("atomic_c") != lcg["C"]:
            problems.append("treap_node.rs: the fetch_update closure does not use the multiplier/increment of `Rng` "
                            "(the atomic state would not follow the generator's transition)")
            params["discipline"] = info["discipline"] = "unknown"
    gen_file = os.path.join(repo, "rlib/treap/src/treap_node.rs")
    p3, scanned = scan_shared_state(repo, gen_file, info.get("region_text", ""))
    params["files_scanned"] = scanned
    if p3:
        problems += p3
        if info["discipline"] in SAFE:
            problems.append("process-wide state besides the priority generator: threads operating on their own treaps can interfere "
                            "through it — the extracted discipline does not cover it, nothing is assumed")
            info["discipline"] = "unknown"
    if any("no longer a plain value type" in q for q in p2) and info["discipline"] in SAFE:
        # the discipline of the cell says nothing if the generator itself keeps state elsewhere
        problems.append("rand/src/lcg.rs keeps state outside the value (static/unsafe/cell/atomic tokens): the discipline found in "
                        "treap_node.rs does not cover it — nothing is assumed")
        params["discipline"] = info["discipline"] = "unknown"
    if info["discipline"] == "racy":
        # recognised, and recognised as the unsynchronised shape: c17 will not compile; say so up front
        problems.append("treap_node.rs: the priority generator is a `static mut` mutated in an unsynchronised `unsafe` block "
                        "(discipline racy): data race as soon as two threads create nodes")
    params["discipline"] = info["discipline"]
    params["constants_complete"] = all(params.get(k) is not None for k in ("A", "C", "mixmul", "mixshift", "seed", "priority_bits"))
    text = render_generated(info)
    old = open(GENERATED).read() if os.path.exists(GENERATED) else None
    if old != text:
        os.makedirs(os.path.dirname(GENERATED), exist_ok=True)
        tmp = GENERATED + ".tmp"
        with open(tmp, "w") as f:
            f.write(text)
        os.replace(tmp, GENERATED)
        V.log(f"Generated/RngDiscipline.lean rewritten: discipline = {info['discipline']}")
    return params, problems


def harness_args(params, profile):
    args = ["--disc", params.get("discipline", "unknown")]
    if all(params.get(k) is not None for k in ("A", "C", "mixmul", "mixshift", "priority_bits")):
        args += ["--A", str(params["A"]), "--C", str(params["C"]), "--mixmul", str(params["mixmul"]), "--mixshift", str(params["mixshift"]),
                 "--bits", str(params["priority_bits"])]
        if params.get("seed") is not None:
            args += ["--rngseed", str(params["seed"])]
    return args


def nontrivial(case, rec):
    parts = [p.strip() for p in case.split(";")]
    ts = parts[0].split()
    if not ts:
        return False
    if ts[0] == "stream":
        return int(ts[-1]) >= 2
    if ts[0] in ("conc", "tie", "deep"):
        return int(ts[2]) >= 2 and int(ts[3]) >= 1
    if ts[0] in ("sched", "fsched") and len(parts) == 3:
        return sum(1 for m in parts[1].split() if int(m) > 0) >= 2
    return False


# ----------------------------------------------------------------------------------------------
# 3. extra steps: Miri and the failing schedule of the model
# ----------------------------------------------------------------------------------------------

MIRI_TARGET = "/tmp/verif-c17-miri-target"


def miri_available():
    try:
        r = V.run(["cargo", "+nightly", "miri", "--version"], timeout=60)
    except Exception as e:  # noqa: BLE001
        return False, f"cargo +nightly miri not runnable: {e}"
    if r.returncode != 0:
        return False, "cargo +nightly miri --version failed: " + (r.stderr or r.stdout)[-200:].strip()
    return True, (r.stdout or "").strip()


def run_miri(crate_dir, seed, disc):
    """The harness binary in `miri` mode under Miri: two threads, the harness's full `thread_work` (insert_at, remove_at,
    split_at, split_by, merge, first, last, root, root_mut, size, collect), then the same with forced equal priorities;
    compared with the same operations run alone.
    -> dict(status = clean | race | ub | interference | failed | skipped, detail, seed, cmd)"""
    cmd = ["cargo", "+nightly", "miri", "run", "--offline", "--", "miri", disc]
    env = {"MIRIFLAGS": f"-Zmiri-seed={seed}", "CARGO_TARGET_DIR": MIRI_TARGET}
    res = {"seed": seed, "cmd": f"cd {crate_dir} && CARGO_TARGET_DIR={MIRI_TARGET} MIRIFLAGS=-Zmiri-seed={seed} " + " ".join(cmd)}
    try:
        r = V.run(cmd, cwd=crate_dir, env=env, timeout=900)
    except subprocess.TimeoutExpired:
        res.update(status="failed", detail=["miri did not finish within 900 s (deadlock or livelock?)"])
        return res
    out = (r.stdout or "") + "\n" + (r.stderr or "")
    lines = out.split("\n")
    if r.returncode == 0:
        res.update(status="clean", detail=[l for l in (r.stdout or "").split("\n") if " thread " in l][:2])
        return res
    k = next((i for i, l in enumerate(lines) if "Undefined Behavior" in l), None)
    if k is not None:
        excerpt = [l.rstrip() for l in lines[k:k + 24] if l.strip()]
        res.update(status="race" if "Data race" in lines[k] else "ub", detail=excerpt)
        return res
    inter = [l for l in lines if l.startswith("INTERFERENCE")]
    if inter:
        res.update(status="interference", detail=inter[:4])
        return res
    if re.search(r"could not compile|error\[E\d+\]|failed to (?:build|find|run)|sysroot|is not installed|no such (?:sub)?command|cargo miri setup", out):
        res.update(status="skipped", detail="miri could not build/run the program (sysroot/setup missing or build error): " + out[-600:])
        return res
    # Miri ran the program and it did not end normally: deadlock, panic, abort, leak ...
    k = next((i for i, l in enumerate(lines) if l.startswith("error")), 0)
    res.update(status="failed", detail=[l.rstrip() for l in lines[k:k + 16] if l.strip()] or [out[-400:]])
    return res


def stress_failures(ctx):
    """the disagreements the generic run saw on real-thread cases, read back from its work files"""
    found = []
    for pipe in ctx["pipes"]:
        cp = os.path.join(ctx["workdir"], f"cases.{pipe.profile}")
        ip = os.path.join(ctx["workdir"], f"impl.{pipe.profile}")
        mp = os.path.join(ctx["workdir"], f"model.{pipe.profile}")
        if not (os.path.exists(cp) and os.path.exists(ip) and os.path.exists(mp)):
            continue
        with open(cp) as fc, open(ip) as fi, open(mp) as fm:
            for case in fc:
                il = fi.readline().rstrip("\n")
                ml = fm.readline().rstrip("\n")
                case = case.rstrip("\n")
                if case.split(" ", 1)[0] not in ("conc", "tie", "deep", "sched", "fsched"):
                    continue
                rec = {"impl": V.parse_impl(il), "model": V.parse_model(ml)}
                if rec["impl"] is None or rec["model"] is None:
                    found.append((case, il or "<missing: harness died>", ml))
                elif V.classify(rec) == "violation":
                    found.append((case, il, ml))
    return found


def extra(ctx):
    findings = []
    cov = ctx["coverage"]
    params = ctx["params"]
    disc = params.get("discipline", "unknown")
    tier = ctx["tier"]
    pipes = ctx["pipes"]
    extraction_failed = disc not in SAFE
    cov["discipline"] = disc

    # -- real-thread runs are not reproducible: what was observed IS the finding (the judge is deterministic given the
    #    observed streams / results), reported here without relying on a re-run
    fails = stress_failures(ctx)
    stress_failed = (not pipes) or bool(fails)
    cov["stress_disagreements"] = len(fails)
    cov["stress_disagreement_examples"] = [{"case": c, "impl": i[:400], "model": m[:200]} for c, i, m in fails[:5]]
    for c, i, m in fails[:1]:
        findings.append({"class": "violation",
                         "what": "threads building their own treaps at the same time: observed result is not what the same operations give "
                                 "sequentially (observed once on real threads; the case line re-runs the same programs)",
                         "case": c, "impl": i, "model": m, "profile": "release", "observed_once": True,
                         "other_failing_cases": [x[0] for x in fails[1:6]]})

    # -- the failing schedule of the model (split disciplines only)
    witness = None
    if extraction_failed and pipes and params.get("constants_complete"):
        p = params
        block = f"{p['A']} {p['C']} {p['mixmul']} {p['mixshift']} {p['priority_bits']} {p['seed']}"
        case = f"sched {disc} {block} ; 1 1 ; 0 1 0 1"
        try:
            r = pipes[0].eval_cases([case], "witness")[0]
            witness = {"case": case, "impl": r["impl_line"], "model": r["model_line"],
                       "explanation": "model schedule t0.load t1.load t0.store t1.store: both threads draw the same priority and one "
                                      "generator step is lost (Lean: Rlib.C17.racy_duplicate / racy_not_serializable); the implementation "
                                      "line is what two real threads produced for the same programs on this run"}
        except V.Machinery as e:
            witness = {"case": case, "error": str(e)}
        cov["model_failing_schedule"] = witness

    # -- Miri: one seed in every run, three in the thorough tier or after a failure
    miri_runs = []
    ok, note = miri_available()
    if not ok:
        cov["miri"] = {"status": "skipped", "note": note}
        V.log("miri skipped: " + note)
    else:
        crate_dir, _root = V.harness_dir(CRATE, ctx["repo"])
        seeds = [1, 2, 3] if (tier == "thorough" or extraction_failed or stress_failed) else [1]
        for s in seeds:
            res = run_miri(crate_dir, s, disc)
            miri_runs.append(res)
            if res["status"] != "clean":
                break
        cov["miri"] = {"version": note, "runs": miri_runs,
                       "program": "harness binary in `miri` mode: 2 threads x (14 draws, all treap operations) + 2 threads x (12 draws, forced equal priorities), each compared with the run alone"}
        cov["extra_evaluations"] = cov.get("extra_evaluations", 0) + sum(1 for r in miri_runs if r["status"] != "skipped")
        cov["extra_nontrivial"] = cov.get("extra_nontrivial", 0) + sum(1 for r in miri_runs if r["status"] != "skipped")

    for r in miri_runs:
        if r["status"] in ("race", "ub", "interference", "failed"):
            what = {"race": "Miri reports a data race", "ub": "Miri reports undefined behaviour",
                    "interference": "under Miri a thread's treap differs from the same operations run alone",
                    "failed": "the two-thread program did not end normally under Miri"}[r["status"]]
            findings.append({"class": "violation",
                             "what": what + " in a two-thread program creating nodes and operating on thread-owned treaps",
                             "case": f"miri two-threads -Zmiri-seed={r['seed']}",
                             "impl": " / ".join(r["detail"][:6]) if isinstance(r["detail"], list) else str(r["detail"]),
                             "model": (witness or {}).get("model", ""),
                             "replay_cmd": r["cmd"], "miri": r["detail"], "model_failing_schedule": witness})
        elif r["status"] == "skipped":
            V.log("miri skipped: " + str(r["detail"])[:300])
    if not findings and extraction_failed and disc == "racy" and witness and "model" in witness:
        # recognised as the unsynchronised shape: the model's failing schedule is the replay
        findings.append({"class": "violation",
                         "what": "priority generator is an unsynchronised static mut: the model duplicates a draw on the schedule below",
                         "case": witness["case"], "impl": witness.get("impl", ""), "model": witness.get("model", ""),
                         "model_failing_schedule": witness})
    return findings


def replay(ctx, rp):
    """`./check C17 --replay f`: the generic code has already re-run the case lines through harness and driver; a Miri
    finding is re-run here with the recorded seed (deterministic for a given -Zmiri-seed)."""
    bad = False
    for c in rp.get("cases", []):
        m = re.match(r"miri two-threads -Zmiri-seed=(\d+)", c.get("case", ""))
        if not m:
            continue
        ok, note = miri_available()
        if not ok:
            print(f"miri replay skipped: {note}")
            continue
        crate_dir, _root = V.harness_dir(CRATE, ctx["repo"])
        res = run_miri(crate_dir, int(m.group(1)), ctx["params"].get("discipline", "unknown"))
        print(f"miri replay (seed {m.group(1)}): {res['status']}")
        bad = bad or res["status"] in ("race", "ub", "interference", "failed")
        for line in (res["detail"] if isinstance(res["detail"], list) else [str(res["detail"])]):
            print("  " + line)
    return bad
