"""C14 — random draws respect range and seed; shuffle is a fair permutation (engine `rand`)."""
import json
import math
import os
import re
import subprocess

ID = "C14"
ENGINE = "rand"
CRATE = "e_rand"
DRIVER = "drv_rand"
DRIVER_MODULE = "Driver.Rand"
PROPS = "RlibModel.Props.C14"
PROPS_SRC = "RlibModel.Props.C14Src"     # second tie: `src_*` theorems about the definitions regenerated from the source text
PROFILES = ["release"]
SHRINK_SEP = ";"
RULE = ("case kinds: gen (gen_from_u64 of one integer range on a list of adversarial raw words 0, 1, len-1, len, len+1, "
        "2len-1, k*len-1/k*len/k*len+1 for the largest k and a random k, 2^53+-1, 2^63, 2^64-1, random): every (start,end) of i8/u8 "
        "for `..` and `..=` (thorough; boundary set + 1/16 sample in quick), every `..e`, `..=e`, full; boundary lengths "
        "{1,2,3,2^k,2^k+-1,MAX,full} x boundary starts for the 16/32/64-bit and pointer-sized types; random ranges of all 10 "
        "types x 5 forms (about 6% empty -> panic:assert expected); cover (all raws base..base+len-1 reach every value exactly "
        "once); float (Range<f64> on 20 raws near 0, 2^11, 2^53, 2^63, 2^64: bit-exact against the same IEEE operations in Lean "
        "`Float` + predicate start <= x < end; huge/tiny/negative/adjacent/overflowing-length/infinite/NaN bounds); stream "
        "(next_raw words for a seed; equal seeds and a Copy taken mid-stream agree; equal to the model's LCG+scramble); draws "
        "(next(range) x 24 from a seed); fdraws (next(start..end) on f64 x 16 from a seed, bit-exact); period (next(0..m) has no period p on p+96 draws); shuffle (seeded: multiset "
        "preserved, equals the model's shuffle, generator state afterwards equal); shufraw (the trait's shuffle driven by a "
        "replayed raw stream: every draw vector for slices <= 6 (quick) / <= 8 (thorough), adversarial words); shufall (all n! draw vectors, also offset by multiples of i+1, produce every permutation exactly once, "
        "n <= 7 quick / 8 thorough); permstat "
        "(permutation frequencies over consecutive seeds; `permstat:<elt>[-d|-w]`: the same on slices of [u64;16], String, Box, tuple, u8 elements "
        "and through the other receivers); multi (1-3 generators `LinearCongruentialGenerator64<A, C>` - `Rng` in 3/4 of the lines, "
        "else one of 7 other const-parameter pairs incl. <1,1>, <0,0>, <MAX,MAX> - from equal/boundary/random seeds, alive together and used "
        "interleaved for up to 64 operations: draws (next_raw, next(range) of all 10 types x 5 forms, next(f64 range), shuffle of 0..4000 elements of 7 "
        "element types incl. String, 128-byte arrays, zero-sized, Box) through three receivers (method syntax on the concrete type, generic "
        "`R: Rand` code, a forwarding wrapper whose shuffle is the trait's default body); copies of a generator by 34 routes (bit copies: let, "
        "deref, Cell::get, by value, copied(); Clone::clone: .clone(), UFCS, generic T: Clone, to_owned, Option/tuple/array/Box/Rc/Rc::make_mut/"
        "Arc::unwrap_or_clone/Cow/RefCell/Vec/vec![x; n]/resize/iter::repeat/cloned(), derived Clone of a struct / enum / nested struct holding "
        "a generator; Clone::clone_from into a fresh and into a used generator, derived clone_from of a holder), assignment into a USED generator "
        "by 6 routes (=, clone_from, = clone(), mem::replace, mem::swap, UFCS clone_from), whole-vector copies by 9 routes (Vec::clone, to_vec, "
        "iter().cloned(), extend_from_slice, Box<[_]>::clone, Vec::clone_from into a used vector, copied(), Vec of holders, arrays), re-seeding "
        "from a drawn word, new generators from an already used seed; each kind of copy is forced at least 4 times per run; after a copy the "
        "original and the copy are both drawn from; every line ends with next_raw on every live generator). non-trivial = distinct in-domain case that is not a gen line of a "
        "range with fewer than two values")
ASSUMPTIONS = [
    "the Lean model of rlib_rand is hand-written; it is tied to the code by running both on the same cases",
    "LCG constants A, C (lib.rs), the scramble's shifts and multiplier (lcg.rs) and the float draw's shift/width (randomable.rs) are "
    "extracted from the source on every run into lean/RlibModel/Generated/RandParams.lean; their side conditions (A = 1 mod 4, C odd, "
    "multiplier odd, 2*shift >= 64, shift+bits = 64, bits <= 53) are re-proved by `decide` in Props/C14.lean and re-evaluated by the extractor",
    "harness built with overflow-checks=true so a wrapped `start - 1`, `end + 1` or `+ start` shows up as panic:overflow",
    "isize/usize are 64-bit on this target",
    "float draws: Lean `Float` and Rust `f64` execute the same IEEE-754 binary64 operations (+ - * / <, u64 -> f64) on this machine; the "
    "theorems float_range_in / float_range_in_binary64 are about exact rationals with a (concrete RNE-53, subnormals) rounding and no overflow, "
    "float_range_lt_end about any arithmetic",
    "the integer types are exactly the five make_randomable!(..) pairs (pinned by extract; another invocation or impl = broken correspondence)",
    "multi lines: the implementation's view is computed by an independent oracle inside the harness - for every draw, a FRESH generator "
    "made by from_seed(the seed of that generator's lineage) and only ever bit-copied replays, through generic R: Rand code, all draw "
    "operations the lineage has seen and must then observe the same value (the oracle replays operations, it does not count words, so a "
    "shuffle that legitimately consumes another number of words is not reported); plus in-range / permutation per draw. The model side is "
    "Multi.run (a generator is its state; every kind of copy copies the state), proved equal to the lineage specification Multi.specRun for "
    "every history (multi_run_eq_spec). Which Rust entry point made a copy (<kind>) and which receiver made a draw (<recv>) mean nothing to the model",
    "STATISTICS ARE TESTED, NOT PROVED: permutation frequencies of shuffle (chi-square, reachability) and absence of short periods of "
    "next(0..m) are properties of one concrete PRNG; they are measured by `e_rand stat` and by permstat/period cases",
]
TRUSTED_EXTRA = ["IEEE-754 binary64 arithmetic of the CPU (float draw)", "std slice::swap, Range::is_empty"]
MANIFEST = {
    "level": "proof (partial)",
    "text": ("Lean 4 theorems about an executable model of rlib_rand (one definition generic in width/signedness, explicit wrap-around casts, "
             "checked +/-, asserts as panics): int_range_in / int_range_onto / int_range_empty for all five range forms, every width >= 1 "
             "(onto: <= 64), both signednesses and every raw word, full range included; seed_determinism (stream = scramble of the iterated "
             "LCG step, copies evolve equally - definitional in a pure model: the evidence for the determinism clause is the `stream` "
             "differential, equal seeds / Copy clones, and the `multi` differential for copies made through Clone::clone / clone_from / containers / "
             "derived Clone); multi_run_eq_spec (any number of live generators used interleaved, copied, assigned into one another and re-seeded "
             "from drawn words: every operation returns the words that the generator's lineage (seed, words consumed) prescribes), "
             "copy_and_original_agree, assigned_copy_agrees; mix_bijective (xor-shift and odd multiplication mod 2^64 are inverted explicitly); "
             "lcg_full_period (Hull-Dobell for modulus 2^64) hence every 64-bit word is output exactly once per period; "
             "lcg_state_low_bits_periodic (why the raw state must not be returned); shuffle_perm for every draw stream and slice; "
             "shuffle_onto (every permutation is produced by in-range draws); float_range_lt_end for any arithmetic and float_range_in for "
             "any monotone rounding that fixes representable numbers, instantiated (float_range_in_binary64) with round-to-nearest-even to 53 "
             "bits with gradual underflow at 2^-1074, proved monotone with every double a fixed point. The model is tied to the crate by a differential run on every check."),
    "note": ("PARTIAL: permutation frequencies of shuffle and the absence of short periods in next(0..m) are statistics of one concrete PRNG "
             "and are TESTED (chi-square with a fixed generous bound over >= 10^5 seeds for lengths 2..6, every permutation reached; period "
             "scan m <= 64, periods <= 4096), not proved. The float lower bound is proved for binary64 rounding without overflow (rationals, RNE 53 bits, subnormals); "
             "overflow to infinity / NaN is covered by float_range_lt_end (upper bound, any arithmetic) and the bit-exact differential run. "
             "`period` and `permstat` case lines carry a tested claim: the driver prints V := S for them. Trusted: Lean kernel, axioms "
             "propext/Classical.choice/Quot.sound, the hand-written model, constant extraction by anchored regexes, harness and driver plumbing."),
    "technique": "Lean 4 proof of a hand-written model + differential correspondence check against the Rust crate + statistical tests (labelled)",
    "design_ref": "DESIGN.md §6 C14",
}

VERIF = os.path.dirname(os.path.dirname(os.path.abspath(__file__)))
GENERATED = os.path.join(VERIF, "lean", "RlibModel", "Generated", "RandParams.lean")

# chi-square acceptance bound for n = 2..7 (cells = n!): df + 8*sqrt(2*df) + 20, rounded up. The same table is
# compiled into the harness (`CHI2_BOUND`) and the driver (`chi2Bound`).
EXPECTED_INT_PAIRS = [("i8", "u8"), ("i16", "u16"), ("i32", "u32"), ("i64", "u64"), ("isize", "usize")]
CHI2_BOUND = {2: 33, 3: 51, 4: 98, 5: 263, 6: 1043, 7: 5863}


def _num(tok):
    tok = tok.replace("_", "")
    return int(tok, 16) if tok.lower().startswith("0x") else int(tok)


def render_params(p):
    return (
        "/- GENERATED by checks/C14.py (`extract`) from rlib/rand/src/{lib.rs,lcg.rs,randomable.rs}; do not edit.\n"
        "   Rewritten (only when the content changes) on every `./check C14`. -/\n"
        "namespace Rlib.Rand.Params\n"
        "/-- lib.rs: `pub type Rng = lcg::LinearCongruentialGenerator64<A, C>` -/\n"
        f"def lcgA : Nat := {p['lcg_A']}\n"
        f"def lcgC : Nat := {p['lcg_C']}\n"
        "/-- lcg.rs `next_raw`: `z = (z ^ (z >> mixShift1)).wrapping_mul(mixMul); z ^ (z >> mixShift2)` -/\n"
        f"def mixShift1 : Nat := {p['mix_shift1']}\n"
        f"def mixMul : Nat := {p['mix_mul']}\n"
        f"def mixShift2 : Nat := {p['mix_shift2']}\n"
        "/-- randomable.rs `Range<f64>`: `(rng >> floatShift) as f64 / (1u64 << floatBits) as f64` -/\n"
        f"def floatShift : Nat := {p['float_shift']}\n"
        f"def floatBits : Nat := {p['float_bits']}\n"
        "end Rlib.Rand.Params\n"
    )


def extract(repo):
    """A, C from lib.rs; the LCG step and the output scramble from lcg.rs; the float draw's constants from randomable.rs."""
    problems = []
    params = {}
    src = {}
    for name in ("lib.rs", "lcg.rs", "randomable.rs", "mrand.rs"):
        path = os.path.join(repo, "rlib", "rand", "src", name)
        try:
            src[name] = open(path).read()
        except OSError as e:
            return params, [f"cannot read {path}: {e}"]
    # line comments are not code: a pattern must not be satisfied by commented-out text
    src = {k: re.sub(r"//[^\n]*", "", v) for k, v in src.items()}
    num = r"(0x[0-9a-fA-F_]+|[0-9_]+)"
    m = re.search(r"^\s*pub\s+type\s+Rng\s*=\s*lcg::LinearCongruentialGenerator64\s*<\s*" + num + r"\s*,\s*" + num + r"\s*>\s*;", src["lib.rs"], flags=re.M)
    if m:
        params["lcg_A"], params["lcg_C"] = _num(m.group(1)), _num(m.group(2))
    else:
        problems.append("lib.rs: `pub type Rng = lcg::LinearCongruentialGenerator64<A, C>;` not found")
    lcg = src["lcg.rs"]
    if not re.search(r"self\.state\s*=\s*self\.state\.wrapping_mul\(A\)\.wrapping_add\(C\)\s*;", lcg):
        problems.append("lcg.rs: state transition is no longer `self.state = self.state.wrapping_mul(A).wrapping_add(C);`")
    if not re.search(r"pub\s+const\s+fn\s+from_seed\(seed:\s*u64\)\s*->\s*Self\s*\{\s*Self\s*\{\s*state:\s*seed\s*\}\s*\}", lcg):
        problems.append("lcg.rs: `from_seed` no longer stores the seed as the state")
    m = re.search(r"let\s+mut\s+z\s*=\s*self\.state\s*;\s*z\s*=\s*\(z\s*\^\s*\(z\s*>>\s*(\d+)\)\)\.wrapping_mul\(\s*" + num +
                  r"\s*\)\s*;\s*z\s*\^\s*\(z\s*>>\s*(\d+)\)\s*\}", lcg)
    if m:
        params["mix_shift1"], params["mix_mul"], params["mix_shift2"] = int(m.group(1)), _num(m.group(2)), int(m.group(3))
    else:
        problems.append("lcg.rs: next_raw no longer ends in the output scramble "
                        "`let mut z = self.state; z = (z ^ (z >> s1)).wrapping_mul(M); z ^ (z >> s2)`")
    if not re.search(r"range\.gen_from_u64\(self\.next_raw\(\)\)", lcg):
        problems.append("lcg.rs: `next` is no longer `range.gen_from_u64(self.next_raw())`")
    rnd = src["randomable.rs"]
    m = re.search(r"let\s+unit\s*=\s*\(rng\s*>>\s*(\d+)\)\s*as\s+f64\s*/\s*\(1u64\s*<<\s*(\d+)\)\s*as\s+f64\s*;", rnd)
    if m:
        params["float_shift"], params["float_bits"] = int(m.group(1)), int(m.group(2))
    else:
        problems.append("randomable.rs: `let unit = (rng >> S) as f64 / (1u64 << B) as f64;` not found in Range<f64>")
    if not re.search(r"let\s+x\s*=\s*unit\s*\*\s*len\s*\+\s*self\.start\s*;\s*if\s+x\s*<\s*self\.end\s*\{\s*x\s*\}\s*else\s*\{\s*self\.start\s*\}", rnd):
        problems.append("randomable.rs: Range<f64> no longer ends in `let x = unit * len + self.start; if x < self.end { x } else { self.start }`")
    # the set of integer types the property quantifies over = the macro invocations; the harness drives exactly these
    pairs = re.findall(r"^\s*make_randomable!\(\s*(\w+)\s*,\s*(\w+)\s*\)\s*;", rnd, flags=re.M)
    params["int_types"] = [f"{a}/{b}" for a, b in pairs]
    if pairs != EXPECTED_INT_PAIRS:
        problems.append("randomable.rs: the `make_randomable!(..)` invocations are no longer exactly "
                        f"{EXPECTED_INT_PAIRS} (found {pairs}): harness type list, model (`len as u64` is exact only up to 64 bits, "
                        "int_range_onto needs width <= 64) and source disagree")
    n_impl = len(re.findall(r"impl\s+Randomable<", rnd))
    inv = re.findall(r"implement_ranges!\(\s*([^)]*?)\s*\)\s*;", rnd)
    if n_impl != 7 or inv != ["$it", "$ut"]:
        problems.append(f"randomable.rs: expected 7 textual `impl Randomable<..>` blocks and implement_ranges!($it)/($ut) only "
                        f"(found {n_impl} blocks, invocations {inv}): an implementation exists that the harness does not drive")
    if len(re.findall(r"impl\s+Randomable<f64>\s+for", rnd)) != 1 or re.search(r"impl\s+Randomable<f32>", rnd):
        problems.append("randomable.rs: float implementations are no longer exactly `impl Randomable<f64> for Range<f64>`")
    if not re.search(r"for\s+i\s+in\s+1\.\.v\.len\(\)\s*\{\s*v\.swap\(i,\s*self\.next\(0\.\.=i\)\);\s*\}", src["mrand.rs"]):
        problems.append("mrand.rs: shuffle is no longer `for i in 1..v.len() { v.swap(i, self.next(0..=i)); }`")
    # side conditions of the theorems, evaluated on the extracted values (Props/C14.lean re-proves them with `decide`)
    if "lcg_A" in params:
        if params["lcg_A"] % 4 != 1:
            problems.append(f"side condition A % 4 = 1 (full period) fails for A = {params['lcg_A']}")
        if params["lcg_C"] % 2 != 1:
            problems.append(f"side condition C odd (full period) fails for C = {params['lcg_C']}")
        if not (params["lcg_A"] < 2 ** 64 and params["lcg_C"] < 2 ** 64):
            problems.append("A or C does not fit u64")
    if "mix_mul" in params:
        if params["mix_mul"] % 2 != 1:
            problems.append(f"side condition `multiplier odd` (scramble bijective) fails for {params['mix_mul']:#x}")
        for k in ("mix_shift1", "mix_shift2"):
            if not (1 <= params[k] and 64 <= 2 * params[k]):
                problems.append(f"side condition 32 <= {k} (xor-shift is an involution on 64-bit words) fails for {params[k]}")
    if "float_shift" in params:
        if params["float_shift"] + params["float_bits"] != 64 or params["float_bits"] > 53:
            problems.append(f"side condition shift + bits = 64, bits <= 53 (unit draw exact and < 1) fails for {params['float_shift']}, {params['float_bits']}")
    want = ["lcg_A", "lcg_C", "mix_shift1", "mix_mul", "mix_shift2", "float_shift", "float_bits"]
    if all(k in params for k in want):
        text = render_params(params)
        try:
            old = open(GENERATED).read()
        except OSError:
            old = None
        if old != text:
            os.makedirs(os.path.dirname(GENERATED), exist_ok=True)
            with open(GENERATED, "w") as f:
                f.write(text)
    return params, problems


def nontrivial(case, rec):
    toks = case.split(";")[0].split()
    if not toks:
        return False
    if toks[0].startswith("gen:"):
        try:
            form, a, b = toks[1], int(toks[2]), int(toks[3])
        except (IndexError, ValueError):
            return False
        if form == "range":
            return b - a >= 2
        if form == "incl":
            return b - a >= 1
        if form == "to":
            return b >= 2
        if form == "toincl":
            return b >= 1
        return True
    return True


def extra(ctx):
    """Statistical part of C14 — TESTING, not proof (`e_rand stat`): permutation frequencies of shuffle for lengths 2..6 over
    >= 10^5 consecutive and >= 10^5 random seeds (every permutation reached, chi-square under a fixed generous bound), and a
    period scan of next(0..m), m <= 64 (no period <= 4096 on 12288 draws)."""
    out = []
    cov = ctx["coverage"]
    if not ctx["pipes"]:
        return out
    pipe = ctx["pipes"][0]
    r = subprocess.run([pipe.bin, "stat", "--seed", str(ctx["seed"]), "--tier", ctx["tier"]],
                       stdout=subprocess.PIPE, stderr=subprocess.PIPE, text=True, timeout=3600)
    if r.returncode != 0:
        return [{"class": "broken", "what": f"e_rand stat failed rc={r.returncode}: {r.stderr[-300:]}"}]
    perm_rows, period_rows = [], []
    for line in r.stdout.split("\n"):
        line = line.strip()
        if not line.startswith("{"):
            continue
        row = json.loads(line)
        (perm_rows if row["kind"] == "perm" else period_rows).append(row)
    shuffles = 0
    perm_viol = 0
    for row in perm_rows:
        shuffles += row["nseeds"]
        bound = CHI2_BOUND[row["n"]]
        ok = row["bad"] == 0 and row["reached"] == row["cells"] and row["chi2"] <= bound
        if not ok:
            perm_viol += 1
            if perm_viol == 1:
                what = (f"TESTED (statistics): shuffle of {row['n']} elements over {row['nseeds']} {row['seeds']} seeds reaches "
                        f"{row['reached']}/{row['cells']} permutations, chi2={row['chi2']} (df={row['df']}, bound {bound}), bad={row['bad']}")
                case = f"permstat {row['n']} {min(row['nseeds'], 100000)} 0" if row["seeds"] == "sequential" else what
                out.append({"class": "violation", "what": what, "case": case, "impl": json.dumps(row)})
    draws = 0
    per_viol = 0
    for row in period_rows:
        draws += row["len"]
        if row["period"] is not None:
            per_viol += 1
            if per_viol == 1:
                p = row["period"]
                out.append({"class": "violation",
                            "what": f"TESTED (statistics): next(0..{row['m']}) from seed {row['seed']} is periodic with period {p} on {row['len']} draws: {row['head']},…",
                            "case": f"period:u32 {row['m']} {row['seed']} {p + 96} {p}", "impl": json.dumps(row)})
    cov["statistics_TESTED_not_proved"] = {
        "permutation_frequency_rows": [{k: row[k] for k in ("n", "seeds", "nseeds", "cells", "reached", "chi2", "df", "min", "max")} for row in perm_rows],
        "chi2_bound_by_n": CHI2_BOUND,
        "period_scan": {"moduli": "2..64", "seeds_per_modulus": len(period_rows) // 63 if period_rows else 0,
                        "draws_per_sequence": period_rows[0]["len"] if period_rows else 0, "max_period_searched": 4096,
                        "sequences": len(period_rows), "periodic_sequences": per_viol},
    }
    cov["extra_evaluations"] = len(perm_rows) + len(period_rows)
    cov["extra_nontrivial"] = len(perm_rows) + len(period_rows)
    cov["extra_shuffles"] = shuffles
    cov["extra_period_draws"] = draws
    if not perm_rows or not period_rows:
        out.append({"class": "broken", "what": "e_rand stat printed no rows"})
    return out


# ---- second tie: the integer draw impls and next_raw regenerated from the source text on every run (tools/rs2lean_typed.py) ----
ASSUMPTIONS.append(
    "second tie: the model's genRange/genIncl/gen (all five integer range forms, signed and unsigned, every width <= 64) and nextRaw "
    "are proved equal (theorems src_*_eq_model) to the definitions that tools/rs2lean_typed.py regenerates on every run from the text of "
    "rlib/rand/src/randomable.rs (macro bodies translated once, the macro's type parameters as IntTy parameters; the invocation list "
    "is regenerated too and proved to have the assumed shape) and rlib/rand/src/lcg.rs; trusted there: the translator, its reading of "
    "the primitive integer operations and of std's Range/RangeInclusive (fields, start()/end(), is_empty); not translated: Range<f64>, "
    "from_time, the generic `next`, mrand.rs")
MANIFEST["technique"] += " + source-to-Lean translation of randomable.rs / lcg.rs regenerated and proved equal to the model on every run"

_extract_constants = extract


def extract(repo):
    """The constants (above), then the translation of randomable.rs and lcg.rs into Generated/RandSrc.lean, Generated/LcgSrc.lean
    (written only when the text changes; a construct outside the translator's subset is a broken correspondence and leaves a
    generated file without definitions, so the src_* theorems stop compiling too)."""
    params, problems = _extract_constants(repo)
    import sys
    verif = os.path.dirname(os.path.dirname(os.path.abspath(__file__)))
    tools = os.path.join(verif, "tools")
    if tools not in sys.path:
        sys.path.insert(0, tools)
    import rs2lean_typed
    gen = os.path.join(verif, "lean", "RlibModel", "Generated")
    rel1, rel2 = "rlib/rand/src/randomable.rs", "rlib/rand/src/lcg.rs"
    i1, p1 = rs2lean_typed.run(os.path.join(repo, rel1), os.path.join(gen, "RandSrc.lean"), "Rlib.RandSrc", rel1, ID, None,
                               ["gen_from_u64"], macro="make_randomable")
    i2, p2 = rs2lean_typed.run(os.path.join(repo, rel2), os.path.join(gen, "LcgSrc.lean"), "Rlib.LcgSrc", rel2, ID,
                               "LinearCongruentialGenerator64", ["from_seed", "next_raw"])
    params["translated_functions"] = i1.get("functions", []) + i2.get("functions", [])
    params["translated_macro_instances"] = i1.get("instances", [])
    params["generated_files"] = ["lean/RlibModel/Generated/RandSrc.lean", "lean/RlibModel/Generated/LcgSrc.lean"]
    params["generated_files_rewritten"] = [bool(i1.get("rewritten")), bool(i2.get("rewritten"))]
    return params, problems + p1 + p2


_extra_engine = extra


def extra(ctx):
    """The engine's own extra steps, then a plain-words verdict on the second tie when the src_* proofs did not build."""
    out = list(_extra_engine(ctx))
    import rs2lean
    fns = ctx["params"].get("translated_functions", [])
    ok = "next_raw" in fns and any(f.startswith("Range_") for f in fns)
    return out + rs2lean.tie_findings(["RlibModel/Generated/RandSrc.lean", "RlibModel/Generated/LcgSrc.lean"],
                                      "RlibModel/Lemmas/RandSrc.lean", ok, "rlib/rand/src/{randomable.rs,lcg.rs}")
