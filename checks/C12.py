"""C12 — bitset operations agree with a set of indices (engine `bitset`)."""
ID = "C12"
ENGINE = "bitset"
CRATE = "e_bitset"
DRIVER = "drv_bitset"
DRIVER_MODULE = "Driver.Bitset"
PROPS = "RlibModel.Props.C12"
PROFILES = ["release"]
SHRINK_SEP = ";"
RULE = ("a case is one history `N K ; op ; ...` over K live Bitset<N> registers, N in {1,2,3,10}; at its end every register is "
        "observed through test on all 64N indices, count, iter_bits collected, Display, Debug and == on all register pairs. "
        "Streams: (A) every pool set x every word-boundary position x set/remove/flip; (B) all ordered pairs of the 40 structured "
        "pool sets per N through &,|,^ and &=,|=,^= (quick: all 1600 pairs for N=1, a sub-grid for the others); (C) !, !!, clear, "
        "self-assigning ops on every pool set; (D) from_u64 on every single-bit word and special words; (E) every single-bit set "
        "and boundary bit pairs (iterator); (F) random histories of set/remove/flip/test/clear/new/from_u64/binary/assigning/not/"
        "clone/load with positions biased to 0,63,64,65,64k-1,64k,64N-1; (G) a small out-of-domain stream (positions >= 64N, "
        "spec answer `any`). non-trivial = distinct in-domain history with at least one state-changing op")
ASSUMPTIONS = [
    "the Lean model of rlib_bitset is hand-written; it is tied to the code by running both on the same histories",
    "u64::count_ones / u64::trailing_zeros are modelled by bit recursion (popcnt, tz); their agreement with the intrinsics is "
    "exercised by the correspondence run, not proved",
    "theorems about count / iter_bits / Display carry the capacity guard 64*N + 64 <= 2^64 (no usize overflow); every array that "
    "fits a 64-bit address space satisfies it",
]
TRUSTED_EXTRA = ["harness watchdog: a case that burns 2 s of CPU time without returning is reported as `hang` (a violation)"]
MANIFEST = {
    "level": "proof",
    "text": ("Lean 4 theorems over a word-level model (List of u64 words, any N): set/remove/flip/clear/new/from_u64/and/or/xor/not "
             "and the assigning forms act on the membership function exactly as the set operations; count = number of members; "
             "BitsIter yields exactly the members in ascending order, once each, and terminates (fuel bound proved); == is "
             "extensional equality on [0,64N); Display/Debug are the 0/1 string of test; every history over named bitsets refines "
             "the same history over sets; the invariant 'N words, each < 2^64' is preserved. The hand-written model is tied to "
             "rlib_bitset by a differential correspondence run on every check."),
    "note": ("Trusted: Lean kernel, axioms propext/Classical.choice/Quot.sound, the hand-written model (checked against the code on the "
             "generated histories for N in {1,2,3,10}), count_ones/trailing_zeros intrinsics = their bit-recursive models, harness and "
             "driver plumbing. usize overflow is excluded by the guard 64N+64 <= 2^64."),
    "technique": "Lean 4 proof of a hand-written model + differential correspondence check against the Rust crate",
    "design_ref": "DESIGN.md §6 C12",
}

_CHANGING = ("set", "remove", "flip", "from", "load", "not", "and", "or", "xor", "anda", "ora", "xora", "clear", "clone")


def nontrivial(case, rec):
    ops = [p.split() for p in case.split(";")[1:]]
    return any(o and o[0] in _CHANGING for o in ops)
