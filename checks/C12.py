"""C12 — bitset operations agree with a set of indices (engine `bitset`)."""
ID = "C12"
ENGINE = "bitset"
CRATE = "e_bitset"
DRIVER = "drv_bitset"
DRIVER_MODULE = "Driver.Bitset"
PROPS = "RlibModel.Props.C12"
PROPS_SRC = "RlibModel.Props.C12Src"     # second tie: `src_*` theorems about the definitions regenerated from the source text
PROFILES = ["release", "debug"]     # debug: debug assertions on, no optimisation - a reduced stream of the same families (harness_args)
SHRINK_SEP = ";"
RULE = ("a case is one history `N K ; op ; ...` over K live Bitset<N> registers; the const generic N is instantiated for 1, 2, 3, 10 and the "
        "64-word boundary family 63, 64, 65, 128, 129 and the 256-word / 512-word boundary family 256, 257, 512, 513 (the harness's compiled-in list IS the "
        "instantiation list). At the end of the history every "
        "register is observed through test on all 64N indices, count, iter_bits collected, Display, Debug, the iterator probes, and == / != on all "
        "register pairs; `obs r` makes the same observation of one register in the MIDDLE of the history (several bitsets alive, observed before "
        "and after they and their neighbours change). Iterator probes: a fresh BitsIter advanced by k = 0, 1, 2, l/2, l-1, l, l+1 calls of next "
        "(l = number of members; l and l+1 = exhausted, next called again after None) and then used through count, last, collect, nth(j)+by_ref, "
        "peekable, skip, size_hint and (k = 0, 1, l/2, l) fold, for_each, sum, product, min, max, max_by_key / min_by_key / max_by / min_by with ties, "
        "position, find, find_map, any, all, try_fold (each followed by count() of what is left), reduce, cmp / partial_cmp / eq / ne / lt / le / gt / ge "
        "against the same iterator one step further, step_by, take, skip_while, chain, zip, enumerate, Vec::extend, partition, is_sorted. Field x= of "
        "every observation: BitsIter::new on the raw words, to_string, {:#?}, Debug inside Option, clone, clone_from into a fresh and into a used "
        "destination, Default, & | ^ with the SAME object on both sides, &= |= ^= with an equal right-hand side, !!b, count vs iter; (wave 5) nth / by_ref().nth / skip / step_by / take / skip(1).step_by with usize arguments 2^32, 2^32+1, "
        "2^32+rem-1, 2^32+rem, 5*2^32+2, 2^40, 2^63, usize::MAX on an iterator advanced by 0, 1, l/2, l calls of next (more than 64 members: 2^32, 2^32+1, usize::MAX "
        "after 0 and l/2 calls); Display / Debug / {:#?} written into a fmt::Write sink that accepts 0, 1, 32N, 64N-1 bytes and then fails (must be Err, accepted bytes a "
        "prefix of the rendering) and 64N bytes (must be Ok and complete), followed by a normal rendering of the same bitset, of its complement, of a fresh Bitset<N>, "
        "Bitset<1>, Bitset<3> on the same thread (N >= 10: one sink size and mode per observation, rotating with the number of members). Ops also include "
        "clone_from into a live register, Default::default, the assigning operators on the live right-hand register. "
        "Streams: (A) every pool set x every word-boundary position x set/remove/flip; (B) ordered pairs of the 40 structured "
        "pool sets per N through &,|,^ and &=,|=,^= (quick: a sub-grid rotating with the seed); (C) !, !!, clear, self-assigning ops, the same "
        "register on both sides of & | ^, clone_from / default on every pool set; (D) from_u64 on every single-bit word and special words; (E) every "
        "single-bit set and boundary bit pairs (iterator); (F) random histories of all ops with positions biased to 0,63,64,65,64k-1,64k,64N-1; "
        "(G) a small out-of-domain stream (positions >= 64N, spec answer `any`); (H) live-object histories with mid-history observations; "
        "(I) the same families for N = 63, 64, 65, 128, 129 on sparse and a few dense sets with members around 4031/4032/4095/4096/4097/8191/8192 "
        "(quick: full reduced stream for 65 and 129, lighter for 63, 64, 128); (J) N = 256, 257, 512, 513: rendering, iteration, count, probes, point operations, "
        "& | ^ and &= |= ^= on pairs, == / != , from_u64, live objects and random histories on nine sparse sets (only word 0 non-empty, only the last bit, members on both "
        "sides of bits 4096 / 8192 / 16384 / 32768, one bit per word in the first 256 words only / from word 256 on only, word 255 full, last word full, ...) and the full "
        "set (count 16448 / 32832); the other dense sets, all pool pairs and all boundary positions in the thorough tier (quick: about 30 cases each for 257 and 513, "
        "about 12 each for 256 and 512). A second, reduced run uses the debug build profile. "
        "non-trivial = distinct in-domain history with at least one state-changing op")
ASSUMPTIONS = [
    "the Lean model of rlib_bitset is hand-written; it is tied to the code by running both on the same histories",
    "u64::count_ones / u64::trailing_zeros are modelled by bit recursion (popcnt, tz); their agreement with the intrinsics is "
    "exercised by the correspondence run, not proved",
    "theorems about count / iter_bits / Display carry the capacity guard 64*N + 64 <= 2^64 (no usize overflow); every array that "
    "fits a 64-bit address space satisfies it",
    "std's provided Iterator methods are specified by their std definitions as functions of the list `next` still yields (showProvided / "
    "showProbe in Model/Bitset.lean, executed on the model side on the list obtained by stepping the model's next and on the spec side on "
    "members.drop k; theorem iter_remaining proves the two lists equal); the same values are recomputed in the harness from a Vec<bool> "
    "mirror with plain loops (independent oracle, flag o=)",
    "the driver executes runCaseFast / specRunCaseFast (Model/Bitset.lean: the words of a register, and of a loaded set, converted to an array once per "
    "observation instead of list indexing per position); they are proved equal to runCase / specRunCase for every capacity, register count and history "
    "(theorems fast_path_eq, observeRegFast_eq, history_observed_fast) - no csimp / implemented_by is involved",
    "the x= field (BitsIter::new on raw words, ToString, {:#?}, Debug inside Option, clone / clone_from / Default, same-object operators, "
    "equal-operand assigning operators, !!, (wave 5) provided iterator methods with arguments >= 2^32 and renderings into failing sinks followed by normal renderings) is checked by an independent brute-force oracle inside the harness (Vec<bool> mirror, results read back "
    "through test on every index); the model prints the constant x=ok. `default d` and `clonefrom d s` are read by the driver as the model's new / clone",
]
TRUSTED_EXTRA = ["harness watchdog: a case that burns 2 s of CPU time without returning is reported as `hang` (a violation)"]
MANIFEST = {
    "level": "proof",
    "text": ("Lean 4 theorems over a word-level model (List of u64 words, any N): set/remove/flip/clear/new/from_u64/and/or/xor/not "
             "and the assigning forms act on the membership function exactly as the set operations; count = number of members; "
             "BitsIter yields exactly the members in ascending order, once each, and terminates (fuel bound proved); == is "
             "extensional equality on [0,64N), != its negation; Display/Debug are the 0/1 string of test; every history over named bitsets "
             "(mid-history observations included) refines the same history over sets; the invariant 'N words, each < 2^64' is preserved. "
             "The hand-written model is tied to rlib_bitset by a differential correspondence run on every check, for the capacities "
             "N in {1,2,3,10,63,64,65,128,129,256,257,512,513} and every provided Iterator method of BitsIter on partially consumed iterators."),
    "note": ("Trusted: Lean kernel, axioms propext/Classical.choice/Quot.sound, the hand-written model (checked against the code on the "
             "generated histories for N in {1,2,3,10,63,64,65,128,129,256,257,512,513}, release and debug profile), count_ones/trailing_zeros intrinsics = their bit-recursive models, harness and "
             "driver plumbing. usize overflow is excluded by the guard 64N+64 <= 2^64."),
    "technique": "Lean 4 proof of a hand-written model + differential correspondence check against the Rust crate",
    "design_ref": "DESIGN.md §6 C12",
}

_CHANGING = ("set", "remove", "flip", "from", "load", "not", "and", "or", "xor", "anda", "ora", "xora", "clear", "clone", "clonefrom", "default")


def harness_args(params, profile):
    return ["--profile", profile]


def nontrivial(case, rec):
    ops = [p.split() for p in case.split(";")[1:]]
    return any(o and o[0] in _CHANGING for o in ops)


# ---- second tie: bitset.rs and bits_iter.rs regenerated from the source text on every run (tools/rs2lean_typed.py) ----------------
TRANSLATED = ["new", "from_u64", "set", "remove", "flip", "test", "clear", "count",
              "BitAnd::bitand", "BitOr::bitor", "BitXor::bitxor", "BitAndAssign::bitand_assign", "BitOrAssign::bitor_assign",
              "BitXorAssign::bitxor_assign", "Not::not"]
TRANSLATED_ITER = ["new", "next"]
NOT_PROVED = ["bitand / bitor / bitxor, bitand_assign / bitor_assign / bitxor_assign, not (translated on every run into seven `for` loops on fuel; the src_*_eq_model "
              "theorems for them are not written yet - differential tie only)",
              "BitsIter::next (translated; a tactic proof of next_loop0 = skipLoop closes all goals but its term is rejected by the kernel's recursion limit, "
              "see the comment in Lemmas/BitsetSrc.lean - differential tie only)"]
NOT_TRANSLATED = ["Bitset::iter_bits (builds a BitsIter, a struct of the other file; BitsIter::new and next are translated from bits_iter.rs)",
                  "Default::default (calls new)", "Display::fmt / Debug::fmt (closures, String, write!)",
                  "#[derive(Clone, Eq, PartialEq)] (taken at face value: word-wise equality)"]

ASSUMPTIONS.append(
    "second tie: new/fromU64/set/remove/flip/test/clear/count of the hand-written model (and BitsIter::new) are proved equal (theorems src_*_eq_model, through the "
    "embedding List Nat -> Array Int of the words) to the definitions that tools/rs2lean_typed.py regenerates from the text of rlib/bitset/src/bitset.rs and bits_iter.rs "
    "on every run (Generated/BitsetSrc.lean, BitsIterSrc.lean: [u64; N] = Array Int with checked indexing, x/64, x%64, <<, >>, | & ^ ! as machine operations on Int, "
    "count = checked usize sum over SrcInt.countOnes); hypotheses: every word < 2^64 (the invariant WF), positions < 2^64 (usize); trusted there: the translator, its "
    "preludes (Generated/VecPrelude.lean, ArrPrelude.lean) and in particular SrcInt.countOnes / trailingZeros as the meaning of u64::count_ones / trailing_zeros (bit recursion, "
    "the same recursion as the model's popcnt / tz); translated on every run but NOT proved equal to the model (differential tie only): the seven word-wise operator "
    "functions and BitsIter::next; not translated: iter_bits, Default, Display/Debug, derived Clone/Eq/PartialEq")
MANIFEST["technique"] += (" + source-to-Lean translation of rlib/bitset/src/bitset.rs and bits_iter.rs regenerated on every run; new/from_u64/set/remove/flip/test/clear/count "
                          "proved equal to the model (operators and BitsIter::next translated, not yet proved)")


def extract(repo):
    """Translate <repo>/rlib/bitset/src/bitset.rs and bits_iter.rs into Generated/BitsetSrc.lean and Generated/BitsIterSrc.lean (written only
    when their text changes).  A construct outside the translator's subset makes the second tie unavailable; the generated file then
    has no definitions, so the src_* theorems stop compiling as well (never a stale file left in place)."""
    import os
    import sys
    verif = os.path.dirname(os.path.dirname(os.path.abspath(__file__)))
    tools = os.path.join(verif, "tools")
    if tools not in sys.path:
        sys.path.insert(0, tools)
    import rs2lean_typed
    gen = os.path.join(verif, "lean", "RlibModel", "Generated")
    rel1, rel2 = "rlib/bitset/src/bitset.rs", "rlib/bitset/src/bits_iter.rs"
    info1, p1 = rs2lean_typed.run(os.path.join(repo, rel1), os.path.join(gen, "BitsetSrc.lean"), "Rlib.BitsetSrc", rel1, ID, "Bitset", TRANSLATED)
    info2, p2 = rs2lean_typed.run(os.path.join(repo, rel2), os.path.join(gen, "BitsIterSrc.lean"), "Rlib.BitsIterSrc", rel2, ID, "BitsIter", TRANSLATED_ITER)
    ok = bool(info1.get("functions")) and bool(info2.get("functions"))
    params = {"translated_from": [rel1, rel2],
              "translated_functions": (info1.get("functions", []) + ["BitsIter::" + f for f in info2.get("functions", [])]) if ok else [],
              "translated_loops": info1.get("loops", []) + info2.get("loops", []),
              "not_translated": NOT_TRANSLATED, "translated_not_proved": NOT_PROVED,
              "generated_files": ["lean/RlibModel/Generated/BitsetSrc.lean", "lean/RlibModel/Generated/BitsIterSrc.lean"],
              "generated_files_rewritten": [info1.get("rewritten", False), info2.get("rewritten", False)]}
    return params, p1 + p2


def extra(ctx):
    """Plain-words verdict on the second tie when the translation succeeded but the src_* module did not build; decided from the status
    the generic check recorded for this run (not from file times, see checks/C19.py)."""
    import rs2lean
    ok = bool(ctx["params"].get("translated_functions"))
    status = ctx["coverage"].get("second_tie", {}).get("status")
    if ok and status == "broken":
        return [{"class": "broken", "kind": "proof", "nosearch": False,
                 "what": rs2lean.PROOF.format(src="rlib/bitset/src/{bitset,bits_iter}.rs", lemmas="lean/RlibModel/Lemmas/BitsetSrc.lean")}]
    return []
