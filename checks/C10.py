"""C10 — intersections return points on both objects and the right kind of contact (engine `geometry`)."""
import os
import re
import struct

ID = "C10"
ENGINE = "geometry"
CRATE = "e_geometry"
DRIVER = "drv_geometry"
DRIVER_MODULE = "Driver.Geometry"
PROPS = "RlibModel.Props.C10"
PROPS_SRC = "RlibModel.Props.C10Src"     # second tie: `src_*` theorems about the definitions regenerated from the source text
PROFILES = ["release"]
SHRINK_SEP = None
RULE = ("case = one configuration given by its defining data (centres, radii, two points of a line or Line::new coefficients) as "
        "integers or f64 bit patterns, asked in mode K (kind) and mode P (points). Families: exhaustive small lattice scope "
        "(circle x every line through two lattice points; every pair of small circles); lattice configurations in [-30,30] with exact "
        "tangencies through Pythagorean directions / integer centre distances / axis-parallel Line::new and their nearest lattice "
        "neighbours (kind additionally decided in i128 by the harness); random lattice; real-valued configurations up to 1e3 with "
        "defining points >= 1.5 apart; constructed tangencies / border points / near-parallel lines at arbitrary positions and rotations "
        "swept through the tolerance band (offsets 0, 1e-13 ... 0.1 on both sides); crossing circles with radius ratio up to 1e4 close "
        "to inner/outer tangency (offsets also scaled by d/s, the amplification of defect F9); a small out-of-domain stream (S = any). "
        "Concentric / nearly concentric circles (d = 0 exactly, radius differences 0 ... 10 EPS incl. one ulp either side; tiny d). "
        "Nearly degenerate in-domain configurations (wave 3): lines almost or exactly parallel to a coordinate axis (slope 0 incl. a "
        "coefficient -0.0, or 1e-11 ... 1e-2; |offset| up to 990; both B and N forms) met by a second line at a moderate angle in a point with "
        "coordinates up to 900, in both argument orders, and the same lines against circles / points; lines whose defining points are a "
        "round distance {1,2,4,10}*(1 + 0 ... 1e-6) apart or whose Line::new normal has length {1,.5,2,.125,10,100}*(1 +- 0 ... 1e-6), with "
        "circle centres 20 ... 1000 from the line (tangent sweep through the band, secants, misses) and far points of the line. "
        "Point algebra (`pt` cases): a+b, a-b in all four value/reference operand forms, a*k, a/k, slen, len, dp, cp on lattice / real / "
        "+-0.0 / coincident / perpendicular operands: every value within 4e-15 (relative to the magnitudes of its terms) of the exact "
        "value, decided in exact arithmetic on each side; From<Point> for (f64,f64), Debug and Show renderings read back, Clone / "
        "clone_from (fresh and used destination) / Copy / Default, PartialEq eq/ne (field-wise, +0.0 == -0.0). "
        "Iterators of the result enums (every cl / cc case in mode P, on the value returned, its clone, and the enum rebuilt from the "
        "returned points): every consumption state (f items taken from the front, b from the back, three interleavings, one step "
        "past the end) x every entry point: next, size_hint, len (if ExactSizeIterator), count, last, nth, fold, for_each, collect, "
        "extend, find, position, any, all, reduce, min_by, max_by, skip, step_by, map+sum, chain, zip, enumerate, peekable, take, "
        "by_ref, next_back, nth_back, rfold, rfind, rev (+ last / nth / size_hint of it) (if DoubleEndedIterator), clone mid-history "
        "(if Clone), and the state left behind by every &mut-self entry point - each against its std definition applied to the "
        "destructured payload (a slice). Clone / clone_from / Copy / Default / Debug of Circle, Line, PointPosition, CircleIntersection "
        "and PointPosition's eq/ne are driven on every cl / cc / pos / ln case; every routine is called twice (copies of the inputs). "
        "Spec side: exact rational arithmetic on the bit patterns: kind required when the configuration is >= 1.01e-9 (the property's "
        "1e-9 tolerance + 1%) from a boundary between kinds or exactly tangent / exactly on the border, `any` inside the band; every "
        "returned point within 1e-7 of both primitives, decided EXACTLY on each side's own coordinates (harness: dyadic big-integer "
        "arithmetic on the implementation's points against the defining data; driver: rationals on the model's points); the points "
        "reported through into_iter() must equal the destructured ones (count, order, bits). "
        "Raw comparison: kind + number of points against the Float instance of the Lean model (coordinates are not compared); "
        "bit-for-bit equality and the largest |impl - model| coordinate difference are measured on a sample and logged "
        "(coverage.bit_exact_sample), not alarmed. "
        "non-trivial = distinct in-domain case line (spec answer not `any`)")
ASSUMPTIONS = [
    "the Lean model of rlib_geometry is hand-written over an abstract arithmetic record; it is tied to the code by running its Float "
    "instance and the crate on the same configurations and comparing kinds and point counts (coordinate differences and bit equality logged only)",
    "Lean Float and Rust f64 perform the same IEEE-754 binary64 + - * / sqrt abs and comparisons on this machine (x.powi(2) compiles to x*x)",
    "util::EPS is extracted from util.rs on every run and handed to the model; the theorems hold for every eps > 0 (spec soundness: 0 < eps < 1.01e-9); the property's own "
    "tolerance (1e-9) and the extracted value must agree (side condition)",
    "domain of the property: coordinates up to 1e3 in absolute value, radii in [0.1, 1e3], points defining a line at least 1 apart "
    "(Line::new: normal length in [1e-3, 1.4e3], line within 1.4e3 of the origin), circle centres identical or at least 0.1 apart; "
    "`pt` cases: coordinates 0 or of magnitude 1e-6 ... 1e3, factor of magnitude 1e-3 ... 1e3 (no underflow)",
    "the iterator / Clone / Default / Debug / From / Show / PartialEq observations (view tags iter-mismatch, clone-mismatch, debug-mismatch, "
    "glue-mismatch) are judged by an independent oracle inside the harness: the std definition of each provided method applied to the "
    "destructured payload of the enum (a plain slice) resp. field-wise comparison of bit patterns; the Lean model contributes the "
    "point list (`CL.points` / `CC.points`) and its length only",
    "the `pt` tolerance 4e-15 is the engine's reading of 'the operator is the component-wise IEEE operation' that survives a harmless "
    "re-association (a handful of roundings); ptOk_iff proves what the executable predicate means, no rounding bound is proved",
]
TRUSTED_EXTRA = ["IEEE-754 binary64 arithmetic of the CPU / libm sqrt (same in Lean's Float and Rust's f64)"]
MANIFEST = {
    "level": "proof (partial)",
    "text": ("Lean 4 theorems about an executable model of rlib_geometry written over an abstract arithmetic (add sub mul div neg sqrt abs "
             "max lt, eps), instantiated with the reals: Line::new / Line::between produce a unit normal and a line through the defining "
             "points; intersect_cl: both points of the two-point branch lie exactly on the line and on the circle, the touch point lies "
             "exactly on the line and within eps of the circle; kinds: d > r+eps => None and no real common point, d < r-eps => Intersect "
             "and two distinct common points; intersect_cc: swap by radius, Same, None outside/inside (no common point), TouchInside / "
             "TouchOutside points on the larger circle and within eps of the smaller, radical-line identity, points of the Intersect "
             "branch exactly on both circles; intersect_ll: returned point on both lines, parallel <=> |cp| < eps; Circle::position "
             "<=> sign of (|p-c|-r)/r against eps. The executable exact-rational specification the driver prints as `S` is proved sound "
             "against the real model (specKind*_sound, specPosition_sound, specContains_sound, nearCircle_iff, nearLine_iff). The same "
             "model, instantiated with Float, is compared with the crate on every check (kinds, point counts; exact point check on the crate's own points). "
             "cc_points_on_both needs no distinct-centres hypothesis: concentric circles get Same/None (cc_concentric_no_point). "
             "Point algebra: point_ops_spec (the operators, slen, len, dp, cp over the reals are the textbook ones; dividing and multiplying "
             "back is the identity; len is the non-negative root of slen) and ptOk_iff (the executable `pt` predicate = every observation "
             "within 4e-15 relative of the real model's value)."),
    "note": ("PARTIAL: proved in exact real arithmetic only. The 1e-7 bound under IEEE rounding and the behaviour inside the EPS band are "
             "TESTED, not proved (differential run: lattice configurations decided exactly in integer arithmetic, real-valued "
             "configurations decided exactly over the rationals from the f64 bit patterns, constructed tangencies swept through the band, "
             "near-axis lines, round point spacings / nearly normalised normals with far centres). The IntoIterator impls of the result enums "
             "and the std-trait glue of Point / Line / Circle / PointPosition (Clone, Default, Debug, From, Show, PartialEq, operator operand "
             "forms) are TESTED against their std definitions by an oracle inside the harness, not modelled in Lean beyond the point list. "
             "Trusted: Lean kernel, axioms propext/Classical.choice/Quot.sound, the hand-written model (tied to the code on generated cases "
             "only), IEEE arithmetic, harness and driver plumbing."),
    "technique": "Lean 4 proof (Mathlib reals) of a hand-written arithmetic-polymorphic model + differential correspondence of its Float instance against the Rust crate with exact-arithmetic point oracles on both sides",
    "design_ref": "DESIGN.md §6 C10",
}

PROPERTY_TOLERANCE = 1e-9


def extract(repo):
    """util::EPS, read from the source text with an anchored regex (fail loudly)."""
    problems = []
    params = {}
    path = os.path.join(repo, "rlib", "geometry", "src", "util.rs")
    try:
        src = open(path).read()
    except OSError as e:
        return params, [f"cannot read {path}: {e}"]
    m = re.search(r"^\s*pub\s+const\s+EPS\s*:\s*f64\s*=\s*([^;]+);", src, flags=re.M)
    if not m:
        return params, ["util.rs: `pub const EPS: f64 = ...;` not found"]
    expr = m.group(1).strip().replace("_", "")
    if not re.fullmatch(r"[0-9]+(\.[0-9]*)?([eE][-+]?[0-9]+)?(f64)?", expr):
        return params, [f"util.rs: EPS expression not understood: {expr!r}"]
    val = float(expr.replace("f64", ""))          # correctly rounded, like rustc's literal parser
    params["eps"] = val
    params["eps_bits"] = struct.pack(">d", val).hex()
    # side conditions of the theorems / of the property statement
    if not val > 0:
        problems.append(f"side condition 0 < eps fails for the extracted EPS = {val}")
    if val != PROPERTY_TOLERANCE:
        problems.append(f"the property names the library's tolerance as 1e-9, util.rs now has EPS = {expr}")
    # the other places where the tolerance is used must still refer to this constant
    for rel, pat, what in [
        ("rlib/geometry/src/line.rs", r"self\.dist\(p\)\s*<\s*EPS", "Line::contains compares dist(p) < EPS"),
        ("rlib/geometry/src/circle.rs", r"d\s*<\s*-EPS", "Circle::position compares d < -EPS"),
        ("rlib/geometry/src/circle.rs", r"d\s*>\s*EPS", "Circle::position compares d > EPS"),
    ]:
        try:
            if not re.search(pat, open(os.path.join(repo, rel)).read()):
                problems.append(f"{rel}: `{what}` no longer found")
        except OSError as e:
            problems.append(f"cannot read {rel}: {e}")
    return params, problems


# ---- second tie: the four source files regenerated as Lean terms over the abstract arithmetic on every run (tools/rs2lean_float.py) ----
ASSUMPTIONS.append(
    "second tie: every function of the hand-written model (Point::new/slen/len/dp/cp, the ten operator impls of Point, Line::new/between/dist/"
    "contains/ort, Circle::new/position, dist, parallel, intersect_ll, intersect_cl, intersect_cc) is proved equal (theorems src_*_eq_model of "
    "Props/C10Src.lean, no hypothesis, for EVERY arithmetic record G - hence for IEEE doubles bit for bit and for the reals) to the definition "
    "that tools/rs2lean_float.py regenerates from the text of rlib/geometry/src/{point,line,circle,util}.rs on every run "
    "(Generated/GeometrySrc.lean: a + b - c = G.sub (G.add a b) c, a > b = G.lt b a, a == b = !(G.ne a b), n.0 = G.ofInt n, EPS = G.eps, structs "
    "and enums = the model's types with a generated shape check). Trusted there: the translator and its rule list, that f64's + - * / sqrt abs max "
    "< != are the operations the record is instantiated with, derived Copy/Clone/PartialEq/Default/Debug taken at face value; NOT translated: "
    "the IntoIterator impls of the two result enums, From<Point>, Debug, Show, show_struct! (differential tie only). A rewrite that re-associates "
    "or algebraically changes the float arithmetic breaks the equality although it is an identity over the reals (intended: the model promises "
    "the operation order of the source)")
MANIFEST["technique"] += (" + source-to-Lean translation of rlib/geometry/src/{point,line,circle,util}.rs (terms over the abstract arithmetic) "
                          "regenerated and proved equal to the model on every run")
MANIFEST["text"] += (" Second tie (Props/C10Src.lean): src_*_eq_model - the definitions regenerated from the source text on every run are the model's, "
                     "for every arithmetic (src_float_eq_model: in particular for the doubles the driver executes); src_cl_points_on_both, "
                     "src_ll_point_on_both, src_cc_points_on_both restate the property about the regenerated definitions.")

_extract_eps = extract


def extract(repo):
    """util::EPS and the side conditions (above), then the translation of the four source files into Generated/GeometrySrc.lean (written
    only when its text changes).  A construct outside the translator's subset is reported with the SUBSET prefix (second tie unavailable);
    the generated file then has no definitions, so the src_* theorems stop compiling as well (never a stale file left in place)."""
    import sys
    params, problems = _extract_eps(repo)
    verif = os.path.dirname(os.path.dirname(os.path.abspath(__file__)))
    tools = os.path.join(verif, "tools")
    if tools not in sys.path:
        sys.path.insert(0, tools)
    import rs2lean_float
    out = os.path.join(verif, "lean", "RlibModel", "Generated", "GeometrySrc.lean")
    info, p2 = rs2lean_float.run(repo, out, "Rlib.GeometrySrc", ID)
    if not p2:
        # the three textual anchors of the older extractor (`self.dist(p) < EPS`, `d < -EPS`, `d > EPS`) only say that Line::contains and
        # Circle::position still compare against the constant; once the translation succeeds this is PROVED about the regenerated text
        # (src_line_fns_eq_model, src_position_eq_model: the comparisons are the model's, against G.eps), for any spelling of the locals.
        # They stay in force when the source is outside the translator's subset.
        dropped = [p for p in problems if p.endswith("no longer found")]
        problems = [p for p in problems if not p.endswith("no longer found")]
        if dropped:
            params["textual_anchors_superseded_by_second_tie"] = dropped
    params.update({"translated_from": rs2lean_float.FILES, "translated_functions": info.get("functions", []),
                   "translated_types": info.get("types", []), "not_translated": info.get("not_translated", []),
                   "generated_file": "lean/RlibModel/Generated/GeometrySrc.lean", "generated_file_rewritten": info.get("rewritten", False)})
    return params, problems + p2


def harness_args(params, profile):
    if "eps_bits" in params:
        return ["--eps", params["eps_bits"]]
    return []


def extra(ctx):
    """Diagnostic only (logged, never a verdict): on a sample, how many results are BIT-identical between the Float
    instance of the model and the crate, and the largest |impl - model| coordinate difference.  The verdict path compares
    only kind + number of points; the point predicate is evaluated exactly on each side's own coordinates."""
    import subprocess
    cov = ctx["coverage"]
    if not ctx["pipes"]:
        return []
    pipe = ctx["pipes"][0]
    try:
        g = subprocess.run([pipe.bin, "gen", "--seed", str(ctx["seed"] + 101), "--tier", "quick"] + pipe.extra_args,
                           stdout=subprocess.PIPE, stderr=subprocess.DEVNULL, text=True, timeout=600)
        lines = [l for k, l in enumerate(g.stdout.split("\n")) if l.strip() and k % 4 == 0]
        res = pipe.eval_cases(["bits " + l for l in lines], "bits")
        n = len(res)
        same = 0
        maxdiff, maxcase, kind_diff = 0.0, None, 0
        diffs = []
        for r in res:
            if r["impl"] is None or r["model"] is None:
                continue
            ir, mr = r["impl"][0], r["model"][0]
            if ir == mr:
                same += 1
                continue
            if len(diffs) < 5:
                diffs.append({"case": r["case"][:300], "impl": r["impl_line"][:200], "model": r["model_line"][:200]})
            it, mt = ir.split(), mr.split()
            if len(it) != len(mt) or it[0] != mt[0]:
                kind_diff += 1
                continue
            for a, b in zip(it, mt):
                if len(a) == 16 and len(b) == 16:
                    try:
                        x = struct.unpack(">d", bytes.fromhex(a))[0]
                        y = struct.unpack(">d", bytes.fromhex(b))[0]
                    except ValueError:
                        continue
                    d = abs(x - y)
                    if d == d and d > maxdiff:
                        maxdiff, maxcase = d, r["case"][:300]
        cov["bit_exact_sample"] = {"lines": n, "raw_bit_identical": same, "kind_or_count_differs": kind_diff,
                                   "max_abs_coordinate_difference_impl_vs_model": maxdiff}
        if maxcase:
            cov["bit_exact_sample"]["max_difference_case"] = maxcase
        if diffs:
            cov["bit_exact_sample"]["first_differences"] = diffs
    except Exception as e:  # diagnostic must never decide anything
        cov["bit_exact_sample"] = {"error": str(e)[:300]}
    return []
