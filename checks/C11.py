"""C11 — gcd / lcm / egcd / crt (engine `gcd`)."""
import os
import sys

ID = "C11"
ENGINE = "gcd"
CRATE = "e_gcd"
DRIVER = "drv_gcd"
DRIVER_MODULE = "Driver.Gcd"
PROPS = "RlibModel.Props.C11"
PROPS_SRC = "RlibModel.Props.C11Src"     # second tie: `src_*` theorems about the definitions regenerated from the source text
PROFILES = ["release", "debug"]     # debug: debug-assertions on, a reduced stream of the same families (harness_args)
SHRINK_SEP = None
RULE = ("cases: exhaustive cube for egcd, exhaustive square for gcd/lcm (i64), every (a1,m1,a2,m2) with small moduli for crt, "
        "every 8-bit operand pair for i8/u8 (sampled 1/3 in quick), boundary-biased samples up to 2^20 (egcd, crt) and over the "
        "whole range of each of the 12 integer types (gcd, lcm; operands as decimal strings parsed by the type itself, so u128 up to 2^128-1; "
        "families: boundary, unsigned upper half, lcm representable but operand product not — see histogram keys operand_in_upper_half_*, "
        "lcm_fits_but_product_overflows_*, operand_above_2^100_*); egcd and crt at EVERY signed instantiation (`egcd:ty`, `crt:ty` for i8, i16, i32, i64, "
        "i128, isize): a small cube / all small moduli per type, the whole i8 type sampled for egcd and every pair of i8 moduli with lcm up to 170 for crt, "
        "and a stream at the overflow threshold of each type (coefficient bound (|c|/g)*max(|a|,|b|)/g, lcm, 2*(m2/g) just inside and just outside MAX; "
        "moduli between the cube root and the square root of MAX; one tiny and one huge modulus; a large shared factor) — keys egcd_edge_*, crt_edge_*, "
        "crt_in_domain_but_m1*m2*max_overflows_*; the spec answer is definite exactly on Lean's domEgcd / domCrt (the mathematical intermediate values fit the type), "
        "which contains the 2^20 box of i64; a small stream of egcd/crt cases far outside (operands "
        "up to 2^62) where the property says nothing (`S any`) but the checked model must reproduce every overflow panic; a second pass with "
        "debug assertions on (reduced stream); non-trivial = distinct case inside the property's domain "
        "(spec answer not `any`) with at least one operand of magnitude > 1")
ASSUMPTIONS = [
    "the Lean model of rlib_gcd is hand-written; it is tied to the code (i) by running both on the same cases and (ii) by theorems "
    "src_*_eq_model: it equals, for all integer arguments, the definitions that tools/rs2lean.py regenerates from the text of "
    "rlib/gcd/src/lib.rs on every run (Generated/GcdSrc.lean) — over unbounded integers; machine overflow is covered by (i) only",
    "tools/rs2lean.py (tokenizer, parser, the translation rules documented at its top) is trusted to render its Rust subset faithfully; "
    "the `Integer` impls of rlib_num_traits for the primitive types are assumed to be the primitive + - * / % abs and comparisons",
    "harness built with overflow-checks=true so a wrapped intermediate shows up as panic:overflow instead of a silent wrong value",
    "the domain of egcd / crt at a type other than the i64 box is read from the property's last sentence (`the mathematical intermediate values fit "
    "the integer type`) as: operands of magnitude <= MAX (the minimum excluded), the proved bound (|c|/g)*max(|a|,|b|)/g of every Bezout coefficient and "
    "intermediate product <= MAX, and for crt additionally 2*(m2/g) <= MAX and lcm <= MAX (theorems egcdT_dom, crtT_dom, egcd_dom_answer, crt_dom_answer); "
    "unsigned instantiations of egcd are not driven (a solution generally has a negative coefficient, which an unsigned type cannot hold)",
    "the view `solution` of egcd / crt is decided by the harness's own exact arithmetic (256-bit products for the i128 instantiation), independent of the model",
]
MANIFEST = {
    "level": "proof",
    "text": ("Lean 4 theorems: the modelled Euclid loop terminates and equals Int.gcd for all signs; lcm = Int.lcm (division by zero for "
             "(0,0)); egcd returns a pair exactly when gcd | c, the pair solves a*x+b*y=c, |x| <= |c|/g*max(1,|b|/g), |y| <= |c|/g*max(1,|a|/g); "
             "crt returns the unique solution in [0, lcm) exactly when the congruences are compatible, never an error on its domain; the "
             "checked-arithmetic i64 instantiations of egcd and crt (what the driver executes) never overflow inside the 2^20 box and equal "
             "the unbounded functions, and so does the checked instantiation at every signed type on the per-input domain domEgcd / domCrt (which contains the box); gcd/lcm at any integer type do not overflow when |operands| and result are representable. "
             "The hand-written model is tied to rlib_gcd by a differential correspondence run on every check, and (unbounded-integer "
             "semantics) by machine-checked equality with definitions regenerated from the source text by a translator on every run."),
    "note": ("Trusted: Lean kernel, axioms propext/Classical.choice/Quot.sound, the hand-written model (checked against the code only on the "
             "generated cases: exhaustive small scope + boundary-biased samples over all 12 integer types), harness and driver plumbing."),
    "technique": ("Lean 4 proof of a hand-written model + differential correspondence check against the Rust crate + source-to-Lean "
                  "translation of rlib/gcd/src/lib.rs regenerated and proved equal to the model on every run"),
    "design_ref": "DESIGN.md §6 C11",
}


def harness_args(params, profile):
    return ["--profile", profile]


def nontrivial(case, rec):
    toks = case.split()
    try:
        return any(abs(int(t)) > 1 for t in toks[1:])
    except ValueError:
        return True


# ---- second tie: the model regenerated from the source text on every run (tools/rs2lean.py) -----------------------
VERIF = os.path.dirname(os.path.dirname(os.path.abspath(__file__)))
GENERATED = os.path.join(VERIF, "lean", "RlibModel", "Generated", "GcdSrc.lean")
SRC_REL = "rlib/gcd/src/lib.rs"
SRC_FNS = ["gcd", "lcm", "egcd", "crt"]          # the functions the src_*_eq_model theorems of Props/C11.lean speak about


def extract(repo):
    """Translate <repo>/rlib/gcd/src/lib.rs into Generated/GcdSrc.lean (written only when its text changes).  A construct
    outside the translator's subset is a broken correspondence; then the generated file contains no definitions, so the
    src_* theorems stop compiling as well (never a stale file left in place)."""
    tools = os.path.join(VERIF, "tools")
    if tools not in sys.path:
        sys.path.insert(0, tools)
    import rs2lean
    info, problems = rs2lean.run(os.path.join(repo, SRC_REL), GENERATED, "Rlib.GcdSrc", SRC_REL, ID, SRC_FNS)
    params = {"translated_from": SRC_REL, "translated_functions": info.get("functions", []),
              "translated_loops": info.get("loops", []), "recursive": info.get("recursive", []),
              "not_translated": info.get("not_translated", []), "generated_file": "lean/RlibModel/Generated/GcdSrc.lean",
              "generated_file_rewritten": info.get("rewritten", False)}
    missing = [f for f in SRC_FNS if f not in params["translated_functions"]]
    if missing and not problems:
        problems.append(f"rs2lean: functions {missing} were not translated from {SRC_REL}")
    return params, problems


def extra(ctx):
    """Plain-words verdict on the second tie when the src_* proofs did not build (the generic check only names the file)."""
    import rs2lean
    ok = all(f in ctx["params"].get("translated_functions", []) for f in SRC_FNS)
    return rs2lean.tie_findings(["RlibModel/Generated/GcdSrc.lean"], "RlibModel/Lemmas/GcdSrc.lean", ok, SRC_REL)
