"""C07 — Rational arithmetic exact and canonical; order and equality follow the value (engine `rational`)."""
import os
import sys

ID = "C07"
ENGINE = "rational"
CRATE = "e_rational"
DRIVER = "drv_rational"
DRIVER_MODULE = "Driver.Rational"
PROPS = "RlibModel.Props.C07"
PROPS_SRC = "RlibModel.Props.C07Src"     # second tie: `src_*` theorems about the definitions regenerated from the source text
PROFILES = ["release", "debug"]     # debug: debug-assertions on, a reduced stream of the same families (harness_args)
SHRINK_SEP = None
RULE = ("cases: Rational<i8>, <i16>, <i32>, <i64>, <i128>, <isize>; every pair of fractions a/b, c/d with numerators in [-k,k] and denominators in "
        "[-k,k] minus 0 (thorough k = 8 for i32/i64/i128, 6 for the others; quick 6 for i64, 4 for i32/i128, 3 for the others) through + - * / (by-value, by-reference, assigning and "
        "assigning-by-reference forms, which must agree), cmp (with partial_cmp, < <= > >=, == !=, both argument orders, Ord::min/max, min_by, clamp, reflexivity, and the same "
        "through tuples, slices, Option, Reverse), == (with !=, DefaultHasher equality, HashSet membership, slice ==, clone / clone_from / Copy, Hash::hash_slice), and every such "
        "fraction through new, neg, floor, ceil, Display/Debug; ZeroOne::ZERO/ONE; new_int(n) against new(n,1) through ==, Hash; "
        "chain:ty op1 op2 = (x op1 y) op2 z with the returned value re-used through all 16 pairings of operator forms; sort:ty = 2..7 live values (duplicates, equal values "
        "spelled differently) through sort / sort_unstable / sort_by / sort_by_key, BTreeSet, dedup, HashSet, iter min/max, reduce(Ord::min/max), binary_search, contains, "
        "clamp between every pair of bounds, slice hash and comparison, clone_from_slice; Fibonacci/Lucas-ratio operands (up to ~2n Euclid rounds inside norm; depth measured "
        "in the histogram keys euclid_rounds_*); boundary-biased samples up to the guard 2^(bits/2-2): shared factors across the two "
        "fractions, equal values written differently, neighbours, integer values, powers of two and +-1; the TRUE EDGE of every type (keys edge_*): cross products, their sum / "
        "difference and the product of the denominators in the top bits of the type, just inside and just outside the domain, both arguments of norm's gcd above MAX/2 "
        "(edge_gcd_operands_both_in_top_bit_*), ==/Hash/neg/Display/new_int on components of any size up to MAX (eq_where_cmp_would_overflow_*), floor/ceil where the adjusted "
        "numerator reaches the end of the type; every pair of canonical i8 fractions whose cross products fit (sampled); a small stream over the whole range of each type and at MIN / zero "
        "denominators where only the machine model is compared (any panic = `panic`); a second pass with debug assertions on (reduced stream). The spec answer is definite exactly "
        "on Lean's edge domain (domNew, domAdd/domSub/domMul/domDiv, domFloor, domCeil, domPairs: non-zero denominators / divisor, every specified intermediate value representable). "
        "non-trivial = distinct case inside the property's domain (spec answer not `any`) with some operand of magnitude > 1")
ASSUMPTIONS = [
    "the Lean model of rlib_rational is hand-written; it is tied to the code (i) by running both on the same cases and (ii) by theorems src_*_eq_model (see the last entry)",
    "harness built with overflow-checks=true so a wrapped intermediate shows up as panic:overflow instead of a silent wrong value",
    "values of Hash (SipHash) are std's: what is shown is that equal values have equal field pairs, which is all a derived Hash consumes; "
    "the harness additionally observes DefaultHasher equality and HashSet membership",
    "the property's domain (`numerators and denominators below the overflow threshold of the integer type`) is read per input as: non-zero denominators / divisor, "
    "constructor arguments of magnitude <= MAX (the minimum has no absolute value), and every value the specified computation forms - the cross products a*d, b*c, their sum or "
    "difference, b*d for + - cmp; a*c, b*d for *; a*d, b*c for /; a -+ (b-1) for floor / ceil - representable (magnitude <= MAX where norm's gcd takes an absolute value); "
    "==, !=, Hash, Clone, neg, Display, new_int form nothing, so their domain is everything representable (theorems *_edge_machine; the guard box lies inside: guard_inside_edge)",
    "std's sort / BTreeSet / binary_search / min / max / clamp algorithms are trusted to be correct for a total order; the model supplies the order (cmp_pairs_edge: every "
    "comparison they may ask for is answered as the numeric order says) and the unique sorted arrangement (sortSpec_spec, sortSpec_only); the consistency observations of the "
    "`cmp`, `eq`, `sort`, `chain` lines (provided trait methods against their std definitions in terms of cmp / eq / hash, all operator forms) are computed by the harness and "
    "appear in the view (`…_inconsistent:<which>`); the expected value of every in-domain line is also computed by an independent oracle in the harness (i128 cross "
    "multiplication, own Euclid, selection sort) and a disagreement is appended to the view",
]
MANIFEST = {
    "level": "proof",
    "text": ("Lean 4 theorems over the model of Rational<T>: new_int is canonical and equals new(n,1); new/+/-/*/÷/neg return the exact value in ℚ (core Lean `Rat`) in lowest terms "
             "with positive denominator for every input with non-zero denominators (negative denominators included); canonical forms are "
             "unique, so structural == and the derived Hash coincide with numeric equality; cmp is the numeric order; floor and ceil are "
             "the integer floor and ceiling; under the magnitude guard 2^(bits/2-2) no checked machine operation overflows (the machine "
             "instantiation computes what the unbounded one computes), and the same holds for every signed width on the per-input edge domain (every specified intermediate value representable), "
             "which contains the guard box and reaches the limit of the type; == / Hash / neg need no more than representable operands; the sorted order of several values is unique. The hand-written model is tied to rlib_rational by a differential "
             "correspondence run on every check."),
    "note": ("Trusted: Lean kernel, axioms propext/Classical.choice/Quot.sound, the hand-written model (checked against the code only on the "
             "generated cases: exhaustive small box + boundary-biased samples + the true edge of each of i8/i16/i32/i64/i128/isize, all operator forms and provided trait methods), harness and driver "
             "plumbing, std's SipHash."),
    "technique": "Lean 4 proof of a hand-written model + differential correspondence check against the Rust crate",
    "design_ref": "DESIGN.md §6 C07",
}


def harness_args(params, profile):
    return ["--profile", profile]


def nontrivial(case, rec):
    toks = case.split()
    try:
        return any(abs(int(t)) > 1 for t in toks[1:])
    except ValueError:
        return True


# ---- second tie: the model regenerated from the source text on every run (tools/rs2lean_generic_struct.py) ---------
ASSUMPTIONS.append(
    "second tie: new/new_int/+/-/*/÷/neg/cmp/partial_cmp/floor/ceil of the hand-written model (unbounded instantiation `t = none`) and all four "
    "operator forms (by reference, by value, assigning by reference, assigning by value) are proved equal (theorems src_*_eq_model, "
    "src_forms_agree) to the definitions that tools/rs2lean_generic_struct.py regenerates from the text of rlib/rational/src/lib.rs on every "
    "run (Generated/RationalSrc.lean), whose calls of `gcd` are calls of the definition regenerated from rlib/gcd/src/lib.rs "
    "(Generated/GcdSrc.lean, itself proved equal to the gcd model) — over unbounded integers: machine overflow is covered by the "
    "differential tie and the nowrap_* theorems only; trusted there: the translator (tools/rs2lean.py + tools/rs2lean_generic_struct.py) and its "
    "reading of `T: Integer` as Int, of the std operators / Clone / Ord::cmp behind `T` as the primitive operations, of `#[derive(Clone)]`; "
    "not translated: Display/Debug/Show/ZeroOne impls, the derived PartialEq/Eq/Hash")
MANIFEST["text"] += (" The unbounded model is additionally tied to the source text by machine-checked equality with definitions regenerated "
                     "from rlib/rational/src/lib.rs (and rlib/gcd/src/lib.rs for the gcd inside norm) by a translator on every run.")
MANIFEST["technique"] += (" + source-to-Lean translation of rlib/rational/src/lib.rs (calling the regenerated translation of rlib/gcd/src/lib.rs) "
                          "regenerated and proved equal to the model on every run")

VERIF = os.path.dirname(os.path.dirname(os.path.abspath(__file__)))
SRC_REL = "rlib/rational/src/lib.rs"
GENERATED = os.path.join(VERIF, "lean", "RlibModel", "Generated", "RationalSrc.lean")
# Lean names (rule G4 of the translator): `Add<&Self>::add` is `add_ref`, the macro-generated by-value form is `add`, …
SRC_FNS = ["new", "new_int", "floor", "ceil", "add_ref", "sub_ref", "mul_ref", "div_ref", "neg", "cmp", "partial_cmp",
           "add", "sub", "mul", "div", "add_assign_ref", "sub_assign_ref", "mul_assign_ref", "div_assign_ref",
           "add_assign", "sub_assign", "mul_assign", "div_assign"]
GCD_REL = "rlib/gcd/src/lib.rs"
GCD_FNS = ["gcd", "lcm", "egcd", "crt"]           # exactly what checks/C11.py generates: the file must be byte-identical
EXTERNS = {"rlib_gcd": {"rel": GCD_REL, "ns": "Rlib.GcdSrc", "import": "RlibModel.Generated.GcdSrc"}}


def extract(repo):
    """Translate <repo>/rlib/rational/src/lib.rs into Generated/RationalSrc.lean and (because `norm` calls `gcd`) <repo>/rlib/gcd/src/lib.rs
    into Generated/GcdSrc.lean, exactly as checks/C11.py does — both written only when their text changes.  A construct outside the
    translators' subset is a broken correspondence; the generated file then has no definitions, so the src_* theorems stop compiling as
    well (never a stale file left in place)."""
    tools = os.path.join(VERIF, "tools")
    if tools not in sys.path:
        sys.path.insert(0, tools)
    import rs2lean
    import rs2lean_generic_struct as gs
    ginfo, gproblems = rs2lean.run(os.path.join(repo, GCD_REL), os.path.join(VERIF, "lean", "RlibModel", "Generated", "GcdSrc.lean"),
                                   "Rlib.GcdSrc", GCD_REL, "C11", GCD_FNS)
    info, problems = gs.run(os.path.join(repo, SRC_REL), GENERATED, "Rlib.RationalSrc", SRC_REL, ID, SRC_FNS, EXTERNS, repo)
    params = {"translated_from": [SRC_REL, GCD_REL], "translated_functions": info.get("functions", []),
              "translated_loops": info.get("loops", []), "not_translated": info.get("not_translated", []),
              "extern_calls": info.get("extern_calls", []), "gcd_translated_functions": ginfo.get("functions", []),
              "generated_file": "lean/RlibModel/Generated/RationalSrc.lean", "generated_file_rewritten": info.get("rewritten", False),
              "gcd_generated_file_rewritten": ginfo.get("rewritten", False)}
    missing = [f for f in SRC_FNS if f not in params["translated_functions"]]
    if missing and not problems:
        problems.append(f"rs2lean_generic_struct: functions {missing} were not translated from {SRC_REL}")
    return params, problems + gproblems


def extra(ctx):
    """Plain-words verdict on the second tie when the src_* proofs did not build (the generic check only names the file)."""
    import rs2lean
    ok = all(f in ctx["params"].get("translated_functions", []) for f in SRC_FNS) and "gcd" in ctx["params"].get("gcd_translated_functions", [])
    return (rs2lean.tie_findings(["RlibModel/Generated/GcdSrc.lean"], "RlibModel/Lemmas/GcdSrc.lean", ok, GCD_REL) +
            rs2lean.tie_findings(["RlibModel/Generated/RationalSrc.lean", "RlibModel/Generated/GcdSrc.lean"],
                                 "RlibModel/Lemmas/RationalSrc.lean", ok, SRC_REL))
