"""C07 — Rational arithmetic exact and canonical; order and equality follow the value (engine `rational`)."""
ID = "C07"
ENGINE = "rational"
CRATE = "e_rational"
DRIVER = "drv_rational"
DRIVER_MODULE = "Driver.Rational"
PROPS = "RlibModel.Props.C07"
PROFILES = ["release"]
SHRINK_SEP = None
RULE = ("cases: Rational<i32>, <i64>, <i128>; every pair of fractions a/b, c/d with numerators in [-k,k] and denominators in "
        "[-k,k] minus 0 (k = 8 thorough; 6 for i64 and 4 for i32/i128 quick) through + - * / (by-value, by-reference, assigning and "
        "assigning-by-reference forms, which must agree), cmp (with partial_cmp, <, <=, >, >=, reversed cmp and == consistency), "
        "== (with DefaultHasher equality and HashSet membership), and every such fraction through new, neg, floor, ceil, "
        "Display/Debug; new_int(n) against new(n,1) through ==, cmp, Hash; cmp lines also check !=, min, max, both argument orders and "
        "reflexivity; Fibonacci/Lucas-ratio operands (up to ~2n Euclid rounds inside norm with operands below the guard; depth measured "
        "in the histogram keys euclid_rounds_*); boundary-biased samples up to the guard 2^(bits/2-2) (2^14, 2^30, 2^62): shared factors across the two "
        "fractions, equal values written differently, neighbours, integer values, powers of two and +-1; a small stream outside "
        "the guard and at MIN / zero denominators where only the machine model is compared (any panic = `panic`). "
        "non-trivial = distinct case inside the property's domain (spec answer not `any`) with some operand of magnitude > 1")
ASSUMPTIONS = [
    "the Lean model of rlib_rational is hand-written; it is tied to the code by running both on the same cases",
    "harness built with overflow-checks=true so a wrapped intermediate shows up as panic:overflow instead of a silent wrong value",
    "values of Hash (SipHash) are std's: what is shown is that equal values have equal field pairs, which is all a derived Hash consumes; "
    "the harness additionally observes DefaultHasher equality and HashSet membership",
]
MANIFEST = {
    "level": "proof",
    "text": ("Lean 4 theorems over the model of Rational<T>: new_int is canonical and equals new(n,1); new/+/-/*/÷/neg return the exact value in ℚ (core Lean `Rat`) in lowest terms "
             "with positive denominator for every input with non-zero denominators (negative denominators included); canonical forms are "
             "unique, so structural == and the derived Hash coincide with numeric equality; cmp is the numeric order; floor and ceil are "
             "the integer floor and ceiling; under the magnitude guard 2^(bits/2-2) no checked machine operation overflows (the machine "
             "instantiation computes what the unbounded one computes). The hand-written model is tied to rlib_rational by a differential "
             "correspondence run on every check."),
    "note": ("Trusted: Lean kernel, axioms propext/Classical.choice/Quot.sound, the hand-written model (checked against the code only on the "
             "generated cases: exhaustive small box + boundary-biased samples for i32/i64/i128, all operator forms), harness and driver "
             "plumbing, std's SipHash."),
    "technique": "Lean 4 proof of a hand-written model + differential correspondence check against the Rust crate",
    "design_ref": "DESIGN.md §6 C07",
}


def nontrivial(case, rec):
    toks = case.split()
    try:
        return any(abs(int(t)) > 1 for t in toks[1:])
    except ValueError:
        return True
