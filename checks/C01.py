"""C01 — lazy segment tree: range query = in-order fold of the logical array (engine `segtree`)."""
ID = "C01"
ENGINE = "segtree"
CRATE = "e_segtree"
DRIVER = "drv_segtree"
DRIVER_MODULE = "Driver.Segtree"
PROPS = "RlibModel.Props.C01"
PROFILES = ["release", "debug"]   # debug: debug_assertions on (code that misbehaves only under cfg!(debug_assertions)); release: off
SHRINK_SEP = ";"
RULE = ("one case = one operation history `item ctor n values ; op ; op ...` run on the real Segtree, the Lean model and the "
        "plain-list spec. Items: Min/Max/Sum/MinAdd/MaxAdd/SumAdd at i64, Combinator<MinAdd,MaxAdd>, "
        "Combinator<Combinator<SumAdd,MinAdd>,MaxAdd> - and the same eight at the element types i8, u8, i32, u32, u64, isize, usize "
        "(item tokens `minadd:u8`, `mm:u32`, ...; stream 2b) -, the lawful non-commutative harness items affHash (affine modifiers, "
        "which do not commute) and strCat, Combinator<affHash,affHash>, and flip-a-range/count-ones as a lazy item with the "
        "zero-sized modifier `()` (flipz) and with a one-byte modifier (flipb). One element in six carries a pending modifier of its own "
        "(`v@md`, as a snapshot taken with ask(i,i) does). Streams: (1) every history of length <= 3 over n <= 4 (length 4 over n = 3, length 5 over "
        "n = 2 in thorough; one shorter in quick) for affHash, strCat (two-element non-commuting modifier alphabets) and flipz; "
        "(2) random histories, constructor new/from_slice/from_iter x n in 1..17 (7/8) or {31,32,33,63,64,65,100,127,128,129} (1/8), "
        "op mix set 19% / modify 31% / ask 37% / lower_bound 6% / lower_bound_rev 6% / debug; (2b) typed histories: every (item, element type) pair x five "
        "value modes (elements at T::MAX, at T::MIN, at both ends / uniform over the type, around the signed-unsigned boundary iN::MAX seen "
        "as uN, small), twice per run (40x in thorough): elements exactly at the type's extreme values, modifiers chosen from the interval "
        "that keeps every element, every pending-tag window sum and (sum items) the sum of absolute values inside the type (a "
        "tree-independent conservative bookkeeping, `Budget` in typed.rs: 0, the largest step up / down the type still allows - so elements "
        "reach T::MIN / T::MAX exactly and leave them inward -, small steps), search thresholds at T::MIN, T::MIN+1, T::MAX-1, T::MAX, "
        "iN::MAX(+1) for unsigned types and next to the actual aggregates (`typed_*` keys of generator_histogram); (2c) `const <type>`: "
        "<T as MinMax>::MIN/MAX and <T as ZeroOne>::ZERO/ONE of all twelve integer types against the model's IntTy bounds; (2d) five "
        "histories that overflow the element type (`S any`); (3) a small out-of-domain stream for the "
        "API's asserts and the empty constructors. Machine overflow is outside the domain: for the typed items the driver runs the model "
        "together with an overflow guard (guardItem: every merge / modify / push call checked against the element type, sticky flag per "
        "node) and answers `S any` for the whole line if any call of the history would overflow. Operations outside 0 <= l <= r < n are outside the property's domain: their view "
        "and spec are `ood` on all sides (the model still mirrors the panic in raw, so a changed assert is drift, not a violation). "
        "Plain values are built with the items' own From<i64>; `v@md` values with struct literals. "
        "WAVE 3 additions. (D) Element types whose equal-comparing values are distinguishable: the harness's record `Rec {key, tag, pad: String}` "
        "(PartialEq/PartialOrd look at `key` only; Clone, not Copy) under Min/Max/MinAdd/MaxAdd/Combinator<MinAdd,MaxAdd> (`min:rec` ... `mm:rec`, "
        "half of the keys from a three-key range so that duplicated minima / maxima are everywhere), and f64 / f32 (`min:f64` ... `mm:f32`): under "
        "Min/Max any non-NaN value (both zeros, subnormals, +-MAX, the lawful infinity, quarters in [-2,2], random bit patterns), under "
        "Sum/MinAdd/MaxAdd/SumAdd/Combinator integer-valued floats far inside the range where + and * are exact; all float results are compared "
        "as BIT PATTERNS; `sum:cat` = Sum over a string type whose + is concatenation (associative, not commutative). The observable value of these items is the whole element, so view = spec pins WHICH of several equal-comparing "
        "minima a query returns: the one the left-to-right merge fold returns (Min::merge's own tie rule: the last one). Stream (1b): every "
        "history of length <= 2 (3 in thorough) over n <= 5 on arrays whose elements all tie (same key / both zeros, own tag) with set / ask / "
        "copy-back (and the searches for C02). i16 and u16 joined the typed stream (2b); `const f64`, `const f32` compare the float trait "
        "constants as bit patterns. (A) every item returned by `ask` is cloned, `clone_from`-ed into a fresh (Default) and into a USED "
        "destination (the previously returned item) and must render identically (view gets ` clone!` otherwise); every other `set` passes its "
        "value through clone_from; op `dfl` compares Default::default() with the model's and with the harness's own identity (` dflt!`); "
        "constructors `iterp` / `iterr` call from_iter on a partially consumed / a reversed ExactSizeIterator. (B) one random history in four "
        "runs TWO live trees of the type interleaved on one thread (ops prefixed `b`), the second one element longer. (C) values the API "
        "returned are fed back: `cp i l r` = set(i, ask(l,r)), `x i l r` = other.set(i, this.ask(l,r)), `y slice|iter|new` rebuilds the other "
        "tree from the n single-element asks / from ask(0,n-1) (at most three per history). (E) every item once per run (8x thorough) on "
        "n in {255,256,257,511,513,1000,1024,1025} with a short history. Both build profiles are run (debug: debug_assertions on). "
        "WAVE 4 additions. (D) item `ap` (harness item Ap: range sum with 'add a + d*(q-from) to the element at position q'; the pending tag is "
        "relative to the node's first element, so push hands the right child a DIFFERENT tag than the left one) and `apap` = Combinator<Ap,Ap>: "
        "elements are placed by index (the element stored at index i has position i), constructors slice/iter/iterp/iterr, transfers only of a "
        "single element to its own index; exhaustive small scope (length <= 2 over n <= 3), 5 in 38 random histories, boundary sizes, n up to "
        "1100, the deep trees; the driver runs the item under the guard 'the Rust item's push (written with left.len) and the model's push "
        "(re-based by child.lo - lo; lawful for all operands) are the same function on this call' and answers `S any` otherwise. Empty slots: "
        "`_` = Default::default() stored as an element (one value in ten for min max sum sumadd aff aa str flipz flipb, one in eight for the "
        "typed sumadd:<T>), `v#len[@md]` = a SumAdd element of length 0 / 2 / 3 for sumadd and smm (one value in eight). (E) stream 2e: "
        "histories on n = 2^20+1 and n = 2^21 (constructor values as a short cycle `* v1 .. vk`): mod, set at index 0 or 1 (the deepest "
        "path), ask, lb within 24 of the end, lbr within 24 of the start, then 0-2 random ops - every public function except debug(); 2 per "
        "run in C02's quick tier, 1 (n = 2^20+1, release profile only) in C01's, 24 in thorough. Every history of the n >= 255 stream (sizes 255 256 257 511 513 771 1000 1024 1025 "
        "1100) is closed by `dbg`, and the view of every `dbg` carries ` dbg!` unless the string debug() returned is exactly the `{:?}` of the "
        "vector of the n items ask(i,i) returns afterwards. "
        "Compared: `{:?}` of every returned item (raw), observable value of every ask, every debug() rendering, answers and probe "
        "values of the searches. generator_histogram counts the op kinds and how many asks / sets / modifies / searches pushed a non-identity pending "
        "tag on their way down (`*_pushed_pending_tag`). non-trivial = history with at least one range modification followed by a query")
ASSUMPTIONS = [
    "the Lean model of rlib_segtree is hand-written (recursion tree instead of the implicit array); it is tied to the code by running both on the same histories",
    "integer overflow inside the built-in items is outside the property's domain: at i64 values and modifiers are kept far below 2^63; at the narrow / unsigned element types the generator keeps every history inside the type by construction and the Lean driver decides independently (overflow guard run with the model, proved not to change any observable answer: guarded_lawful, guarded_spec_is_item_spec) - an overflowing history gets `S any`. The guard mirrors the arithmetic of the items' merge/modify/push as written in segtree_items.rs (hand-written, cross-checked against the real overflow panics: 6000 random i8/u8 histories, guard flag <=> panic:overflow)",
    "the trait constants <T as MinMax>::MIN/MAX, <T as ZeroOne>::ZERO/ONE equal the model's IntTy.minVal/maxVal, 0, 1: compared for all twelve integer types on every run (`const <type>` lines)",
    "the item laws (Lawful) are proved for the Lean instances; that the Rust items are those instances is checked by the same differential run",
    "floats: NaN is outside every law (PartialOrd); the model orders non-NaN bit patterns by FloatFmt.ordKey (sign-magnitude image, both zeros -> 0; monotonicity proved in C02.float_constants) - that IEEE `<` on non-NaN values is this order is a standard fact, not proved, and cross-checked on every run by the harness's shadow algebra, which compares with the standard library's `<` / `>`; under the additive items floats are integer-valued and small (|x| < 2^(mantissa+1) is checked per history by the driver: `S any` otherwise), so that + and * are exact and the model computes in Int; -0.0 is not fed to the additive items (-0.0 + 0.0 = +0.0: MinAdd/MaxAdd<f64> do not preserve the sign of a zero through a push of the identity tag - equal under ==, the only equality their laws can mean)",
    "the record type Rec, the clone / clone_from / Default checks (`clone!`, `dflt!` markers) and the shadow algebra with merge's tie rule are independent brute-force oracles inside the harness (view side); transfers and rebuilds store the item the model's own ask returned in the plain list (C01.transfer_refines, rebuild_refines: an ask followed by a set / constructor call on the returned item)",
]
ASSUMPTIONS += [
    "item ap (wave 4): the Lean item's push re-bases the pending progression by child.lo - lo, which is lawful for arbitrary operands; the Rust item's push uses left.len. They are the same function when the left child starts where the node starts and the right child left.len later (C01.ap_push_is_code_push) - every node of a tree whose i-th element has position i, which is what the generator builds. The driver does not rely on that invariant: it evaluates both push functions on every push of the model run (guardItem apItem apGuard, sticky flag) and answers `S any` for a history on which they differ; that the Rust item is apPushCode / apItem otherwise is checked by the differential run like every other item",
    "the ` dbg!` marker (debug() must be the `{:?}` of the n single-element asks in order) and the placement of elements by index are independent oracles / conventions inside the harness; the model's view of `dbg` never carries the marker",
]
TRUSTED_EXTRA = ["harness items affHash/strCat/flip/ap are defined twice (Rust, Lean) and compared by the differential run"]
MANIFEST = {
    "level": "proof",
    "text": ("Lean 4 theorems over an abstract lawful item (merge only associative, modifiers need not commute; the overridable `update` that "
             "merge_at calls is a field of the item with its own law): build/set/ask/modify of the "
             "modelled lazy tree refine a plain list (ask = in-order fold, modify = modifier applied to each covered element), for every "
             "size, every history (history_refines) and all three constructors; the six built-in items at every integer element type "
             "(the type fixes Default = <T as MinMax>::MAX / MIN), every Combinator nesting and the "
             "harness's non-commutative items are proved lawful, and so are Min/Max/MinAdd/MaxAdd over element types whose order ignores part of "
             "the value (records ordered by key, floats with +0.0/-0.0) with the WHOLE element observable - which fixes the tie rule of every "
             "query to merge's own (keyed_lawful, keyed_ties_go_right; an update override with the opposite tie-break is proved unlawful), and Sum over a non-commutative + (sum_noncommutative_lawful); "
             "a lazy item whose push treats its two children differently (add an arithmetic progression; ap_lawful) is lawful alone and inside Combinator, and the Rust item's push is the model's push on positional trees (ap_push_is_code_push); "
             "feeding a returned item back into set of the same or another tree, or into a constructor, is an ask followed by a set / constructor call (transfer_refines, rebuild_refines); running an item together with the overflow guard changes no observable answer; a Combinator tree answers every set/modify/ask/debug history with the pairs of "
             "its component trees' answers (prod_runs_side_by_side). The hand-written model is tied to rlib_segtree by a differential "
             "correspondence run on every check."),
    "note": ("Trusted: Lean kernel, axioms propext/Classical.choice/Quot.sound, the hand-written model (recursion tree; the array layout "
             "2i+1/2i+2 is exercised only by the differential run), harness and driver plumbing. Integer overflow is outside the domain (decided per history by the model's overflow guard for the narrow / unsigned element types)."),
    "technique": "Lean 4 proof of a hand-written model + differential correspondence check against the Rust crate",
    "design_ref": "DESIGN.md §6 C01",
}


def harness_args(params, profile):
    # quick tier: one history on 2^20+1 elements in the release profile, none in the debug profile (which repeats the whole stream
    # with debug_assertions on; the Lean model is run once per profile and a deep tree costs it ~1 s); C02's quick tier runs
    # both deep sizes (2^20+1 and 2^21) with every op kind, the thorough tier 24 histories in either profile
    return ["--focus", "C01", "--large-quick", "1" if profile == "release" else "0"]


def nontrivial(case, rec):
    ops = [p.strip().split(" ")[0] for p in case.split(";")[1:]]
    seen_mod = False
    for o in ops:
        if o == "mod":
            seen_mod = True
        elif seen_mod and o in ("ask", "lb", "lbr", "dbg"):
            return True
    return False
