"""C18 — f80 arithmetic correctly rounded; comparisons follow IEEE order (engine `f80`, x86-64 only)."""
import os
import re

ID = "C18"
ENGINE = "f80"
CRATE = "e_f80"
DRIVER = "drv_f80"
DRIVER_MODULE = "Driver.F80"
PROPS = "RlibModel.Props.C18"
PROFILES = ["release", "debug"]      # debug: unoptimised code around the asm blocks, on a reduced stream (harness_args)
SHRINK_SEP = ";"                     # register programs `pg hdr ; op ; op ...` are shrunk op by op
RULE = ("cases: every ordered pair of a boundary set B of f64 bit patterns (±0, min/max subnormal, 2^k and 2^k ± ulp for 40 exponents, "
        "long carry chains, huge/tiny exponents, ±inf, quiet/signalling NaN; quick: every pair of a one-third subset of B that always "
        "contains the zeros, infinities and NaNs, thorough: all of B x B) through + - * / (and the op= forms) and through "
        "< > <= >= == != partial_cmp min max; the value, neg, abs and f64::from on every element of B; chains (a*b)+c, (a/d)*d, "
        "(a*b)-fl64(a*b) and random chains of 3..8 operations whose intermediates use all 64 significand bits (every intermediate "
        "is compared); random f64 patterns; random 80-bit operands (given as the ten raw bytes) with related exponents for "
        "cancellation / sticky-bit / overflow / underflow cases; a separate stream of encodings no operation produces (pseudo-denormal, "
        "unnormal, pseudo-NaN, pseudo-infinity) whose arithmetic is outside the property's domain (spec `any`, model still compared). "
        "Wave 3: (F) a stream of EXACT ties and one-unit-beside-a-tie cases for + - (b = half an ulp of a), * ((2^63+x2^k)(2^63+y2^(62-k)), x y odd), "
        "f80->f64 (discarded bits 100..0 / 011..1 / 100..1, also where the f64 result is subnormal and at the f64 overflow threshold), the f80 "
        "gradual-underflow and overflow edges; (A B C E) register programs `pg`: four live f80 objects, every result stored and fed back: operators "
        "by value and op=, the SAME object on both sides (x+x, x/x, x==x on one reference), neg abs min max, the f64 round trip through Into, "
        "the seven relations, Copy / Clone::clone / Clone::clone_from into a used destination, ZERO / ONE / Default, f80_init() again mid-history; "
        "styles: random, repeated squaring/halving/doubling (leaves the f64 range, reaches the f80 overflow and underflow limits), nine or more "
        "compare-like calls followed by arithmetic (x87 stack / control word left behind), accumulate loops, signs of zeros; 40 long programs "
        "(120..240 steps); 200 programs on a freshly spawned thread; 40 programs run by four threads at once (every run must give the answers of "
        "the sequential run); `fm`: Display / Debug / Show / to_string with ten format specifications against std's text of the f64 value. "
        "A second build profile (debug) runs a reduced stream. "
        "Compared: the ten result bytes exactly (any NaN as `nan`), booleans, Option<Ordering>; min/max/abs as values; a register the property does "
        "not fix bytewise (abs of a zero, min/max of two zeros or with a NaN) and everything computed from it is hidden (`*`) in view and spec. "
        "non-trivial = distinct in-domain case with at least one operand that is neither zero nor a NaN")
ASSUMPTIONS = [
    "x86-64 with the default x87 control word (64-bit precision, round to nearest, exceptions masked); the crate does not build elsewhere",
    "what fadd/fsub/fmul/fdiv/fchs/fld/fstp/fcomi/fucomi do is MODELLED by an exact soft-float written in Lean and compared with the CPU on every "
    "run; it is not verified",
    "the Lean model of rlib_f80 is hand-written; it is tied to the code by running both on the same cases",
    "the harness reads/writes the ten bytes of the private field with transmute_copy (observation only)",
    "the harness calls f80_init() first (as the crate documents); a separate process without the call runs a small pre-init stream "
    "(arithmetic first; the register programs at its end may call f80_init() mid-history)",
    "`pg` lines: S of a step is the specification of that step applied to the operands the MODEL holds (one state; prog_step_view / prog_run_view "
    "prove view = S for every step); the bytes of a `loose` register are compared with the model only (raw), not with the specification",
    "`fm` lines: the expected text is computed INSIDE THE HARNESS by std's formatting of the f64 value (`format!(spec, f64::from(x))`, for Show "
    "`{:.*}` with ShowSettings::float_precision) - an oracle independent of the crate's fmt code; the f64 value itself is compared with the "
    "model/spec (`f64=`). Debug may print either of f64's texts (`{:?}` or `{}`): the crate forwards to a `fmt` of f64",
    "threads: a race is detected only when it manifests (4 threads x up to 4000 repetitions per `pg c` line); x87 state is per thread and "
    "inherited at thread creation",
]
TRUSTED_EXTRA = ["the CPU's x87 unit (differentially compared with the Lean soft-float, never proved)"]
MANIFEST = {
    "level": "proof (partial)",
    "text": ("Lean 4 theorems, for ALL bit patterns of the ten bytes (NaNs, signed zeros, denormals, infinities, unsupported encodings): the "
             "<, >, <=, >=, partial_cmp, ==, min, max, abs logic that rlib_f80 builds on the fcomi/fucomi flag outcome equals the IEEE order of "
             "the operand classes (NaN unordered, -0 = +0, == consistent with partial_cmp). The meaning of `correctly rounded` is an exact "
             "soft-float; it is proved that its + - * / and f80->f64 equal the exact rational result rounded ONCE (roundRat: nearest, half-ulp, signed zeros, overflow, subnormals, inf/NaN tables), that the driver's independent fraction-arithmetic S equals the model M, and for the rounding: nearest/half-ulp, "
             "ties-to-even, monotonicity, exactness on representables and f64 -> f80 -> f64 = identity for every non-NaN f64 pattern are "
             "proved. Programs over four live objects whose results are fed back (operators, op=, neg abs min max, f64 round trip, relations, "
             "clones, constants): the view of every model step equals the step's specification (prog_step_view, prog_run_view); `!=` is the "
             "negation of `==` (ne_spec). The x87 instructions are compared with that soft-float differentially on every check."),
    "note": ("PARTIAL: what the FPU instructions actually do (fadd, fsub, fmul, fdiv, fchs, fld/fstp of both widths, fcomi/fucomi flags, fcmov) is "
             "MODELLED by the Lean soft-float and checked differentially on boundary-pair, chain and random cases (exact result bytes), not "
             "verified. Trusted: Lean kernel, axioms propext/Classical.choice/Quot.sound, the hand-written model, harness and driver plumbing, "
             "the CPU. x86-64 only."),
    "technique": "Lean 4 proof of a hand-written model + exact soft-float reference + differential correspondence check against the Rust crate on the real FPU",
    "design_ref": "DESIGN.md §6 C18",
}

_ZERO_OR_NAN = re.compile(r"^(0000000000000000|8000000000000000|[7f]ff[0-9a-f]{13}|0{20}|80{19}|[7f]fff[0-9a-f]{16})$")


def nontrivial(case, rec):
    toks = case.split()
    ops = [t for t in toks[1:] if len(t) in (16, 20)]
    if not ops:
        return False
    for t in ops:
        if _ZERO_OR_NAN.match(t):
            # f64 exponent all ones with zero fraction is an infinity, not a NaN: still counts
            if t in ("7ff0000000000000", "fff0000000000000", "7fff8000000000000000", "ffff8000000000000000"):
                return True
            continue
        return True
    return False


def extract(repo):
    """Records which x87 mnemonics the source uses (informational, goes into the evidence).  Nothing the model needs is
    a constant of the source, so only an unreadable file is a problem; any semantic change is decided by the
    differential run on the real FPU."""
    path = os.path.join(repo, "rlib", "f80", "src", "lib.rs")
    try:
        src = open(path).read()
    except OSError as e:
        return {}, [f"cannot read {path}: {e}"]
    params = {}
    for name in ("Add", "Sub", "Mul", "Div"):
        m = re.search(r"define_f80_binary_op!\(\s*%s\s*,\s*\w+\s*,\s*\"([^\"]*)\"" % name, src)
        params[name] = m.group(1).split()[0] if m and m.group(1).split() else "?"
    m = re.search(r"define_f80_unary_op!\(\s*Neg\s*,\s*neg\s*,\s*\"(\w+)\"", src)
    params["Neg"] = m.group(1) if m else "?"
    m = re.search(r"pub fn min\b(.*?)pub fn max\b(.*?)\nimpl ", src, flags=re.S)
    params["min_select"] = (re.findall(r"fcmov\w+", m.group(1)) or ["?"])[0] if m else "?"
    params["max_select"] = (re.findall(r"fcmov\w+", m.group(2)) or ["?"])[0] if m else "?"
    params["manual_PartialEq"] = "impl PartialEq for f80" in src
    return params, []


def harness_args(params, profile):
    """The debug build (opt-level 0: different register allocation and stack layout around every asm block) runs a reduced
    stream: all of B against the specials, the unary cases, 80-bit samples and the wave-3 streams in small sizes."""
    return ["--stream", "debug"] if profile == "debug" else []


def extra(ctx):
    """The main run compares arithmetic AFTER the documented `f80_init()` (the harness calls it first thing in `main`).
    This step runs a small stream in a SEPARATE process that never calls `f80_init()` (`--noinit 1`), so both the
    state a program is in before the call and the state after it are compared with the specification."""
    import os as _os
    import veriflib as V
    findings = []
    n = 0
    nontriv = 0
    for pipe in ctx["pipes"]:
        saved = list(pipe.extra_args)
        try:
            cases = _os.path.join(ctx["workdir"], f"preinit.cases.{pipe.profile}")
            impl = _os.path.join(ctx["workdir"], f"preinit.impl.{pipe.profile}")
            model = _os.path.join(ctx["workdir"], f"preinit.model.{pipe.profile}")
            pipe.extra_args = saved + ["--stream", "preinit"]
            stats = pipe.gen(ctx["seed"], ctx["tier"], cases)
            pipe.extra_args = saved + ["--noinit", "1"]
            rc, err = pipe.run_impl(cases, impl)
            pipe.run_model(cases, model)
            if rc != 0:
                findings.append({"class": "broken", "what": f"pre-init harness run exited rc={rc}: {err[-300:]}"})
            drift = None
            with open(cases) as fc, open(impl) as fi, open(model) as fm:
                for case in fc:
                    case = case.rstrip("\n")
                    il = fi.readline().rstrip("\n")
                    ml = fm.readline().rstrip("\n")
                    n += 1
                    rec = {"case": case, "impl": V.parse_impl(il), "model": V.parse_model(ml)}
                    cl = V.classify(rec)
                    if cl == "ok":
                        if nontrivial(case, rec):
                            nontriv += 1
                    elif cl == "violation":
                        findings.append({"class": "violation", "what": "before f80_init(): implementation != specification",
                                         "case": "[no f80_init] " + case, "impl": il, "model": ml, "profile": pipe.profile})
                        break
                    elif cl == "machinery":
                        raise V.Machinery(f"pre-init stream: model/spec disagree or unparsable: case={case!r} impl={il!r} model={ml!r}")
                    elif drift is None:
                        drift = {"case": case, "impl": il, "model": ml}
            if drift is not None:
                findings.append({"class": "broken", "what": "before f80_init(): implementation and model differ on a raw detail", "detail": [drift]})
            ctx["coverage"]["preinit_stream"] = stats
        finally:
            pipe.extra_args = saved
    ctx["coverage"]["extra_evaluations"] = n
    ctx["coverage"]["extra_nontrivial"] = nontriv
    return findings
