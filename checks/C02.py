"""C02 — lazy segment tree: boundary searches return the exact first / last satisfying index (engine `segtree`)."""
ID = "C02"
ENGINE = "segtree"
CRATE = "e_segtree"
DRIVER = "drv_segtree"
DRIVER_MODULE = "Driver.Segtree"
PROPS = "RlibModel.Props.C02"
PROFILES = ["release"]
SHRINK_SEP = ";"
RULE = ("same engine and history format as C01 (`item ctor n values ; op ; op ...`), generated with --focus C02: op mix set 10% / "
        "modify 26% / ask 8% / lower_bound 28% / lower_bound_rev 28% / debug, so that most searches run on a tree with pending tags "
        "(`lb_pushed_pending_tag`, `lbr_pushed_pending_tag` in generator_histogram). Predicates: thresholds chosen next to the actual "
        "range aggregates (`lt` on minima, `gt` on maxima, `ge` on sums, `len`, `spread` = max-min on Combinator<MinAdd,MaxAdd>), "
        "order-sensitive `npre`/`nsuf` (range is not a prefix / suffix of a word built from the current contents with one element "
        "changed) on affHash and strCat, always-true, always-false. The typed stream of C01 (2b: Min/Max/Sum/MinAdd/MaxAdd/SumAdd/mm/smm at i8, u8, "
        "i32, u32, u64, isize, usize with elements at the types' extreme values) runs with this op mix too, with thresholds at T::MIN, T::MIN+1, "
        "T::MAX-1, T::MAX, iN::MAX(+1) seen as uN and next to the actual aggregates (`typed_search_threshold_at_type_extreme`): the shadow "
        "vector's empty-range identity is the standard library's <uN>::MAX / <iN>::MIN, not the crate's MinMax constant, so a search seeded "
        "with a wrong Default shows probes that are no range aggregate; `const <type>` lines compare the trait constants of all twelve "
        "integer types with the model's bounds. The harness wraps the Rust closure and logs every argument. "
        "Compared: the returned Option<usize>; the observable value of every probe, in call order, against the specification's "
        "aggregate of the range [l,k] (resp. [k,r]) the theorem probes_are_ranges assigns to it; `{:?}` of every probe (raw); and "
        "`P` = every probe equals the aggregate of some range [l,k] of the harness's plain shadow vector, which is maintained and "
        "folded with the harness's own re-implementation of each item's observable algebra (never with the merge/modify/default "
        "under test). A predicate that is not monotone on the current contents is outside the domain of the *answer* clause: the "
        "answer is printed as `nm` by all sides (`search_predicate_not_monotone_here`), its probes are still compared. The exhaustive small-scope "
        "stream of C01 additionally contains the searches. WAVE 4: the lazy item `ap` (add an arithmetic progression: push gives the right "
        "child a different tag than the left one) and `apap` = Combinator<Ap,Ap> with thresholds on the sums / lengths (`ge`, `ge0`, `ge1`, `len`), "
        "run under the guard described in C01; empty-slot elements (`_`, `v#0`) inside the searched ranges; two histories per run on "
        "n = 2^20+1 / 2^21 with lb starting within 24 of the end and lbr ending within 24 of the start after a range modification. "
        "WAVE 5 (seeded C02_m16): ops `nlb` / `nlbr` = the same searches with a RE-ENTRANT predicate (every other search of a two-live-trees "
        "history, one in eight elsewhere; `search_with_reentrant_predicate`): at every probe, before answering, the closure calls "
        "ask / lower_bound / lower_bound_rev on the OTHER live tree (calls that stop at the root, so the model's lazy state is unaffected) and full "
        "lower_bound(p, same predicate) / lower_bound_rev / ask, p moving with the probe number, on harness-private mirrors of both trees "
        "(same constructor and values, every set / mod replayed); the nested answers are compared with the same calls made before "
        "the outer search started (independent oracle inside the harness; ` nested!` in the view). The driver treats nlb / nlbr as lb / lbr: "
        "answer, probes and raw must be those of the plain search. "
        "non-trivial = history with a search after at least one range modification")
ASSUMPTIONS = [
    "the Lean model of rlib_segtree is hand-written (recursion tree instead of the implicit array); it is tied to the code by running both on the same histories",
    "predicates depend only on the observable value of the aggregate and are monotone along the ranges they are asked about (checked per search by both sides)",
    "floats: NaN outside every law; non-NaN bit patterns are ordered by FloatFmt.ordKey in the model (standard fact about IEEE sign-magnitude, cross-checked against the standard library's comparison on every run); Default of Min/MinAdd<f64> is f64::MAX, of Max/MaxAdd<f64> f64::MIN = -MAX (keyed_default_identity: identities on every finite element, and on -inf / +inf respectively) - that the crate's float trait constants are these is compared on every run (`const f64`, `const f32`)",
    "overflow is outside the domain (i64: magnitudes far below 2^63; narrow / unsigned element types: decided per history by the model's overflow guard, `S any`); the defaults of Min/MinAdd (<T as MinMax>::MAX) and Max/MaxAdd (MIN) are identities on every value of the element type (minmax_default_identity, for every IntTy) - that the crate's trait constants are the type's bounds is compared on every run (`const <type>`, all twelve integer types)",
]
ASSUMPTIONS += [
    "item ap (wave 4): model push (lawful for arbitrary operands) and the Rust item's push (written with left.len) coincide on positional trees (C01.ap_push_is_code_push); the driver checks the equation on every push of the model run and answers `S any` otherwise; Default of ap is a two-sided identity (ap_default_identity)",
]
TRUSTED_EXTRA = ["harness items affHash/strCat/flip/ap are defined twice (Rust, Lean) and compared by the differential run"]
MANIFEST = {
    "level": "proof",
    "text": ("Lean 4 theorems over an abstract lawful item: the modelled lower_bound / lower_bound_rev return exactly the first / last "
             "index whose in-order range aggregate satisfies the predicate (none iff there is none), for every tree size, start "
             "position, lazy state and every predicate that is monotone on the actual ranges; every value shown to the predicate — by any predicate, monotone "
             "or not — is the aggregate of a range starting at l (ending at r); the searches preserve contents and well-formedness, so they can be "
             "interleaved with any history (C01). Defaults of all built-in items are proved to be identities on their domain - for Min/Max/MinAdd/MaxAdd at every integer element type, on all values "
             "between the type's real bounds (and not beyond: min_default_needs_type_max); for element types ordered by a key (records, floats by bit pattern) "
             "on every element between the default and the other end (keyed_default_identity; a Default above an element - MinMax::MIN = MIN_POSITIVE - is not: max_default_needs_type_min). The "
             "searches are exercised on a lazy item that is asymmetric in its children (ap, proved lawful in C01, Default an identity: ap_default_identity). The "
             "hand-written model is tied to rlib_segtree by a differential correspondence run on every check."),
    "note": ("Trusted: Lean kernel, axioms propext/Classical.choice/Quot.sound, the hand-written model, harness and driver plumbing. "
             "lower_bound with l >= n has no assert in the code and walks off the array: outside the property's domain, not modelled."),
    "technique": "Lean 4 proof of a hand-written model + differential correspondence check against the Rust crate",
    "design_ref": "DESIGN.md §6 C02",
}


def harness_args(params, profile):
    return ["--focus", "C02"]


def nontrivial(case, rec):
    ops = [p.strip().split(" ")[0] for p in case.split(";")[1:]]
    seen_mod = False
    for o in ops:
        if o == "mod":
            seen_mod = True
        elif seen_mod and o in ("lb", "lbr", "nlb", "nlbr"):
            return True
    return False
