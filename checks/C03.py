"""C03 — a treap behaves as a sequence under split/merge/insert/remove with lazy tags (engine `treap`)."""
import os
import re

ID = "C03"
ENGINE = "treap"
CRATE = "e_treap"
DRIVER = "drv_treap"
DRIVER_MODULE = "Driver.Treap"
PROPS = "RlibModel.Props.C03"
PROFILES = ["release"]
SHRINK_SEP = ";"
RULE = ("cases are histories `C03 <item> <stream> ; op ; op …` on a vector of live treaps (ops: new, item, merge, splitat, splitby, insert, "
        "remove, first, last, collect, size, agg, tag, drop). (i) exhaustive small scope: every priority assignment [n]->[n] for n<=4 "
        "(n<=5 thorough; all 120 orders of 5 in quick) — all relative orders, ties included — x every split point 0..n x three build orders, "
        "tags before/after the split, remove at the split point (past the end once per shape); (ii) random histories of 60 operations with "
        "priorities written by the case into the public `priority` field (7 policies: heavy ties, increasing, decreasing, 32-bit random, "
        "small range, constant, distinct), composed operations (insert as split/from_item/merge/merge, range tag, range aggregate, "
        "split-and-swap, sorted insert through split_by) over two items (`sum`: rlib's own test item; `aff`: affine tags that do not "
        "commute + a positional hash whose monoid does not commute); (iii) a second stream that calls insert_at/remove_at directly with "
        "rlib's own priorities while the model draws different ones (6 policies) — only sequence-level observables are compared, which is "
        "sound by the theorems; (iv) a small out-of-domain stream (split_by with a non-monotone predicate, spec answer `any`). "
        "non-trivial = distinct in-domain history in which some treap is split/merged/edited after a modifier was attached (a pending "
        "tag crosses a restructuring), or an exhaustive small-scope case")
ASSUMPTIONS = [
    "the Lean model of rlib_treap (Model/Treap.lean) is hand-written; it is tied to the code by running both on the same histories",
    "items are user code: the two harness items are written once in Rust (harness/e_treap/src/items.rs) and once in Lean "
    "(Model/TreapItems.lean, proved lawful); their agreement is part of what the differential run checks",
    "magnitudes stay far below i64/i128 overflow (the harness is built with overflow-checks=true, so a wrap would show up as panic:overflow)",
    "`Box` moves / ownership are modelled as values; memory safety is rustc's",
]
MANIFEST = {
    "level": "proof",
    "text": ("Lean 4 theorems over an abstract lawful item (laws as hypotheses, nothing commutative) and arbitrary priorities (ties included): "
             "merge = ++, split_at = take/drop for every position, split_by = takeWhile/dropWhile for prefix-monotone predicates, "
             "insert_at / remove_at (incl. the unwrap panic past the end), first/last/collect/size, the root aggregate is the in-order "
             "fold of exactly that subsequence, a modifier attached at a root maps over exactly that tree's elements once and in "
             "attachment order, and `history_refines`: any history on any number of live treaps refines the same history on plain "
             "lists, observation for observation. The two harness items (incl. a non-commuting assign/add/negate tag item with a "
             "non-commutative hash aggregate) are proved lawful. The hand-written model is tied to rlib_treap by a differential "
             "correspondence run on every check."),
    "note": ("Trusted: Lean kernel, axioms propext/Classical.choice/Quot.sound, the hand-written model (checked against the code on the "
             "generated histories only: exhaustive priority orders for <=5 nodes + random 60-op histories, priorities controlled through "
             "the public field), the Rust twins of the two items, harness and driver plumbing."),
    "technique": "Lean 4 proof of a hand-written model + differential correspondence check against the Rust crate",
    "design_ref": "DESIGN.md §6 C03",
}

_RESTRUCT = ("merge", "splitat", "splitby", "insert", "remove")


def nontrivial(case, rec):
    ops = [o.strip() for o in case.split(";")[1:]]
    seen_tag = False
    for o in ops:
        if o.startswith("tag "):
            seen_tag = True
        elif seen_tag and o.split(" ")[0] in _RESTRUCT:
            return True
    return False


def extract(repo):
    """Anchors the model depends on: the comparison that picks the merged root, the comparison of
    `split_at`, push-before / update-after in the three restructuring functions."""
    problems = []
    params = {}
    p = os.path.join(repo, "rlib/treap/src/treap_node.rs")
    try:
        src = open(p).read()
    except OSError as e:
        return params, [f"cannot read {p}: {e}"]
    m = re.search(r"type\s+Priority\s*=\s*(\w+)\s*;", src)
    if m:
        params["priority_type"] = m.group(1)
        if m.group(1) != "u32":
            problems.append(f"Priority is {m.group(1)}, the harness writes u32 priorities")
    else:
        problems.append("`type Priority = …;` not found in treap_node.rs")
    params["fields_public"] = all(re.search(r"pub\s+%s\s*:" % f, src) for f in ("item", "priority", "left", "right"))
    if not params["fields_public"]:
        problems.append("TreapNode fields are no longer all public (the harness reads/writes them)")
    return params, problems


def harness_args(params, profile):
    return ["--focus", "C03"]
