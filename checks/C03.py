"""C03 — a treap behaves as a sequence under split/merge/insert/remove with lazy tags (engine `treap`)."""
import os
import re

ID = "C03"
ENGINE = "treap"
CRATE = "e_treap"
DRIVER = "drv_treap"
DRIVER_MODULE = "Driver.Treap"
PROPS = "RlibModel.Props.C03"
PROFILES = ["release"]
SHRINK_SEP = ";"
RULE = ("cases are histories `C03 <item> <stream> ; op ; op …` on a vector of live treaps (ops: new, item, merge, splitat, splitby, insert, "
        "remove, first, last, collect, size, agg, tag, drop). (i) exhaustive small scope, a full product: every priority assignment "
        "[n]->[n] for n<=4 (n<=5 thorough; all 120 orders of 5 in quick) — all relative orders, ties included — x every split point "
        "0..n x both items x three build orders (left-to-right, right-to-left, balanced), tags before/after the split, remove at the "
        "split point; (ii) random histories of 25 composed operations, plus shares that first grow one treap to 20-64 and to 70-250 "
        "nodes (aff <= 90) — the size histogram is in generator_histogram (size_max_treap_*, size_nodes_created_*); priorities written "
        "by the case into the public `priority` field (7 policies: heavy ties, increasing, decreasing, 32-bit random, small range, "
        "constant, distinct); composed operations: insert as split/from_item/merge/merge, range tag, range aggregate, split-and-swap; "
        "one third of the histories keep their treaps sorted (insert through split_by, order-preserving tags, split_by at a random "
        "element = interior cut, counted in split_by_interior*); two items (`sum`: rlib's own test item; `aff`: affine tags that do "
        "not commute + a positional hash whose monoid does not commute); (iii) a second stream that calls insert_at/remove_at/from_item "
        "directly with rlib's own priorities while the model draws different ones (6 policies) — only sequence-level observables are "
        "compared, which is sound by the theorems; (iv) a small stream OUTSIDE the stated domain (1 history in 25: positions past the "
        "end for split_at/insert_at/remove_at, non-monotone split_by predicates): spec answer `any`, only model = implementation is "
        "compared there. non-trivial = distinct history inside the stated domain that contains a `tag` followed later by a "
        "restructuring operation (merge/splitat/splitby/insert/remove)")
ASSUMPTIONS = [
    "the Lean model of rlib_treap (Model/Treap.lean) is hand-written; it is tied to the code by running both on the same histories",
    "items are user code: the two harness items are written once in Rust (harness/e_treap/src/items.rs) and once in Lean "
    "(Model/TreapItems.lean, proved lawful); their agreement is part of what the differential run checks",
    "magnitudes stay far below i64/i128 overflow (the harness is built with overflow-checks=true, so a wrap would show up as panic:overflow)",
    "`Box` moves / ownership are modelled as values; memory safety is rustc's",
]
MANIFEST = {
    "level": "proof",
    "text": ("Lean 4 theorems over an abstract lawful item (laws as hypotheses, nothing commutative) and arbitrary priorities (ties included): "
             "merge = ++, split_at = take/drop for every position, split_by = takeWhile/dropWhile for prefix-monotone predicates, "
             "insert_at / remove_at (the theorems also cover positions past the end, which the check treats as outside the stated domain), first/last/collect/size, the root aggregate is the in-order "
             "fold of exactly that subsequence, a modifier attached at a root maps over exactly that tree's elements once and in "
             "attachment order, and `history_refines`: any history on any number of live treaps refines the same history on plain "
             "lists, observation for observation. The two harness items (incl. a non-commuting assign/add/negate tag item with a "
             "non-commutative hash aggregate) are proved lawful. The hand-written model is tied to rlib_treap by a differential "
             "correspondence run on every check."),
    "note": ("Trusted: Lean kernel, axioms propext/Classical.choice/Quot.sound, the hand-written model (checked against the code on the "
             "generated histories only: exhaustive priority orders for <=5 nodes + random 60-op histories, priorities controlled through "
             "the public field), the Rust twins of the two items, harness and driver plumbing."),
    "technique": "Lean 4 proof of a hand-written model + differential correspondence check against the Rust crate",
    "design_ref": "DESIGN.md §6 C03",
}

_RESTRUCT = ("merge", "splitat", "splitby", "insert", "remove")


def nontrivial(case, rec):
    ops = [o.strip() for o in case.split(";")[1:]]
    seen_tag = False
    for o in ops:
        if o.startswith("tag "):
            seen_tag = True
        elif seen_tag and o.split(" ")[0] in _RESTRUCT:
            return True
    return False


def extract(repo):
    """What the harness depends on textually: the priority type it writes and the public fields it reads/writes.
    (The behaviour of merge/split is tied by the differential run, not by text anchors.)"""
    problems = []
    params = {}
    p = os.path.join(repo, "rlib/treap/src/treap_node.rs")
    try:
        src = open(p).read()
    except OSError as e:
        return params, [f"cannot read {p}: {e}"]
    m = re.search(r"type\s+Priority\s*=\s*(\w+)\s*;", src)
    if m:
        params["priority_type"] = m.group(1)
        if m.group(1) != "u32":
            problems.append(f"Priority is {m.group(1)}, the harness writes u32 priorities")
    else:
        problems.append("`type Priority = …;` not found in treap_node.rs")
    params["fields_public"] = all(re.search(r"pub\s+%s\s*:" % f, src) for f in ("item", "priority", "left", "right"))
    if not params["fields_public"]:
        problems.append("TreapNode fields are no longer all public (the harness reads/writes them)")
    return params, problems


def harness_args(params, profile):
    return ["--focus", "C03"]
