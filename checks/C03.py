"""C03 — a treap behaves as a sequence under split/merge/insert/remove with lazy tags (engine `treap`)."""
import os
import re

ID = "C03"
ENGINE = "treap"
CRATE = "e_treap"
DRIVER = "drv_treap"
DRIVER_MODULE = "Driver.Treap"
PROPS = "RlibModel.Props.C03"
PROFILES = ["release", "debug"]   # debug: the same generators in smaller numbers against the debug build of rlib (cfg(debug_assertions), debug_assert!)
SHRINK_SEP = ";"
RULE = ("Wave 4 (seeded C03_m13): items that CARRY A PENDING MODIFICATION are handed to `insert_at` — `inserttag i k v p m` = Item::new(v), "
        "modify(m), insert_at(k, it); `moveroot i take|clone j pos p` = the item at the root of the one-element treap i, read through the "
        "public `root` field (taken out or cloned; it carries whatever was attached to that treap), goes to ts[j].insert_at(pos, it). In the "
        "`own` stream these are the REAL insert_at calls with rlib's priorities (random histories: 2 rolls in 29 each; composed `root_move` = cut "
        "one element out, tag it once or twice, put its root item back with insert_at); a third exhaustive scope runs the real insert_at of such "
        "an item into treaps whose nodes have the priorities 0 / u32::MAX (every assignment [n]->{0,MAX}, n<=3, n<=5 thorough) x every position x "
        "both sized items x 3 sources of the item, so the new node is linked ABOVE its MAX neighbours (gets children at insertion time) and below the "
        "0 ones, followed by every pushing walk (collect, first, last, split_at, remove_at). In `ctl` the same operations run as insert_at's own "
        "definition with the case's priority. "
        "Wave 3: BOTH BUILD PROFILES — the same generators in smaller numbers also run against the debug build of rlib (cfg(debug_assertions), debug_assert!). "
        "cases are histories `C03 <item> <stream> ; op ; op …` on a vector of live treaps (ops: new, item, merge, splitat, splitby, insert, "
        "remove, first, last, collect, size, agg, tag, drop, and — round 3 — the operations that RE-USE what the API returned: `move` = "
        "remove_at then insert_at of the returned item (inside one treap or into another), `take` = Treap::from_item(remove_at(k)), `dup` = "
        "from_item(clone of the only element through first/last/collect), and `collect2` = TreapNode::collect_into of two roots into ONE "
        "vector). Items: `sum`, `aff`, and `key` = a bare key that relies on the trait's DEFAULT update/push and has no TreapItemSized (only "
        "new/item/merge/splitby/first/last/collect/collect2/size/dup/drop exist for it; its sizes are node counts read through the public "
        "fields). Priorities of the controlled stream include the ENDS of the priority type: 3 of the 10 policies draw from {0, u32::MAX}, "
        "{0, 1, MAX-1, MAX} or mix a quarter of these into 32-bit random ones, and a second exhaustive scope runs every assignment "
        "[n]->{0,1,MAX-1,MAX} for n<=3 (n<=4 thorough) x split point x item x build order (ties at 0 and at u32::MAX, empty operands on "
        "either side of merge/split/remove). (i) exhaustive small scope, a full product: every priority assignment "
        "[n]->[n] for n<=4 (n<=5 thorough; all 120 orders of 5 in quick) — all relative orders, ties included — x every split point "
        "0..n x both items x three build orders (left-to-right, right-to-left, balanced), tags before/after the split, remove at the "
        "split point, then a move inside the treap and a take + merge (new-node priorities run over the scope's values); the same builds "
        "for `key` with split_by at every cut (n<=4); (ii) random histories of 25 composed operations, plus shares that first grow one treap to 20-64 and to 70-250 "
        "nodes (aff <= 90) — the size histogram is in generator_histogram (size_max_treap_*, size_nodes_created_*); priorities written "
        "by the case into the public `priority` field (7 policies: heavy ties, increasing, decreasing, 32-bit random, small range, "
        "constant, distinct); composed operations: insert as split/from_item/merge/merge, range tag, range aggregate, split-and-swap; "
        "one third of the histories keep their treaps sorted (insert through split_by, order-preserving tags, split_by at a random "
        "element = interior cut, counted in split_by_interior*); two items (`sum`: rlib's own test item; `aff`: affine tags that do "
        "not commute + a positional hash whose monoid does not commute); (iii) a second stream that calls insert_at/remove_at/from_item "
        "directly with rlib's own priorities while the model draws different ones (6 policies) — only sequence-level observables are "
        "compared, which is sound by the theorems; (iv) a small stream OUTSIDE the stated domain (1 history in 25: positions past the "
        "end for split_at/insert_at/remove_at, non-monotone split_by predicates): spec answer `any`, only model = implementation is "
        "compared there. non-trivial = distinct history inside the stated domain that contains a `tag` followed later by a "
        "restructuring operation (merge/splitat/splitby/insert/remove)")
ASSUMPTIONS = [
    "the Lean model of rlib_treap (Model/Treap.lean) is hand-written; it is tied to the code by running both on the same histories",
    "items are user code: the two harness items are written once in Rust (harness/e_treap/src/items.rs) and once in Lean "
    "(Model/TreapItems.lean, proved lawful); their agreement is part of what the differential run checks",
    "the item `key` stores no size (default `update`): the harness reports the number of nodes it counts through the public left/right "
    "fields, the model item `keyOnly` carries a ghost size maintained by its `update` (proved lawful); a clone of an INTERIOR node's item "
    "is not a fresh item (it carries its subtree's size/aggregate, on the unchanged rlib too), so `dup` only clones the only element of a "
    "treap (guard `size() <= 1` in harness, model and spec)",
    "wave 4: an item that carries a pending modification and stands for ONE element (stored size 1, stored aggregate = aggregate of its own "
    "element: a fresh item after `modify`, or the root item of a treap whose size() is 1) is inside the property's domain — the property's own words "
    "'a modification lazily attached to a subtree root ends up applied to exactly that subtree's elements' (theorems tagged_singleton, insertTagged_seq, "
    "rootItem_seq); the root item of a LARGER treap carries its subtree's size/aggregate and stays outside (guard `size() == 1` in harness, model and spec)",
    "magnitudes stay far below i64/i128 overflow (the harness is built with overflow-checks=true, so a wrap would show up as panic:overflow)",
    "`Box` moves / ownership are modelled as values; memory safety is rustc's",
]
MANIFEST = {
    "level": "proof",
    "text": ("Lean 4 theorems over an abstract lawful item (laws as hypotheses, nothing commutative) and arbitrary priorities (ties included): "
             "merge = ++, split_at = take/drop for every position, split_by = takeWhile/dropWhile for prefix-monotone predicates, "
             "insert_at / remove_at (the theorems also cover positions past the end, which the check treats as outside the stated domain; remove_at "
             "returns the item of a normalised one-node treap — size 1, aggregate of itself, no pending tag — which may be inserted again: "
             "insertItem_seq, fromItem_seq, moveAt_seq; an item that still CARRIES a pending modification — hand-built with new + modify, or read off the root of a "
             "modified one-element treap — inserted with insert_at puts exactly its (modified) element at the position and modifies no neighbour, whatever "
             "priority the new node draws: tagged_singleton, insertTagged_seq, rootItem_seq, rootItem_iff), first/last/collect/size, the root aggregate is the in-order "
             "fold of exactly that subsequence, a modifier attached at a root maps over exactly that tree's elements once and in "
             "attachment order, and `history_refines`: any history on any number of live treaps refines the same history on plain "
             "lists, observation for observation (the operation language includes moving / taking out / cloning returned items and "
             "collect_into into a shared vector). The three harness items (one that relies on the trait's default update/push, and a non-commuting assign/add/negate tag item with a "
             "non-commutative hash aggregate) are proved lawful. The hand-written model is tied to rlib_treap by a differential "
             "correspondence run on every check."),
    "note": ("Trusted: Lean kernel, axioms propext/Classical.choice/Quot.sound, the hand-written model (checked against the code on the "
             "generated histories only: exhaustive priority orders for <=5 nodes + random 60-op histories, priorities controlled through "
             "the public field), the Rust twins of the two items, harness and driver plumbing."),
    "technique": "Lean 4 proof of a hand-written model + differential correspondence check against the Rust crate",
    "design_ref": "DESIGN.md §6 C03",
}

_RESTRUCT = ("merge", "splitat", "splitby", "insert", "remove", "move", "take", "inserttag", "moveroot")


def nontrivial(case, rec):
    ops = [o.strip() for o in case.split(";")[1:]]
    seen_tag = False
    for o in ops:
        if o.startswith("tag "):
            seen_tag = True
        elif seen_tag and o.split(" ")[0] in _RESTRUCT:
            return True
    return False


def extract(repo):
    """What the harness depends on textually: the priority type it writes and the public fields it reads/writes.
    (The behaviour of merge/split is tied by the differential run, not by text anchors.)"""
    problems = []
    params = {}
    p = os.path.join(repo, "rlib/treap/src/treap_node.rs")
    try:
        src = open(p).read()
    except OSError as e:
        return params, [f"cannot read {p}: {e}"]
    m = re.search(r"type\s+Priority\s*=\s*(\w+)\s*;", src)
    if m:
        params["priority_type"] = m.group(1)
        if m.group(1) != "u32":
            problems.append(f"Priority is {m.group(1)}, the harness writes u32 priorities")
    else:
        problems.append("`type Priority = …;` not found in treap_node.rs")
    params["fields_public"] = all(re.search(r"pub\s+%s\s*:" % f, src) for f in ("item", "priority", "left", "right"))
    if not params["fields_public"]:
        problems.append("TreapNode fields are no longer all public (the harness reads/writes them)")
    return params, problems


def harness_args(params, profile):
    return ["--focus", "C03", "--profile", profile]
