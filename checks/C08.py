"""C08 — Reader results depend only on the input bytes, not on delivery (engine `io`, reader half)."""
import os
import re

ID = "C08"
ENGINE = "io"
CRATE = "e_io"
DRIVER = "drv_io"
DRIVER_MODULE = "Driver.Io"
PROPS = "RlibModel.Props.C08"
PROFILES = ["release"]
SHRINK_SEP = ";"
RULE = ("case = (BUF, input bytes, delivery schedule, script). Inputs from the token/separator grammar (all 12 integer types "
        "incl. MIN/MAX, words, chars; separators space, tab, LF, CR LF, runs), line-oriented inputs (empty lines, CRLF, "
        "unterminated last line, lone CR at the end, CR in the middle), long inputs >= 3*BUF. Schedules: chunk sizes 1, 2, token "
        "boundaries, between '-' and digits, between CR and LF, BUF-1/BUF/BUF+1 (BUF extracted from reader.rs), Interrupted at "
        "chosen read calls; for inputs of <= 6 bytes ALL chunkings x all single-interrupt placements. Scripts mix read::<T>, "
        "tuples, read_vec, read_line(s), is_eof. Every case is also replayed by the harness under the one-big-read schedule and "
        "through an independent tokenizer; a difference is marked in the view. The spec (S) and the view constrain only the "
        "in-domain prefix of a script (valid integer tokens in range, no token/char read when nothing is left); ` ~` marks that "
        "later operations are outside the property's domain: their results are compared with the model (raw) but are never a "
        "counterexample. non-trivial = distinct case with a non-empty in-domain prefix whose schedule splits the input into at "
        "least two reads or contains an Interrupted event")
ASSUMPTIONS = [
    "the Lean model of rlib_io::Reader is hand-written; it is tied to the code by running both on the same (input, schedule, script) cases",
    "the source obeys the std::io::Read contract: it never reports more bytes than it wrote, and after returning 0 it has no more data",
    "harness built in the release profile with overflow-checks=true (debug_assert! of reader.rs is off, as in a contest build)",
    "BUF_SIZE is extracted from rlib/io/src/reader.rs on every run and handed to the model; the theorems hold for every BUF >= 1",
]
TRUSTED_EXTRA = ["std::io::Read contract of the source handed to Reader::new", "Box<dyn Read>, String::push, Vec::push of std"]
MANIFEST = {
    "level": "proof",
    "text": ("Lean 4 theorems about an executable model of Reader (stale buffer kept, begin/end/eof, sources = lists of data chunks and "
             "Interrupted events, BUF a parameter): refill preserves the remaining byte string; every operation (skip_whitespace, "
             "String, char, 12 integer types with checked arithmetic, read_line, read_lines, is_eof, read_vec, tuples) refines a pure "
             "function of the remaining bytes; hence delivery_independent: any two event lists with the same data concatenation, any "
             "two buffer sizes >= 1 and any script give the same outputs, equal to the spec's; consumed_bytes_irrelevant; "
             "decimal parsing returns the value for every integer of every width incl. MIN. The model is tied to rlib_io by a "
             "differential correspondence run (schedule-driven Read source) on every check."),
    "note": ("Trusted: Lean kernel, axioms propext/Classical.choice/Quot.sound, the hand-written model (checked against the code on generated "
             "cases only: exhaustive chunkings x single interrupts for inputs <= 6 bytes, boundary-targeted and random schedules), the Read "
             "contract of the source, harness and driver plumbing. Non-ASCII bytes are modelled (Latin-1 `as char`) but are outside the property."),
    "technique": "Lean 4 proof of a hand-written model + differential correspondence check against the Rust crate",
    "design_ref": "DESIGN.md §6 C08",
}


def extract(repo):
    """BUF_SIZE of Reader, read from the source text with anchored regexes (fail loudly)."""
    problems = []
    params = {}
    path = os.path.join(repo, "rlib", "io", "src", "reader.rs")
    try:
        src = open(path).read()
    except OSError as e:
        return params, [f"cannot read {path}: {e}"]
    m = re.search(r"^\s*const\s+BUF_SIZE\s*:\s*usize\s*=\s*([^;]+);", src, flags=re.M)
    if not m:
        problems.append("reader.rs: `const BUF_SIZE: usize = ...;` not found")
        return params, problems
    expr = m.group(1).strip().replace("_", "")
    val = None
    mm = re.fullmatch(r"(\d+)\s*<<\s*(\d+)", expr)
    if mm:
        val = int(mm.group(1)) << int(mm.group(2))
    elif re.fullmatch(r"\d+", expr):
        val = int(expr)
    elif re.fullmatch(r"\d+(\s*\*\s*\d+)+", expr):
        val = 1
        for f in expr.split("*"):
            val *= int(f)
    if val is None:
        problems.append(f"reader.rs: BUF_SIZE expression not understood: {expr!r}")
        return params, problems
    params["reader_buf_size"] = val
    if not re.search(r"buf\s*:\s*\[\s*u8\s*;\s*Reader::BUF_SIZE\s*\]", src):
        problems.append("reader.rs: the buffer is no longer `[u8; Reader::BUF_SIZE]`")
    # side condition of the theorems
    if val < 1:
        problems.append(f"side condition BUF >= 1 fails for the extracted BUF_SIZE = {val}")
    return params, problems


def harness_args(params, profile):
    return ["--buf", str(params.get("reader_buf_size", 65536))]


def nontrivial(case, rec):
    """schedule splits the input or interrupts a read (header = `BUF hex sched`)."""
    try:
        if rec["model"] is not None and rec["model"][2].startswith("- ~"):
            return False
        hdr = case.split(";")[0].split()
        buf, hx, sched = int(hdr[0]), hdr[1], hdr[2]
    except (IndexError, ValueError):
        return False
    n = 0 if hx == "-" else len(hx) // 2
    if sched == "-":
        return n > buf
    items = sched.split(",")
    if any(it.startswith("i") for it in items):
        return True
    first = items[0].split("x")[0]
    try:
        return min(int(first), buf) < n
    except ValueError:
        return False
