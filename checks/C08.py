"""C08 — Reader results depend only on the input bytes, not on delivery (engine `io`, reader half)."""
import os
import re

ID = "C08"
ENGINE = "io"
CRATE = "e_io"
DRIVER = "drv_io"
DRIVER_MODULE = "Driver.Io"
PROPS = "RlibModel.Props.C08"
PROPS_SRC = "RlibModel.Props.C08Src"     # second tie: `src_*` theorems about the definitions regenerated from the source text
PROFILES = ["release", "debug"]     # debug: debug_assert!s of reader.rs on, no optimisation (reduced streams, see harness_args)
SHRINK_SEP = ";"
RULE = ("case = (BUF, input bytes, delivery schedule, script). Inputs from the token/separator grammar (all 12 integer types "
        "incl. MIN/MAX, words, chars; token, char and line bytes from the whole non-whitespace ASCII range: printable, and in 1 word/line of 5 "
        "NUL - the value peek yields at end of input -, VT, DEL and the other C0 controls; bytes >= 0x80 only on `full` twin lines, counted, "
        "since the property speaks of ASCII inputs; separators space, tab, LF, CR LF, runs), line-oriented inputs (empty lines, CRLF, "
        "unterminated last line, lone CR at the end, CR in the middle), long inputs >= 3*BUF. Schedules: chunk sizes 1, 2, token "
        "boundaries, between '-' and digits, between CR and LF, BUF-1/BUF/BUF+1 (BUF extracted from reader.rs), Interrupted at "
        "chosen read calls; for inputs of <= 6 bytes over {1,-,space,LF,CR,a} (and, containing a NUL, over that alphabet plus NUL) ALL chunkings x "
        "all single-interrupt placements. Scripts mix read::<T>, "
        "tuples, read_vec, read_line(s), is_eof. Every case is also replayed by the harness under the one-big-read schedule and "
        "through an independent tokenizer; a difference is marked in the view. The spec (S) and the view constrain only the "
        "in-domain prefix of a script (valid integer tokens in range, no token/char read when nothing is left); ` ~` marks that "
        "later operations are outside the property's domain: they are not compared on that line; every case of the out-of-domain "
        "stream has a twin line (header flag `full`, `S any`) on which all results of model and implementation are compared and "
        "differences are only counted. The buffer size comes from the source text when an anchor matches, else from the running "
        "code (coverage.extracted_params.buf_source). Stream 7 (wave 3): SEVERAL Readers alive on one thread, each over its own input "
        "and schedule, calls interleaved - all merges of two scripts of <= 3 calls over 8 tiny inputs, random merges / round robin / bursts over "
        "2..5 readers, the temporary-reader shape (readers created, used and dropped between two calls of a main reader; also readers "
        "that are only created and dropped, readers over a line of the main input, readers over the same bytes), two inputs longer than BUF; "
        "lifecycle steps new (up front or lazy) / drop (at once, at the end, never) / mv (the value is moved in memory); the harness also replays "
        "the calls of every reader on a fresh Reader used alone (`!alone<k>`). Stream 8 (wave 4): degenerate arguments of every entry point - "
        "read_vec(0) of every element shape (atoms and tuples), read_vec(1), one-row vectors of tuples, tuples, is_eof or read_vec(0) between every "
        "two calls - directly followed by read_line / read_lines, so that whitespace a call swallowed without being entitled to shows in the next "
        "result: all inputs <= 3 bytes (thorough 4) over {1,-,space,LF,CR,a} x fixed shapes (all at once, byte by byte), and oracle-simulated random "
        "scripts over line-oriented / grammar / special / `count line + values + text` inputs. Stream 9 (wave 4): long runs of 10..45 thousand bytes "
        "(thorough: up to 4*BUF) - one line (also with bare CRs), one token, blanks before a token, empty LF / CR LF lines, a zero-padded integer, very "
        "many one-digit tokens read by one read_vec, very many one-byte lines - delivered one / two / seven / 1..3 bytes per read (with and without "
        "Interrupted) and all at once; these cases carry the header flag `ss`: the harness answers each in a child process on a thread whose stack is "
        "256 KiB + 4 * size_of::<Reader>(), and the death of the child is the view `STACK!...` (recursion per refill / per byte / per element is a "
        "violation with that input). A second, reduced run of all streams - streams 8 and 9 included - uses the debug build "
        "(debug_assert! on, no tail-call optimisation). non-trivial = distinct case with a non-empty in-domain prefix whose schedule splits the input into at "
        "least two reads or contains an Interrupted event; for a multi-reader case: some reader is used again after another reader made a call")
ASSUMPTIONS = [
    "the Lean model of rlib_io::Reader is hand-written; it is tied to the code by running both on the same (input, schedule, script) cases",
    "the source obeys the std::io::Read contract: it never reports more bytes than it wrote, and after returning 0 it has no more data",
    "harness built in the release profile with overflow-checks=true (debug_assert! of reader.rs is off, as in a contest build); a second, reduced run uses the debug build (debug_assert! on): the model has no debug_assert!, which is sound because every compared result lies inside the property's domain, where none of them can fire; outside it (twin lines) differences are only counted",
    "several live readers (stream 7): the model keeps one independent RState per reader (runMulti), so independence of readers holds in the model by construction and is stated as theorems (readers_independent, spec_reader_independent); that the REAL readers do not share state is what the differential run tests - on one thread only (readers on different threads are not exercised); Reader::new, drop and a move of the value are no-ops of the model; `!alone<k>` is an independent replay inside the harness (a fresh Reader used alone), not a model",
    "small-stack cases (stream 9, header flag `ss`): that the reader needs only a bounded amount of stack is not part of the Lean model (its functions are total, "
    "structurally recursive definitions; stack depth is not modelled); it is tested: the harness re-runs the case in a child process on a thread with "
    "256 KiB + 4 * size_of::<Reader>() of stack and reports the child's death as the view `STACK!...`, which never equals the specification's answer. The bound is generous "
    "for every loop-based implementation (the Reader value with its inline buffer may legitimately be built and moved on the stack) and far below what per-refill / per-byte "
    "recursion over >= 10,000 reads needs in the debug build",
    "read_vec(0) consumes nothing: a theorem of model and specification (read_vec_zero_consumes_nothing, read_vec_zero_anywhere, spec_read_vec_zero_anywhere); for the code it is "
    "what stream 8 tests in both build profiles (a debug_assert! with a side effect exists only in the debug build)",
    "the buffer size is read from rlib/io/src/reader.rs when an anchor matches, otherwise learned from the running code (slice offered to the first read); it only aims the boundary streams and parametrises the model: the theorems hold for every BUF >= 1 and the spec does not depend on it",
]
TRUSTED_EXTRA = ["std::io::Read contract of the source handed to Reader::new", "Box<dyn Read>, String::push, Vec::push of std"]
MANIFEST = {
    "level": "proof",
    "text": ("Lean 4 theorems about an executable model of Reader (stale buffer kept, begin/end/eof, sources = lists of data chunks and "
             "Interrupted events, BUF a parameter): refill preserves the remaining byte string; every operation (skip_whitespace, "
             "String, char, 12 integer types with checked arithmetic, read_line, read_lines, is_eof, read_vec, tuples) refines a pure "
             "function of the remaining bytes; hence delivery_independent: any two event lists with the same data concatenation, any "
             "two buffer sizes >= 1 and any script give the same outputs, equal to the spec's; consumed_bytes_irrelevant; "
             "decimal parsing returns the value for every integer of every width incl. MIN. Several readers: a script interleaving calls on "
             "several readers (each in its own reachable state) yields the interleaving of the per-reader specification traces "
             "(multi_refines, multi_schedule_independent), and what reader k returns equals what the same calls return on a reader used "
             "alone over the same bytes under any other delivery (readers_independent). A read_vec(0) inserted anywhere in a script "
             "changes nothing but its own empty result, in the model from every state and in the specification "
             "(read_vec_zero_anywhere, spec_read_vec_zero_anywhere). The model is tied to rlib_io by a "
             "differential correspondence run (schedule-driven Read source; one or several live Readers on a thread) on every check."),
    "note": ("Trusted: Lean kernel, axioms propext/Classical.choice/Quot.sound, the hand-written model (checked against the code on generated "
             "cases only: exhaustive chunkings x single interrupts for inputs <= 6 bytes, boundary-targeted and random schedules), the Read "
             "contract of the source, harness and driver plumbing. Non-ASCII bytes are modelled (Latin-1 `as char`) but are outside the property."),
    "technique": "Lean 4 proof of a hand-written model + differential correspondence check against the Rust crate",
    "design_ref": "DESIGN.md §6 C08",
}


def _eval_usize(expr):
    """`1 << 16`, `65536`, `64 * 1024`, `1 << 10 << 6`, `65_536usize` ... -> int, or None."""
    e = re.sub(r"(?<=\d)_(?=\d)", "", expr.strip())
    e = re.sub(r"(\d)(?:usize|u64|u32)\b", r"\1", e)
    if not re.fullmatch(r"[0-9\s<*+()\-]+", e) or not re.search(r"\d", e):
        return None
    try:
        v = eval(e, {"__builtins__": {}}, {})      # digits, <<, *, +, -, parentheses only
    except Exception:
        return None
    return v if isinstance(v, int) else None


def _find_const(src, name):
    m = re.search(r"\bconst\s+" + re.escape(name) + r"\s*:\s*usize\s*=\s*([^;]+);", src)
    return _eval_usize(m.group(1)) if m else None


def _resolve_len(src, expr):
    """length expression of a byte buffer: a literal expression or a (possibly qualified) constant name."""
    expr = expr.strip()
    v = _eval_usize(expr)
    if v is not None:
        return v
    m = re.fullmatch(r"(?:[A-Za-z_][A-Za-z0-9_]*\s*::\s*)*([A-Za-z_][A-Za-z0-9_]*)", expr)
    return _find_const(src, m.group(1)) if m else None


def extract(repo):
    """Best effort: the reader's buffer size from the source text. The verdict does not need it (the theorems hold for
    every BUF >= 1 and the spec does not mention BUF); it aims the boundary streams and parametrises the model. When no
    anchor matches, the harness learns the size from the running code (`--buf auto`: length of the slice offered to the
    first `read` call) and this is recorded as a note: buf_source = "observed"."""
    params = {"buf_source": "observed"}
    path = os.path.join(repo, "rlib", "io", "src", "reader.rs")
    try:
        src = open(path).read()
    except OSError as e:
        params["extraction_note"] = f"cannot read {path}: {e}; buffer size will be observed"
        return params, []
    val, how = None, None
    # 1. the current anchors
    v = _find_const(src, "BUF_SIZE")
    if v is not None and re.search(r"\[\s*u8\s*;\s*(?:Reader::|Self::)?BUF_SIZE\s*\]|\[\s*0(?:u8)?\s*;\s*(?:Reader::|Self::)?BUF_SIZE\s*\]", src):
        val, how = v, "const BUF_SIZE used as the length of the byte buffer"
    # 2. generic: the length of a byte buffer, `[u8; X]`, `[0; X]`, `[0u8; X]`, `vec![0; X]`, `vec![0u8; X]`
    if val is None:
        cands = []
        for m in re.finditer(r"\[\s*u8\s*;\s*([^\]]+)\]|\[\s*0(?:u8)?\s*;\s*([^\]]+)\]", src):
            r = _resolve_len(src, m.group(1) or m.group(2))
            if r is not None and r >= 1:
                cands.append(r)
        if cands and len(set(cands)) == 1:
            val, how = cands[0], "length expression of the byte buffer (generic anchor)"
        elif cands:
            params["extraction_note"] = f"ambiguous buffer lengths in reader.rs: {sorted(set(cands))}; buffer size will be observed"
    if val is None:
        params.setdefault("extraction_note", "no buffer-size anchor matched in reader.rs; buffer size will be observed from the running code")
        return params, []
    params["reader_buf_size"] = val
    params["buf_source"] = "source"
    params["extraction_anchor"] = how
    return params, []


# ---- second tie: reader.rs regenerated from the source text on every run (tools/rs2lean_reader.py) ---------------------------
ASSUMPTIONS.append(
    "second tie: new/refill/peek/skip_whitespace/read_line/is_eof, the String and char readers and the bodies of read_signed!/read_unsigned! "
    "(all twelve integer instances) of the hand-written model are proved equal (theorems src_*_eq_model) to the definitions that "
    "tools/rs2lean_reader.py regenerates from the text of rlib/io/src/reader.rs on every run (Generated/ReaderSrc.lean: the struct is the tuple "
    "of its fields, usize = Nat with checked + and -, the byte source is an explicit oracle parameter answered from the model's event list, "
    "while loops on fuel, the Interrupted-retry loop on the schedule length); hypotheses: the buffer length fits usize and, except for refill/peek, "
    "end <= buffer length (nothing about begin, eof, the source or the fuel); trusted there: the translator, its reading of std in "
    "Generated/IoPrelude.lean (Read::read contract of one call, slices, copy_within, u8/char/String as code points, debug_assert! off in the "
    "release profile); NOT translated (differential tie only): read::<T>, read_lines, read_vec, read_tuple! (generic / closure / macro-repetition code)")
MANIFEST["technique"] += " + source-to-Lean translation of rlib/io/src/reader.rs regenerated and proved equal to the model on every run"
MANIFEST["text"] += (" Second tie: the functions of reader.rs (new, refill, peek, skip_whitespace, read_line, is_eof, String/char readers, the read_signed!/read_unsigned! "
                     "bodies) are re-translated from the source text on every run and proved equal to the model for all buffer states, sources and fuels.")
TRUSTED_EXTRA.append("tools/rs2lean_reader.py and lean/RlibModel/Generated/IoPrelude.lean (reading of std::io::Read::read, slices, copy_within, u8/char/String)")

READER_FNS = ["new", "refill", "peek", "skip_whitespace", "read_line", "is_eof", "String::read", "char::read", "read_signed!", "read_unsigned!"]

_extract_buf = extract


def extract(repo):
    """The buffer size (above), then the translation of <repo>/rlib/io/src/reader.rs into Generated/ReaderSrc.lean (written only when its
    text changes).  A construct outside the translator's subset makes the second tie unavailable (problem with the SUBSET prefix); the
    generated file then has no definitions, so the src_* theorems stop compiling as well (never a stale file left in place)."""
    import sys
    params, problems = _extract_buf(repo)
    verif = os.path.dirname(os.path.dirname(os.path.abspath(__file__)))
    tools = os.path.join(verif, "tools")
    if tools not in sys.path:
        sys.path.insert(0, tools)
    import rs2lean_reader
    rel = "rlib/io/src/reader.rs"
    out = os.path.join(verif, "lean", "RlibModel", "Generated", "ReaderSrc.lean")
    info, p2 = rs2lean_reader.run(os.path.join(repo, rel), out, "Rlib.ReaderSrc", rel, ID, "Reader", READER_FNS)
    params.update({"translated_from": rel, "translated_functions": info.get("functions", []), "translated_loops": info.get("loops", []),
                   "translated_instances": info.get("instances", {}),
                   "not_translated": info.get("not_translated", []) + ["debug_assert!(…) (off in the release profile the harness builds)"],
                   "generated_file": "lean/RlibModel/Generated/ReaderSrc.lean", "generated_file_rewritten": info.get("rewritten", False)})
    return params, problems + p2


def harness_args(params, profile):
    """`--profile debug`: the generator emits the same streams at a reduced size (gen.rs `Gen::size`)."""
    return ["--buf", str(params["reader_buf_size"]) if params.get("buf_source") == "source" else "auto", "--profile", profile]


def _extra_probe(ctx):
    """Record the buffer size seen from outside (length of the slice offered to the first `read`): it is the BUF used
    when the textual extraction found nothing, and a cross-check (a note, never a verdict) when it did."""
    import subprocess
    params = ctx["params"]
    for pipe in ctx["pipes"]:
        try:
            r = subprocess.run([pipe.bin, "probe"], capture_output=True, text=True, timeout=60)
            obs = int(r.stdout.strip())
        except Exception as e:       # noqa: BLE001
            params["observed_note"] = f"probe failed: {e}"
            break
        params["reader_buf_observed"] = obs
        if params.get("buf_source") != "source":
            params["reader_buf_size"] = obs
        elif obs != params.get("reader_buf_size"):
            params["buf_note"] = (f"extracted buffer size {params.get('reader_buf_size')} differs from the slice length {obs} offered to the "
                                  "first read call; boundary-targeted inputs are aimed at the extracted value")
        break
    return []


def extra(ctx):
    """The buffer-size probe, then a plain-words verdict on the second tie when the src_* proofs did not build."""
    out = list(_extra_probe(ctx))
    import rs2lean
    ok = bool(ctx["params"].get("translated_functions"))
    if ctx["coverage"].get("second_tie", {}).get("status") != "broken":
        # the build of Props/C08Src has just succeeded (or the tie is unavailable): tie_findings compares file times, and a generated file that
        # was rewritten with identical text after a --repo run would look "newer than its .olean" although lake (hash-based) rightly did not rebuild
        return out
    return out + rs2lean.tie_findings(["RlibModel/Generated/ReaderSrc.lean", "RlibModel/Generated/IoPrelude.lean"], "RlibModel/Lemmas/ReaderSrc.lean", ok,
                                      "rlib/io/src/reader.rs")


def nontrivial(case, rec):
    """schedule splits the input or interrupts a read (header = `BUF hex sched`)."""
    try:
        if rec["model"] is not None and rec["model"][2].startswith("- ~"):
            return False
        hdr = case.split(";")[0].split()
        buf, hx, sched = int(hdr[0]), hdr[1], hdr[2]
        if "+" in hdr:
            # several live readers: some reader makes a call, then another reader does, then the first one is used again
            ks = [int(st.split(".")[0]) for st in (p.strip() for p in case.split(";")[1:])
                  if "." in st and st.split(".", 1)[1] not in ("new", "drop", "mv")]
            return any(ks[i] != ks[i - 1] and ks[i] in ks[:i - 1] for i in range(1, len(ks)))
    except (IndexError, ValueError):
        return False
    n = 0 if hx == "-" else len(hx) // 2
    if sched == "-":
        return n > buf
    items = sched.split(",")
    if any(it.startswith("i") for it in items):
        return True
    first = items[0].split("x")[0]
    try:
        return min(int(first), buf) < n
    except ValueError:
        return False
