"""C08 — Reader results depend only on the input bytes, not on delivery (engine `io`, reader half)."""
import os
import re

ID = "C08"
ENGINE = "io"
CRATE = "e_io"
DRIVER = "drv_io"
DRIVER_MODULE = "Driver.Io"
PROPS = "RlibModel.Props.C08"
PROFILES = ["release"]
SHRINK_SEP = ";"
RULE = ("case = (BUF, input bytes, delivery schedule, script). Inputs from the token/separator grammar (all 12 integer types "
        "incl. MIN/MAX, words, chars; separators space, tab, LF, CR LF, runs), line-oriented inputs (empty lines, CRLF, "
        "unterminated last line, lone CR at the end, CR in the middle), long inputs >= 3*BUF. Schedules: chunk sizes 1, 2, token "
        "boundaries, between '-' and digits, between CR and LF, BUF-1/BUF/BUF+1 (BUF extracted from reader.rs), Interrupted at "
        "chosen read calls; for inputs of <= 6 bytes ALL chunkings x all single-interrupt placements. Scripts mix read::<T>, "
        "tuples, read_vec, read_line(s), is_eof. Every case is also replayed by the harness under the one-big-read schedule and "
        "through an independent tokenizer; a difference is marked in the view. The spec (S) and the view constrain only the "
        "in-domain prefix of a script (valid integer tokens in range, no token/char read when nothing is left); ` ~` marks that "
        "later operations are outside the property's domain: they are not compared on that line; every case of the out-of-domain "
        "stream has a twin line (header flag `full`, `S any`) on which all results of model and implementation are compared and "
        "differences are only counted. The buffer size comes from the source text when an anchor matches, else from the running "
        "code (coverage.extracted_params.buf_source). non-trivial = distinct case with a non-empty in-domain prefix whose schedule splits the input into at "
        "least two reads or contains an Interrupted event")
ASSUMPTIONS = [
    "the Lean model of rlib_io::Reader is hand-written; it is tied to the code by running both on the same (input, schedule, script) cases",
    "the source obeys the std::io::Read contract: it never reports more bytes than it wrote, and after returning 0 it has no more data",
    "harness built in the release profile with overflow-checks=true (debug_assert! of reader.rs is off, as in a contest build)",
    "the buffer size is read from rlib/io/src/reader.rs when an anchor matches, otherwise learned from the running code (slice offered to the first read); it only aims the boundary streams and parametrises the model: the theorems hold for every BUF >= 1 and the spec does not depend on it",
]
TRUSTED_EXTRA = ["std::io::Read contract of the source handed to Reader::new", "Box<dyn Read>, String::push, Vec::push of std"]
MANIFEST = {
    "level": "proof",
    "text": ("Lean 4 theorems about an executable model of Reader (stale buffer kept, begin/end/eof, sources = lists of data chunks and "
             "Interrupted events, BUF a parameter): refill preserves the remaining byte string; every operation (skip_whitespace, "
             "String, char, 12 integer types with checked arithmetic, read_line, read_lines, is_eof, read_vec, tuples) refines a pure "
             "function of the remaining bytes; hence delivery_independent: any two event lists with the same data concatenation, any "
             "two buffer sizes >= 1 and any script give the same outputs, equal to the spec's; consumed_bytes_irrelevant; "
             "decimal parsing returns the value for every integer of every width incl. MIN. The model is tied to rlib_io by a "
             "differential correspondence run (schedule-driven Read source) on every check."),
    "note": ("Trusted: Lean kernel, axioms propext/Classical.choice/Quot.sound, the hand-written model (checked against the code on generated "
             "cases only: exhaustive chunkings x single interrupts for inputs <= 6 bytes, boundary-targeted and random schedules), the Read "
             "contract of the source, harness and driver plumbing. Non-ASCII bytes are modelled (Latin-1 `as char`) but are outside the property."),
    "technique": "Lean 4 proof of a hand-written model + differential correspondence check against the Rust crate",
    "design_ref": "DESIGN.md §6 C08",
}


def _eval_usize(expr):
    """`1 << 16`, `65536`, `64 * 1024`, `1 << 10 << 6`, `65_536usize` ... -> int, or None."""
    e = re.sub(r"(?<=\d)_(?=\d)", "", expr.strip())
    e = re.sub(r"(\d)(?:usize|u64|u32)\b", r"\1", e)
    if not re.fullmatch(r"[0-9\s<*+()\-]+", e) or not re.search(r"\d", e):
        return None
    try:
        v = eval(e, {"__builtins__": {}}, {})      # digits, <<, *, +, -, parentheses only
    except Exception:
        return None
    return v if isinstance(v, int) else None


def _find_const(src, name):
    m = re.search(r"\bconst\s+" + re.escape(name) + r"\s*:\s*usize\s*=\s*([^;]+);", src)
    return _eval_usize(m.group(1)) if m else None


def _resolve_len(src, expr):
    """length expression of a byte buffer: a literal expression or a (possibly qualified) constant name."""
    expr = expr.strip()
    v = _eval_usize(expr)
    if v is not None:
        return v
    m = re.fullmatch(r"(?:[A-Za-z_][A-Za-z0-9_]*\s*::\s*)*([A-Za-z_][A-Za-z0-9_]*)", expr)
    return _find_const(src, m.group(1)) if m else None


def extract(repo):
    """Best effort: the reader's buffer size from the source text. The verdict does not need it (the theorems hold for
    every BUF >= 1 and the spec does not mention BUF); it aims the boundary streams and parametrises the model. When no
    anchor matches, the harness learns the size from the running code (`--buf auto`: length of the slice offered to the
    first `read` call) and this is recorded as a note: buf_source = "observed"."""
    params = {"buf_source": "observed"}
    path = os.path.join(repo, "rlib", "io", "src", "reader.rs")
    try:
        src = open(path).read()
    except OSError as e:
        params["extraction_note"] = f"cannot read {path}: {e}; buffer size will be observed"
        return params, []
    val, how = None, None
    # 1. the current anchors
    v = _find_const(src, "BUF_SIZE")
    if v is not None and re.search(r"\[\s*u8\s*;\s*(?:Reader::|Self::)?BUF_SIZE\s*\]|\[\s*0(?:u8)?\s*;\s*(?:Reader::|Self::)?BUF_SIZE\s*\]", src):
        val, how = v, "const BUF_SIZE used as the length of the byte buffer"
    # 2. generic: the length of a byte buffer, `[u8; X]`, `[0; X]`, `[0u8; X]`, `vec![0; X]`, `vec![0u8; X]`
    if val is None:
        cands = []
        for m in re.finditer(r"\[\s*u8\s*;\s*([^\]]+)\]|\[\s*0(?:u8)?\s*;\s*([^\]]+)\]", src):
            r = _resolve_len(src, m.group(1) or m.group(2))
            if r is not None and r >= 1:
                cands.append(r)
        if cands and len(set(cands)) == 1:
            val, how = cands[0], "length expression of the byte buffer (generic anchor)"
        elif cands:
            params["extraction_note"] = f"ambiguous buffer lengths in reader.rs: {sorted(set(cands))}; buffer size will be observed"
    if val is None:
        params.setdefault("extraction_note", "no buffer-size anchor matched in reader.rs; buffer size will be observed from the running code")
        return params, []
    params["reader_buf_size"] = val
    params["buf_source"] = "source"
    params["extraction_anchor"] = how
    return params, []


def harness_args(params, profile):
    return ["--buf", str(params["reader_buf_size"]) if params.get("buf_source") == "source" else "auto"]


def extra(ctx):
    """Record the buffer size seen from outside (length of the slice offered to the first `read`): it is the BUF used
    when the textual extraction found nothing, and a cross-check (a note, never a verdict) when it did."""
    import subprocess
    params = ctx["params"]
    for pipe in ctx["pipes"]:
        try:
            r = subprocess.run([pipe.bin, "probe"], capture_output=True, text=True, timeout=60)
            obs = int(r.stdout.strip())
        except Exception as e:       # noqa: BLE001
            params["observed_note"] = f"probe failed: {e}"
            break
        params["reader_buf_observed"] = obs
        if params.get("buf_source") != "source":
            params["reader_buf_size"] = obs
        elif obs != params.get("reader_buf_size"):
            params["buf_note"] = (f"extracted buffer size {params.get('reader_buf_size')} differs from the slice length {obs} offered to the "
                                  "first read call; boundary-targeted inputs are aimed at the extracted value")
        break
    return []


def nontrivial(case, rec):
    """schedule splits the input or interrupts a read (header = `BUF hex sched`)."""
    try:
        if rec["model"] is not None and rec["model"][2].startswith("- ~"):
            return False
        hdr = case.split(";")[0].split()
        buf, hx, sched = int(hdr[0]), hdr[1], hdr[2]
    except (IndexError, ValueError):
        return False
    n = 0 if hx == "-" else len(hx) // 2
    if sched == "-":
        return n > buf
    items = sched.split(",")
    if any(it.startswith("i") for it in items):
        return True
    first = items[0].split("x")[0]
    try:
        return min(int(first), buf) < n
    except ValueError:
        return False
