"""C13 — sieve tables equal the arithmetic definitions (engine `sieve`)."""
ID = "C13"
ENGINE = "sieve"
CRATE = "e_sieve"
DRIVER = "drv_sieve"
DRIVER_MODULE = "Driver.Sieve"
PROPS = "RlibModel.Props.C13"
PROFILES = ["release"]
SHRINK_SEP = None
RULE = ("cases: `tab N` for EVERY limit N in [0,3000] (all three tables read through min_prime/is_prime/primes for every n <= N, "
        "FNV-64 of each table compared with the model's, every entry compared with a trial-division oracle -> view ok / first bad entry); "
        "whole tables as text for every N <= 300 and for N in {p^2-1,p^2,p^2+1}; `fact N n` for every n <= 3000 on N=3000 and on the tightest "
        "table N=n; accessor probes incl. n=N and a small out-of-range stream; sampled factorisations (prime powers, primorials, highly "
        "composite, p*q and p^2 next to the limit, smooth, random) on N=10^5 (thorough: 10^6, 10^7); random larger limits; thorough adds "
        "tab 999999, tab 10^6 (model + trial division) and big 10^7 (implementation vs an independent segmented Eratosthenes in the harness, "
        "model hash compared too). non-trivial = distinct in-domain case with limit N >= 2")
ASSUMPTIONS = [
    "the Lean model of rlib_sieve is hand-written; it is tied to the code by running both on the same cases",
    "values are modelled as Nat: the casts `i as i32` / `primes[j] as usize` are the identity only for N < 2^31 (named residue)",
    "a `tab` line compares 64-bit FNV hashes of the tables between model and implementation; entry-level agreement is established "
    "against the independent oracles (trial division / segmented Eratosthenes), which also pinpoint the first bad entry",
]
MANIFEST = {
    "level": "proof",
    "text": ("Lean 4 theorems about the executable linear-sieve model, for EVERY limit N: min_prime(n) = Nat.minFac n for 2 <= n <= N, "
             "is_prime(n) = decide (Nat.Prime n) for n <= N, primes() = all primes <= N in increasing order, table sizes N+1, accessors "
             "panic exactly outside the table; factorize(n) for 1 <= n <= N returns strictly increasing primes with exponents "
             "Nat.factorization n p, product n, nothing for 1, never runs out of fuel for fuel > log2 n. The hand-written model is tied "
             "to rlib_sieve by a differential correspondence run on every check (every limit 0..3000, 10^6, 10^7)."),
    "note": ("Trusted: Lean kernel, axioms propext/Classical.choice/Quot.sound, Mathlib's Nat.Prime/minFac/factorization, the hand-written model "
             "(checked against the code on the generated cases only), harness and driver plumbing. Residue: i32 casts (N < 2^31)."),
    "technique": "Lean 4 proof (loop invariant of the linear sieve) of a hand-written model + differential correspondence check against the Rust crate",
    "design_ref": "DESIGN.md §6 C13",
}


def nontrivial(case, rec):
    toks = case.split()
    try:
        return int(toks[1]) >= 2
    except (ValueError, IndexError):
        return False
