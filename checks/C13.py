"""C13 — sieve tables equal the arithmetic definitions (engine `sieve`)."""
ID = "C13"
ENGINE = "sieve"
CRATE = "e_sieve"
DRIVER = "drv_sieve"
DRIVER_MODULE = "Driver.Sieve"
PROPS = "RlibModel.Props.C13"
PROPS_SRC = "RlibModel.Props.C13Src"     # second tie: `src_*` theorems about the definitions regenerated from the source text
PROFILES = ["release", "debug"]     # debug: debug_assert! / cfg(debug_assertions) code of the crate is live; a thinned-out stream (harness_args)
SHRINK_SEP = ";"        # `itm N k ; n1 ; n2 ; …` lines are minimised by deleting arguments
RULE = ("cases: `tab N` for EVERY limit N in [0,3000] (all three tables read through min_prime/is_prime/primes for every n <= N, "
        "FNV-64 of each table compared with the model's, every entry compared with a trial-division oracle -> view ok / first bad entry); "
        "whole tables as text for every N <= 300 and for N in {p^2-1,p^2,p^2+1}; `fact N n` for every n <= 3000 on N=3000 and on the tightest "
        "table N=n; accessor probes incl. n=N and a small out-of-range stream; sampled factorisations (prime powers, primorials, highly "
        "composite, p*q and p^2 next to the limit, smooth, random) on N=10^5 (thorough: 10^6, 10^7); random larger limits; thorough adds "
        "tab 999999, tab 10^6 (model + trial division) and big 10^7 (implementation vs an independent segmented Eratosthenes in the harness, "
        "model hash compared too). "
        "LIMITS, densely (`new N`: Sieve::new(N) alone, summary #primes / FNV of primes() / first / last / min_prime(N) / is_prime(N) compared with the model, "
        "and every entry of all three tables compared with the harness's own Eratosthenes table): every limit up to 2^12 (thorough 2^15), then a fixed "
        "stride of 16 (thorough 5) with a seed-dependent phase up to 2^17, in zig-zag order (largest, smallest, ...), so that a fault on any run of 16 (5) "
        "consecutive limits below 2^17 cannot be missed; plus 2^k-1, 2^k, 2^k+1 (k <= 17, and 2^20), p^2-1, p^2, p^2+1 for every prime p <= 359, random prime limits "
        "with their successor and the multiple of 64 below, a few limits up to 4*10^6 (thorough: 130 up to 10^7). "
        "CONSUMPTION of factorize(n) (`itm N k ; n ; ...`: k calls of next, then EVERY provided Iterator method on what is left - collect, next by hand until None "
        "and twice more, count, last, fold, for_each, sum, product, max, min, max_by_key, min_by_key, reduce, find, position, any, all, partition, unzip, nth(0), "
        "nth(1), skip, step_by, by_ref().take, eq, size_hint - each under catch_unwind, each compared with the model's list semantics and with the same generic "
        "code run on Vec::into_iter() of the trial-division factorisation): every n <= 640 for k = 0..3 on N=640 and on tight tables, samples on 10^5 and 140000, "
        "and arguments where an i32 intermediate ONE STEP BEYOND the data overflows (q^2 and m*q^2 for primes q >= 1291, the largest power of every prime <= 229, "
        "multiples of primes next to 46341, semiprimes next to sqrt N, values next to N) on N = 4*10^6 (thorough: 10^7 with every such q, 10^6, 11.1*10^6 for 223^3). "
        "`live`: two sieves and three iterators alive at once, advanced in turn, returned primes fed back into the accessors of both tables. "
        "Both build profiles: release (overflow-checks on) and debug (debug_assert!/cfg(debug_assertions) code live; a thinned-out stream). "
        "non-trivial = distinct in-domain case with limit N >= 2")
ASSUMPTIONS = [
    "the Lean model of rlib_sieve is hand-written; it is tied to the code by running both on the same cases",
    "values are modelled as Nat: the casts `i as i32` / `primes[j] as usize` are the identity only for N < 2^31 (named residue)",
    "a `tab` line compares 64-bit FNV hashes of the tables between model and implementation; entry-level agreement is established "
    "against the independent oracles (trial division / segmented Eratosthenes), which also pinpoint the first bad entry",
    "`new N` (the dense limit sweep): model and implementation are compared on a summary only (number, FNV-64, first and last of primes(), "
    "min_prime(N), is_prime(N)); the entry-by-entry check of all three tables behind its view `ok` is done by the harness against its own "
    "first-writer-wins Eratosthenes table (an independent brute-force oracle, kept for the whole process; the sieve under test is built afresh per case); "
    "the driver answers all `new` lines from ONE cached model table built for a limit M >= N - theorems foldUpTo_prefix, primesUpTo_prefix, "
    "minPrime_prefix, isPrime_prefix, factorize_prefix prove that this is what `sieve N` itself shows",
    "`itm`: the specification of a PROVIDED Iterator method is std's definition in terms of `next` - Rlib.Sieve.modesOf on the list the model's "
    "iterator yields (theorems iterModes_eq_spec, iterModes_count, iterModes_divisor_count); the harness additionally runs the same generic "
    "consumption code on Vec::into_iter() of its trial-division factorisation (std's own iterator as reference). size_hint is constrained only "
    "to bracket the number of items left (the property fixes no value); a panic inside one consumption mode is printed in place of its result",
    "the debug-profile run uses a thinned-out case stream (unoptimised code is 10-20 times slower); it is there for debug_assert!/cfg(debug_assertions) "
    "code in the crate - overflow checks are on in both profiles",
]
MANIFEST = {
    "level": "proof",
    "text": ("Lean 4 theorems about the executable linear-sieve model, for EVERY limit N: min_prime(n) = Nat.minFac n for 2 <= n <= N, "
             "is_prime(n) = decide (Nat.Prime n) for n <= N, primes() = all primes <= N in increasing order, table sizes N+1, accessors "
             "panic exactly outside the table; factorize(n) for 1 <= n <= N returns strictly increasing primes with exponents "
             "Nat.factorization n p, product n, nothing for 1, never runs out of fuel for fuel > log2 n. The hand-written model is tied "
             "to rlib_sieve by a differential correspondence run on every check (every table entry for every limit 0..3000 and at 10^6, 10^7; construction "
             "of every limit up to 2^12 and of every 16th up to 2^17 with all tables checked against an Eratosthenes oracle; every provided Iterator "
             "method of factorize(n), also after partial consumption, incl. arguments up to 4*10^6 / 10^7 where a neighbouring i32 product overflows; two "
             "sieves alive at once; release and debug builds). One model table answers for every smaller limit (prefix theorems); count() is the number of "
             "distinct prime divisors and the product of (e+1) the number of divisors (theorems)."),
    "note": ("Trusted: Lean kernel, axioms propext/Classical.choice/Quot.sound, Mathlib's Nat.Prime/minFac/factorization, the hand-written model "
             "(checked against the code on the generated cases only), harness and driver plumbing. Residue: i32 casts (N < 2^31)."),
    "technique": "Lean 4 proof (loop invariant of the linear sieve) of a hand-written model + differential correspondence check against the Rust crate",
    "design_ref": "DESIGN.md §6 C13",
}


def harness_args(params, profile):
    """the generator thins its stream out for the unoptimised build (`--profile debug`); `run` ignores the argument"""
    return ["--profile", profile]


def nontrivial(case, rec):
    toks = case.split()
    try:
        return int(toks[1]) >= 2
    except (ValueError, IndexError):
        return False


# ---- second tie: Sieve::new and the accessors regenerated from the source text on every run (tools/rs2lean_typed.py) ----------
TRANSLATED = ["new", "min_prime", "is_prime", "primes"]
NOT_TRANSLATED = ["PrimeIter (struct with a reference field and a lifetime parameter)", "PrimeIter::next (Option<(i32, i32)>, tuple value)",
                  "Sieve::factorize (builds a PrimeIter)"]
ASSUMPTIONS.append(
    "second tie: sieve/minPrime/isPrime/primesOf of the hand-written model are proved equal (theorems src_*_eq_model, through the embedding "
    "Nat -> Int of the mnp and primes tables) to the definitions that tools/rs2lean_typed.py regenerates from the text of "
    "rlib/sieve/src/lib.rs on every run (Generated/SieveSrc.lean: Vec = Array with checked indexing, `as i32` / `as usize` = wrap, "
    "`n + 1` and `primes[j] as usize * i` = checked usize operations, the nested `for` loops with `break` and the short-circuit `||` on fuel); "
    "hypotheses: N + 1 < 2^31 (the casts are the identity there; the named residue of C13), 2N + 1 <= fuel; trusted there: the translator and "
    "its reading of Vec (Generated/VecPrelude.lean); NOT covered by the second tie (differential tie only): PrimeIter::next and factorize")
MANIFEST["technique"] += " + source-to-Lean translation of rlib/sieve/src/lib.rs (Sieve::new and the accessors) regenerated and proved equal to the model on every run"


def extract(repo):
    """Translate <repo>/rlib/sieve/src/lib.rs (`impl Sieve`: new, min_prime, is_prime, primes) into Generated/SieveSrc.lean (written only
    when its text changes).  A construct outside the translator's subset is a broken correspondence; the generated file then has no
    definitions, so the src_* theorems stop compiling as well (never a stale file left in place)."""
    import os
    import sys
    verif = os.path.dirname(os.path.dirname(os.path.abspath(__file__)))
    tools = os.path.join(verif, "tools")
    if tools not in sys.path:
        sys.path.insert(0, tools)
    import rs2lean_typed
    rel = "rlib/sieve/src/lib.rs"
    out = os.path.join(verif, "lean", "RlibModel", "Generated", "SieveSrc.lean")
    info, problems = rs2lean_typed.run(os.path.join(repo, rel), out, "Rlib.SieveSrc", rel, ID, "Sieve", TRANSLATED)
    params = {"translated_from": rel, "translated_functions": info.get("functions", []), "translated_loops": info.get("loops", []),
              "not_translated": NOT_TRANSLATED,
              "generated_file": "lean/RlibModel/Generated/SieveSrc.lean", "generated_file_rewritten": info.get("rewritten", False)}
    return params, problems


def extra(ctx):
    """Plain-words verdict on the second tie when the src_* proofs did not build (the generic check only names the file)."""
    import rs2lean
    ok = bool(ctx["params"].get("translated_functions"))
    return rs2lean.tie_findings(["RlibModel/Generated/SieveSrc.lean"], "RlibModel/Lemmas/SieveSrc.lean", ok, "rlib/sieve/src/lib.rs")
