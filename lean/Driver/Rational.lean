import RlibModel.Model.Rational
/-! Line-protocol driver for engine `rational` (property C07).

Case lines (`ty` ∈ i32 | i64 | i128):
  `newint:ty n` · `new:ty a b` · `neg:ty a b` · `floor:ty a b` · `ceil:ty a b` · `show:ty a b`
  `add|sub|mul|div|cmp|eq:ty a b c d`        (operands are `new(a,b)` and `new(c,d)`)
Results: a fraction is printed as `a b` (the two public fields), orderings as `lt|eq|gt`, booleans as
`true|false`, `show` as the `Display` string.  `S` is computed with core Lean's `Rat` and is `any` when the
case is outside the property's domain (zero denominator / divisor, or an operand above the magnitude guard). -/
open Rlib Rlib.Rational

def showQ (x : Q) : String := s!"{x.a} {x.b}"

/-- Outside the property's domain (`S any`) only "some panic" is compared, not which one comes first. -/
def showOod {α} (f : α → String) : Except Panic α → String
  | .ok a => f a
  | .error _ => "panic"

def answerDom {α} (dom : Bool) (f : α → String) (m : Except Panic α) (s : String) : String :=
  if dom then answer (showExcept f m) s else answer (showOod f m) "any"

def showOrd : Ordering → String
  | .lt => "lt" | .eq => "eq" | .gt => "gt"

def unary (t : IntTy) (a b : Int) (f : Q → Except Panic Q) (sp : Rat → Q) : String :=
  let m := (do let x ← new (some t) a b; f x)
  let dom := b ≠ 0 ∧ inGuard t a ∧ inGuard t b
  answerDom dom showQ m (showQ (sp (Rat.divInt a b)))

def binary {α} (t : IntTy) (a b c d : Int) (f : Q → Q → Except Panic α) (sh : α → String)
    (sp : Rat → Rat → String) (extraDom : Bool := true) : String :=
  let m := (do let x ← new (some t) a b; let y ← new (some t) c d; f x y)
  let dom := b ≠ 0 ∧ d ≠ 0 ∧ extraDom ∧ inGuard t a ∧ inGuard t b ∧ inGuard t c ∧ inGuard t d
  answerDom dom sh m (sp (Rat.divInt a b) (Rat.divInt c d))

def handle (line : String) : String :=
  match tokens line with
  | [] => badLine line
  | op :: rest =>
  match splitTy op, parseInts? rest with
  | ("newint", some t), some [n] =>
    -- `new_int` performs no arithmetic; in the domain (guarded n) it must be the canonical form of the integer n
    if t.fits n then answerDom (inGuard t n) showQ (.ok (newInt n)) (showQ (ofRat (n : Rat)))
    else answer "INVALID" "any"
  | (op, some t), some [a, b] =>
    match op with
    | "new" => unary t a b (fun x => pure x) ofRat
    | "neg" => unary t a b (neg (some t)) (fun q => ofRat (-q))
    | "floor" => unary t a b (floor (some t)) (fun q => ⟨q.floor, 1⟩)
    | "ceil" => unary t a b (ceil (some t)) (fun q => ⟨q.ceil, 1⟩)
    | "show" =>
      let m := new (some t) a b
      let dom := b ≠ 0 ∧ inGuard t a ∧ inGuard t b
      -- the spec string is built from `Rat.num`/`Rat.den` directly, not through the model's `render`
      let q := Rat.divInt a b
      answerDom dom render m s!"{q.num}/{q.den}"
    | _ => badLine line
  | (op, some t), some [a, b, c, d] =>
    match op with
    | "add" => binary t a b c d (add (some t)) showQ (fun p q => showQ (ofRat (p + q)))
    | "sub" => binary t a b c d (sub (some t)) showQ (fun p q => showQ (ofRat (p - q)))
    | "mul" => binary t a b c d (mul (some t)) showQ (fun p q => showQ (ofRat (p * q)))
    | "div" => binary t a b c d (div (some t)) showQ (fun p q => showQ (ofRat (p / q))) (c ≠ 0)
    | "cmp" => binary t a b c d (cmp (some t)) showOrd (fun p q => showOrd (specCmp p q))
    | "eq" => binary t a b c d (fun x y => pure (decide (x = y))) showBool (fun p q => showBool (decide (p = q)))
    | _ => badLine line
  | _, _ => badLine line

def main : IO Unit := driverMain handle
