import RlibModel.Model.Rational
/-! Line-protocol driver for engine `rational` (property C07).

Case lines (`ty` ∈ i8 | i16 | i32 | i64 | i128 | isize):
  `newint:ty n` · `consts:ty` · `new:ty a b` · `neg:ty a b` · `floor:ty a b` · `ceil:ty a b` · `show:ty a b`
  `add|sub|mul|div|cmp|eq:ty a b c d`        (operands are `new(a,b)` and `new(c,d)`)
  `chain:ty op1 op2 a b c d e f`             (`(new(a,b) op1 new(c,d)) op2 new(e,f)`: a returned value re-used as an operand)
  `sort:ty a1 b1 a2 b2 …`                    (the values `new(ai,bi)` in non-decreasing order; the harness checks every
                                              order- / equality- / hash- / clone-based view of them against it)
Results: a fraction is printed as `a b` (the two public fields), orderings as `lt|eq|gt`, booleans as
`true|false`, `show` as the `Display` string, a sorted list as `[a/b,…]`.  `S` is computed with core Lean's `Rat`; it is
`any` when the case is outside the property's domain — the EDGE domain of `Model/Rational.lean` (`domNew`, `BinOp.dom`,
`domSub`, `domFloor`, `domCeil`, `domPairs`): non-zero denominators / divisor and every specified intermediate value
representable in `ty`.  `Props/C07.lean` (`*_edge_machine`) proves `M = S` on that domain for every signed type. -/
open Rlib Rlib.Rational

def showQ (x : Q) : String := s!"{x.a} {x.b}"

/-- Outside the property's domain (`S any`) only "some panic" is compared, not which one comes first. -/
def showOod {α} (f : α → String) : Except Panic α → String
  | .ok a => f a
  | .error _ => "panic"

def answerDom {α} (dom : Bool) (f : α → String) (m : Except Panic α) (s : String) : String :=
  if dom then answer (showExcept f m) s else answer (showOod f m) "any"

def showOrd : Ordering → String
  | .lt => "lt" | .eq => "eq" | .gt => "gt"

def unary (t : IntTy) (a b : Int) (f : Q → Except Panic Q) (sp : Rat → Q) (extraDom : Q → Bool := fun _ => true) : String :=
  let m := (do let x ← new (some t) a b; f x)
  let dom := t.signed && domNew t a b && extraDom (ofRat (Rat.divInt a b))
  answerDom dom showQ m (showQ (sp (Rat.divInt a b)))

def binary {α} (t : IntTy) (a b c d : Int) (f : Q → Q → Except Panic α) (sh : α → String)
    (sp : Rat → Rat → String) (extraDom : Q → Q → Bool) : String :=
  let m := (do let x ← new (some t) a b; let y ← new (some t) c d; f x y)
  let dom := t.signed && domNew t a b && domNew t c d && extraDom (ofRat (Rat.divInt a b)) (ofRat (Rat.divInt c d))
  answerDom dom sh m (sp (Rat.divInt a b) (Rat.divInt c d))

def binop (t : IntTy) (op : BinOp) (a b c d : Int) : String :=
  binary t a b c d (op.apply (some t)) showQ (fun p q => showQ (ofRat (op.spec p q))) (op.dom t)

def chain (t : IntTy) (op1 op2 : BinOp) (a b c d e f : Int) : String :=
  let m := (do
    let x ← new (some t) a b; let y ← new (some t) c d; let z ← new (some t) e f
    let r ← op1.apply (some t) x y
    op2.apply (some t) r z)
  let p := Rat.divInt a b; let q := Rat.divInt c d; let u := Rat.divInt e f
  let dom := t.signed && domNew t a b && domNew t c d && domNew t e f && op1.dom t (ofRat p) (ofRat q) &&
    op2.dom t (ofRat (op1.spec p q)) (ofRat u)
  answerDom dom showQ m (showQ (ofRat (op2.spec (op1.spec p q) u)))

def pairsOf : List Int → Option (List (Int × Int))
  | [] => some []
  | a :: b :: rest => (pairsOf rest).map ((a, b) :: ·)
  | _ => none

def showSorted (xs : List Q) : String := showListWith render xs

def sortCase (t : IntTy) (ps : List (Int × Int)) : String :=
  let m : Except Panic (List Q) := (do
    let xs ← ps.mapM (fun p => new (some t) p.1 p.2)
    pure ((sortSpec (xs.map toRat)).map ofRat))
  let rs := ps.map (fun p => Rat.divInt p.1 p.2)
  let dom := t.signed && ps.all (fun p => domNew t p.1 p.2) && domPairs t (rs.map ofRat)
  answerDom dom showSorted m (showSorted ((sortSpec rs).map ofRat))

def handle (line : String) : String :=
  match tokens line with
  | [] => badLine line
  | op :: rest =>
  match splitTy op with
  | ("chain", some t) =>
    match rest with
    | o1 :: o2 :: nums =>
      match BinOp.parse? o1, BinOp.parse? o2, parseInts? nums with
      | some op1, some op2, some [a, b, c, d, e, f] => chain t op1 op2 a b c d e f
      | _, _, _ => badLine line
    | _ => badLine line
  | ("sort", some t) =>
    match (parseInts? rest).bind pairsOf with
    | some (p :: ps) => sortCase t (p :: ps)
    | _ => badLine line
  | ("consts", some t) =>
    -- `ZeroOne::ZERO` / `ONE` must be the canonical forms of 0 and 1
    if rest.isEmpty then
      answerDom t.signed id (.ok s!"{showQ (newInt 0)} {showQ (newInt 1)}") s!"{showQ (ofRat 0)} {showQ (ofRat 1)}"
    else badLine line
  | _ =>
  match splitTy op, parseInts? rest with
  | ("newint", some t), some [n] =>
    -- `new_int` performs no arithmetic: every representable n (the minimum included) must give the canonical form of n
    if t.fits n then answerDom t.signed showQ (.ok (newInt n)) (showQ (ofRat (n : Rat)))
    else answer "INVALID" "any"
  | (op, some t), some [a, b] =>
    match op with
    | "new" => unary t a b (fun x => pure x) ofRat
    | "neg" => unary t a b (neg (some t)) (fun q => ofRat (-q))
    | "floor" => unary t a b (floor (some t)) (fun q => ⟨q.floor, 1⟩) (domFloor t)
    | "ceil" => unary t a b (ceil (some t)) (fun q => ⟨q.ceil, 1⟩) (domCeil t)
    | "show" =>
      let m := new (some t) a b
      let dom := t.signed && domNew t a b
      -- the spec string is built from `Rat.num`/`Rat.den` directly, not through the model's `render`
      let q := Rat.divInt a b
      answerDom dom render m s!"{q.num}/{q.den}"
    | _ => badLine line
  | (op, some t), some [a, b, c, d] =>
    match op with
    | "add" => binop t .add a b c d
    | "sub" => binop t .sub a b c d
    | "mul" => binop t .mul a b c d
    | "div" => binop t .div a b c d
    | "cmp" => binary t a b c d (cmp (some t)) showOrd (fun p q => showOrd (specCmp p q)) (domSub t)
    | "eq" => binary t a b c d (fun x y => pure (decide (x = y))) showBool (fun p q => showBool (decide (p = q))) (fun _ _ => true)
    | _ => badLine line
  | _, _ => badLine line

def main : IO Unit := driverMain handle
