import RlibModel.Model.Writer
import RlibModel.Model.IoRoundTrip
import RlibModel.Model.IoMulti
/-!
Line-protocol driver for engine `writer` (property C09).

Case line:  `w buf=<BUF> dbg=<0|1|*> k=<n> j=<n> rt=<0|1> rc=<n> ; op ; op ; …`
  * `buf`  = `Writer::BUF_SIZE` extracted from the source, `dbg` = profile of the harness binary
    (`*` = either profile: corpus lines; `ub` is then `na`), `k`, `j`, `rc` = sink / read-back
    delivery parameters (the model does not depend on them: std's `write_all` is trusted),
    `rt=1` = also read the produced text back.
  * ops: `W <val>` = `writer.write(&val)`, `C <code point>` = `write_char`, `F` = `flush()` followed
    by an observation of the sink, `O <n> <val>*n` = `out!(…)`, `L <n> <val>*n` = `outln!(…)`;
    after the last op the writer is dropped and the sink observed again.
  * val (prefix notation): `i32:-5` (any of the 12 integer types), `s:<kind>:<len>:<seed>` a pattern
    string passed as `&str` (`S:` = as `String`), `x:<hex>` / `X:<hex>` a literal string,
    `v <n> <val>*n` a `Vec`, `t <n> <val>*n` a tuple (2 ≤ n ≤ 8).

Answer: `M <view> | V <view> | S <view according to the spec>` with
`view = obs=[len:fnv,…] drop=len:fnv[:hex] fmt=ok rt=ok|na|bad ub=ok|na|bad@i` (`ub`: lines for the
flush-per-write build only — nothing pending after any operation). The number of flushes is appended
to the raw part only for diagnostic lines (`fl=1` in the header), which `check` never compares.

Second line kind (C09 bridge, `Model/IoRoundTrip.lean`): write → drop → **Reader model** → values.
  `r buf=<BUF> dbg=<0|1|*> rbuf=<reader BUF> rc=<n> alt=<0|1> ; op ; op ; …`   (same ops)
runs the Writer model, hands `(drop s).sink` to the Reader model (`Reader.runScript` on `Reader.init rbuf src`,
`src` = the harness source for `rc`: chunks of `rc` bytes, every 3rd `read` call `Interrupted` when `rc` is odd) and
prints the values read back by the harness's read plan (`IoRT.planOps alt`):
  `M rb drop=len:fnv vals=<v>,<v>,…,eof=true | V <same> | S rb drop=… vals=<the values written>,eof=true`
with `<v>` = decimal integer, `s:<hex>` string, `c:<hex>` char, `(…)` tuple read, `[…]` `read_vec`.
Scripts outside the read-back domain (`IoRT.eligible`, characters ≥ 128, `buf < 39`) answer `INVALID`.
`Props/C09.lean: readback_driver` proves `M = S` for every in-domain `r` line.

Third line kind (several live objects, `Model/IoMulti.lean`):
  `m buf=<BUF> dbg=<0|1|*> rbuf=<reader BUF> ; <slot> <step> ; <slot> <step> ; …`   (slot = 0..7)
steps: `N <k> <j>` = `Writer::new` over a fresh sink (k, j: its delivery parameters, ignored by the model); `W …`, `C …`, `F`,
`O …`, `L …` = the ops above on that writer; `T <val>` = the trait method `Writable::write(&val, &mut writer)` called
directly (no debug flush); `MV` = the object is moved to a new address; `D` = drop; `LK` = `std::mem::forget` (no `Drop`, nothing shown); `RN <rc> <string val>` = `Reader::new` over
a source that delivers the bytes of the string in chunks of `rc`; `RS` / `RC` / `RI <ty>` / `RE` = `read::<String>()` /
`read::<char>()` / `read::<ty>()` / `is_eof()` on that reader. Writers still alive at the end are dropped in slot order.
  `M mw ev=[<slot>:F=len:fnv,<slot>:R=<v>,<slot>:D=len:fnv[:hex],…] fmt=ok ub=ok|na|bad@i | V <same> | S <specification trace>`
`Props/C09.lean: multi_driver` proves `M = S` for every in-domain `m` line.

Fourth line kind (characters): `c buf=<BUF> dbg=<0|1|*> rbuf=<n> rc=<n> k=<n> j=<n> ; C <code> ; C <code> ; …` — the characters
are written with `write_char`, the writer is dropped, every non-whitespace byte of the sink is read with `read::<char>()`, then
`is_eof()`:  `M cb drop=len:fnv[:hex] vals=c:<hex>,…,eof=true | V <same> | S <the characters written>` (`readback_chars_driver`).

String patterns: kind 3 = every ASCII byte that is not whitespace, NUL, the other control characters and DEL included;
kind 4 = valid UTF-8 made of 1-, 2-, 3- and 4-byte characters (every byte value a Rust `String` can contain occurs).
-/
open Rlib Rlib.Decimal Rlib.Writer

/-- The `x`-th ASCII byte that is not whitespace (`x < 123`): 0..8, 11, 14..31, 33..127. -/
def nonWsAscii (x : Nat) : UInt8 :=
  UInt8.ofNat (if x < 9 then x else if x = 9 then 11 else if x < 28 then x + 4 else x + 5)

/-- Code point and UTF-8 length of the `n`-th character of a kind-4 pattern. -/
def pat4Char (seed n : Nat) : Nat × Nat :=
  match (seed + n) % 4 with
  | 0 => ((seed * 5 + n * 13) % 128, 1)
  | 1 => (0x80 + (seed * 31 + n * 61) % 0x780, 2)
  | 2 =>
    let cp := 0x800 + (seed * 257 + n * 1021) % 0xF000
    (if cp ≥ 0xD800 then cp + 0x800 else cp, 3)
  | _ => (0x10000 + (seed * 65537 + n * 69061) % 0x100000, 4)

def utf8Push (acc : ByteArray) (cp : Nat) : ByteArray :=
  let b (x : Nat) : UInt8 := UInt8.ofNat x
  if cp < 0x80 then acc.push (b cp)
  else if cp < 0x800 then (acc.push (b (0xC0 + cp / 64))).push (b (0x80 + cp % 64))
  else if cp < 0x10000 then ((acc.push (b (0xE0 + cp / 4096))).push (b (0x80 + cp / 64 % 64))).push (b (0x80 + cp % 64))
  else (((acc.push (b (0xF0 + cp / 262144))).push (b (0x80 + cp / 4096 % 64))).push (b (0x80 + cp / 64 % 64))).push (b (0x80 + cp % 64))

/-- Kind 4: characters of 1–4 bytes in rotation; a character that no longer fits is replaced by a one-byte one. -/
def pat4Loop (seed : Nat) : Nat → Nat → Nat → ByteArray → ByteArray
  | 0, _, _, acc => acc
  | fuel + 1, remaining, n, acc =>
    if remaining = 0 then acc
    else
      let (cp, sz) := pat4Char seed n
      if sz ≤ remaining then pat4Loop seed fuel (remaining - sz) (n + 1) (utf8Push acc cp)
      else pat4Loop seed fuel (remaining - 1) (n + 1) (acc.push (UInt8.ofNat ((seed * 5 + n * 13) % 128)))

/-- One byte of a pattern string (the harness computes the same). -/
def patByte (kind seed len i : Nat) : UInt8 :=
  match kind with
  | 0 => UInt8.ofNat (33 + (seed + i * 7) % 94)
  | 1 =>
    let x := (seed + i * 11) % 97
    if x < 94 then UInt8.ofNat (33 + x) else if x = 94 then 32 else if x = 95 then 10 else 9
  | 3 => nonWsAscii ((seed + i * 7) % 123)
  | _ =>
    -- two-byte UTF-8 characters U+00E0..U+00EF, preceded by one `x` when `len` is odd
    if len % 2 = 1 ∧ i = 0 then 120
    else
      let i' := i - len % 2
      if i' % 2 = 0 then 0xC3 else UInt8.ofNat (0xA0 + (seed + i' / 2) % 16)

def patLoop (kind seed len i : Nat) (acc : ByteArray) : ByteArray :=
  if i < len then patLoop kind seed len (i + 1) (acc.push (patByte kind seed len i)) else acc
termination_by len - i

def patBytes (kind seed len : Nat) : ByteArray :=
  if kind = 4 then pat4Loop seed len len 0 (ByteArray.emptyWithCapacity len)
  else patLoop kind seed len 0 (ByteArray.emptyWithCapacity len)

def parseHexBytes (cs : List Char) (acc : ByteArray) : Option ByteArray :=
  match cs with
  | [] => some acc
  | [_] => none
  | a :: b :: rest =>
    match hexDigit? a, hexDigit? b with
    | some x, some y => parseHexBytes rest (acc.push (UInt8.ofNat (x * 16 + y)))
    | _, _ => none

/-- Minimal UTF-8 validity check (the harness rejects invalid literals too). Only what the
    generators produce is accepted: ASCII and two-byte sequences. -/
def utf8ok : List UInt8 → Bool
  | [] => true
  | b :: rest =>
    if b < 0x80 then utf8ok rest
    else if 0xC2 ≤ b ∧ b ≤ 0xDF then
      match rest with
      | c :: rest' => (0x80 ≤ c ∧ c ≤ 0xBF) && utf8ok rest'
      | [] => false
    else false

def parseScalar (tok : String) : Option Val :=
  match tok.splitOn ":" with
  | [ty, v] =>
    if ty = "x" ∨ ty = "X" then
      match parseHexBytes v.toList ByteArray.empty with
      | some bs => if utf8ok bs.data.toList then some (.str bs) else none
      | none => none
    else
      match IntTy.parse? ty, parseInt? v with
      | some t, some z => if t.fits z then some (.int t z) else none
      | _, _ => none
  | [ty, k, l, s] =>
    if ty = "s" ∨ ty = "S" then
      match parseNat? k, parseNat? l, parseNat? s with
      | some k, some l, some s => if k ≤ 4 then some (.str (patBytes k s l)) else none
      | _, _, _ => none
    else none
  | _ => none

mutual
/-- Prefix-notation value parser; `fuel` bounds the nesting depth. -/
def parseVal (fuel : Nat) (ts : List String) : Option (Val × List String) :=
  match fuel, ts with
  | 0, _ => none
  | _, [] => none
  | fuel + 1, t :: rest =>
    if t = "v" ∨ t = "t" then
      match rest with
      | n :: rest' =>
        match parseNat? n with
        | some n =>
          if t = "t" ∧ (n < 2 ∨ 8 < n) then none else
          match parseVals fuel n rest' with
          | some (xs, rest'') => some (.seq (t = "t") xs, rest'')
          | none => none
        | none => none
      | [] => none
    else
      match parseScalar t with
      | some v => some (v, rest)
      | none => none
def parseVals (fuel : Nat) (n : Nat) (ts : List String) : Option (List Val × List String) :=
  match fuel, n with
  | 0, _ => none
  | _, 0 => some ([], ts)
  | fuel + 1, n + 1 =>
    match parseVal fuel ts with
    | some (v, rest) =>
      match parseVals fuel n rest with
      | some (vs, rest') => some (v :: vs, rest')
      | none => none
    | none => none
end

def parseOp (s : String) : Option Op :=
  match tokens s with
  | ["F"] => some .flush
  | ["C", n] =>
    match parseNat? n with
    | some n => if n < 0xD800 ∨ (0xE000 ≤ n ∧ n < 0x110000) then some (.wchar n) else none
    | none => none
  | "W" :: rest =>
    match parseVal 400 rest with
    | some (v, []) => some (.write v)
    | _ => none
  | "O" :: n :: rest =>
    match parseNat? n with
    | some n =>
      if n = 0 then none else
      match parseVals 400 n rest with
      | some (vs, []) => some (.out false vs)
      | _ => none
    | none => none
  | "L" :: n :: rest =>
    match parseNat? n with
    | some n =>
      match parseVals 400 n rest with
      | some (vs, []) => some (.out true vs)
      | _ => none
    | none => none
  | _ => none

structure Hdr where
  buf : Nat
  dbg : Option Bool
  rt : Bool
  /-- diagnostic line (`fl=1`): append the model's number of `write_all` calls to the raw part -/
  fl : Bool

def hdrField (ts : List String) (key : String) : Option String :=
  ts.findSome? (fun t => match t.splitOn "=" with
    | [k, v] => if k = key then some v else none
    | _ => none)

def parseHdr (s : String) : Option Hdr :=
  match tokens s with
  | "w" :: fs =>
    match (hdrField fs "buf").bind parseNat?, hdrField fs "dbg", hdrField fs "rt" with
    | some buf, some d, some rt =>
      let dbg : Option (Option Bool) :=
        if d = "0" then some (some false) else if d = "1" then some (some true) else if d = "*" then some none else none
      match dbg with
      | some dbg => some ⟨buf, dbg, rt = "1", hdrField fs "fl" = some "1"⟩
      | none => none
    | _, _, _ => none
  | _ => none

def fnv (bs : ByteArray) : UInt64 :=
  bs.foldl (fun h b => (h ^^^ b.toUInt64) * 0x100000001b3) 0xcbf29ce484222325

def hexOfBytes (bs : ByteArray) : String :=
  String.join (bs.data.toList.map (fun b => toHex b.toNat 2))

def obsStr (bs : ByteArray) : String := s!"{bs.size}:{toHex (fnv bs).toNat 16}"

def dropStr (bs : ByteArray) : String :=
  if bs.size ≤ 32 then s!"{obsStr bs}:{hexOfBytes bs}" else obsStr bs

/-- Read-back verdict on a delivered text. -/
def rtStr (rt : Bool) (ops : List Op) (text : ByteArray) : String :=
  if !rt then "na" else
  let ls := opsLeaves ops
  let toks := tokenize (txt text)
  if toks == ls.map leafText && Val.wordyList ls then
    if (ls.zip toks).all (fun p => leafReadsBack p.1 p.2) then "ok" else "bad"
  else "na"

def viewStr (obs : List String) (final : ByteArray) (rt ub : String) : String :=
  s!"obs=[{",".intercalate obs}] drop={dropStr final} fmt=ok rt={rt} ub={ub}"

/-- Model run: returns the observations at every `F`, the index of the first operation after which
    something was still pending (`none` = the sink always held everything written so far), and the
    final state. -/
def modelRun (c : Cfg) : List Op → WState → List String → Nat → Option Nat →
    Except Panic (List String × Option Nat × WState)
  | [], s, obs, _, behind => .ok (obs.reverse, behind, s)
  | o :: os, s, obs, i, behind =>
    match runOp c s o with
    | .error e => .error e
    | .ok s' =>
      let behind := if behind.isNone && s'.pend.size != 0 then some i else behind
      match o with
      | .flush => modelRun c os s' (obsStr s'.sink :: obs) (i + 1) behind
      | _ => modelRun c os s' obs (i + 1) behind

/-- `ub` (unbuffered) component of the view: only stated for flush-per-write (debug) lines. -/
def ubStr (dbg : Option Bool) (behind : Option Nat) : String :=
  match dbg, behind with
  | some true, none => "ok"
  | some true, some i => s!"bad@{i}"
  | _, _ => "na"

/-- Spec run: the expected sink contents at every `F` and at the end. -/
def specRun : List Op → ByteArray → List String → List String × ByteArray
  | [], acc, obs => (obs.reverse, acc)
  | o :: os, acc, obs =>
    let acc := acc ++ specOp o
    match o with
    | .flush => specRun os acc (obsStr acc :: obs)
    | _ => specRun os acc obs

def opInDomain : Op → Bool
  | .wchar code => code < 128          -- the property speaks about ASCII characters
  | _ => true

def handle (line : String) : String :=
  match splitOps line with
  | [] => badLine line
  | hdr :: opss =>
    match parseHdr hdr, (opss.filter (· ≠ "")).mapM parseOp with
    | some h, some ops =>
      if h.buf = 0 then "M INVALID | V INVALID | S any" else
      let c : Cfg := ⟨h.buf, h.dbg.getD false⟩
      let (sobs, stext) := specRun ops ByteArray.empty []
      let inDom := ops.all opInDomain ∧ Op.validAll ops ∧ 39 ≤ h.buf
      -- spec: in a flush-per-write build nothing is ever pending after an operation (`debug_unbuffered`)
      let sview := if inDom then viewStr sobs stext (rtStr h.rt ops stext) (ubStr h.dbg none) else "any"
      match modelRun c ops WState.init [] 0 none with
      | .error e => answer e.toString sview
      | .ok (obs, behind, s) =>
        let s' := drop s
        let v := viewStr obs s'.sink (rtStr h.rt ops s'.sink) (ubStr h.dbg behind)
        -- the number of `write_all` calls is not part of the compared result; diagnostic lines only
        if h.fl then answer3 s!"{v} fl={s'.flushes}" v sview else answer3 v v sview
    | _, _ => "M INVALID | V INVALID | S any"

/-! ### `r` lines: write, drop, read back through the Reader model -/

structure RHdr where
  buf : Nat
  dbg : Bool
  rbuf : Nat
  rc : Nat
  alt : Bool

def parseRHdr (s : String) : Option RHdr :=
  match tokens s with
  | "r" :: fs =>
    match (hdrField fs "buf").bind parseNat?, hdrField fs "dbg", (hdrField fs "rbuf").bind parseNat?,
        (hdrField fs "rc").bind parseNat?, hdrField fs "alt" with
    | some buf, some d, some rbuf, some rc, some alt =>
      if (d = "0" ∨ d = "1" ∨ d = "*") ∧ (alt = "0" ∨ alt = "1") then some ⟨buf, d = "1", rbuf, rc, alt = "1"⟩ else none
    | _, _, _, _, _ => none
  | _ => none

def showRVal : Reader.Val → String
  | .int v => toString v
  | .str bs => "s:" ++ String.join (bs.map (fun b => toHex b.toNat 2))
  | .chr c => "c:" ++ toHex c.toNat 2

def showRTuple (vs : List Reader.Val) : String := "(" ++ ",".intercalate (vs.map showRVal) ++ ")"

def showROut : Reader.Out → String
  | .val v => showRVal v
  | .tup vs => showRTuple vs
  | .vec rows => "[" ++ ",".intercalate (rows.map (fun r => match r with
      | [v] => showRVal v
      | vs => showRTuple vs)) ++ "]"
  | .bool b => "eof=" ++ showBool b
  | .line _ => "line"
  | .lines _ => "lines"

def showRRes : Reader.Res → String
  | .out o => showROut o
  | .panic e => e.toString
  | .undef => "undef"

def showRs (rs : List Reader.Res) : String := ",".intercalate (rs.map showRRes)

def handleR (line : String) : String :=
  match splitOps line with
  | [] => badLine line
  | hdr :: opss =>
    match parseRHdr hdr, (opss.filter (· ≠ "")).mapM parseOp with
    | some h, some ops =>
      let inDom := decide (39 ≤ h.buf) && decide (0 < h.rbuf) && ops.all opInDomain && Op.validAll ops && IoRT.eligible ops
      if !inDom then "M INVALID | V INVALID | S any" else
      let c : Cfg := ⟨h.buf, h.dbg⟩
      let sview := s!"rb drop={obsStr (specOps ops)} vals={showRs (IoRT.expected (IoRT.planOps h.alt ops))}"
      match runOps c ops WState.init with
      | .error e => answer e.toString sview
      | .ok s =>
        let sink := (drop s).sink
        answer s!"rb drop={obsStr sink} vals={showRs (IoRT.readBack h.rbuf h.rc h.alt ops (txt sink))}" sview
    | _, _ => "M INVALID | V INVALID | S any"

/-! ### `m` lines: several live objects (`Model/IoMulti.lean`) -/
open Rlib.IoMulti in
def parseMStep (rbuf : Nat) (s : String) : Option MOp :=
  match tokens s with
  | k :: rest =>
    match parseNat? k with
    | none => none
    | some k =>
      match rest with
      | ["N", a, b] =>   -- `j = 1`: a sink that never accepts anything (the harness rejects it too)
        if (parseNat? a).isSome ∧ (parseNat? b).isSome ∧ parseNat? b ≠ some 1 then some (.newW k) else none
      | ["D"] => some (.drop k)
      -- dropped while the thread is unwinding from a panic (by the unwinding itself / by a scope guard's destructor): the property
      -- promises the same as for any other drop, so the model's operation is `drop`
      | ["DU"] => some (.drop k)
      | ["DG"] => some (.drop k)
      | ["MV"] => some (.move k)
      | ["LK"] => some (.leak k)
      | ["RS"] => some (.read k (.read .str))
      | ["RC"] => some (.read k (.read .chr))
      | ["RE"] => some (.read k .eof)
      | ["RI", ty] => (IntTy.parse? ty).map (fun t => .read k (.read (.int t)))
      | ["RN", rc, v] =>
        match parseNat? rc, parseScalar v with
        | some rc, some (.str bs) => some (.newR k rbuf rc bs.data.toList)
        | _, _ => none
      | "T" :: vs =>
        match parseVal 400 vs with
        | some (v, []) => some (.call k (.tr v))
        | _ => none
      | _ => (parseOp (" ".intercalate rest)).map (fun o => .call k (.pub o))
  | [] => none

structure MHdr where
  buf : Nat
  dbg : Option Bool
  rbuf : Nat

def parseMHdr (s : String) : Option MHdr :=
  match tokens s with
  | "m" :: fs =>
    match (hdrField fs "buf").bind parseNat?, hdrField fs "dbg", (hdrField fs "rbuf").bind parseNat? with
    | some buf, some d, some rbuf =>
      if d = "0" then some ⟨buf, some false, rbuf⟩ else if d = "1" then some ⟨buf, some true, rbuf⟩
      else if d = "*" then some ⟨buf, none, rbuf⟩ else none
    | _, _, _ => none
  | _ => none

def showEv : IoMulti.Ev → String
  | .flushed k b => s!"{k}:F={obsStr b}"
  | .dropped k b => s!"{k}:D={dropStr b}"
  | .read k o => s!"{k}:R={showROut o}"
  | .panic e => e.toString
  | .undef => "undef"
  | .invalid => "INVALID"

def mView (evs : List IoMulti.Ev) (ub : String) : String :=
  s!"mw ev=[{",".intercalate (evs.map showEv)}] fmt=ok ub={ub}"

def mCallInDomain : IoMulti.MOp → Bool
  | .call _ (.pub o) => opInDomain o
  | _ => true

def firstPanic : List IoMulti.Ev → Option Panic
  | [] => none
  | .panic e :: _ => some e
  | _ :: es => firstPanic es

def handleM (line : String) : String :=
  match splitOps line with
  | [] => badLine line
  | hdr :: opss =>
    match parseMHdr hdr with
    | none => "M INVALID | V INVALID | S any"
    | some h =>
      match (opss.filter (· ≠ "")).mapM (parseMStep h.rbuf) with
      | none => "M INVALID | V INVALID | S any"
      | some ops =>
        if h.buf = 0 then "M INVALID | V INVALID | S any" else
        let sev := IoMulti.specMulti ops (fun _ => .none)
        if sev.contains .invalid then "M INVALID | V INVALID | S any" else
        let c : Cfg := ⟨h.buf, h.dbg.getD false⟩
        let inDom := decide (39 ≤ h.buf) && IoMulti.validAll ops && ops.all mCallInDomain && !sev.contains .undef
          && (firstPanic sev).isNone && IoMulti.readsInDom ops (fun _ => .none)
        let sview := if inDom then mView sev (ubStr h.dbg none) else "any"
        let (mev, behind) := IoMulti.runMulti c ops (fun _ => .none) 0 none
        match firstPanic mev with
        | some e => answer e.toString sview
        | none => answer (mView mev (ubStr h.dbg behind)) sview

/-! ### `c` lines: characters written with `write_char`, read back with `read::<char>()` -/

def parseCStep (s : String) : Option Nat :=
  match parseOp s with
  | some (.wchar n) => some n
  | _ => none

def handleC (line : String) : String :=
  match splitOps line with
  | [] => badLine line
  | hdr :: opss =>
    match tokens hdr with
    | "c" :: fs =>
      match (hdrField fs "buf").bind parseNat?, hdrField fs "dbg", (hdrField fs "rbuf").bind parseNat?,
          (hdrField fs "rc").bind parseNat?, (opss.filter (· ≠ "")).mapM parseCStep with
      | some buf, some d, some rbuf, some rc, some codes =>
        if buf = 0 ∨ rbuf = 0 ∨ ¬ (d = "0" ∨ d = "1" ∨ d = "*") then "M INVALID | V INVALID | S any" else
        let c : Cfg := ⟨buf, d = "1"⟩
        let inDom := decide (39 ≤ buf) && codes.all (· < 128)
        let stext := (codes.map UInt8.ofNat).toByteArray
        let sview := if inDom then s!"cb drop={dropStr stext} vals={showRs (IoMulti.expectedChars codes)}" else "any"
        match runOps c (codes.map Op.wchar) WState.init with
        | .error e => answer e.toString sview
        | .ok s =>
          let sink := (drop s).sink
          answer s!"cb drop={dropStr sink} vals={showRs (IoMulti.readBackChars rbuf rc (txt sink))}" sview
      | _, _, _, _, _ => "M INVALID | V INVALID | S any"
    | _ => "M INVALID | V INVALID | S any"

def handleAny (line : String) : String :=
  if line.startsWith "r " then handleR line
  else if line.startsWith "m " then handleM line
  else if line.startsWith "c " then handleC line
  else handle line

def main : IO Unit := driverMain handleAny
