import RlibModel.Model.Common
/-! Line-protocol driver for engine `writer` (stub: to be written by the engine's author). -/
def main : IO Unit := pure ()
