import RlibModel.Model.ReaderMulti
/-!
Line-protocol driver for engine `io`, reader half (property C08).

Case line:  `<BUF> <hex input|-> <schedule|-> ; <op> ; <op> ; …`
* schedule: comma separated `K` (data chunk of up to K bytes), `i` (Interrupted), `KxN` / `ixN`
  (N repetitions); after the schedule all remaining data is one chunk; chunk items met when no data
  is left are skipped.
* ops: `r:<atom>`, `t:<atom>,<atom>…` (2..8), `v:<n>:<atom>[,<atom>…]`, `line`, `lines`, `eof`;
  atoms `i8 … usize`, `str`, `chr`.
Answer: `M <model results of the in-domain prefix>[ ~] | V <the same> | S <spec results of that prefix>[ ~]`; with a
4th header token `full`: `M <all model results> | V any | S any` (out-of-domain twins, differences only counted);
a 4th header token `ss` changes nothing here (the harness runs that case in a child process on a small stack);
the model runs on the event list with the given BUF, the spec on the plain input bytes. The in-domain prefix
(`domPrefix`) ends at the first operation that reads an invalid / out-of-range integer token or a token when none
is left; ` ~` marks that the script goes on outside the property's domain.

Several live readers: `<BUF> <hex0> <sched0> + <hex1> <sched1> [+ …] ; <k>.<op> ; <k>.new ; <k>.drop ; <k>.mv ; …`
(`k` = reader index; a reader is created by `new` or by its first step, nothing may follow its `drop`; `new`, `drop`,
`mv` print `.`). Model = `runMulti` on `initMulti BUF …` (one independent state per reader), spec = `specMulti` on the
plain inputs, prefix = `domPrefixM`.
-/
open Rlib Rlib.Reader

namespace IoDrv

def hexVal (c : Char) : Option Nat :=
  if '0' ≤ c ∧ c ≤ '9' then some (c.toNat - 48)
  else if 'a' ≤ c ∧ c ≤ 'f' then some (c.toNat - 87)
  else none

def parseHexBytes (s : String) : Option (List UInt8) :=
  if s = "-" then some [] else
  let rec go : List Char → Array UInt8 → Option (List UInt8)
    | [], acc => some acc.toList
    | [_], _ => none
    | a :: b :: t, acc =>
      match hexVal a, hexVal b with
      | some x, some y => go t (acc.push (UInt8.ofNat (x * 16 + y)))
      | _, _ => none
  go s.toList #[]

def hexDigitChar (d : Nat) : Char := if d < 10 then Char.ofNat (48 + d) else Char.ofNat (87 + d)

def hexOfBytes (bs : List UInt8) : String :=
  String.ofList (bs.foldr (fun b acc => hexDigitChar (b.toNat / 16) :: hexDigitChar (b.toNat % 16) :: acc) [])

/-- schedule item: `none` = Interrupted, `some k` = chunk of up to `k` bytes; with a repetition count -/
def parseItem (s : String) : Option (Option Nat × Nat) :=
  let (body, cnt) := match s.splitOn "x" with
    | [b] => (b, some 1)
    | [b, n] => (b, n.toNat?)
    | _ => (s, none)
  match cnt with
  | none => none
  | some 0 => none
  | some n =>
    if body = "i" then some (none, n)
    else match body.toNat? with
      | some 0 => none
      | some k => some (some k, n)
      | none => none

def parseSched (s : String) : Option (List (Option Nat × Nat)) :=
  if s = "-" then some [] else (s.splitOn ",").mapM parseItem

def parseAtom (s : String) : Option Atom :=
  if s = "str" then some .str
  else if s = "chr" then some .chr
  else (IntTy.parse? s).map .int

def parseAtoms (s : String) : Option (List Atom) := (s.splitOn ",").mapM parseAtom

def parseOp (s : String) : Option Op :=
  if s = "line" then some .line
  else if s = "lines" then some .lines
  else if s = "eof" then some .eof
  else match s.splitOn ":" with
    | ["r", a] => (parseAtom a).map .read
    | ["t", as] => match parseAtoms as with
      | some l => if 2 ≤ l.length ∧ l.length ≤ 8 then some (.tuple l) else none
      | none => none
    | ["v", n, as] => match n.toNat?, parseAtoms as with
      | some n, some l => if 1 ≤ l.length ∧ l.length ≤ 8 then some (.vec l n) else none
      | _, _ => none
    | _ => none

def showVal : Val → String
  | .int v => toString v
  | .str bs => "s" ++ hexOfBytes bs
  | .chr c => "c" ++ hexOfBytes [c]

def showRow (vs : List Val) : String :=
  match vs with
  | [v] => showVal v
  | vs => "(" ++ ",".intercalate (vs.map showVal) ++ ")"

def showOut : Out → String
  | .val v => showVal v
  | .tup vs => "(" ++ ",".intercalate (vs.map showVal) ++ ")"
  | .vec rows => "[" ++ ",".intercalate (rows.map showRow) ++ "]"
  | .line none => "none"
  | .line (some l) => "L" ++ hexOfBytes l
  | .lines ls => "lines[" ++ ",".intercalate (ls.map (fun l => "L" ++ hexOfBytes l)) ++ "]"
  | .bool b => showBool b

def showRes : Res → String
  | .out o => showOut o
  | .panic e => e.toString
  | .undef => "undef"

def showTrace (rs : List Res) : String :=
  if rs.isEmpty then "-" else " ".intercalate (rs.map showRes)

def invalid : String := answer3 "INVALID" "INVALID" "any"

/-- `(hex, sched)` groups of a multi-reader header, separated by `+` -/
def parseGroups : List String → Option (List (Sched × List UInt8))
  | [h, s] => match parseHexBytes h, parseSched s with
    | some d, some sc => some [(sc, d)]
    | _, _ => none
  | h :: s :: "+" :: t => match parseHexBytes h, parseSched s, parseGroups t with
    | some d, some sc, some r => some ((sc, d) :: r)
    | _, _, _ => none
  | _ => none

/-- a step of a multi-reader script and its lifecycle kind (0 = call, 1 = new, 2 = drop, 3 = mv) -/
def parseMOp (s : String) : Option (MOp × Nat) :=
  match s.splitOn "." with
  | [ks, r] =>
    if ks.isEmpty || !ks.all Char.isDigit then none else
    match ks.toNat? with
    | none => none
    | some k =>
      if r = "new" then some (.life k, 1)
      else if r = "drop" then some (.life k, 2)
      else if r = "mv" then some (.life k, 3)
      else (parseOp r).map (fun op => (.run k op, 0))
  | _ => none

/-- lifecycle check (the harness has the same one): index in range, `new` only on a reader that does not exist yet,
    nothing after `drop`. States: 0 = not created, 1 = live, 2 = dropped. -/
def lifeOk : List (MOp × Nat) → List Nat → Bool
  | [], _ => true
  | (mop, kind) :: t, st =>
    let k := match mop with | .run k _ => k | .life k => k
    match st[k]? with
    | none => false
    | some 2 => false
    | some c =>
      if kind = 1 then (c == 0 && lifeOk t (st.set k 1))
      else if kind = 2 then lifeOk t (st.set k 2)
      else lifeOk t (st.set k 1)

def showMRes : MRes → String
  | none => "."
  | some r => showRes r

def showMTrace (rs : List MRes) : String :=
  if rs.isEmpty then "-" else " ".intercalate (rs.map showMRes)

def handleMulti (bufS : String) (groups : List String) (ops : List String) : String :=
  match bufS.toNat?, parseGroups groups, ops.mapM parseMOp with
  | some BUF, some ins, some steps =>
    if BUF = 0 || ins.length < 2 || !lifeOk steps (ins.map (fun _ => 0)) then invalid else
    let script := steps.map (·.1)
    let inputs := ins.map (·.2)
    let model := runMulti (maxLen inputs + 1) script (initMulti BUF ins)
    let spec := specMulti script inputs
    let n := domPrefixM script inputs
    let mark := if n < script.length then " ~" else ""
    answer (showMTrace (model.take n) ++ mark) (showMTrace (spec.take n) ++ mark)
  | _, _, _ => invalid

def handle (line : String) : String :=
  match splitOps line with
  | [] => badLine line
  | hdr :: ops =>
    let (hdrToks, full) := match tokens hdr with
      | [a, b, c, "full"] => ([a, b, c], true)
      -- header flag `ss` (wave 4): the harness answers this case on a small stack in a child process; same case for the model
      | [a, b, c, "ss"] => ([a, b, c], false)
      | ts => (ts, false)
    match hdrToks with
    | bufS :: h0 :: s0 :: "+" :: more => handleMulti bufS (h0 :: s0 :: "+" :: more) ops
    | [bufS, hexS, schedS] =>
      match bufS.toNat?, parseHexBytes hexS, parseSched schedS, ops.mapM parseOp with
      | some BUF, some input, some sched, some script =>
        if BUF = 0 then invalid else
        let src := mkEvents sched input #[]
        let fuel := input.length + 1
        let model := runScript fuel script (init BUF src)
        -- header flag `full` (twins of the out-of-domain stream): all model results, no constraint
        if full then answer3 (showTrace model) "any" "any" else
        let spec := specScript script input
        -- the property constrains the in-domain prefix of the script (valid tokens, no read past the end);
        -- `~` marks that later operations are outside it: they are not compared on this line
        let n := domPrefix script input
        let mark := if n < script.length then " ~" else ""
        answer (showTrace (model.take n) ++ mark) (showTrace (spec.take n) ++ mark)
      | _, _, _, _ => invalid
    | _ => invalid

end IoDrv

def main : IO Unit := driverMain IoDrv.handle
