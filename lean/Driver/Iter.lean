import RlibModel.Model.Iter
/-! Line-protocol driver for engine `iter` (property C15).

Cases:  `sub:<ty> x` / `sup:<ty> x`   collected `iter_submasks` / `iter_supermasks` of the mask `x` of type `ty`
        `np a,b,c`                    `next_permutation` on the sequence: new content and flag
        `npk K a,b,c`                 `K` successive `next_permutation` calls (digest of all intermediate results)
        `perms a,b,c`                 `iter_permutations(..).collect()`
        `n4|n4d|n8 n m i j`           collected neighbour iterators

`M` is the model (`iterSubmasks`, `iterSupermasks`, `nextPermutationIdx`, `iterPermutations`, `neighbours`);
`S` is the specification: the by-definition one (`specSubmasks`, `specSupermasks`, `specNextPermutation`,
`specPermutations`, `specNeighbours`) where it is cheap enough, else its proved-equal fast form
(`subsAsc`, `supsAsc`, `nextPermutation`; see `Props/C15.lean`).  Masks with more than 24 free bits and sequences
longer than 9 are refused by both sides (`refused:too-many-elements`, `S any`): never generated, only a guard
against a stray corpus / replay line asking for 2^64 elements. -/
open Rlib Rlib.Iter

def showNp : Except Panic (List Int × Bool) → String
  | .error e => e.toString
  | .ok (d, b) => s!"{showInts d} {showBool b}"

/-- `npk K d`: `K` successive calls of `step`; digest of every intermediate content and flag. -/
def walk (step : List Int → Except Panic (List Int × Bool)) :
    Nat → List Int → UInt64 → Nat → Except Panic (List Int × UInt64 × Nat)
  | 0, d, h, falses => .ok (d, h, falses)
  | k + 1, d, h, falses =>
    match step d with
    | .error e => .error e
    | .ok (d', b) =>
      walk step k d' (hashStep (hashList h d') (if b then 1 else 0)) (if b then falses else falses + 1)

def showWalk (k : Nat) : Except Panic (List Int × UInt64 × Nat) → String
  | .error e => e.toString
  | .ok (d, h, falses) => s!"steps={k} last={showInts d} falses={falses} h={toHex h.toNat 16}"

def handle (line : String) : String :=
  match tokens line with
  | [] => badLine line
  | op :: rest =>
  match splitTy op, rest with
  | ("sub", some t), [xs] =>
    match parseInt? xs with
    | some xi =>
      let x := (wrapU t.bits xi).toNat
      if popcount t.bits x > 24 then answer "refused:too-many-elements" "any" else
      let spec := if x < 256 then specSubmasks x else (subsAsc x).reverse
      answer (showMasks t (iterSubmasks t.bits x)) (showMasks t spec)
    | none => badLine line
  | ("sup", some t), [xs] =>
    match parseInt? xs with
    | some xi =>
      let x := (wrapU t.bits xi).toNat
      if countZeros t.bits x > 24 then answer "refused:too-many-elements" "any" else
      let spec := if t.bits ≤ 8 then specSupermasks t.bits x else supsAsc t.bits x
      answer (showMasks t (iterSupermasks t.bits x)) (showMasks t spec)
    | none => badLine line
  | ("np", none), [ds] =>
    match parseIntsComma? ds with
    | some d =>
      let spec := if d.length ≤ 6 then specNextPermutation d else nextPermutation d
      answer (showNp (nextPermutationIdx d)) (showNp (.ok spec))
    | none => badLine line
  | ("npk", none), [ks, ds] =>
    match parseNat? ks, parseIntsComma? ds with
    | some k, some d =>
      if k > 100000 ∨ d.length > 9 then answer "refused:too-many-elements" "any" else
      let specStep : List Int → Except Panic (List Int × Bool) :=
        fun u => .ok (if u.length ≤ 6 then specNextPermutation u else nextPermutation u)
      answer (showWalk k (walk nextPermutationIdx k d hashInit 0)) (showWalk k (walk specStep k d hashInit 0))
    | _, _ => badLine line
  | ("perms", none), [ds] =>
    match parseIntsComma? ds with
    | some d =>
      if d.length ≤ 9 then
        answer (showExcept showPerms (iterPermutations d)) (showPerms (specPermutations d))
      else answer "refused:too-many-elements" "any"
    | none => badLine line
  | (kind, none), [ns, ms, is, js] =>
    match parseNats? [ns, ms, is, js] with
    | some [n, m, i, j] =>
      let offs? := match kind with
        | "n4" => some offsets4 | "n4d" => some offsets4d | "n8" => some offsets8 | _ => none
      match offs? with
      | some offs =>
        let lim := 2 ^ 63 - 1
        let inDom := n < lim ∧ m < lim ∧ i < lim ∧ j < lim
        answer (showCells (neighbours offs n m i j))
          (if inDom then showCells (specNeighbours offs n m i j) else "any")
      | none => badLine line
    | _ => badLine line
  | _, _ => badLine line

def main : IO Unit := driverMain handle
