import RlibModel.Model.IterProto
/-! Line-protocol driver for engine `iter` (property C15).

Cases:  `sub:<ty> x` / `sup:<ty> x`   collected `iter_submasks` / `iter_supermasks` of the mask `x` of type `ty`
        `np a,b,c`                    `next_permutation` on the sequence: new content and flag
        `npk K a,b,c`                 `K` successive `next_permutation` calls (digest of all intermediate results)
        `perms a,b,c`                 `iter_permutations(..).collect()`
        `n4|n4d|n8 n m i j`           collected neighbour iterators
        `it <one of the iterator cases above> ; op ; op ; …`
                                      a script of `Iterator` method calls on ONE iterator (`sub`, `sup`, `perms`, `n4`, `n4d`, `n8`):
                                      `next` `hint` `nth K` `take K` `find P` `position P` `any P` `all P` (by `&mut`), then
                                      `count` `last` `fold` `foreach` `collect` `reduce` `min` `max` `minkey F` `maxkey F` `minby F`
                                      `maxby F` `sum` `product` (by value); `P` = `eq:E | lt:E | ge:E | par`, `F` = `par | c0`.
                                      `M` runs std's default bodies (`stdSem`) on the model's sequence, `S` the meaning of the
                                      methods (`specSem`) on the specification's sequence (`Props/C15.lean`: `provided_methods_spec`).
                                      `hint` prints `hint=ok`: the harness checks `lo ≤ remaining ≤ hi` itself.

`M` is the model (`iterSubmasks`, `iterSupermasks`, `nextPermutationIdx`, `iterPermutations`, `neighbours`);
`S` is the specification: the by-definition one (`specSubmasks`, `specSupermasks`, `specNextPermutation`,
`specPermutations`, `specNeighbours`) where it is cheap enough, else its proved-equal fast form
(`subsAsc`, `supsAsc`, `nextPermutation`; see `Props/C15.lean`).  Masks with more than 24 free bits and sequences
longer than 9 (unless they have at most 100000 distinct arrangements and at most 64 elements; then `S` is the direct
enumeration `specPermutationsFast`, proved equal) are refused by both sides (`refused:too-many-elements`, `S any`): never generated, only a guard
against a stray corpus / replay line asking for 2^64 elements. -/
open Rlib Rlib.Iter

def showNp : Except Panic (List Int × Bool) → String
  | .error e => e.toString
  | .ok (d, b) => s!"{showInts d} {showBool b}"

/-- `npk K d`: `K` successive calls of `step`; digest of every intermediate content and flag. -/
def walk (step : List Int → Except Panic (List Int × Bool)) :
    Nat → List Int → UInt64 → Nat → Except Panic (List Int × UInt64 × Nat)
  | 0, d, h, falses => .ok (d, h, falses)
  | k + 1, d, h, falses =>
    match step d with
    | .error e => .error e
    | .ok (d', b) =>
      walk step k d' (hashStep (hashList h d') (if b then 1 else 0)) (if b then falses else falses + 1)

def showWalk (k : Nat) : Except Panic (List Int × UInt64 × Nat) → String
  | .error e => e.toString
  | .ok (d, h, falses) => s!"steps={k} last={showInts d} falses={falses} h={toHex h.toNat 16}"

/-! ### scripts -/

def parsePred (parseE : String → Option Elem) (tok : String) : Option Pred :=
  if tok == "par" then some .par else
  match tok.splitOn ":" with
  | ["eq", e] => (parseE e).map .eq
  | ["lt", e] => (parseE e).map .lt
  | ["ge", e] => (parseE e).map .ge
  | _ => none

def parseKey : String → Option KeyFn
  | "par" => some .par
  | "c0" => some .c0
  | _ => none

def parseOp (parseE : String → Option Elem) (seg : String) : Op :=
  let nat (k : String) (f : Nat → Op) : Op := match parseNat? k with | some k => f k | none => .bad
  let pred (p : String) (f : Pred → Op) : Op := match parsePred parseE p with | some p => f p | none => .bad
  let key (k : String) (f : KeyFn → Op) : Op := match parseKey k with | some k => f k | none => .bad
  match tokens seg with
  | ["next"] => .next
  | ["hint"] => .hint
  | ["nth", k] => nat k .nth
  | ["take", k] => nat k .take
  | ["find", p] => pred p .find
  | ["position", p] => pred p .position
  | ["any", p] => pred p .any
  | ["all", p] => pred p .all
  | ["count"] => .count
  | ["last"] => .last
  | ["fold"] => .fold
  | ["foreach"] => .foreach
  | ["collect"] => .collect
  | ["reduce"] => .reduce
  | ["min"] => .min
  | ["max"] => .max
  | ["minkey", k] => key k .minkey
  | ["maxkey", k] => key k .maxkey
  | ["minby", k] => key k .minby
  | ["maxby", k] => key k .maxby
  | ["sum"] => .sum
  | ["product"] => .product
  | _ => .bad

def maskElem (t : IntTy) (v : Nat) : Elem := [t.wrap (v : Int)]

def maskKind (t : IntTy) : Kind where
  showE := fun e => toString (e.headD 0)
  showC := fun l => showMasks t (l.map (fun e => (wrapU t.bits (e.headD 0)).toNat))
  sumTy := some t

def permKind : Kind where
  showE := showInts
  showC := showPerms
  sumTy := none

def showCellE (e : Elem) : String := s!"({e.headD 0},{(e.drop 1).headD 0})"

def cellKind : Kind where
  showE := showCellE
  showC := fun l => showListWith showCellE l
  sumTy := none

def cellElem (p : Nat × Nat) : Elem := [(p.1 : Int), (p.2 : Int)]

def parseMaskE (t : IntTy) (s : String) : Option Elem :=
  match parseInt? s with
  | some v => if t.fits v then some [v] else none
  | none => none

def parsePermE (s : String) : Option Elem :=
  match parseIntsComma? s with
  | some l => if l.all (fun v => IntTy.i64.fits v) then some l else none
  | none => none

def parseCellE (s : String) : Option Elem :=
  match parseNatsComma? s with
  | some [a, b] => if a < 2 ^ 64 ∧ b < 2 ^ 64 then some [(a : Int), (b : Int)] else none
  | _ => none

def refused : String := answer "refused:too-many-elements" "any"

/-- `M`: std's default bodies on the model's sequence; `S`: the meaning of the methods on the specification's. -/
def answerScript (k : Kind) (ops : List Op) (model : Except Panic (List Elem)) (spec : Option (List Elem)) : String :=
  let m := match model with
    | .error e => e.toString
    | .ok l => " ; ".intercalate (runScript stdSem k ops (some l))
  let s := match spec with
    | none => "any"
    | some l => " ; ".intercalate (runScript specSem k ops (some l))
  answer m s

/-- the arrangements of `d` are few enough to be listed -/
def permsListable (d : List Int) : Bool :=
  d.length ≤ 9 || (d.length ≤ 64 && numArrangements d ≤ 100000)

def handleScript (line : String) : String :=
  match splitOps line with
  | [] => badLine line
  | hdr :: segs =>
  match tokens hdr with
  | "it" :: base :: args =>
    match splitTy base, args with
    | (op, some t), [xs] =>
      if op != "sub" && op != "sup" then badLine line else
      match parseInt? xs with
      | some xi =>
        let x := (wrapU t.bits xi).toNat
        let free := if op == "sub" then popcount t.bits x else countZeros t.bits x
        let ops := segs.map (parseOp (parseMaskE t))
        if free > 16 ∨ (free > 10 ∧ ops.any Op.isMinMax) then refused else
        let model := if op == "sub" then iterSubmasks t.bits x else iterSupermasks t.bits x
        let spec := if op == "sub" then (if x < 256 then specSubmasks x else (subsAsc x).reverse)
                    else (if t.bits ≤ 8 then specSupermasks t.bits x else supsAsc t.bits x)
        answerScript (maskKind t) ops (.ok (model.map (maskElem t))) (some (spec.map (maskElem t)))
      | none => badLine line
    | ("perms", none), [ds] =>
      match parseIntsComma? ds with
      | some d =>
        let ops := segs.map (parseOp parsePermE)
        let n := numArrangements d
        if d.length > 64 ∨ n > 50000 ∨ (n > 1024 ∧ ops.any Op.isMinMax) then refused else
        let spec := if d.length ≤ 7 then specPermutations d else specPermutationsFast d
        answerScript permKind ops (iterPermutations d) (some spec)
      | none => badLine line
    | (kind, none), [ns, ms, is, js] =>
      match parseNats? [ns, ms, is, js] with
      | some [n, m, i, j] =>
        let offs? := match kind with
          | "n4" => some offsets4 | "n4d" => some offsets4d | "n8" => some offsets8 | _ => none
        match offs? with
        | some offs =>
          let lim := 2 ^ 63 - 1
          let inDom := n < lim ∧ m < lim ∧ i < lim ∧ j < lim
          let ops := segs.map (parseOp parseCellE)
          answerScript cellKind ops (.ok ((neighbours offs n m i j).map cellElem))
            (if inDom then some ((specNeighbours offs n m i j).map cellElem) else none)
        | none => badLine line
      | _ => badLine line
    | _, _ => badLine line
  | _ => badLine line

def handle (line : String) : String :=
  if line.trimAscii.toString.startsWith "it " then handleScript line else
  match tokens line with
  | [] => badLine line
  | op :: rest =>
  match splitTy op, rest with
  | ("sub", some t), [xs] =>
    match parseInt? xs with
    | some xi =>
      let x := (wrapU t.bits xi).toNat
      if popcount t.bits x > 24 then answer "refused:too-many-elements" "any" else
      let spec := if x < 256 then specSubmasks x else (subsAsc x).reverse
      answer (showMasks t (iterSubmasks t.bits x)) (showMasks t spec)
    | none => badLine line
  | ("sup", some t), [xs] =>
    match parseInt? xs with
    | some xi =>
      let x := (wrapU t.bits xi).toNat
      if countZeros t.bits x > 24 then answer "refused:too-many-elements" "any" else
      let spec := if t.bits ≤ 8 then specSupermasks t.bits x else supsAsc t.bits x
      answer (showMasks t (iterSupermasks t.bits x)) (showMasks t spec)
    | none => badLine line
  | ("np", none), [ds] =>
    match parseIntsComma? ds with
    | some d =>
      let spec := if d.length ≤ 6 then specNextPermutation d else nextPermutation d
      answer (showNp (nextPermutationIdx d)) (showNp (.ok spec))
    | none => badLine line
  | ("npk", none), [ks, ds] =>
    match parseNat? ks, parseIntsComma? ds with
    | some k, some d =>
      if k > 100000 ∨ d.length > 64 then answer "refused:too-many-elements" "any" else
      let specStep : List Int → Except Panic (List Int × Bool) :=
        fun u => .ok (if u.length ≤ 6 then specNextPermutation u else nextPermutation u)
      answer (showWalk k (walk nextPermutationIdx k d hashInit 0)) (showWalk k (walk specStep k d hashInit 0))
    | _, _ => badLine line
  | ("perms", none), [ds] =>
    match parseIntsComma? ds with
    | some d =>
      if permsListable d then
        answer (showExcept showPerms (iterPermutations d))
          (showPerms (if d.length ≤ 9 then specPermutations d else specPermutationsFast d))
      else answer "refused:too-many-elements" "any"
    | none => badLine line
  | (kind, none), [ns, ms, is, js] =>
    match parseNats? [ns, ms, is, js] with
    | some [n, m, i, j] =>
      let offs? := match kind with
        | "n4" => some offsets4 | "n4d" => some offsets4d | "n8" => some offsets8 | _ => none
      match offs? with
      | some offs =>
        let lim := 2 ^ 63 - 1
        let inDom := n < lim ∧ m < lim ∧ i < lim ∧ j < lim
        answer (showCells (neighbours offs n m i j))
          (if inDom then showCells (specNeighbours offs n m i j) else "any")
      | none => badLine line
    | _ => badLine line
  | _, _ => badLine line

def main : IO Unit := driverMain handle
