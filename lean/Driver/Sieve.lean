import RlibModel.Model.Sieve
/-!
Line-protocol driver for engine `sieve` (property C13).

Cases (N = the limit passed to `Sieve::new`, all numbers decimal):
* `tab N`            raw = `len=.. mnp#<fnv64> isp#<fnv64> primes#<count>:<fnv64>` of the three tables read through the
                     accessors for every `n ≤ N`; view = `ok` iff every entry equals the arithmetic definition
                     (driver: trial-division spec; harness: its own trial-division oracle), else the first bad entry.
* `big N`            same raw; the driver does not recompute the spec tables (view `ok` is `C13.minPrime_spec` etc.,
                     proved for every N); the harness compares against an independent segmented Eratosthenes.
* `mnp N` `isp N` `primes N`   the whole table as text (view of `mnp`: entries 0 and 1 masked as `_` — the property speaks about
                     2 ≤ n; likewise `tab` does not compare them with the spec, they only enter the model-vs-implementation hash).
* `mp N n` / `ip N n`          one accessor call (out of range ⇒ `panic:index`, outside the property's domain).
* `fact N n`                   `factorize(n).collect()` as `[p^e,...]`.
* `factm N n1,n2,...`          several factorisations on one sieve, joined by `/`.
-/
open Rlib Rlib.Sieve

def fnvInit : UInt64 := 0xcbf29ce484222325
@[inline] def fnvStep (h : UInt64) (x : Nat) : UInt64 := (h ^^^ x.toUInt64) * 0x100000001b3

/-- tables as the accessors show them: `min_prime(c)`, `is_prime(c)` for `c ≤ N`, and `primes()` -/
structure Obs where
  len : Nat
  hm : UInt64
  hi : UInt64
  np : Nat
  hp : UInt64

def observe (s : St) (N : Nat) : Obs :=
  let hm := (List.range (N + 1)).foldl (fun h c => fnvStep h (match minPrime s c with | .ok v => v + 1 | .error _ => 0)) fnvInit
  let hi := (List.range (N + 1)).foldl (fun h c => fnvStep h (match isPrime s c with | .ok true => 2 | .ok false => 1 | .error _ => 0)) fnvInit
  let hp := s.primes.foldl (fun h p => fnvStep h p) fnvInit
  { len := N + 1, hm := hm, hi := hi, np := s.primes.size, hp := hp }

def Obs.show (o : Obs) : String :=
  s!"len={o.len} mnp#{toHex o.hm.toNat 16} isp#{toHex o.hi.toNat 16} primes#{o.np}:{toHex o.hp.toNat 16}"

def specMnpEntry (c : Nat) : Nat := if c < 2 then 0 else specMinFac c

instance : BEq (Except Panic Nat) := ⟨fun a b => match a, b with
  | .ok x, .ok y => x == y | .error e, .error f => e == f | _, _ => false⟩
instance : BEq (Except Panic Bool) := ⟨fun a b => match a, b with
  | .ok x, .ok y => x == y | .error e, .error f => e == f | _, _ => false⟩

/-- first entry (if any) where the model's tables differ from the arithmetic definitions -/
def firstBad (s : St) (N : Nat) : Option String :=
  -- entries 0 and 1 of the least-prime table are outside the property (2 ≤ n): not compared (they stay in the hash)
  let bad1 := (List.range (N + 1)).find? (fun c => 2 ≤ c && minPrime s c != .ok (specMnpEntry c))
  match bad1 with
  | some c => some s!"bad mnp[{c}]"
  | none =>
    let bad2 := (List.range (N + 1)).find? (fun c => isPrime s c != .ok (specIsPrime c))
    match bad2 with
    | some c => some s!"bad isp[{c}]"
    | none => if primesOf s = specPrimes N then none else some "bad primes"

def showFact (l : List (Nat × Nat)) : String :=
  showListWith (fun (pe : Nat × Nat) => s!"{pe.1}^{pe.2}") l

def showBits (l : List Bool) : String := String.ofList (l.map (fun b => if b then '1' else '0'))

def fuelFor (n : Nat) : Nat := n.log2 + 1

def handle (line : String) : String :=
  match tokens line with
  | ["tab", sN] =>
    match parseNat? sN with
    | some N =>
      let s := sieve N
      let v := match firstBad s N with | none => "ok" | some b => b
      answer3 (observe s N).show v "ok"
    | none => badLine line
  | ["big", sN] =>
    match parseNat? sN with
    | some N =>
      let s := sieve N
      answer3 (observe s N).show "ok" "ok"
    | none => badLine line
  | ["mnp", sN] =>
    match parseNat? sN with
    | some N =>
      let s := sieve N
      let m := (List.range (N + 1)).map (fun c => showExcept toString (minPrime s c))
      -- view: entries 0 and 1 masked (`_`), the property starts at n = 2
      let mv := (List.range (N + 1)).map (fun c => if c < 2 then "_" else showExcept toString (minPrime s c))
      let sp := (List.range (N + 1)).map (fun c => if c < 2 then "_" else toString (specMinFac c))
      answer3 ("[" ++ ",".intercalate m ++ "]") ("[" ++ ",".intercalate mv ++ "]") ("[" ++ ",".intercalate sp ++ "]")
    | none => badLine line
  | ["isp", sN] =>
    match parseNat? sN with
    | some N =>
      let s := sieve N
      let m := (List.range (N + 1)).map (fun c => match isPrime s c with | .ok b => b | .error _ => false)
      answer (showBits m) (showBits ((List.range (N + 1)).map specIsPrime))
    | none => badLine line
  | ["primes", sN] =>
    match parseNat? sN with
    | some N => answer (showNats (primesOf (sieve N))) (showNats (specPrimes N))
    | none => badLine line
  | ["mp", sN, sn] =>
    match parseNat? sN, parseNat? sn with
    | some N, some n =>
      answer (showExcept toString (minPrime (sieve N) n)) (if 2 ≤ n ∧ n ≤ N then toString (specMinFac n) else "any")
    | _, _ => badLine line
  | ["ip", sN, sn] =>
    match parseNat? sN, parseNat? sn with
    | some N, some n =>
      answer (showExcept showBool (isPrime (sieve N) n)) (if n ≤ N then showBool (specIsPrime n) else "any")
    | _, _ => badLine line
  | ["fact", sN, sn] =>
    match parseNat? sN, parseNat? sn with
    | some N, some n =>
      answer (showExcept showFact (factorize (sieve N) (fuelFor n) n))
        (if 1 ≤ n ∧ n ≤ N then showFact (specFactorize (fuelFor n) n) else "any")
    | _, _ => badLine line
  | ["factm", sN, sns] =>
    match parseNat? sN, parseNatsComma? sns with
    | some N, some ns =>
      let s := sieve N
      let m := ns.map (fun n => showExcept showFact (factorize s (fuelFor n) n))
      let sp := ns.map (fun n => showFact (specFactorize (fuelFor n) n))
      answer ("/".intercalate m) (if ns.all (fun n => 1 ≤ n ∧ n ≤ N) then "/".intercalate sp else "any")
    | _, _ => badLine line
  | _ => badLine line

def main : IO Unit := driverMain handle
