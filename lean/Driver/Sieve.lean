import RlibModel.Model.Sieve
/-!
Line-protocol driver for engine `sieve` (property C13).

Cases (N = the limit passed to `Sieve::new`, all numbers decimal):
* `tab N`            raw = `len=.. mnp#<fnv64> isp#<fnv64> primes#<count>:<fnv64>` of the three tables read through the
                     accessors for every `n ≤ N`; view = `ok` iff every entry equals the arithmetic definition
                     (driver: trial-division spec; harness: its own trial-division oracle), else the first bad entry.
* `big N`            same raw; the driver does not recompute the spec tables (view `ok` is `C13.minPrime_spec` etc.,
                     proved for every N); the harness compares against an independent segmented Eratosthenes.
* `mnp N` `isp N` `primes N`   the whole table as text (view of `mnp`: entries 0 and 1 masked as `_` — the property speaks about
                     2 ≤ n; likewise `tab` does not compare them with the spec, they only enter the model-vs-implementation hash).
* `mp N n` / `ip N n`          one accessor call (out of range ⇒ `panic:index`, outside the property's domain).
* `fact N n`                   `factorize(n).collect()` as `[p^e,...]`.
* `factm N n1,n2,...`          several factorisations on one sieve, joined by `/`.
* `new N`                      construction alone + a summary: raw = `np=<#primes> hp=<fnv64 of primes()> first=.. last=.. mnpN=<min_prime(N)>
                     ispN=<is_prime(N)>`; view = `ok` (harness: every entry of all three tables compared with its own Eratosthenes
                     table, else the first bad entry / the panic of `Sieve::new`).  The driver answers MANY such lines from ONE
                     cached table built for a limit `M ≥ N` (`foldUpTo`, `C13.foldUpTo_prefix`, `minPrime_prefix`, `isPrime_prefix`).
* `itm N k ; n1 ; n2 ; ...`    for each `n`: `factorize(n)`, `k` calls of `next`, then every provided `Iterator` method on what is
                     left (`Rlib.Sieve.modesOf`, `C13.iterModes_eq_spec`); records joined by ` / `.  `sh=` is `size_hint()`: `ok` iff the
                     pair brackets the number of items left (the property fixes no value).
* `live N1 N2 n1 n2 n3`        two sieves alive at once, three iterators (`a.factorize(n1)`, `b.factorize(n2)`, `a.factorize(n3)`)
                     advanced in turn (every prime they return is fed back into `is_prime` / `min_prime` of both tables: view `fb=ok`); then
                     the summaries of both tables, and of `b` again after `a` was dropped.
-/
open Rlib Rlib.Sieve

def fnvInit : UInt64 := 0xcbf29ce484222325
@[inline] def fnvStep (h : UInt64) (x : Nat) : UInt64 := (h ^^^ x.toUInt64) * 0x100000001b3

/-- tables as the accessors show them: `min_prime(c)`, `is_prime(c)` for `c ≤ N`, and `primes()` -/
structure Obs where
  len : Nat
  hm : UInt64
  hi : UInt64
  np : Nat
  hp : UInt64

def observe (s : St) (N : Nat) : Obs :=
  let hm := (List.range (N + 1)).foldl (fun h c => fnvStep h (match minPrime s c with | .ok v => v + 1 | .error _ => 0)) fnvInit
  let hi := (List.range (N + 1)).foldl (fun h c => fnvStep h (match isPrime s c with | .ok true => 2 | .ok false => 1 | .error _ => 0)) fnvInit
  let hp := s.primes.foldl (fun h p => fnvStep h p) fnvInit
  { len := N + 1, hm := hm, hi := hi, np := s.primes.size, hp := hp }

def Obs.show (o : Obs) : String :=
  s!"len={o.len} mnp#{toHex o.hm.toNat 16} isp#{toHex o.hi.toNat 16} primes#{o.np}:{toHex o.hp.toNat 16}"

def specMnpEntry (c : Nat) : Nat := if c < 2 then 0 else specMinFac c

instance : BEq (Except Panic Nat) := ⟨fun a b => match a, b with
  | .ok x, .ok y => x == y | .error e, .error f => e == f | _, _ => false⟩
instance : BEq (Except Panic Bool) := ⟨fun a b => match a, b with
  | .ok x, .ok y => x == y | .error e, .error f => e == f | _, _ => false⟩

/-- first entry (if any) where the model's tables differ from the arithmetic definitions -/
def firstBad (s : St) (N : Nat) : Option String :=
  -- entries 0 and 1 of the least-prime table are outside the property (2 ≤ n): not compared (they stay in the hash)
  let bad1 := (List.range (N + 1)).find? (fun c => 2 ≤ c && minPrime s c != .ok (specMnpEntry c))
  match bad1 with
  | some c => some s!"bad mnp[{c}]"
  | none =>
    let bad2 := (List.range (N + 1)).find? (fun c => isPrime s c != .ok (specIsPrime c))
    match bad2 with
    | some c => some s!"bad isp[{c}]"
    | none => if primesOf s = specPrimes N then none else some "bad primes"

def showFact (l : List (Nat × Nat)) : String :=
  showListWith (fun (pe : Nat × Nat) => s!"{pe.1}^{pe.2}") l

def showBits (l : List Bool) : String := String.ofList (l.map (fun b => if b then '1' else '0'))

def fuelFor (n : Nat) : Nat := n.log2 + 1

def handle (line : String) : String :=
  match tokens line with
  | ["tab", sN] =>
    match parseNat? sN with
    | some N =>
      let s := sieve N
      let v := match firstBad s N with | none => "ok" | some b => b
      answer3 (observe s N).show v "ok"
    | none => badLine line
  | ["big", sN] =>
    match parseNat? sN with
    | some N =>
      let s := sieve N
      answer3 (observe s N).show "ok" "ok"
    | none => badLine line
  | ["mnp", sN] =>
    match parseNat? sN with
    | some N =>
      let s := sieve N
      let m := (List.range (N + 1)).map (fun c => showExcept toString (minPrime s c))
      -- view: entries 0 and 1 masked (`_`), the property starts at n = 2
      let mv := (List.range (N + 1)).map (fun c => if c < 2 then "_" else showExcept toString (minPrime s c))
      let sp := (List.range (N + 1)).map (fun c => if c < 2 then "_" else toString (specMinFac c))
      answer3 ("[" ++ ",".intercalate m ++ "]") ("[" ++ ",".intercalate mv ++ "]") ("[" ++ ",".intercalate sp ++ "]")
    | none => badLine line
  | ["isp", sN] =>
    match parseNat? sN with
    | some N =>
      let s := sieve N
      let m := (List.range (N + 1)).map (fun c => match isPrime s c with | .ok b => b | .error _ => false)
      answer (showBits m) (showBits ((List.range (N + 1)).map specIsPrime))
    | none => badLine line
  | ["primes", sN] =>
    match parseNat? sN with
    | some N => answer (showNats (primesOf (sieve N))) (showNats (specPrimes N))
    | none => badLine line
  | ["mp", sN, sn] =>
    match parseNat? sN, parseNat? sn with
    | some N, some n =>
      answer (showExcept toString (minPrime (sieve N) n)) (if 2 ≤ n ∧ n ≤ N then toString (specMinFac n) else "any")
    | _, _ => badLine line
  | ["ip", sN, sn] =>
    match parseNat? sN, parseNat? sn with
    | some N, some n =>
      answer (showExcept showBool (isPrime (sieve N) n)) (if n ≤ N then showBool (specIsPrime n) else "any")
    | _, _ => badLine line
  | ["fact", sN, sn] =>
    match parseNat? sN, parseNat? sn with
    | some N, some n =>
      answer (showExcept showFact (factorize (sieve N) (fuelFor n) n))
        (if 1 ≤ n ∧ n ≤ N then showFact (specFactorize (fuelFor n) n) else "any")
    | _, _ => badLine line
  | ["factm", sN, sns] =>
    match parseNat? sN, parseNatsComma? sns with
    | some N, some ns =>
      let s := sieve N
      let m := ns.map (fun n => showExcept showFact (factorize s (fuelFor n) n))
      let sp := ns.map (fun n => showFact (specFactorize (fuelFor n) n))
      answer ("/".intercalate m) (if ns.all (fun n => 1 ≤ n ∧ n ≤ N) then "/".intercalate sp else "any")
    | _, _ => badLine line
  | _ => badLine line

/-! ### cached large table, dense limit sweep, consumption modes -/

/-- a table for a limit `M` together with its prime list (`primesOf s`, converted once) -/
structure Big where
  M : Nat
  s : St
  ps : List Nat

def mkBig (M : Nat) : Big := let s := sieve M; { M := M, s := s, ps := primesOf s }

/-- a table whose limit is at least `N`: the cached one if it is large enough, else a new one (limits rounded up to
    2^17 / 2^20 so that a sweep over many limits builds one table) -/
def bigLimit (N : Nat) : Nat := if N ≤ 131072 then 131072 else if N ≤ 1048576 then 1048576 else N

def getBig (c : Option Big) (N : Nat) : Big :=
  match c with
  | some b => if N ≤ b.M then b else mkBig (bigLimit N)
  | none => mkBig (bigLimit N)

def showOptNat : Option Nat → String
  | none => "-"
  | some p => toString p

/-- what `Sieve::new(N)` shows in the summary, read off a table for `b.M ≥ N` -/
def summaryAt (b : Big) (N : Nat) : String :=
  -- three early-exit folds over the primes `≤ N` (`foldUpTo`, no intermediate list): count, FNV-64, last element
  let np := foldUpTo (fun a _ => a + 1) N b.ps 0
  let hp := foldUpTo fnvStep N b.ps fnvInit
  let last := foldUpTo (fun _ p => p) N b.ps 0
  let first := if np = 0 then none else b.ps.head?
  s!"np={np} hp={toHex hp.toNat 16} first={showOptNat first} last={if np = 0 then "-" else toString last} " ++
  s!"mnpN={showExcept toString (minPrime b.s N)} ispN={showExcept showBool (isPrime b.s N)}"

def showItem (pe : Nat × Nat) : String := s!"{pe.1}^{pe.2}"
def showOptItem : Option (Nat × Nat) → String
  | none => "-"
  | some pe => showItem pe
def showItems (l : List (Nat × Nat)) : String := showListWith showItem l

/-- one record of an `itm` line, without the `sh=` field -/
def showModes (m : Modes) : String :=
  "pre=<" ++ ",".intercalate (m.pre.map showOptItem) ++ ">" ++
  s!" c={showItems m.collect} h={showItems m.collect} n={m.count} l={showOptItem m.last} f={m.fold} e={m.fold}" ++
  s!" s={m.sumExp} p={m.prodExp1} mx={showOptItem m.max} mn={showOptItem m.min} xk={showOptItem m.maxByExp} nk={showOptItem m.minByExp}" ++
  s!" rd={showOptItem m.reduce} fd={showOptItem m.find} ps={showOptNat m.position} an={showBool m.any} al={showBool m.all}" ++
  s!" pt={showItems m.partition.1}+{showItems m.partition.2} uz={showNats m.unzip.1}+{showNats m.unzip.2}" ++
  s!" n0={showOptItem m.nth0.1}>{showItems m.nth0.2} n1={showOptItem m.nth1.1}>{showItems m.nth1.2}" ++
  s!" sk={showItems m.skip1} st={showItems m.stepBy2} tk={showItems m.take1.1}+{m.take1.2} eq=true"

def modesRecord (s : St) (k n : Nat) : String × String :=
  match factorize s (fuelFor n) n with
  | .ok L => let t := showModes (modesOf L k) ++ " sh=ok"; (t, t)
  | .error e => (e.toString, e.toString)

def specRecord (k n : Nat) : String := showModes (modesOf (specFactorize (fuelFor n) n) k) ++ " sh=ok"

def handleC (c : Option Big) (line : String) : String × Option Big :=
  match splitOps line with
  | [] => (badLine line, c)
  | hdr :: ops =>
    match tokens hdr, ops with
    | ["new", sN], [] =>
      match parseNat? sN with
      | some N => let b := getBig c N; (answer3 (summaryAt b N) "ok" "ok", some b)
      | none => (badLine line, c)
    | ["itm", sN, sk], _ =>
      match parseNat? sN, parseNat? sk, ops.mapM parseNat? with
      | some N, some k, some ns =>
        if ns.all (fun n => 1 ≤ n ∧ n ≤ N) then
          let b := getBig c N
          let rv := ns.map (modesRecord b.s k)
          (answer3 (" / ".intercalate (rv.map Prod.fst)) (" / ".intercalate (rv.map Prod.snd))
            (" / ".intercalate (ns.map (specRecord k))), some b)
        else
          let s := sieve N
          let rv := ns.map (modesRecord s k)
          (answer3 (" / ".intercalate (rv.map Prod.fst)) (" / ".intercalate (rv.map Prod.snd)) "any", c)
      | _, _, _ => (badLine line, c)
    | ["live", sA, sB, s1, s2, s3], [] =>
      match parseNat? sA, parseNat? sB, parseNat? s1, parseNat? s2, parseNat? s3 with
      | some A, some B, some n1, some n2, some n3 =>
        if 1 ≤ n1 ∧ n1 ≤ A ∧ 1 ≤ n2 ∧ n2 ≤ B ∧ 1 ≤ n3 ∧ n3 ≤ A then
          let b := getBig c (max A B)
          let f := fun n => showExcept showFact (factorize b.s (fuelFor n) n)
          let sp := fun n => showFact (specFactorize (fuelFor n) n)
          (answer3 s!"a={f n1} b={f n2} c={f n3} A:{summaryAt b A} B:{summaryAt b B} B2:{summaryAt b B}"
            s!"a={f n1} b={f n2} c={f n3} A:ok B:ok B2:ok fb=ok" s!"a={sp n1} b={sp n2} c={sp n3} A:ok B:ok B2:ok fb=ok", some b)
        else (answer3 "out-of-domain" "out-of-domain" "any", c)
      | _, _, _, _, _ => (badLine line, c)
    | _, _ => (handle line, c)

def main : IO Unit := do
  let h ← IO.getStdin
  let out ← IO.getStdout
  let mut cache : Option Big := none
  for _ in [0:4000000000] do
    let line ← h.getLine
    if line.isEmpty then break
    let (ans, c') := handleC cache line
    cache := c'
    out.putStrLn ans
  out.flush
