import RlibModel.Model.TreapItems
/-!
Line-protocol driver for engine `treap` (properties C03 and C16).

Case line:  `<C03|C16> <sum|aff> <ctl|own|big> [pm=<k>] ; op ; op ; …`

* `ctl`  every node's priority is in the case (`item v p`), the harness writes the same number into
         the public `priority` field, so model and implementation build the same shapes;
* `own`  priorities are rlib's (`*` in the case); the model draws its own from policy `pm`, which
         is sound for sequence-level observables because `seq` provably ignores priorities;
* `big`  (C16 only) macro operations building up to 10^6 elements with rlib's priorities
         (`append|front|alt|mid|singles|fromitem|scratch|burn c`, `rand|rot|del|pieces c seed`); the
         model only keeps the element count, `ok` is what `heap_history` proves and the height
         bound (and the share of distinct priorities) is the measured (statistical) claim.

Operations: `new`, `item v p`, `merge i j`, `splitat i k`, `splitby i lt|le|gt|ge c`,
`insert i k v p`, `remove i k`, `first i`, `last i`, `collect i`, `size i`, `agg i`, `tag i m…`, `drop i`,
and the operations that RE-USE what the API returned: `move i k j pos p` (`remove_at` + `insert_at` of the
returned item), `take i k p` (`remove_at` + `from_item`), `dup i first|last|collect p` (clone of the only
element), `collect2 i j` (`collect_into` of two treaps into one vector),
and the operations that hand `insert_at` an item CARRYING A PENDING MODIFICATION: `inserttag i k v p m…`
(`Item::new(v)` + `modify(m)` + `insert_at`), `moveroot i take|clone j pos p` (the item at the root of the
one-element treap `i`, read through the public `root` field, goes to `ts[j].insert_at(pos, it)`).

Items: `sum`, `aff`, and `key` (an item that relies on the default `update`/`push` and has no size: only
`new item merge splitby first last collect collect2 size dup drop` exist for it; its sizes are node counts).
-/
open Rlib Rlib.Treap

structure ItemIO (G M : Type) where
  parseTag : List String → Option M
  showG : G → String
  /-- does the Rust twin implement `TreapItemSized` (and have tags and an aggregate)? -/
  sized : Bool := true

def sumIO : ItemIO (Nat × Int) Int where
  parseTag
    | [c] => parseInt? c
    | _ => none
  showG g := s!"({g.1},{g.2})"

def affIO : ItemIO (Int × Int) (Int × Int) where
  parseTag
    | [a, b] => match parseInt? a, parseInt? b with
      | some a, some b => some (a, b)
      | _, _ => none
    | _ => none
  showG g := s!"({g.1},{g.2})"

def keyIO : ItemIO Unit Unit where
  parseTag _ := some ()
  showG _ := "()"
  sized := false

/-- operations that exist for an item without `TreapItemSized`, tags and aggregate -/
def opUnsized {E M V : Type} : Op E M V → Bool
  | .new | .item _ _ | .merge _ _ | .splitBy _ _ | .first _ | .last _ | .collect _ | .collect2 _ _
  | .size _ | .dup _ _ _ | .drop _ => true
  | _ => false

/-- the model's own priority for the `k`-th node created with priority `*` -/
def modelPrio (pm k : Nat) : Nat :=
  match pm with
  | 0 => 7
  | 1 => k
  | 2 => 1000000 - k
  | 3 => k % 3
  | _ => (k * 2654435761 + 12345 * pm) % 4294967296

def parsePrio (pm k : Nat) (s : String) : Option (Nat × Nat) :=
  if s = "*" then some (modelPrio pm k, k + 1) else (parseNat? s).map (fun p => (p, k))

def parsePred (rel c : String) : Option (Int → Bool) :=
  match parseInt? c with
  | none => none
  | some c =>
    match rel with
    | "lt" => some (fun e => e < c)
    | "le" => some (fun e => e ≤ c)
    | "gt" => some (fun e => e > c)
    | "ge" => some (fun e => e ≥ c)
    | _ => none

/-- parse one operation; `k` counts the nodes created with priority `*` so far -/
def parseOp {G M : Type} (io : ItemIO G M) (pm k : Nat) (toks : List String) : Option (Op Int M Int × Nat) :=
  match toks with
  | ["new"] => some (.new, k)
  | ["item", v, p] =>
    match parseInt? v, parsePrio pm k p with
    | some v, some (p, k') => some (.item v p, k')
    | _, _ => none
  | ["merge", i, j] =>
    match parseNat? i, parseNat? j with
    | some i, some j => some (.merge i j, k)
    | _, _ => none
  | ["splitat", i, n] =>
    match parseNat? i, parseNat? n with
    | some i, some n => some (.splitAt i n, k)
    | _, _ => none
  | ["splitby", i, rel, c] =>
    match parseNat? i, parsePred rel c with
    | some i, some g => some (.splitBy i g, k)
    | _, _ => none
  | ["insert", i, n, v, p] =>
    match parseNat? i, parseNat? n, parseInt? v, parsePrio pm k p with
    | some i, some n, some v, some (p, k') => some (.insertAt i n v p, k')
    | _, _, _, _ => none
  | ["remove", i, n] =>
    match parseNat? i, parseNat? n with
    | some i, some n => some (.removeAt i n, k)
    | _, _ => none
  | ["first", i] => (parseNat? i).map (fun i => (.first i, k))
  | ["last", i] => (parseNat? i).map (fun i => (.last i, k))
  | ["collect", i] => (parseNat? i).map (fun i => (.collect i, k))
  | ["size", i] => (parseNat? i).map (fun i => (.size i, k))
  | ["agg", i] => (parseNat? i).map (fun i => (.agg i, k))
  | ["drop", i] => (parseNat? i).map (fun i => (.drop i, k))
  | "tag" :: i :: rest =>
    match parseNat? i, io.parseTag rest with
    | some i, some m => some (.tag i m, k)
    | _, _ => none
  | ["move", i, n, j, pos, p] =>
    match parseNat? i, parseNat? n, parseNat? j, parseNat? pos, parsePrio pm k p with
    | some i, some n, some j, some pos, some (p, k') => some (.moveAt i n j pos p, k')
    | _, _, _, _, _ => none
  | ["take", i, n, p] =>
    match parseNat? i, parseNat? n, parsePrio pm k p with
    | some i, some n, some (p, k') => some (.takeAt i n p, k')
    | _, _, _ => none
  | ["dup", i, w, p] =>
    let w? : Option Nat := if w = "first" then some 0 else if w = "last" then some 1 else if w = "collect" then some 2 else none
    match parseNat? i, w?, parsePrio pm k p with
    | some i, some w, some (p, k') => some (.dup i w p, k')
    | _, _, _ => none
  | ["collect2", i, j] =>
    match parseNat? i, parseNat? j with
    | some i, some j => some (.collect2 i j, k)
    | _, _ => none
  | "inserttag" :: i :: n :: v :: p :: rest =>
    match parseNat? i, parseNat? n, parseInt? v, parsePrio pm k p, io.parseTag rest with
    | some i, some n, some v, some (p, k'), some m => some (.insertTag i n v m p, k')
    | _, _, _, _, _ => none
  | ["moveroot", i, w, j, pos, p] =>
    let w? : Option Nat := if w = "take" then some 0 else if w = "clone" then some 1 else none
    match parseNat? i, w?, parseNat? j, parseNat? pos, parsePrio pm k p with
    | some i, some w, some j, some pos, some (p, k') => some (.moveRoot i w j pos p, k')
    | _, _, _, _, _ => none
  | _ => none

def parseOps {G M : Type} (io : ItemIO G M) (pm : Nat) : Nat → List String → Option (List (Op Int M Int))
  | _, [] => some []
  | k, s :: rest =>
    match parseOp io pm k (tokens s) with
    | none => none
    | some (op, k') => (parseOps io pm k' rest).map (op :: ·)

def showObs {G : Type} (showG : G → String) (view : Bool) : Obs Int G → String
  | .unit => "-"
  | .nats ns => "n:" ++ "+".intercalate (ns.map toString)
  | .optE none => "none"
  | .optE (some e) => s!"some:{e}"
  | .listE l => showInts l
  | .optG none => "g:none"
  | .optG (some g) => "g:" ++ showG g
  | .removed (.ok e) => s!"rm:{e}"
  | .removed (.error p) => if view then "rm:panic" else "rm:" ++ p.toString
  | .moved e n => s!"mv:{e}:n:{n}"

def showSkel : Tree Unit → String
  | .nil => "."
  | .node _ p l r => "(" ++ showSkel l ++ toString p ++ showSkel r ++ ")"

/-- C16, raw token: the shape, always (ties included, so that `merge`'s tie-break is compared). -/
def shapeRaw (t : Tree Unit) : String := "shape:" ++ showSkel t

/-- C16, spec-level view of a shape: the shape when the priorities are pairwise distinct; `ties`
    otherwise (how ties are broken is not part of the property, only of the correspondence). -/
def shapeView (ps : List Nat) (t : Tree Unit) : String :=
  if nodupB ps then "shape:" ++ showSkel t else "ties"

/-- C16: step through the history; after every operation report heap order of every live treap.
    Also returns the observations (the sizes drive the priority-list spec `runP`). -/
def heapTrace {T G M : Type} (I : TItem T Int G M Int) :
    List (Tree T) → List (Op Int M Int) → Option (List (Tree T) × List String × List (Obs Int G))
  | ts, [] => some (ts, [], [])
  | ts, op :: ops =>
    match stepM I ts op with
    | none => none
    | some (ts', o) =>
      match heapTrace I ts' ops with
      | none => none
      | some (ts'', out, os) => some (ts'', (if ts'.all isHeap then "ok" else "BAD") :: out, o :: os)

def runCase {T G M : Type} (I : TItem T Int G M Int) (io : ItemIO G M)
    (focus stream : String) (pm : Nat) (opStrs : List String) : String :=
  match parseOps io pm 0 opStrs with
  | none => "BAD-OPS"
  | some ops =>
    if !io.sized && !ops.all opUnsized then answer "INVALID" "any" else
    if focus = "C03" then
      match runM I [] ops, runS I [] ops with
      | some (_, mo), some (_, so) =>
        let raw := " ".intercalate (mo.map (showObs io.showG false))
        let view := " ".intercalate (mo.map (showObs io.showG true))
        let spec := " ".intercalate (so.map (showObs io.showG true))
        answer3 raw view (if runStatedB (G := G) I [] ops then spec else "any")
      | _, _ => answer "INVALID" "any"
    else
      match heapTrace I [] ops with
      | none => answer "INVALID" "any"
      | some (ts, out, os) =>
        let m := " ".intercalate (out.map (fun _ => "ok"))
        let v := " ".intercalate out
        if stream = "ctl" then
          -- spec: Cartesian trees of the priority lists computed from the operations and reported sizes
          match runP [] ops os with
          | none => "BAD-OPS"
          | some ps =>
            let raw := " ".intercalate (ts.map (fun t => shapeRaw (skel t)))
            let view := " ".intercalate (ts.map (fun t => shapeView (prios t) (skel t)))
            let spec := " ".intercalate (ps.map (fun p => shapeView p (cartShape p)))
            -- a `split_by` predicate that is not prefix-monotone cuts where the *shape* says: the sizes,
            -- hence the priority lists, are then not fixed by the history (heap order still is: raw)
            let inDom := runInDomB (G := G) I [] ops
            answer3 (v ++ " / " ++ raw) (v ++ " / " ++ view) (if inDom then m ++ " / " ++ spec else "any")
        else answer v m

/-- `big` stream: only the element count is modelled (`rr k c`: k treaps of c elements concatenated behind the
    main one; `thin s c`: c appends; `keep s`: every s-th element stays; `strides S L`: the main treap is not touched). -/
def bigStep (n : Nat) (toks : List String) : Option Nat :=
  match toks with
  | [op, c] =>
    match parseNat? c with
    | none => none
    | some c =>
      if op = "append" ∨ op = "front" ∨ op = "alt" ∨ op = "mid" ∨ op = "singles" ∨ op = "fromitem" ∨ op = "scratch"
      then some (n + c)
      else if op = "burn" then some n
      else if op = "keep" then (if c = 0 then none else some (n / c))
      else none
  | [op, c, seed] =>
    match parseNat? c with
    | none => none
    | some c =>
      if op = "rand" then some (n + c)
      else if op = "rot" ∨ op = "pieces" then some n
      else if op = "del" then some (n - c)
      else
        -- the second number of these is a count, not a seed
        match parseNat? seed with
        | none => none
        | some d =>
          if op = "rr" then some (n + c * d)
          else if op = "thin" then some (n + d)
          else if op = "strides" then (if c = 0 ∨ d = 0 ∨ c * d > 64000000 then none else some n)
          else none
  | _ => none

def runBig : Nat → List String → Option (List String)
  | _, [] => some []
  | n, s :: rest =>
    match bigStep n (tokens s) with
    | none => none
    | some n' => (runBig n' rest).map (s!"n={n'}:ok" :: ·)

def handle (line : String) : String :=
  match splitOps line with
  | [] => badLine line
  | hdr :: opStrs =>
    match tokens hdr with
    | focus :: item :: stream :: rest =>
      if focus ≠ "C03" ∧ focus ≠ "C16" then badLine line else
      let pm : Nat := match rest with
        | [t] => if t.startsWith "pm=" then ((t.drop 3).toString.toNat?).getD 4 else 4
        | _ => 4
      if stream = "big" then
        match runBig 0 opStrs with
        | some out => let s := " ".intercalate out; answer s s
        | none => answer "INVALID" "any"
      else
      let r :=
        if item = "sum" then runCase sumAdd sumIO focus stream pm opStrs
        else if item = "aff" then runCase affHash affIO focus stream pm opStrs
        else if item = "key" then runCase keyOnly keyIO focus stream pm opStrs
        else "BAD-OPS"
      if r = "BAD-OPS" then badLine line else r
    | _ => badLine line

def main : IO Unit := driverMain handle
