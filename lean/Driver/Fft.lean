import RlibModel.Model.FftFloat
/-!
Line-protocol driver for engine `fft` (property C04).

Case:  `fft <f64|f32> [new|default|clone|histclone] ; op ; op ; … ; op`   — all ops are performed on ONE object
(created by `new()`, `default()`, `new().clone()`; `histclone`: history on a `new()` object, last call on its clone);
the answer is the result of the LAST op (earlier ops are the call history).

ops:  `u n` | `m a b` | `mi a b res` | `f v n` | `fi v n rx ry` | `inv xs ys` | `ii xs ys res` | `fm a b n` | `fmx a b n` | `fmi a b n res`
      | `fx rpn n res v0 [v1 …]`
      (`fmi` = forward transforms, pointwise product, `fft_inv_into` with the pre-filled destination `res` of any length)
      (`fmx` = forward transforms on this object, inverse transform of the pointwise product on a brand-new one)
      (`fm`/`fmx`/`fmi` with `n = 0`: each `fft(v, 0)` chooses its own size; made only when both choose the same)
      (`fx` = forward transforms of all operands, a per-bin expression over them in reverse Polish notation built from
       the operators of `Complex<F>` — `0`..`9` operand (Copy) / `c0`.. (`.clone()`) / `cf0`.. (`clone_from` into a default()), `Z` `Dz` `O` `I` constants
       (ZERO, default(), ONE, I), `+ - * /` and their assign forms `+= -= *= /=`, `neg conj abs2 absq`, `s<k>` `s=<k>`
       (`* k`, `*= k` with `k: F`), `d<k>` `d=<k>` (`/ k`, `/= k`) —, then `fft_inv_into` with destination `res`)
      (vectors are comma lists, `-` = empty)
pool: there are 4 objects; an op prefixed `@k` is a call on object `k` (default 0, the one the header constructs; 1..3 start
      as `FFT::new()`); `cl j k` (`k = j.clone()`), `cf j k` (`k.clone_from(&j)`), `df k` (`k = FFT::default()`),
      `nw k` (`k = FFT::new()`), `tk j k` (`k = std::mem::take(&mut j)`)
raw : i64 vector results as `[..]` (digest `n=<len>:h=<fnv>` above 48 entries); complex results as bit patterns
view: `<i64 vector> fresh=<same|diff> oracle=<exact|wrong>` for m / mi / fm,  `fresh=…` for inv / ii,
      `len=<n> fresh=…` for f / fi, where `fresh` compares with the same call on a brand-new object
spec: the exact integer convolution (`conv`), `fresh=same`, `oracle=exact`; `any` outside the envelope
-/
open Rlib Rlib.Fft

/-- A precision: arithmetic, bit patterns for printing, and the envelope bound on `max² · min(len)`. -/
structure Prec (K : Type) where
  A : Arith K
  bits : K → UInt64 × UInt64
  ofInts : Int → Int → K
  /-- `PartialEq for Complex<F>`: IEEE `==` on both components -/
  ceq : K → K → Bool
  bound : Nat

def prec64 : Prec C64 :=
  { A := arith64, bits := fun c => (c.re.toBits, c.im.toBits), ofInts := fun x y => ⟨f64OfInt x, f64OfInt y⟩,
    ceq := fun a b => a.re == b.re && a.im == b.im, bound := 1000000000000 }
def prec32 : Prec C32 :=
  { A := arith32, bits := fun c => (c.re.toBits.toUInt64, c.im.toBits.toUInt64), ofInts := fun x y => ⟨f32OfInt x, f32OfInt y⟩,
    ceq := fun a b => a.re == b.re && a.im == b.im, bound := 1000 }

def fnvStep (h x : UInt64) : UInt64 := (h ^^^ x) * 0x100000001b3
def fnvInit : UInt64 := 0xcbf29ce484222325

def showIVec (xs : List Int) : String :=
  if xs.length ≤ 48 then showInts xs
  else
    let h := xs.foldl (fun h x => fnvStep h (Int64.ofInt x).toUInt64) fnvInit
    s!"n={xs.length}:h={toHex h.toNat 16}"

def showCVec {K} (P : Prec K) (xs : Array K) : String :=
  if xs.size ≤ 4 then
    showListWith (fun c => let (r, i) := P.bits c; s!"{toHex r.toNat 1}/{toHex i.toNat 1}") xs.toList
  else
    let h := xs.foldl (fun h c => let (r, i) := P.bits c; fnvStep (fnvStep h r) i) fnvInit
    s!"n={xs.size}:h={toHex h.toNat 16}"

inductive POp where
  | u (n : Nat)
  | m (a b : Array Int)
  | mi (a b : Array Int) (res : List Int)
  | f (v : Array Int) (n : Nat)
  | fi (v : Array Int) (n : Nat) (rx ry : Array Int)
  | inv (xs ys : Array Int)
  | ii (xs ys : Array Int) (res : List Int)
  | fm (a b : Array Int) (n : Nat)
  | fmx (a b : Array Int) (n : Nat)
  | fmi (a b : Array Int) (n : Nat) (res : List Int)
  | fx (e : SExpr) (vs : List (Array Int)) (n : Nat) (res : List Int)

/-- State of the comma-list scanner: values so far, current magnitude, sign, digit seen, still well-formed. -/
structure Scan where
  out : Array Int
  cur : Nat
  neg : Bool
  dig : Bool
  ok : Bool

def Scan.push (st : Scan) : Scan :=
  if st.dig then { st with out := st.out.push (if st.neg then -(st.cur : Int) else (st.cur : Int)), cur := 0, neg := false, dig := false }
  else { st with ok := false }

/-- Parse `"1,-2,3"` (`-` or `""` = empty) in one pass over the bytes (the generic `splitOn` parser is
    too slow for 10^5-entry vectors). -/
def parseVec? (s : String) : Option (Array Int) :=
  if s = "" ∨ s = "-" then some #[] else
  let st := s.toUTF8.foldl (fun (st : Scan) (c : UInt8) =>
    if 48 ≤ c ∧ c ≤ 57 then { st with cur := st.cur * 10 + (c.toNat - 48), dig := true }
    else if c = 45 then (if st.dig ∨ st.neg then { st with ok := false } else { st with neg := true })
    else if c = 44 then st.push
    else { st with ok := false }) { out := #[], cur := 0, neg := false, dig := false, ok := true }
  let st := st.push
  if st.ok then some st.out else none

/-- `s<k>`-style tokens: the integer after the prefix. -/
def afterPrefix? (pre tok : String) : Option Int :=
  if tok.startsWith pre then parseInt? (tok.drop pre.length).toString else none

/-- One token of the reverse Polish expression applied to the stack. -/
def rpnStep (st : Option (List SExpr)) (tok : String) : Option (List SExpr) :=
  match st with
  | none => none
  | some stack =>
    let bin (f : SExpr → SExpr → SExpr) : Option (List SExpr) :=
      match stack with
      | b :: a :: rest => some (f a b :: rest)
      | _ => none
    let un (f : SExpr → SExpr) : Option (List SExpr) :=
      match stack with
      | a :: rest => some (f a :: rest)
      | _ => none
    match tok with
    | "Z" | "Dz" => some (.zero :: stack)
    | "O" => some (.one :: stack)
    | "I" => some (.ci :: stack)
    | "+" | "+=" => bin .add
    | "-" | "-=" => bin .sub
    | "*" | "*=" => bin .mul
    | "/" | "/=" => bin .div
    | "neg" => un .neg
    | "conj" => un .conj
    | "abs2" => un .abs2
    | "absq" => un .absq
    | _ =>
      match parseNat? tok with
      | some i => some (.leaf i :: stack)
      | none =>
        match (if tok.startsWith "cf" then parseNat? (tok.drop 2).toString
               else if tok.startsWith "c" then parseNat? (tok.drop 1).toString else none) with
        | some i => some (.leaf i :: stack)
        | none =>
          match afterPrefix? "s=" tok <|> afterPrefix? "s" tok with
          | some k => un (.scale k)
          | none =>
            match afterPrefix? "d=" tok <|> afterPrefix? "d" tok with
            | some k => un (.divS k)
            | none => none

def parseRpn? (s : String) : Option SExpr :=
  match (s.splitOn ",").foldl rpnStep (some []) with
  | some [e] => some e
  | _ => none

/-- `al<o>` in front of a two-operand call (`m`, `mi`, `fm`, `fmx`, `fmi`) tells the HARNESS to pass the two operands as
slices of ONE buffer (`o` = start of `b` minus start of `a`; used when the contents agree on the overlap). The specification
knows no addresses: the answer is the one for separate copies, so the flag is checked and dropped here. -/
def aliasFlag? (tok : String) : Bool :=
  tok.startsWith "al" && (parseInt? (tok.drop 2).toString).isSome

def parseOp? (s : String) : Option POp :=
  match (match tokens s with
         | fl :: op :: rest =>
           if aliasFlag? fl then (if ["m", "mi", "fm", "fmx", "fmi"].contains op then op :: rest else []) else fl :: op :: rest
         | ts => ts) with
  | "fx" :: rpn :: n :: r :: v :: vs => do
    pure (POp.fx (← parseRpn? rpn) (← (v :: vs).mapM parseVec?) (← parseNat? n) ((← parseVec? r).toList))
  | ["u", n] => (parseNat? n).map POp.u
  | ["m", a, b] => do pure (POp.m (← parseVec? a) (← parseVec? b))
  | ["mi", a, b, r] => do pure (POp.mi (← parseVec? a) (← parseVec? b) ((← parseVec? r).toList))
  | ["f", v, n] => do pure (POp.f (← parseVec? v) (← parseNat? n))
  | ["fi", v, n, rx, ry] => do pure (POp.fi (← parseVec? v) (← parseNat? n) (← parseVec? rx) (← parseVec? ry))
  | ["inv", xs, ys] => do pure (POp.inv (← parseVec? xs) (← parseVec? ys))
  | ["ii", xs, ys, r] => do pure (POp.ii (← parseVec? xs) (← parseVec? ys) ((← parseVec? r).toList))
  | ["fm", a, b, n] => do pure (POp.fm (← parseVec? a) (← parseVec? b) (← parseNat? n))
  | ["fmx", a, b, n] => do pure (POp.fmx (← parseVec? a) (← parseVec? b) (← parseNat? n))
  | ["fmi", a, b, n, r] => do pure (POp.fmi (← parseVec? a) (← parseVec? b) (← parseNat? n) ((← parseVec? r).toList))
  | _ => none

/-- Result of one call as printed. -/
inductive POut (K : Type) where
  | unit
  | ivec (xs : List Int)
  | cvec (xs : Array K)
  | panic (p : Panic)
  | invalid               -- a `debug_assert!` precondition is violated: the harness does not make the call

def cplx {K} (P : Prec K) (xs ys : Array Int) : Array K :=
  Array.ofFn (n := xs.size) (fun i => P.ofInts xs[i] (ys.getD i 0))

def fitsI32 (v : Array Int) : Bool := v.all (fun x => -2147483648 ≤ x && x ≤ 2147483647)

/-- leaves in range, scalars inside `i32`, no division by the scalar zero -/
def Rlib.Fft.SExpr.wellFormed (cnt : Nat) : SExpr → Bool
  | .leaf i => i < cnt
  | .zero | .one | .ci => true
  | .add a b | .sub a b | .mul a b | .div a b => a.wellFormed cnt && b.wellFormed cnt
  | .neg a | .conj a | .abs2 a | .absq a => a.wellFormed cnt
  | .scale k a => -2147483648 ≤ k && k ≤ 2147483647 && a.wellFormed cnt
  | .divS k a => -2147483648 ≤ k && k ≤ 2147483647 && k != 0 && a.wellFormed cnt

/-- sizes chosen by the two forward transforms of a composite agree (`n = 0`: each `fft(v, 0)` chooses its own) -/
def compositeOk (a b : Array Int) (n : Nat) : Bool :=
  let na := fftSize a.size n
  fitsI32 a && fitsI32 b && na == fftSize b.size n && isPow2 na && na ≤ 16777216 && a.size ≤ na && b.size ≤ na

/-- Does the harness make this call at all? (preconditions written as `debug_assert!` in fft.rs, i32 inputs) -/
def POp.valid : POp → Bool
  | .u n => n ≠ 0 && n ≤ 16777216
  | .m a b => fitsI32 a && fitsI32 b
  | .mi a b _ => fitsI32 a && fitsI32 b
  | .f v n => fitsI32 v && v.size ≤ fftSize v.size n && n ≤ 16777216
  | .fi v n rx ry => fitsI32 v && fitsI32 rx && fitsI32 ry && rx.size == ry.size && v.size ≤ fftSize v.size n && n ≤ 16777216
  | .inv xs ys => fitsI32 xs && fitsI32 ys && xs.size == ys.size && isPow2 xs.size
  | .ii xs ys _ => fitsI32 xs && fitsI32 ys && xs.size == ys.size && isPow2 xs.size
  | .fm a b n => compositeOk a b n
  | .fmx a b n => compositeOk a b n
  | .fmi a b n _ => compositeOk a b n
  | .fx e vs n _ => isPow2 n && n ≤ 16777216 && vs.length ≤ 10 && vs.all (fun v => fitsI32 v && v.size ≤ n) && e.wellFormed vs.length

/-- The model-level call a protocol op denotes. -/
def POp.toOp {K} (P : Prec K) : POp → Op K
  | .u n => .updateN n
  | .m a b => .multiply a b
  | .mi a b res => .multiplyInto a b res
  | .f v n => .fft v n
  | .fi v n rx ry => .fftInto v n (cplx P rx ry)
  | .inv xs ys => .fftInv (cplx P xs ys)
  | .ii xs ys res => .fftInvInto (cplx P xs ys) res
  | .fm a b n => .fftMulInv a b n
  | .fmx a b n => .fftMulInvFresh a b n
  | .fmi a b n res => .fftMulInvInto a b n res
  | .fx e vs n res => .spectral e vs n res

/-- Perform one call on the model object (`Rlib.Fft.call` / `Rlib.Fft.step`, the definitions the
    theorems of `Props/C04.lean` are about). -/
def pcall {K} (P : Prec K) (s : State K) (op : POp) : State K × POut K :=
  if !op.valid then (s, .invalid) else
  match call P.A s (op.toOp P) with
  | .ok (s', .unit) => (s', .unit)
  | .ok (s', .ints xs) => (s', .ivec xs)
  | .ok (s', .cplx xs) => (s', .cvec xs)
  | .error e => (s, .panic e)

def showOut {K} (P : Prec K) : POut K → String
  | .unit => "ok"
  | .ivec xs => showIVec xs
  | .cvec xs => showCVec P xs
  | .panic p => p.toString
  | .invalid => "INVALID"

def maxAbs (v : Array Int) : Nat := v.foldl (fun m x => max m x.natAbs) 0

/-- The precision envelope of the property: `max(|a|∞,|b|∞)² · min(len a, len b) ≤ bound`. -/
def inEnvelope {K} (P : Prec K) (a b : Array Int) : Bool :=
  let m := max (maxAbs a) (maxAbs b)
  m * m * min a.size b.size ≤ P.bound

def smallRes (res : List Int) : Bool := res.all (fun x => x.natAbs ≤ 1000000000000000)

/-- The envelope carried through a spectral expression: `(S, L)` = (bound on the coefficient magnitudes with every product
    charged `max(S₁,S₂)² · min(L₁,L₂)` — for a single product of two operands exactly the property's literal envelope —,
    bound on the number of non-zero coefficients). -/
def Rlib.Fft.SExpr.weight (n : Nat) (vs : List (Array Int)) : SExpr → Nat × Nat
  | .leaf i => (maxAbs (vs.getD i #[]), max 1 (vs.getD i #[]).size)
  | .zero => (0, 1)
  | .one | .ci => (1, 1)
  | .add a b | .sub a b =>
    let (s1, l1) := a.weight n vs; let (s2, l2) := b.weight n vs
    (s1 + s2, min n (l1 + l2))
  | .mul a b | .div a b =>
    let (s1, l1) := a.weight n vs; let (s2, l2) := b.weight n vs
    (max s1 s2 * max s1 s2 * min l1 l2, min n (l1 * l2))
  | .neg a | .conj a => a.weight n vs
  | .abs2 a | .absq a =>
    let (s1, l1) := a.weight n vs
    (s1 * s1 * l1, min n (l1 * l1))
  | .scale k a => let (s1, l1) := a.weight n vs; (k.natAbs * s1, l1)
  | .divS _ a => a.weight n vs

/-- Cyclic (size `n`) folding of a coefficient list: `out[i] = ∑ₖ c[i + k·n]`; for `|c| ≤ n` it is `c` followed by zeros. -/
def cyc (n : Nat) (c : List Int) : List Int :=
  if n = 0 then [] else
  ((c.foldl (fun (st : Array Int × Nat) x => (st.1.modify (st.2 % n) (· + x), st.2 + 1)) (Array.replicate n 0, 0)).1).toList

/-- The exact result the specification prescribes for the call (computed once per case). -/
def expected (op : POp) : Option (List Int) :=
  match op with
  | .m a b => some (conv a b)
  | .mi a b res => some (addPrefix res (conv a b))
  | .fm a b n => some (cyc (fftSize a.size n) (conv a b))
  | .fmx a b n => some (cyc (fftSize a.size n) (conv a b))
  | .fmi a b n res => some (addPrefix res (cyc (fftSize a.size n) (conv a b)))
  | .fx e vs n res => (e.expected n vs).map (addPrefix res)
  | _ => none

def padTo (xs : List Int) (n : Nat) : List Int := xs ++ List.replicate (n - xs.length) 0

/-- Operands of the calls whose VALUE the property fixes (multiply, multiply_into, forward·pointwise·inverse). -/
def POp.operands? : POp → Option (Array Int × Array Int × List Int)
  | .m a b => some (a, b, [])
  | .mi a b res => some (a, b, res)
  | .fm a b _ | .fmx a b _ => some (a, b, [])
  | .fmi a b _ res => some (a, b, res)
  | _ => none

/-- Is the value of this call fixed by the property?  (a value call inside the literal envelope
    `max²·min(len) ≤ bound`; the composites need non-empty operands: `fft(&[], n)` is legal but not a product;
    a spectral expression: envelope carried through the expression, a real integer sequence as its meaning) -/
def valueInDomain {K} (P : Prec K) (op : POp) : Bool :=
  match op, op.operands? with
  | .m _ _, some (a, b, _) => inEnvelope P a b
  | .mi _ _ _, some (a, b, res) => inEnvelope P a b && smallRes res
  | .fx e vs n res, _ => vs.all (fun v => v.size ≠ 0) && (e.weight n vs).1 ≤ P.bound && smallRes res
  | _, some (a, b, res) => a.size ≠ 0 && b.size ≠ 0 && inEnvelope P a b && smallRes res
  | _, none => false

/-- What the specification says about the last call: `none` = not constrained (`any`).  A value call outside
    the envelope is still constrained by history independence (`fresh=same`, Level A holds for every input). -/
def specOf (exp : Option (List Int)) (inDom : Bool) : POp → Option String
  | .u n => if isPow2 n then some "ok" else none
  | .f v n => let n := fftSize v.size n; if isPow2 n then some s!"len={n} fresh=same eq=true ne=false peq=ok" else none
  | .fi v n rx _ => let n := fftSize v.size n; if isPow2 n then some s!"len={rx.size} fresh=same tail=kept add=ok" else none
  | .inv _ _ => some "fresh=same"
  | .ii _ _ _ => some "fresh=same tail=kept add=ok"
  | _ =>
    match exp, inDom with
    | some e, true => some s!"{showIVec e} fresh=same oracle=exact"
    | _, _ => some "fresh=same"

def outLen {K} : POut K → Nat
  | .ivec xs => xs.length
  | .cvec xs => xs.size
  | _ => 0

/-- The raw column.  Only values the property fixes are compared as values (rounded i64 vectors of in-envelope
    products).  Bit patterns of `fft()` outputs, `fft_inv` of arbitrary complex input (its rounding is decided by
    1e-16 noise) and out-of-envelope products are NOT verdict material: their raw is just the length; with
    `C04_DIAG=1` (diagnostic run of `checks/C04.py: extra`, recorded in the evidence, never a verdict) the full
    digests are printed instead. -/
def rawOf {K} (P : Prec K) (diag valued : Bool) (op : POp) (used : POut K) : String :=
  match used with
  | .unit | .panic _ | .invalid => showOut P used
  | _ =>
    if diag then showOut P used
    else match op with
      | .f _ _ | .fi _ _ _ _ | .inv _ _ | .ii _ _ _ => s!"len={outLen used}"
      | _ => if valued then showOut P used else s!"len={outLen used}"

/-- The view of a result through the property's eyes.  For the calls whose VALUE the property fixes
    (`inDom`) the value part of the view is the exact value (`exp`): the theorems are about exact arithmetic and
    about history independence; the binary64/binary32 instance executed here has the same rounding errors as the
    Rust code (that is what the raw comparison checks), so a rounding failure inside the envelope must show up as
    "implementation ≠ specification", not as "model ≠ specification" (the exact instance `arithC` over ℂ is not
    executable).  The `fresh=` / `tail=` / `add=` / `eq=` parts are always computed by actually running the model
    (`base` = what the non-accumulating sibling — `fft` for `fft_into`, `fft_inv` for `fft_inv_into` — returns on a
    brand-new object). -/
def viewOf {K} (P : Prec K) (exp : Option (List Int)) (inDom : Bool) (op : POp) (used fresh base : POut K) : String :=
  let rawU := showOut P used
  let same := if rawU == showOut P fresh then "fresh=same" else "fresh=diff"
  match op, used with
  | .u _, _ => rawU
  | _, .panic _ => rawU
  | _, .invalid => rawU
  | .f _ _, .cvec xs =>
    let (eq, ne) := match fresh with
      | .cvec ys => (xs.size == ys.size && (List.range xs.size).all (fun i => P.ceq (xs.getD i P.A.zero) (ys.getD i P.A.zero)),
                     xs.size != ys.size || (List.range xs.size).any (fun i => !P.ceq (xs.getD i P.A.zero) (ys.getD i P.A.zero)))
      | _ => (false, true)
    -- `peq`: `==` / `!=` of every pair of bins against the component-wise comparison — an oracle inside the harness;
    -- the model's `PartialEq` IS the component-wise comparison
    s!"len={xs.size} {same} eq={eq} ne={ne} peq=ok"
  | .fi v n rx ry, .cvec xs =>
    -- entries of the destination beyond the transform size must be untouched (bit for bit)
    let k := fftSize v.size n
    let dest := cplx P rx ry
    let keep := ((xs.toList.drop k).map P.bits) == ((dest.toList.drop k).map P.bits)
    -- on the common prefix: destination `+=` what `fft(v, n)` returns
    let add := match base with
      | .cvec b =>
        xs.size == dest.size && (List.range dest.size).all (fun i =>
          let want := if i < b.size then P.A.add (dest.getD i P.A.zero) (b.getD i P.A.zero) else dest.getD i P.A.zero
          P.bits (xs.getD i P.A.zero) == P.bits want)
      | _ => false
    s!"len={xs.size} {same} tail={if keep then "kept" else "changed"} add={if add then "ok" else "wrong"}"
  | .inv _ _, _ => same
  | .ii xs _ res, .ivec out =>
    let keep := out.length == res.length && out.drop xs.size == res.drop xs.size
    let add := match base with
      | .ivec b => out == addPrefix res b
      | _ => false
    s!"{same} tail={if keep then "kept" else "changed"} add={if add then "ok" else "wrong"}"
  | .ii _ _ _, _ => same
  | _, .ivec _ =>
    match exp, inDom with
    | some e, true => s!"{showIVec e} {same} oracle=exact"
    | _, _ => same
  | _, _ => rawU

/-- the non-accumulating sibling of an accumulate-into call -/
def POp.sibling? : POp → Option POp
  | .fi v n _ _ => some (.f v n)
  | .ii xs ys _ => some (.inv xs ys)
  | _ => none

/-- How the measured object is obtained (third header token, default `new`):
    `new` = `FFT::new()`, `default` = `FFT::default()`, `clone` = `FFT::new().clone()`,
    `histclone` = the history runs on an object made by `new()`, the measured call on its `.clone()`. -/
inductive Ctor where
  | new | default | clone | histclone

def Ctor.parse? : String → Option Ctor
  | "new" => some .new | "default" => some .default | "clone" => some .clone | "histclone" => some .histclone
  | _ => none

/-- One step of a case: a call on one of the 4 objects, or a pool operation. -/
inductive PStep where
  | call (k : Nat) (op : POp)
  | clone (j k : Nat) | cloneFrom (j k : Nat) | dflt (k : Nat) | fresh (k : Nat) | take (j k : Nat)

def poolSize : Nat := 4

def parseIdx? (s : String) : Option Nat :=
  match parseNat? s with
  | some k => if k < poolSize then some k else none
  | none => none

def parseStep? (s : String) : Option PStep :=
  match tokens s with
  | ["cl", j, k] => do pure (.clone (← parseIdx? j) (← parseIdx? k))
  | ["cf", j, k] => do pure (.cloneFrom (← parseIdx? j) (← parseIdx? k))
  | ["df", k] => do pure (.dflt (← parseIdx? k))
  | ["nw", k] => do pure (.fresh (← parseIdx? k))
  | ["tk", j, k] => do pure (.take (← parseIdx? j) (← parseIdx? k))
  | t :: rest =>
    if t.startsWith "@" then do
      let k ← parseIdx? (t.drop 1).toString
      pure (.call k (← parseOp? (" ".intercalate rest)))
    else (parseOp? s).map (.call 0)
  | [] => none

/-- The model-level pool step (`Rlib.Fft.poolStep`); a call the harness does not make leaves everything as it is. -/
def PStep.run {K} (P : Prec K) (pool : Array (State K)) : PStep → Array (State K)
  | .call k op => if op.valid then poolStep P.A pool (.call k (op.toOp P)) else pool
  | .clone j k => poolStep P.A pool (.clone j k)
  | .cloneFrom j k => poolStep P.A pool (.cloneFrom j k)
  | .dflt k => poolStep P.A pool (.default k)
  | .fresh k => poolStep P.A pool (.fresh k)
  | .take j k => poolStep P.A pool (.take j k)

def runCase {K} (P : Prec K) (diag : Bool) (ctor : Ctor) (steps : List PStep) : String :=
  match steps.reverse with
  | [] => "M INVALID | V INVALID | S any"
  | lastStep :: histRev =>
    let s0 : State K := match ctor with
      | .new | .histclone => new P.A
      | .default => Fft.default P.A
      | .clone => Fft.clone (new P.A)
    let pool0 : Array (State K) := #[s0, new P.A, new P.A, new P.A]
    let pool := histRev.reverse.foldl (fun pl st => st.run P pl) pool0
    match lastStep with
    | .call k last =>
      let s := pool.getD k (new P.A)
      let s := match ctor with
        | .histclone => Fft.clone s
        | _ => s
      let used := (pcall P s last).2
      let fresh := (pcall P (new P.A) last).2
      let base := match last.sibling? with
        | some sib => (pcall P (new P.A) sib).2
        | none => .unit
      let inDom := valueInDomain P last
      let exp := if inDom then expected last else none
      let valued := inDom && exp.isSome
      let spec := match used with
        | .invalid => none
        | .panic _ => (match last with | .u _ => specOf exp inDom last | _ => none)
        | _ => specOf exp inDom last
      answer3 (rawOf P diag valued last used) (viewOf P exp inDom last used fresh base) (spec.getD "any")
    | _ => answer3 "ok" "ok" "ok"

def handle (diag : Bool) (line : String) : String :=
  match splitOps line with
  | [] => badLine line
  | hdr :: ops =>
    match ops.mapM parseStep? with
    | none => badLine line
    | some ops =>
      match tokens hdr with
      | ["fft", "f64"] => runCase prec64 diag .new ops
      | ["fft", "f32"] => runCase prec32 diag .new ops
      | ["fft", "f64", c] => (match Ctor.parse? c with | some c => runCase prec64 diag c ops | none => badLine line)
      | ["fft", "f32", c] => (match Ctor.parse? c with | some c => runCase prec32 diag c ops | none => badLine line)
      | _ => badLine line

def main : IO Unit := do
  let d ← IO.getEnv "C04_DIAG"
  driverMain (handle d.isSome)
