import RlibModel.Model.GeometrySpec
/-!
Line-protocol driver for engine `geometry` (property C10).

Case lines (numbers: decimal integers or `h` + 16 hex digits of an f64 bit pattern; `<eps>` is
`util::EPS` as extracted from the source; `<L>` is `B ux uy vx vy` (`Line::between`) or `N a b c`
(`Line::new`)):

    cl K|P <eps> cx cy r <L>          intersect_cl
    cc K|P <eps> ax ay ar bx by br    intersect_cc
    ll K|P <eps> <L> <L>              parallel + intersect_ll
    pos <eps> cx cy r px py           Circle::position
    con <eps> <L> px py               Line::contains
    ln <eps> <L>                      the constructed line itself
    pt <eps> ax ay bx by k            the point algebra: a + b, a - b, a * k, a / k, a.slen(), a.len(), a.dp(b), a.cp(b)

`M` = result of the `Float` instance of the model: kind + number of points (with the case prefix `bits`: kind +
coordinates as bit patterns, diagnostics only);
mode `K`: view = reported kind, `S` = exact kind or `any` inside the tolerance band / outside the domain;
mode `P`: view = `ok` iff every returned point is within 1e-7 of both primitives (evaluated exactly
over the rationals on the model's coordinates), `S` = `ok` in the domain.
-/
open Rlib Rlib.Geometry

def qOf (f : Float) : Q := (Q.ofFloat? f).getD ⟨0, 1⟩
def finite (f : Float) : Bool := !(f.isNaN || f.isInf)

def qPointOf? (p : Point Float) : Option QPoint :=
  match Q.ofFloat? p.x, Q.ofFloat? p.y with
  | some x, some y => some ⟨x, y⟩
  | _, _ => none

def thousand : Q := Q.ofInt 1000
def coordOk (f : Float) : Bool := finite f && (qOf f).abs.le thousand
def radiusOk (f : Float) : Bool := finite f && (Q.tenPowNeg 1).le (qOf f) && (qOf f).le thousand

/-- a parsed line: the model's `Line Float`, the exact line, "inside the property's domain" -/
structure LineIn where
  fl : Line Float
  q : QLine
  dom : Bool

def parseLine (G : Geo Float) : List String → Option (LineIn × List String)
  | "B" :: t1 :: t2 :: t3 :: t4 :: rest =>
    match parseNum? t1, parseNum? t2, parseNum? t3, parseNum? t4 with
    | some ux, some uy, some vx, some vy =>
      let qu : QPoint := ⟨qOf ux, qOf uy⟩
      let qv : QPoint := ⟨qOf vx, qOf vy⟩
      -- well-separated defining points: |u - v| ≥ 1
      let dom := coordOk ux && coordOk uy && coordOk vx && coordOk vy && (Q.ofInt 1).le (qDist2 qu qv)
      some (⟨lineBetween G ⟨ux, uy⟩ ⟨vx, vy⟩, qLineBetween qu qv, dom⟩, rest)
    | _, _, _, _ => none
  | "N" :: t1 :: t2 :: t3 :: rest =>
    match parseNum? t1, parseNum? t2, parseNum? t3 with
    | some a, some b, some c =>
      let q : QLine := ⟨qOf a, qOf b, qOf c⟩
      -- normal of moderate length, line passes within 1000·√2 of the origin
      let dom := finite a && finite b && finite c && (Q.tenPowNeg 6).le q.n2 && q.n2.le (Q.ofInt 2000000)
        && q.C.sq.le (Q.ofInt 2000000 * q.n2)
      some (⟨lineNew G a b c, q, dom⟩, rest)
    | _, _, _ => none
  | _ => none

def parseNums? (ts : List String) : Option (List Float) := ts.mapM parseNum?

def allNear (ps : List (Point Float)) (f : QPoint → Bool) : Bool :=
  ps.all fun p => match qPointOf? p with
    | some q => f q
    | none => false

def okOff (b : Bool) : String := if b then "ok" else "off"
def specOr (dom : Bool) (s : Option String) : String :=
  if dom then s.getD "any" else "any"

/-- the tolerance the property statement names (1e-9).  `M` (raw) is computed with the EPS extracted from the
    source, so that it can be compared bit for bit with the crate; the spec-level *view* of the model is taken at
    the property's tolerance — the instance of the (eps-generic) theorems the property is about.  The two coincide
    unless util.rs changes EPS, and then the crate's answers are judged against the property, not against itself. -/
def propEps : Float := Float.ofBits 0x3e112e0be826d695

def handleToks (full : Bool) (line : String) : List String → String
  | "cl" :: mode :: e :: t1 :: t2 :: t3 :: rest =>
    match parseNum? e, parseNum? t1, parseNum? t2, parseNum? t3 with
    | some eps, some cx, some cy, some r =>
      let G := floatGeo eps
      match parseLine G rest with
      | some (l, []) =>
        let res := intersectCL G ⟨⟨cx, cy⟩, r⟩ l.fl
        let resP := intersectCL (floatGeo propEps) ⟨⟨cx, cy⟩, r⟩ l.fl
        let qc : QCircle := ⟨⟨qOf cx, qOf cy⟩, qOf r⟩
        let dom := l.dom && coordOk cx && coordOk cy && radiusOk r
        if mode = "K" then answer3 (showCL full res) resP.kind (specOr dom (specKindCL qc l.q))
        else if mode = "P" then
          answer3 (showCL full res) (okOff (allNear resP.points fun p => nearCircle qc p && nearLine l.q p)) (if dom then "ok" else "any")
        else badLine line
      | _ => badLine line
    | _, _, _, _ => badLine line
  | "cc" :: mode :: e :: rest =>
    match parseNum? e, parseNums? rest with
    | some eps, some [ax, ay, ar, bx, by', br] =>
      let G := floatGeo eps
      let res := intersectCC G ⟨⟨ax, ay⟩, ar⟩ ⟨⟨bx, by'⟩, br⟩
      let resP := intersectCC (floatGeo propEps) ⟨⟨ax, ay⟩, ar⟩ ⟨⟨bx, by'⟩, br⟩
      let qa : QCircle := ⟨⟨qOf ax, qOf ay⟩, qOf ar⟩
      let qb : QCircle := ⟨⟨qOf bx, qOf by'⟩, qOf br⟩
      let d2 := qDist2 qa.c qb.c
      -- centres coincide exactly or are well separated
      let dom := coordOk ax && coordOk ay && coordOk bx && coordOk by' && radiusOk ar && radiusOk br
        && (d2.isZero || (Q.tenPowNeg 2).le d2)
      if mode = "K" then answer3 (showCC full res) resP.kind (specOr dom (specKindCC qa qb))
      else if mode = "P" then
        answer3 (showCC full res) (okOff (allNear resP.points fun p => nearCircle qa p && nearCircle qb p)) (if dom then "ok" else "any")
      else badLine line
    | _, _ => badLine line
  | "ll" :: mode :: e :: rest =>
    match parseNum? e with
    | some eps =>
      let G := floatGeo eps
      match parseLine G rest with
      | some (u, rest2) =>
        match parseLine G rest2 with
        | some (v, []) =>
          let res := intersectLL G u.fl v.fl
          let resP := intersectLL (floatGeo propEps) u.fl v.fl
          let par := parallel G u.fl v.fl
          let raw := showPts full (llKind res) res.toList ++ " par=" ++ showBool par
          let dom := u.dom && v.dom
          if mode = "K" then
            answer3 raw (llKind resP) (specOr dom (specKindLL u.q v.q))
          else if mode = "P" then
            -- well-conditioned: |sin| ≥ 1e-4 and the exact intersection point within the coordinate range
            let (pt, det) := specPointLL u.q v.q
            let wc := (Q.tenPowNeg 8 * (u.q.n2 * v.q.n2)).le det.sq
              && pt.x.abs.le (thousand * det.abs) && pt.y.abs.le (thousand * det.abs)
            answer3 raw (okOff (allNear resP.toList fun p => nearLine u.q p && nearLine v.q p))
              (if dom && wc then "ok" else "any")
          else badLine line
        | _ => badLine line
      | none => badLine line
    | none => badLine line
  | "pos" :: e :: rest =>
    match parseNum? e, parseNums? rest with
    | some eps, some [cx, cy, r, px, py] =>
      let G := floatGeo eps
      let res := (position G ⟨⟨cx, cy⟩, r⟩ ⟨px, py⟩).toString
      let resP := (position (floatGeo propEps) ⟨⟨cx, cy⟩, r⟩ ⟨px, py⟩).toString
      let dom := coordOk cx && coordOk cy && radiusOk r && coordOk px && coordOk py
      answer3 res resP (specOr dom (specPosition ⟨⟨qOf cx, qOf cy⟩, qOf r⟩ ⟨qOf px, qOf py⟩))
    | _, _ => badLine line
  | "con" :: e :: rest =>
    match parseNum? e with
    | some eps =>
      let G := floatGeo eps
      match parseLine G rest with
      | some (l, [t1, t2]) =>
        match parseNum? t1, parseNum? t2 with
        | some px, some py =>
          let res := showBool (lineContains G l.fl ⟨px, py⟩)
          let resP := showBool (lineContains (floatGeo propEps) l.fl ⟨px, py⟩)
          let dom := l.dom && coordOk px && coordOk py
          answer3 (if full then res ++ " " ++ showNum (lineDist G l.fl ⟨px, py⟩) else res) resP (specOr dom (specContains l.q ⟨qOf px, qOf py⟩))
        | _, _ => badLine line
      | _ => badLine line
    | none => badLine line
  | "ln" :: e :: rest =>
    match parseNum? e with
    | some eps =>
      let G := floatGeo eps
      match parseLine G rest with
      | some (l, []) =>
        let raw := if full then showNum l.fl.a ++ " " ++ showNum l.fl.b ++ " " ++ showNum l.fl.c else "line"
        -- view: the stored normal has unit length (to 1e-9) and the stored line is the exact line
        -- (two points of the exact line about one unit apart are within 1e-7 of the stored one)
        let view :=
          match Q.ofFloat? l.fl.a, Q.ofFloat? l.fl.b, Q.ofFloat? l.fl.c with
          | some a, some b, some c =>
            let n2 := a.sq + b.sq
            let e9 := Q.tenPowNeg 9
            let unit := (Q.ofInt 1 - e9).le n2 && n2.le (Q.ofInt 1 + e9)
            -- P0 = foot of the origin on the exact line (homogeneous: divide by n2), P1 = P0 + t·(−B, A)
            let q := l.q
            let on :=
              if q.n2.isZero then false else
              -- stored.eval(P0)·n2 = a·(−A·C) + b·(−B·C) + c·n2
              let e0 := a * (-(q.A * q.C)) + b * (-(q.B * q.C)) + c * q.n2
              let s := q.A.abs + q.B.abs
              -- stored.eval(P1)·n2·s = e0·s + (a·(−B) + b·A)·n2
              let e1 := e0 * s + (a * (-q.B) + b * q.A) * q.n2
              e0.sq.le (tol.sq * n2 * q.n2.sq) && e1.sq.le (tol.sq * n2 * (q.n2 * s).sq)
            (if unit then "unit" else "nonunit") ++ " " ++ (if on then "on" else "off")
          | _, _, _ => "nan"
        answer3 raw view (if l.dom then "unit on" else "any")
      | _ => badLine line
    | none => badLine line
  | "pt" :: e :: rest =>
    match parseNum? e, parseNums? rest with
    | some eps, some [ax, ay, bx, by', k] =>
      let G := floatGeo eps
      let a : Point Float := ⟨ax, ay⟩
      let b : Point Float := ⟨bx, by'⟩
      let s := padd G a b
      let d := psub G a b
      let m := pmul G a k
      let q := pdiv G a k
      let sl := slen G a
      let ln := len G a
      let dpv := dp G a b
      let cpv := cp G a b
      let raw := if full then " ".intercalate ("pt" :: [s.x, s.y, d.x, d.y, m.x, m.y, q.x, q.y, sl, ln, dpv, cpv].map showNum) else "pt"
      -- view: every result within 4e-15 (relative) of the exact value, decided over the rationals on the model's own floats
      let view :=
        match qPointOf? s, qPointOf? d, qPointOf? m, qPointOf? q, Q.ofFloat? sl, Q.ofFloat? ln, Q.ofFloat? dpv, Q.ofFloat? cpv with
        | some s, some d, some m, some q, some sl, some ln, some dpv, some cpv =>
          okOff (ptOk ⟨qOf ax, qOf ay⟩ ⟨qOf bx, qOf by'⟩ (qOf k) ⟨s, d, m, q, sl, ln, dpv, cpv⟩)
        | _, _, _, _, _, _, _, _ => "nan"
      -- domain: coordinates 0 or of magnitude 1e-6 … 1e3 (no underflow anywhere), factor of magnitude 1e-3 … 1e3
      let magOk (f : Float) : Bool := finite f && ((qOf f).isZero || ((Q.tenPowNeg 6).le (qOf f).abs && (qOf f).abs.le thousand))
      let dom := magOk ax && magOk ay && magOk bx && magOk by' && finite k && (Q.tenPowNeg 3).le (qOf k).abs && (qOf k).abs.le thousand
      answer3 raw view (if dom then "ok" else "any")
    | _, _ => badLine line
  | _ => badLine line

/-- a leading `bits` token asks for full bit patterns in the raw column (diagnostic sample only) -/
def handle (line : String) : String :=
  match tokens line with
  | "bits" :: rest => handleToks true line rest
  | toks => handleToks false line toks

def main : IO Unit := driverMain handle
