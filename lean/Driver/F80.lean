import RlibModel.Model.F80
import RlibModel.Model.F80Exact
import RlibModel.Model.F80Prog
/-! Line-protocol driver for engine `f80` (property C18).  See `harness/e_f80/src/main.rs` for the case syntax. -/
open Rlib Rlib.F80

/-- an operand token: 16 hex digits = f64 pattern (converted with `ofF64`), 20 hex digits = the ten bytes -/
structure Opd where
  v : F80
  /-- the f64 pattern when the operand was given as one -/
  src64 : Option F64
  /-- canonical encoding (something the public API can produce) -/
  canonical : Bool

def canonicalEnc (x : F80) : Bool :=
  if x.exp = 0 then x.sig < two63 else two63 ≤ x.sig

def operand? (tok : String) : Option Opd :=
  match parseHex? tok with
  | none => none
  | some n =>
    if tok.length = 16 then
      let x := F64.ofNat n
      some ⟨ofF64 x, some x, true⟩
    else if tok.length = 20 then
      let x := F80.ofNat n
      some ⟨x, none, canonicalEnc x⟩
    else none

def show80 (x : F80) : String := if isNaN x then "nan" else toHex x.toNat 20
def show64 (x : F64) : String := if isNaN64 x then "nan" else toHex x.toNat 16
def canon80 (x : F80) : String :=
  match canonBits x with
  | none => "nan"
  | some 0 => "zero"
  | some n => toHex n 20
def b01 (b : Bool) : String := if b then "1" else "0"
def showPc : Option Ordering → String
  | none => "none"
  | some .lt => "less"
  | some .eq => "equal"
  | some .gt => "greater"

def arith (op : String) (a b : F80) : Option F80 :=
  match op with
  | "+" => some (add a b)
  | "-" => some (sub a b)
  | "*" => some (mul a b)
  | "/" => some (div a b)
  | _ => none

/-- the same four operations computed by the specification: exact fraction arithmetic, one rounding -/
def arithSpec (op : String) (a b : F80) : Option F80 :=
  match op with
  | "+" => some (specAdd a b)
  | "-" => some (specSub a b)
  | "*" => some (specMul a b)
  | "/" => some (specDiv a b)
  | _ => none

/-- fold a chain `op Y op Z ...` from `acc` with the given arithmetic, collecting every intermediate -/
def chain (ar : String → F80 → F80 → Option F80) (acc : F80) : List String → Option (List String)
  | [] => some []
  | op :: y :: rest =>
    match operand? y with
    | none => none
    | some o =>
      match ar op acc o.v with
      | none => none
      | some r =>
        match chain ar r rest with
        | none => none
        | some outs => some (show80 r :: outs)
  | _ => none


/-! ### register programs (`pg`), see `Model/F80Prog.lean` -/

def reg? (tok : String) : Option (Fin 4) :=
  match tok with
  | "0" => some 0
  | "1" => some 1
  | "2" => some 2
  | "3" => some 3
  | _ => none

def binop? (tok : String) : Option BinOp :=
  match tok with
  | "+" => some .add
  | "-" => some .sub
  | "*" => some .mul
  | "/" => some .div
  | _ => none

def asgop? (tok : String) : Option BinOp :=
  match tok with
  | "+=" => some .add
  | "-=" => some .sub
  | "*=" => some .mul
  | "/=" => some .div
  | _ => none

def op? (part : String) : Option Op :=
  match tokens part with
  | ["init"] => some .init
  | [o, d] =>
    match reg? d with
    | none => none
    | some d =>
      if o = "zero" ∨ o = "df" then some (.const d false)
      else if o = "one" then some (.const d true)
      else none
  | [o, x, y] =>
    match reg? x, reg? y with
    | some x, some y =>
      match asgop? o with
      | some bo => some (.asg bo x y)
      | none =>
        if o = "neg" then some (.neg x y)
        else if o = "abs" then some (.abs x y)
        else if o = "rt" then some (.rt x y)
        else if o = "cmp" then some (.cmp x y)
        else if o = "cp" ∨ o = "cl" ∨ o = "cf" then some (.copy x y)
        else none
    | _, _ => none
  | [o, d, a, b] =>
    match reg? d, reg? a, reg? b with
    | some d, some a, some b =>
      match binop? o with
      | some bo => some (.bin bo d a b)
      | none =>
        if o = "min" then some (.min d a b)
        else if o = "max" then some (.max d a b)
        else none
    | _, _, _ => none
  | _ => none

def showObs : Obs → String
  | .bits x => show80 x
  | .value none => "nan"
  | .value (some 0) => "zero"
  | .value (some n) => toHex n 20
  | .conv f x => s!"f64={show64 f},val={show80 x}"
  | .rel l g le ge e n pc => s!"lt={b01 l},gt={b01 g},le={b01 le},ge={b01 ge},eq={b01 e},ne={b01 n},pc={showPc pc}"
  | .hidden => "*"
  | .unit => "-"

def joinObs (l : List String) : String := if l.isEmpty then "empty" else " ".intercalate l

def handlePg (line : String) : String :=
  match splitOps line with
  | [] => badLine line
  | hdr :: parts =>
    match tokens hdr with
    | ["pg", mode, x0, x1, x2, x3] =>
      if mode ≠ "m" ∧ mode ≠ "t" ∧ mode ≠ "c" then badLine line else
      match operand? x0, operand? x1, operand? x2, operand? x3, parts.mapM op? with
      | some a, some b, some c, some d, some ops =>
        let R := Regs.ofList a.v b.v c.v d.v
        let ms := runM R ops
        let ss := runS R ops
        -- mode `c`: the harness also runs the program on several threads at once; all runs must give the same answers
        let tail := if mode = "c" then " mt=same" else ""
        let raw := joinObs (ms.map (fun p => showObs p.1)) ++ tail
        let view := joinObs (ms.map (fun p => showObs p.2)) ++ tail
        let spec := joinObs (ss.map showObs) ++ tail
        let canonical := a.canonical && b.canonical && c.canonical && d.canonical
        answer3 (raw ++ " cw=037f") view (if canonical then spec else "any")
      | _, _, _, _, _ => badLine line
    | _ => badLine line

def handle (line : String) : String :=
  match tokens line with
  | "pg" :: _ => handlePg line
  | ["fm", x] =>
    -- formatting goes through `f64`: the harness compares every text with what std prints for the `f64` value (an
    -- independent oracle inside the harness); here the `f64` value itself is modelled / specified
    match operand? x with
    | some a =>
      let tail := "disp=same dbg=same show=same"
      let s64 := match a.src64 with
        | some x => show64 x
        | none => show64 (specToF64 a.v)
      let m := s!"f64={show64 (toF64 a.v)} {tail}"
      answer3 m m (if a.canonical then s!"f64={s64} {tail}" else "any")
    | none => badLine line
  | ["const"] =>
    -- `cw` = x87 control word read back after `f80_init()` (raw-only diagnostic: 64-bit precision, round to nearest, all masked)
    let v := s!"zero={show80 zero} one={show80 one} default={show80 zero}"
    answer3 (v ++ " cw=037f") v "zero=00000000000000000000 one=3fff8000000000000000 default=00000000000000000000"
  | ["ar", x, y] =>
    match operand? x, operand? y with
    | some a, some b =>
      let s := s!"add={show80 (add a.v b.v)} sub={show80 (sub a.v b.v)} mul={show80 (mul a.v b.v)} div={show80 (div a.v b.v)} asg=same"
      -- M: the bit-level soft-float model.  S: exact fraction arithmetic on the decoded operands, rounded once by the
      -- specification rounding function (`Model/F80Exact.lean`); `Props/C18.lean` proves M = S.  Operands in encodings
      -- that no operation produces are outside the property's domain.
      let sp := s!"add={show80 (specAdd a.v b.v)} sub={show80 (specSub a.v b.v)} mul={show80 (specMul a.v b.v)} div={show80 (specDiv a.v b.v)} asg=same"
      answer3 s s (if a.canonical && b.canonical then sp else "any")
    | _, _ => badLine line
  | ["cmp", x, y] =>
    match operand? x, operand? y with
    | some a, some b =>
      let canonical := a.canonical && b.canonical
      let (a, b) := (a.v, b.v)
      let anyNaN := isNaN a || isNaN b
      let rel := s!"lt={b01 (lt a b)} gt={b01 (gt a b)} le={b01 (le a b)} ge={b01 (ge a b)} eq={b01 (beq a b)} ne={b01 (Rlib.F80.bne a b)} pc={showPc (partialCmp a b)}"
      let srel := s!"lt={b01 (specLt a b)} gt={b01 (specGt a b)} le={b01 (specLe a b)} ge={b01 (specGe a b)} eq={b01 (specEq a b)} ne={b01 (!specEq a b)} pc={showPc (specPcmp a b)}"
      let raw := s!"{rel} min={show80 (Rlib.F80.min a b)} max={show80 (Rlib.F80.max a b)}"
      let view := if anyNaN then s!"{rel} min=* max=*" else s!"{rel} min={canon80 (Rlib.F80.min a b)} max={canon80 (Rlib.F80.max a b)}"
      let spec := if anyNaN then s!"{srel} min=* max=*" else s!"{srel} min={canon80 (specMin a b)} max={canon80 (specMax a b)}"
      answer3 raw view (if canonical then spec else "any")
    | _, _ => badLine line
  | ["un", x] =>
    match operand? x with
    | some a =>
      let v := a.v
      let raw := s!"val={show80 v} neg={show80 (neg v)} abs={show80 (abs v)} f64={show64 (toF64 v)}"
      let view := s!"val={show80 v} neg={show80 (neg v)} abs={canon80 (abs v)} f64={show64 (toF64 v)}"
      -- specification: negation flips the sign, abs is the magnitude (as a value), f80 -> f64 is the correctly
      -- rounded value, and for an operand that came from an f64 it is that f64 again
      let s64 := match a.src64 with
        | some x => show64 x
        | none => show64 (specToF64 v)
      let sval := match a.src64 with
        | some x => specOfF64 x
        | none => v
      let spec := s!"val={show80 sval} neg={show80 { v with sign := !v.sign }} abs={canon80 (specAbs v)} f64={s64}"
      answer3 raw view (if a.canonical then spec else "any")
    | none => badLine line
  | "ch" :: x :: rest =>
    match operand? x with
    | some a =>
      match chain arith a.v rest, chain arithSpec a.v rest with
      | some outs, some souts =>
        let s := " ".intercalate outs
        answer3 s s (if a.canonical then " ".intercalate souts else "any")
      | _, _ => badLine line
    | none => badLine line
  | _ => badLine line

def main : IO Unit := driverMain handle
