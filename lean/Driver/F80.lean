import RlibModel.Model.F80
import RlibModel.Model.F80Exact
/-! Line-protocol driver for engine `f80` (property C18).  See `harness/e_f80/src/main.rs` for the case syntax. -/
open Rlib Rlib.F80

/-- an operand token: 16 hex digits = f64 pattern (converted with `ofF64`), 20 hex digits = the ten bytes -/
structure Opd where
  v : F80
  /-- the f64 pattern when the operand was given as one -/
  src64 : Option F64
  /-- canonical encoding (something the public API can produce) -/
  canonical : Bool

def canonicalEnc (x : F80) : Bool :=
  if x.exp = 0 then x.sig < two63 else two63 ≤ x.sig

def operand? (tok : String) : Option Opd :=
  match parseHex? tok with
  | none => none
  | some n =>
    if tok.length = 16 then
      let x := F64.ofNat n
      some ⟨ofF64 x, some x, true⟩
    else if tok.length = 20 then
      let x := F80.ofNat n
      some ⟨x, none, canonicalEnc x⟩
    else none

def show80 (x : F80) : String := if isNaN x then "nan" else toHex x.toNat 20
def show64 (x : F64) : String := if isNaN64 x then "nan" else toHex x.toNat 16
def canon80 (x : F80) : String :=
  match canonBits x with
  | none => "nan"
  | some 0 => "zero"
  | some n => toHex n 20
def b01 (b : Bool) : String := if b then "1" else "0"
def showPc : Option Ordering → String
  | none => "none"
  | some .lt => "less"
  | some .eq => "equal"
  | some .gt => "greater"

def arith (op : String) (a b : F80) : Option F80 :=
  match op with
  | "+" => some (add a b)
  | "-" => some (sub a b)
  | "*" => some (mul a b)
  | "/" => some (div a b)
  | _ => none

/-- the same four operations computed by the specification: exact fraction arithmetic, one rounding -/
def arithSpec (op : String) (a b : F80) : Option F80 :=
  match op with
  | "+" => some (specAdd a b)
  | "-" => some (specSub a b)
  | "*" => some (specMul a b)
  | "/" => some (specDiv a b)
  | _ => none

/-- fold a chain `op Y op Z ...` from `acc` with the given arithmetic, collecting every intermediate -/
def chain (ar : String → F80 → F80 → Option F80) (acc : F80) : List String → Option (List String)
  | [] => some []
  | op :: y :: rest =>
    match operand? y with
    | none => none
    | some o =>
      match ar op acc o.v with
      | none => none
      | some r =>
        match chain ar r rest with
        | none => none
        | some outs => some (show80 r :: outs)
  | _ => none

def handle (line : String) : String :=
  match tokens line with
  | ["const"] =>
    -- `cw` = x87 control word read back after `f80_init()` (raw-only diagnostic: 64-bit precision, round to nearest, all masked)
    let v := s!"zero={show80 zero} one={show80 one} default={show80 zero}"
    answer3 (v ++ " cw=037f") v "zero=00000000000000000000 one=3fff8000000000000000 default=00000000000000000000"
  | ["ar", x, y] =>
    match operand? x, operand? y with
    | some a, some b =>
      let s := s!"add={show80 (add a.v b.v)} sub={show80 (sub a.v b.v)} mul={show80 (mul a.v b.v)} div={show80 (div a.v b.v)} asg=same"
      -- M: the bit-level soft-float model.  S: exact fraction arithmetic on the decoded operands, rounded once by the
      -- specification rounding function (`Model/F80Exact.lean`); `Props/C18.lean` proves M = S.  Operands in encodings
      -- that no operation produces are outside the property's domain.
      let sp := s!"add={show80 (specAdd a.v b.v)} sub={show80 (specSub a.v b.v)} mul={show80 (specMul a.v b.v)} div={show80 (specDiv a.v b.v)} asg=same"
      answer3 s s (if a.canonical && b.canonical then sp else "any")
    | _, _ => badLine line
  | ["cmp", x, y] =>
    match operand? x, operand? y with
    | some a, some b =>
      let canonical := a.canonical && b.canonical
      let (a, b) := (a.v, b.v)
      let anyNaN := isNaN a || isNaN b
      let rel := s!"lt={b01 (lt a b)} gt={b01 (gt a b)} le={b01 (le a b)} ge={b01 (ge a b)} eq={b01 (beq a b)} ne={b01 (Rlib.F80.bne a b)} pc={showPc (partialCmp a b)}"
      let srel := s!"lt={b01 (specLt a b)} gt={b01 (specGt a b)} le={b01 (specLe a b)} ge={b01 (specGe a b)} eq={b01 (specEq a b)} ne={b01 (!specEq a b)} pc={showPc (specPcmp a b)}"
      let raw := s!"{rel} min={show80 (Rlib.F80.min a b)} max={show80 (Rlib.F80.max a b)}"
      let view := if anyNaN then s!"{rel} min=* max=*" else s!"{rel} min={canon80 (Rlib.F80.min a b)} max={canon80 (Rlib.F80.max a b)}"
      let spec := if anyNaN then s!"{srel} min=* max=*" else s!"{srel} min={canon80 (specMin a b)} max={canon80 (specMax a b)}"
      answer3 raw view (if canonical then spec else "any")
    | _, _ => badLine line
  | ["un", x] =>
    match operand? x with
    | some a =>
      let v := a.v
      let raw := s!"val={show80 v} neg={show80 (neg v)} abs={show80 (abs v)} f64={show64 (toF64 v)}"
      let view := s!"val={show80 v} neg={show80 (neg v)} abs={canon80 (abs v)} f64={show64 (toF64 v)}"
      -- specification: negation flips the sign, abs is the magnitude (as a value), f80 -> f64 is the correctly
      -- rounded value, and for an operand that came from an f64 it is that f64 again
      let s64 := match a.src64 with
        | some x => show64 x
        | none => show64 (specToF64 v)
      let sval := match a.src64 with
        | some x => specOfF64 x
        | none => v
      let spec := s!"val={show80 sval} neg={show80 { v with sign := !v.sign }} abs={canon80 (specAbs v)} f64={s64}"
      answer3 raw view (if a.canonical then spec else "any")
    | none => badLine line
  | "ch" :: x :: rest =>
    match operand? x with
    | some a =>
      match chain arith a.v rest, chain arithSpec a.v rest with
      | some outs, some souts =>
        let s := " ".intercalate outs
        answer3 s s (if a.canonical then " ".intercalate souts else "any")
      | _, _ => badLine line
    | none => badLine line
  | _ => badLine line

def main : IO Unit := driverMain handle
