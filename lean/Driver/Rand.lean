import RlibModel.Model.RandRng
import RlibModel.Model.RandFloat
import RlibModel.Model.RandMulti
/-! Line-protocol driver for engine `rand` (property C14).

Case lines (see `harness/e_rand/src/main.rs` for the generator):
```
gen:<ty> <form> <a> <b> ; raw ; raw …        gen_from_u64 of one integer range on a list of raw words
cover:<ty> <form> <a> <b> <base>             all raws base .. base+len-1: every value reached exactly once
float <start bits hex> <end bits hex> ; raw ; raw …   Range<f64>::gen_from_u64
fdraws <start hex> <end hex> <seed> <n>      n calls of next(start..end) on f64 from Rng::from_seed(seed)
stream <seed> <n> <k>                        n words of next_raw; equal seeds / a Copy taken after k words agree
draws:<ty> <form> <a> <b> <seed> <n>         n calls of next(range) from Rng::from_seed(seed)
period:<ty> <m> <seed> <n> <p>               n calls of next(0..m): the sequence does not have period p (tested claim)
shuffle <seed> <n>                           shuffle of [0..n) with Rng::from_seed(seed), then one next_raw
permstat <n> <nseeds> <seed0>                permutation frequencies of shuffle over consecutive seeds (tested claim)
permstat:<elt>[-d|-w] <n> <nseeds> <seed0>   the same on slices of another element type / through another receiver (suffix ignored here)
shufall <n> <mult>                           all draw vectors d_i ∈ 0..=i (+ mult·(i+1)): every permutation exactly once
shufraw <n> ; raw ; raw …                    the trait's `shuffle` driven by a replayed raw stream
multi <A> <C> <seed> … ; op ; op …           several live generators `LinearCongruentialGenerator64<A, C>` (`- -` = `Rng`), used interleaved:
    raw i | nx:<recv>:<ty> form a b i | nf:<recv> <start hex> <end hex> i | sh:<recv>:<elt> n i      draws from generator i
    cp:<kind> i | as:<kind> i j | all:<kind> | fork i | new seed                                  copies / assignments / re-seeding
  (slot numbers modulo the number of live generators; <recv>, <elt>, <kind> select HOW the harness calls the crate
   and mean nothing to the model: every copy copies the state, every receiver reaches the same function)
```
`form` ∈ range | incl | to | toincl | full (unused bounds are written as 0).
-/
open Rlib Rlib.Rand

/-- the generator under test: constants extracted from the source -/
def theGen : Gen := rng

/-- IEEE-754 binary64 arithmetic of the platform: the operations the Rust code executes. -/
def floatOps : FloatOps Float :=
  { ofU64 := fun n => n.toUInt64.toFloat
    add := (· + ·), sub := (· - ·), mul := (· * ·), div := (· / ·)
    lt := fun a b => a < b }

def parseForm? (form : String) (a b : Int) : Option Form :=
  match form with
  | "range" => some (.range a b)
  | "incl" => some (.incl a b)
  | "to" => some (.upTo b)
  | "toincl" => some (.upToIncl b)
  | "full" => some .full
  | _ => none

/-- classification of one draw as the property sees it -/
def classInt (t : IntTy) (f : Form) : Except Panic Int → String
  | .error p => p.toString
  | .ok v => if f.lo t ≤ v ∧ v ≤ f.hi t then "in" else "out"

/-- first classification different from `in`, else `in` -/
def firstBad (cs : List String) : String :=
  match cs.find? (· ≠ "in") with
  | some c => c
  | none => "in"

def specInt (t : IntTy) (f : Form) : String :=
  if ¬ f.wellTyped t then "any" else if f.lo t ≤ f.hi t then "in" else "panic:assert"

def invalid : String := "M INVALID | V INVALID | S any"

def hex16 (x : Float) : String := toHex x.toBits.toNat 16

def classF (s e : Float) : Except Panic Float → String
  | .error p => p.toString
  | .ok x => if s ≤ x ∧ x < e then "in" else "out"

def handleGen (t : IntTy) (rest : List String) (ops : List String) : Option String := do
  match rest with
  | [form, a, b] =>
    let a ← parseInt? a
    let b ← parseInt? b
    let f ← parseForm? form a b
    let raws ← ops.mapM parseNat?
    if raws.isEmpty then return invalid
    if raws.any (· ≥ 2 ^ 64) then return invalid
    let rs := raws.map (gen t f)
    let m := ",".intercalate (rs.map (showExcept toString))
    return answer3 m (firstBad (rs.map (classInt t f))) (specInt t f)
  | _ => none

def handleCover (t : IntTy) (rest : List String) : Option String := do
  match rest with
  | [form, a, b, base] =>
    let a ← parseInt? a
    let b ← parseInt? b
    let f ← parseForm? form a b
    let base ← parseNat? base
    let lo := f.lo t
    let hi := f.hi t
    if ¬ f.wellTyped t ∨ hi < lo ∨ hi - lo ≥ 65536 then return invalid
    let n := (hi - lo + 1).toNat
    if base + n > 2 ^ 64 then return invalid
    let rs := (List.range n).map (fun k => gen t f (base + k))
    -- the values, in order, that were produced
    let vals := rs.filterMap (fun r => match r with | .ok v => some v | .error _ => none)
    let seen := vals.foldl (fun (acc : Array Bool) v =>
      if lo ≤ v ∧ v ≤ hi then acc.setIfInBounds (v - lo).toNat true else acc) (Array.replicate n false)
    let distinct := (seen.toList.filter id).length
    let sum := vals.foldl (· + ·) 0
    let onto := vals.length = n ∧ distinct = n
    return answer3 s!"distinct={distinct} sum={sum}" (if onto then "onto" else "notonto") "onto"
  | _ => none

def handleFloat (rest : List String) (ops : List String) : Option String := do
  match rest with
  | [sh, eh] =>
    let sb ← parseHex? sh
    let eb ← parseHex? eh
    if sb ≥ 2 ^ 64 ∨ eb ≥ 2 ^ 64 then return invalid
    let s := Float.ofBits sb.toUInt64
    let e := Float.ofBits eb.toUInt64
    let raws ← ops.mapM parseNat?
    if raws.isEmpty then return invalid
    if raws.any (· ≥ 2 ^ 64) then return invalid
    let rs := raws.map (genF floatOps Params.floatShift Params.floatBits s e)
    let m := ",".intercalate (rs.map (showExcept hex16))
    let spec := if s < e then "in" else "panic:assert"
    return answer3 m (firstBad (rs.map (classF s e))) spec
  | _ => none

/-- `n` calls of `next(start..end)` on floats from state `st` (stops at the first panic) -/
def fdraws (s e : Float) : Nat → Nat → Except Panic (List Float)
  | 0, _ => .ok []
  | n + 1, st =>
    let (st', o) := nextRaw theGen st
    match genF floatOps Params.floatShift Params.floatBits s e o with
    | .error p => .error p
    | .ok x =>
      match fdraws s e n st' with
      | .error p => .error p
      | .ok xs => .ok (x :: xs)

def handleFdraws (rest : List String) : Option String := do
  match rest with
  | [sh, eh, seed, n] =>
    let sb ← parseHex? sh
    let eb ← parseHex? eh
    let seed ← parseNat? seed
    let n ← parseNat? n
    if sb ≥ 2 ^ 64 ∨ eb ≥ 2 ^ 64 ∨ seed ≥ 2 ^ 64 then return invalid
    let s := Float.ofBits sb.toUInt64
    let e := Float.ofBits eb.toUInt64
    let spec := if s < e ∨ n = 0 then "in" else "panic:assert"
    match fdraws s e n seed with
    | .error p => return answer3 p.toString p.toString spec
    | .ok xs =>
      return answer3 (",".intercalate (xs.map hex16)) (firstBad (xs.map (fun x => classF s e (.ok x)))) spec
  | _ => none

def isPermOfRange (n : Nat) (v : List Nat) : Bool :=
  v.length = n ∧ (List.range n).all (fun x => v.count x = 1)

/-- Lehmer code of a permutation of `0..n-1` (the harness uses the same numbering) -/
def permIndex (v : List Nat) : Nat :=
  let rec go : List Nat → Nat → Nat
    | [], acc => acc
    | x :: rest, acc => go rest (acc * (rest.length + 1) + (rest.filter (· < x)).length)
  go v 0

/-- chi-square acceptance bound for n = 2..7 (same table as checks/C14.py and the harness) -/
def chi2Bound (n : Nat) : Nat := #[0, 0, 33, 51, 98, 263, 1043, 5863].getD n 0

def factorial : Nat → Nat
  | 0 => 1
  | n + 1 => (n + 1) * factorial n

/-- permutation frequencies of the model's shuffle over the seeds `seed0 .. seed0+nseeds-1` -/
def permStat (n nseeds seed0 : Nat) : String × Bool :=
  let cells := factorial n
  let base := List.range n
  let (counts, bad) := (List.range nseeds).foldl (fun (acc : Array Nat × Nat) i =>
    match (shuffleRng theGen (seed0 + i) base).1 with
    | .ok v => if isPermOfRange n v then (acc.1.modify (permIndex v) (· + 1), acc.2) else (acc.1, acc.2 + 1)
    | .error _ => (acc.1, acc.2 + 1)) (Array.replicate cells 0, 0)
  let reached := (counts.toList.filter (· > 0)).length
  let s := counts.foldl (fun acc c => acc + ((c * cells : Nat) - (nseeds : Int)) ^ 2) (0 : Int)
  let fair := bad = 0 ∧ reached = cells ∧ s ≤ (chi2Bound n * nseeds * cells : Nat)
  (s!"reached={reached} s={s} bad={bad}", fair)

/-- all draw vectors `(d_1 … d_{n-1})` with `d_i ∈ 0..=i`, in the harness's order -/
def drawVectors (n : Nat) : List (List Nat) :=
  (List.range (n - 1)).foldl (fun acc k => acc.flatMap (fun d => (List.range (k + 2)).map (fun x => d ++ [x]))) [[]]

/-! ### `multi`: several live generators, copies by every entry point -/

/-- const parameters the harness instantiates `LinearCongruentialGenerator64<A, C>` at, besides `Rng` -/
def lcgVariants : List (Nat × Nat) :=
  [(6364136223846793005, 1442695040888963407), (1, 1), (5, 3), (2862933555777941757, 3037000493),
   (18446744073709551615, 18446744073709551615), (0, 0), (4294967297, 9223372036854775808)]

/-- how the words an operation consumed are turned into what the harness observes -/
inductive MObs where
  | nothing
  | word
  | nx (t : IntTy) (f : Form)
  | nf (s e : Float)
  | sh (n : Nat) (visible : Bool)

def slotTok? (s : String) : Option Nat := do
  let i ← parseNat? s
  if i < 2 ^ 32 then some i else none

def parseMultiOp (op : String) : Option (Multi.Op × MObs) :=
  match tokens op with
  | [] => none
  | hd :: rest =>
    match hd.splitOn ":", rest with
    | ["raw"], [i] => do let i ← slotTok? i; return (.use i 1, .word)
    | ["fork"], [i] => do let i ← slotTok? i; return (.fork i, .word)
    | ["new"], [seed] => do
      let seed ← parseNat? seed
      if seed ≥ 2 ^ 64 then none else return (.new seed, .nothing)
    | ["cp", _kind], [i] => do let i ← slotTok? i; return (.dup i, .nothing)
    | ["as", _kind], [i, j] => do let i ← slotTok? i; let j ← slotTok? j; return (.assign i j, .nothing)
    | ["all", _kind], [] => some (.dupAll, .nothing)
    | ["nx", _recv, ty], [form, a, b, i] => do
      let t ← IntTy.parse? ty
      let a ← parseInt? a
      let b ← parseInt? b
      let f ← parseForm? form a b
      let i ← slotTok? i
      return (.use i 1, .nx t f)
    | ["nf", _recv], [sh, eh, i] => do
      let sb ← parseHex? sh
      let eb ← parseHex? eh
      if sb ≥ 2 ^ 64 ∨ eb ≥ 2 ^ 64 then none else
      let i ← slotTok? i
      return (.use i 1, .nf (Float.ofBits sb.toUInt64) (Float.ofBits eb.toUInt64))
    | ["sh", _recv, elt], [n, i] => do
      let n ← parseNat? n
      let i ← slotTok? i
      if n > 4096 ∨ (elt = "u8" ∧ n > 256) then none else
      return (.use i (n - 1), .sh n (elt ≠ "zst"))
    | _, _ => none

/-- (observation, class, expected class; `any` = outside the property's domain) -/
def renderObs (o : MObs) (ws : List Nat) : String × String × String :=
  match o, ws with
  | .nothing, _ => ("-", "ok", "ok")
  | .word, [w] => (toString w, "ok", "ok")
  | .nx t f, [w] => (showExcept toString (gen t f w), classInt t f (gen t f w), specInt t f)
  | .nf s e, [w] =>
    let r := genF floatOps Params.floatShift Params.floatBits s e w
    (showExcept hex16 r, classF s e r, if s < e then "in" else "panic:assert")
  | .sh n visible, ws =>
    let arr := ws.toArray
    match shuffle (fun k => arr.getD k 0) (List.range n) with
    | .error p => (p.toString, p.toString, "perm")
    | .ok v => (if visible then showNats v else s!"zst{n}", if isPermOfRange n v then "perm" else "notperm", "perm")
  | _, _ => ("?", "no-generator", "ok")

def handleMulti (hdr : List String) (ops : List String) : Option String := do
  match hdr with
  | a :: c :: seedToks =>
    let g? : Option Gen := (if a = "-" ∧ c = "-" then some theGen else do
      let a ← parseNat? a
      let c ← parseNat? c
      if lcgVariants.contains (a, c) then some { theGen with A := a, C := c } else none)
    let some g := g? | return invalid
    let seeds ← seedToks.mapM parseNat?
    if seeds.isEmpty ∨ seeds.length > 8 ∨ seeds.any (· ≥ 2 ^ 64) ∨ ops.length > 64 then return invalid
    let parsed ← ops.mapM parseMultiOp
    let mops := parsed.map (·.1)
    let obs := parsed.map (·.2)
    let model := (Multi.run g seeds mops).1
    let spec := (Multi.specRun g (Multi.fresh seeds) mops).1
    let rm := (obs.zip model).map (fun (o, ws) => renderObs o ws)
    -- an observation is a function of the words the operation returned: equal words, equal observations
    let rs := if model = spec then rm else (obs.zip spec).map (fun (o, ws) => renderObs o ws)
    let domain := if rm.any (fun r => r.2.2 = "any") then "any" else "ok"
    let bad := (rm.zipIdx.filter (fun (r, _) => r.2.1 ≠ r.2.2)).head?
    -- V: the model's observations seen through the property: every draw in its range / a permutation, and equal to
    -- what the LINEAGE of the generator prescribes (`multi_run_eq_spec`: always)
    let view := match bad with
      | some (r, k) => s!"op{k}:{r.2.1}"
      | none => if rm.map (·.1) = rs.map (·.1) then "ok" else "nondet"
    return answer3 ("/".intercalate (rm.map (·.1))) view domain
  | _ => none

def handle (line : String) : String :=
  match splitOps line with
  | [] => badLine line
  | hdr :: ops =>
  match tokens hdr with
  | [] => badLine line
  | op :: rest =>
  match splitTy op, rest with
  | ("gen", some t), rest => (handleGen t rest ops).getD (badLine line)
  | ("cover", some t), rest => (handleCover t rest).getD (badLine line)
  | ("float", none), rest => (handleFloat rest ops).getD (badLine line)
  | ("fdraws", none), rest => (handleFdraws rest).getD (badLine line)
  | ("stream", none), [seed, n, _k] =>
    match parseNat? seed, parseNat? n with
    | some seed, some n =>
      if seed ≥ 2 ^ 64 then invalid else
      let (outs, _) := rawStream theGen n seed
      answer3 (",".intercalate (outs.map toString)) "det" "det"
    | _, _ => badLine line
  | ("draws", some t), [form, a, b, seed, n] =>
    match parseInt? a, parseInt? b, parseNat? seed, parseNat? n with
    | some a, some b, some seed, some n =>
      match parseForm? form a b with
      | none => badLine line
      | some f =>
        if seed ≥ 2 ^ 64 then invalid else
        match draws theGen t f n seed with
        | .error p => answer3 p.toString p.toString (specInt t f)
        | .ok vs =>
          let cls := firstBad (vs.map (fun v => classInt t f (.ok v)))
          -- zero draws never reach the assert
          let spec := if n = 0 ∧ specInt t f ≠ "any" then "in" else specInt t f
          answer3 (",".intercalate (vs.map toString)) cls spec
    | _, _, _, _ => badLine line
  | ("period", some t), [m, seed, n, p] =>
    match parseInt? m, parseNat? seed, parseNat? n, parseNat? p with
    | some m, some seed, some n, some p =>
      if p = 0 ∨ n < p + 64 ∨ m < 1 ∨ m > t.maxVal ∨ seed ≥ 2 ^ 64 then invalid else
      match draws theGen t (.range 0 m) n seed with
      | .error e => answer3 e.toString e.toString "aperiodic"
      | .ok vs =>
        -- TESTED, not proved: no theorem says the model's stream is aperiodic, so the model offers no view of
        -- its own (V := S). The implementation's view (`periodic`) ≠ S is what makes the VIOLATION; the raw
        -- column still exposes drift between model and code.
        answer3 (",".intercalate (vs.map toString)) "aperiodic" "aperiodic"
    | _, _, _, _ => badLine line
  | ("shuffle", none), [seed, n] =>
    match parseNat? seed, parseNat? n with
    | some seed, some n =>
      if seed ≥ 2 ^ 64 then invalid else
      let (r, sf) := shuffleRng theGen seed (List.range n)
      let nxt := (nextRaw theGen sf).2
      match r with
      | .error p => answer3 p.toString p.toString "perm"
      | .ok v => answer3 s!"{showNats v} next={nxt}" (if isPermOfRange n v then "perm" else "notperm") "perm"
    | _, _ => badLine line
  | ("permstat", none), [n, nseeds, seed0] =>
    match parseNat? n, parseNat? nseeds, parseNat? seed0 with
    | some n, some nseeds, some seed0 =>
      if n < 2 ∨ n > 7 ∨ nseeds > 2000000 ∨ seed0 + nseeds ≥ 2 ^ 64 ∨ nseeds < 20 * factorial n then invalid else
      let (m, _fair) := permStat n nseeds seed0
      -- TESTED, not proved: no theorem behind "the model's frequencies are fair": V := S (see `period`)
      answer3 m "fair" "fair"
    | _, _, _ => badLine line
  | ("shufall", none), [n, mult] =>
    match parseNat? n, parseNat? mult with
    | some n, some mult =>
      if n > 8 ∨ (mult + 1) * (n + 1) ≥ 2 ^ 64 then invalid else
      let cells := factorial n
      let base := List.range n
      let (counts, bad) := (drawVectors n).foldl (fun (acc : Array Nat × Nat) d =>
        let arr := (d.zipIdx.map (fun (x, k) => x + mult * (k + 2))).toArray
        match shuffle (fun k => arr.getD k 0) base with
        | .ok v => if isPermOfRange n v then (acc.1.modify (permIndex v) (· + 1), acc.2) else (acc.1, acc.2 + 1)
        | .error _ => (acc.1, acc.2 + 1)) (Array.replicate cells 0, 0)
      let reached := (counts.toList.filter (· > 0)).length
      let maxc := counts.foldl max 0
      let ok := bad = 0 ∧ reached = cells ∧ maxc = 1
      -- S: shuffle_onto + counting (n! draw vectors, n! permutations)
      answer3 s!"reached={reached} max={maxc} bad={bad}" (if ok then "all-once" else "not-bijective") "all-once"
    | _, _ => badLine line
  | ("multi", none), rest => (handleMulti rest ops).getD (badLine line)
  | ("shufraw", none), [n] =>
    match parseNat? n, ops.mapM parseNat? with
    | some n, some raws =>
      if raws.length < n - 1 ∨ raws.any (· ≥ 2 ^ 64) then invalid else
      let arr := raws.toArray
      match shuffle (fun k => arr.getD k 0) (List.range n) with
      | .error p => answer3 p.toString p.toString "perm"
      | .ok v => answer3 (showNats v) (if isPermOfRange n v then "perm" else "notperm") "perm"
    | _, _ => badLine line
  | _, _ => badLine line

def main : IO Unit := driverMain handle
