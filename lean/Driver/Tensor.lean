import RlibModel.Model.Tensor
/-! Line-protocol driver for engine `tensor` (property C19).

Lists are comma separated without blanks, `-` is the empty list (rank 0).
* `get  <dims> <idx>`                 — `from_vec(dims, 0..n).get_index(idx)`
* `at   <kind> <dims> <idx>`          — tensor built by `kind`; `t[idx]` and, independently, `t[idx] = -1` followed by a
                                        comparison of every cell with its old value (`v=… set=[changed cells]`)
* `ctor <kind> <dims> <len>`          — `kind` ∈ vec | slice | new | read, data / tokens `0..len`; prints shape and contents
* `iter <dims>`                       — `t[idx] = code(idx)` for every index, then `iter()`
* `eq   <dimsA> <dimsB> <dataA> <dataB>`
* `write <ty> <dims> <data>`          — `ty` ∈ i64 | str; the bytes of `Writable` (blank → `_`, newline → `/`)
* `debug <dims> <data>`               — `{:?}` of an `i64` tensor
* `rt   <ty> <chunk> <dims> <data>`   — write, read back through a `Reader` fed `chunk` bytes at a time
* `rs   <ty> <chunk> <lead> ; t <dims> <data> <seps> ; k <tok> <sep> ; …` — several values (tensors of any rank 0..4, plain tokens)
                                        read from ONE reader over one input, every element followed by its own whitespace
* `h <D> ; op ; op ; …`               — a history over tensor variables 0..3 of rank `D` (`Tensor<i64, D>`), ops:
    `mk s <dims> <start>` (`from_vec(dims, start..)`), `cl s r` (`s = r.clone()`), `cf s r` (`s.clone_from(&r)`),
    `eq s r`, `dims s`, `dim s i`, `get s <idx>` (`get_index`), `rd s <idx>` (`t[idx]`), `wr s <idx> v` (`t[idx] = v`, then
    all cells), `it s` (`iter`), `w s` (`Writable` bytes); one observation per op, joined by `;`.  `M` = `runModel`,
    `S` = `runSpec` (`Props/C19.lean: hist_spec`).
* `g <D> <ty> ; op ; op ; …`           — an element-generic history over tensor variables 0..3 of `Tensor<T, D>`, `ty` ∈
    `i64 | str | f64 | unit | zst | nz | rec` (`f64` tokens: `nan 0.0 -0.0 1.0 -1.0 1.5 -2.25 0.1 inf -inf 1e300`, `==` is IEEE; `unit` = `()`
    token `u`; `zst` = a zero-sized struct, token `z`; `nz` = a zero-sized struct whose `==` is never true, token `n`; `rec` = `key:tag`, `==` compares the key only), ops:
    `vec s <dims> <data>` (`from_vec`), `sl …` (`from_slice`), `new s <dims> v`, `rdv s <dims> <data>` (`Tensor::read` from the rendered
    elements), `like s r v` (`new(*r.dims(), v)`), `coll s r` (`from_vec(*r.dims(), r.clone().into_iter().collect())`), `cl`, `cf`,
    `eq s r`, `ne s r` (also `s = r`: the same object on both sides), `dims`, `dim`, `get`, `rd`, `wr s <idx> v`, `it`, `w`, `dbg` (`{:?}`),
    `itx s k j q` (an iterator after `k` × `next`, `j` ≤ 300 × `next_back`; `q` ∈ `count | len | last | nth n | nthb n | rev | rest`).
    `M` = `gRunModel`, `S` = `gRunSpec` at the element type `Elem` below (`Props/C19.lean: ghist_spec`, for every element `==`).
-/
open Rlib Rlib.Tensor

def showList (xs : List String) : String := "[" ++ ",".intercalate xs ++ "]"

def escape (cs : List Char) : String :=
  String.ofList (cs.map (fun c => if c = ' ' then '_' else if c = '\n' then '/' else c))

def allPos (dims : List Nat) : Bool := dims.all (· > 0)

/-- all valid indices in lexicographic order (spec-side enumeration, independent of `unflat`) -/
def allIdx : List Nat → List (List Nat)
  | [] => [[]]
  | d :: ds => (List.range d).flatMap (fun i => (allIdx ds).map (i :: ·))

def code (idx : List Nat) : Int := idx.foldl (fun (acc : Int) (i : Nat) => acc * 10 + Int.ofNat i) 0

def parseList? (s : String) : Option (List String) :=
  if s = "-" then some [] else some (s.splitOn ",")

def lexLtB : List Nat → List Nat → Bool
  | i :: is, j :: js => i < j || (i == j && lexLtB is js)
  | _, _ => false

/-- panic classes as the property sees them: "rejected with a panic".  The raw result keeps a coarse
    class (`assert!`, explicit panic, slice index and `unwrap` are one class, arithmetic overflow another);
    views and `S` only say `panic`. -/
def showP : Panic → String
  | .overflow => "panic:overflow"
  | .fuel => "fuel"
  | _ => "panic:reject"

def showE {α} (f : α → String) : Except Panic α → String
  | .ok a => f a
  | .error e => showP e

def viewE {α} (f : α → String) : Except Panic α → String
  | .ok a => f a
  | .error .fuel => "fuel"
  | .error _ => "panic"

def handleGet (dims idx : List Nat) : String :=
  if idx.length ≠ dims.length ∨ ¬ allPos dims then "M INVALID | V INVALID | S any" else
  let s := if decide (InRange dims idx) then toString (flat dims idx) else "panic"
  let r := getIndexU dims idx
  answer3 (showE toString r) (viewE toString r) s

/-- contents of a tensor: all elements up to 64, a position-weighted digest beyond -/
def showData (xs : List Int) : String :=
  if xs.length ≤ 64 then "data=" ++ showInts xs
  else
    let (d, _) := xs.foldl (fun (p : Int × Int) x => ((p.1 + p.2 * x) % 1000000007, p.2 + 1)) (0, 1)
    s!"digest={d}"

def buildKind (kind : String) (dims : List Nat) : Option (Except Panic (Tensor Int)) :=
  let n := prod dims
  let data : List Int := (List.range n).map (fun (k : Nat) => Int.ofNat k)
  match kind with
  | "vec" => some (fromVecU dims data)
  | "slice" => some (fromSliceU dims data)
  | "new" => some (newU dims (7 : Int))
  | "read" =>
    let toks : List (List Char) := data.map (fun k => (toString k).toList)
    some (match readU dims (tokRd (fun cs => (String.ofList cs).toInt?.getD 0) (0 : Int)) toks with
      | .error e => .error e
      | .ok (t, _) => .ok t)
  | _ => none

/-- `t[idx]` and `t[idx] = -1` are evaluated independently (the write also when the read panicked);
    after the write every cell is compared with its old value. -/
def handleAt (kind : String) (dims idx : List Nat) : String :=
  if idx.length ≠ dims.length ∨ ¬ allPos dims ∨ prod dims > 100000 then "M INVALID | V INVALID | S any" else
  let n := prod dims
  match buildKind kind dims with
  | none | some (.error _) => "M INVALID | V INVALID | S any"
  | some (.ok t) =>
    let rv := index t idx
    let rs : Except Panic (List Nat) :=
      match setAt t idx (-1) with
      | .error e => .error e
      | .ok t' => .ok ((List.range n).filter (fun k => t'.data[k]? != t.data[k]?))
    let m := s!"v={showE toString rv} set={showE showNats rs}"
    let v := s!"v={viewE toString rv} set={viewE showNats rs}"
    let s :=
      if decide (InRange dims idx) then
        let k := flat dims idx
        s!"v={if kind = "new" then 7 else k} set=[{k}]"
      else "v=panic set=panic"
    answer3 m v s

def handleCtor (kind : String) (dims : List Nat) (len : Nat) : String :=
  let zero := dims.any (· == 0)
  let big := decide (2 ^ 64 ≤ prod dims)
  -- huge shapes are only probed with short data (the harness never allocates them)
  if ¬ zero ∧ ¬ big ∧ kind ≠ "vec" ∧ kind ≠ "slice" ∧ prod dims > 100000 then "M INVALID | V INVALID | S any" else
  let data : List Int := (List.range len).map (fun (k : Nat) => Int.ofNat k)
  let showT (t : Tensor Int) : String := s!"ok dims={showNats t.dims} len={t.data.length} {showData t.data}"
  let bad : Bool := zero || big
  let specOk (xs : List Int) : String := s!"ok dims={showNats dims} len={xs.length} {showData xs}"
  let fin (r : Except Panic (Tensor Int)) (s : String) : String := answer3 (showE showT r) (viewE showT r) s
  match kind with
  | "vec" => fin (fromVecU dims data) (if bad || prod dims ≠ len then "panic" else specOk data)
  | "slice" => fin (fromSliceU dims data) (if bad || prod dims ≠ len then "panic" else specOk data)
  | "new" => fin (newU dims (7 : Int)) (if bad then "panic" else specOk (List.replicate (prod dims) 7))
  | "read" =>
    if ¬ bad ∧ len < prod dims then "M INVALID | V INVALID | S any" else
    let toks : List (List Char) := data.map (fun k => (toString k).toList)
    let r := readU dims (tokRd (fun cs => (String.ofList cs).toInt?.getD 0) (0 : Int)) toks
    fin (match r with | .error e => .error e | .ok (t, _) => .ok t)
      (if bad then "panic" else specOk (data.take (prod dims)))
  | _ => "M INVALID | V INVALID | S any"

def handleIter (dims : List Nat) : String :=
  if ¬ allPos dims then "M INVALID | V INVALID | S any" else
  match new dims (0 : Int) with
  | .error e => answer (showP e) "any"
  | .ok t0 =>
    let r := (allIdx dims).foldl (fun (acc : Except Panic (Tensor Int)) idx =>
      match acc with
      | .error e => .error e
      | .ok t => setAt t idx (code idx)) (.ok t0)
    let m := match r with
      | .error e => showP e
      | .ok t => showInts (iter t)
    let s := showInts ((List.range (prod dims)).map (fun k => code (unflat dims k)))
    answer m s

def handleEq (da db : List Nat) (xa xb : List Int) : String :=
  if da.length ≠ db.length then "M INVALID | V INVALID | S any" else
  match fromVec da xa, fromVec db xb with
  | .ok t, .ok u => answer (showBool (eq t u)) (showBool (decide (da = db ∧ xa = xb)))
  | _, _ => "M INVALID | V INVALID | S any"

def renderTok (ty : String) (tok : String) : List Char :=
  if ty = "i64" then (toString (tok.toInt?.getD 0)).toList else tok.toList

def validTok (ty : String) (tok : String) : Bool :=
  if ty = "i64" then tok.toInt?.isSome else (!tok.isEmpty && tok.toList.all (fun c => !isWs c))

def handleWrite (ty : String) (dims : List Nat) (data : List String) : String :=
  if ¬ allPos dims ∨ prod dims ≠ data.length ∨ ¬ data.all (validTok ty) then "M INVALID | V INVALID | S any" else
  match fromVec dims data with
  | .error e => answer (showP e) "any"
  | .ok t =>
    let m := match writeText (renderTok ty) t with
      | .error e => showP e
      | .ok cs => escape cs
    let s := escape (renderPieces (renderTok ty) (specPieces dims data))
    answer m s

def handleDebug (dims : List Nat) (data : List String) : String :=
  if ¬ allPos dims ∨ prod dims ≠ data.length ∨ ¬ data.all (validTok "i64") then "M INVALID | V INVALID | S any" else
  match fromVec dims data with
  | .error e => answer (showP e) "any"
  | .ok t =>
    let render := renderTok "i64"
    let m := match debugText render t with
      | .error e => showP e
      | .ok cs => escape cs
    let D := dims.length
    let viaPieces := List.replicate D '[' ++ ((specPieces dims data).map (renderPieceDbg render)).flatten ++ List.replicate D ']'
    -- cross-check (tested, not proved): the separator-count form is the nested-list layout
    let s := if viaPieces = nested render dims data then escape viaPieces else "SPEC-SELFCHECK-FAILED"
    answer m s

def handleRt (ty : String) (dims : List Nat) (data : List String) : String :=
  if ¬ allPos dims ∨ prod dims ≠ data.length ∨ ¬ data.all (validTok ty) then "M INVALID | V INVALID | S any" else
  -- elements are kept in canonical text form (`i64`: the decimal rendering of the value)
  let canon : List String := data.map (fun d => String.ofList (renderTok ty d))
  match fromVec dims canon with
  | .error e => answer (showP e) "any"
  | .ok t =>
    let m := match writeText (fun (s : String) => s.toList) t with
      | .error e => showP e
      | .ok cs =>
        match read dims (tokRd (fun cs => String.ofList cs) "") (splitWs cs) with
        | .error e => showP e
        | .ok (u, rest) => s!"eq={showBool (eq u t)} data={showList u.data} eof={showBool rest.isEmpty}"
    answer m s!"eq=true data={showList canon} eof=true"

/-! ### several values read from ONE reader (`rs`)

`rs <ty> <chunk> <lead> ; t <dims> <data> <seps> ; k <tok> <sep> ; …`: the input text is `lead` followed by every
element / token followed by its own separator (codes over s = blank, n = newline, t = tab, r = CR; `-` = nothing,
allowed only after the very last token).  The model side tokenises the text (`splitWs`) and runs `read` / `tokRd`
item by item over the ONE token list; the spec side is the plan itself (what was written) and `eof=true`. -/

def sepChars? (code : String) : Option (List Char) :=
  if code = "-" then some [] else
  code.toList.mapM (fun c =>
    if c = 's' then some ' ' else if c = 'n' then some '\n' else if c = 't' then some '\t' else if c = 'r' then some '\r' else none)

structure RsItem where
  dims : Option (List Nat)   -- none: a plain token read with `reader.read::<T>()`
  data : List String
  seps : List (List Char)

def parseRsItem (ty : String) (part : String) : Option RsItem :=
  match tokens part with
  | ["t", d, x, sp] =>
    match parseNatsComma? d, (sp.splitOn ",").mapM sepChars? with
    | some dims, some seps =>
      let data := x.splitOn ","
      if allPos dims ∧ dims.length ≤ 4 ∧ prod dims = data.length ∧ seps.length = data.length ∧ data.length ≤ 256
          ∧ data.all (validTok ty) then some ⟨some dims, data, seps⟩ else none
    | _, _ => none
  | ["k", x, sp] =>
    match sepChars? sp with
    | some s => if validTok ty x then some ⟨none, [x], [s]⟩ else none
    | none => none
  | _ => none

def rsShow (dims : Option (List Nat)) (data : List String) : String :=
  match dims with
  | some d => s!"t{showNats d}{showList data}"
  | none => s!"k={data.headD ""}"

def rsRun : List RsItem → List (List Char) → List String × Option (List (List Char))
  | [], toks => ([], some toks)
  | it :: rest, toks =>
    match it.dims with
    | some dims =>
      match read dims (tokRd (fun cs => String.ofList cs) "") toks with
      | .error e => ([showP e], none)
      | .ok (u, toks') =>
        let (os, r) := rsRun rest toks'
        (rsShow (some u.dims) u.data :: os, r)
    | none =>
      let (a, toks') := tokRd (fun cs => String.ofList cs) "" toks
      let (os, r) := rsRun rest toks'
      (rsShow none [a] :: os, r)

def handleRs (hdr : String) (parts : List String) : String :=
  let inv := "M INVALID | V INVALID | S any"
  match tokens hdr with
  | ["rs", ty, chunk, lead] =>
    match parseNat? chunk, sepChars? lead, parts.mapM (parseRsItem ty) with
    | some _, some leadCs, some items =>
      if ty ≠ "i64" ∧ ty ≠ "str" then inv else
      if items.isEmpty ∨ items.length > 16 then inv else
      let canon (it : RsItem) : List String := it.data.map (fun d => String.ofList (renderTok ty d))
      let pieces : List (List Char × List Char) := items.flatMap (fun it => ((canon it).map String.toList).zip it.seps)
      -- only the very last separator may be empty
      if (pieces.dropLast.any (fun p => p.2.isEmpty)) then inv else
      let text : List Char := leadCs ++ (pieces.map (fun p => p.1 ++ p.2)).flatten
      let (os, r) := rsRun items (splitWs text)
      let m := match r with
        | some rest => " ; ".intercalate os ++ s!" ; eof={showBool rest.isEmpty}"
        | none => " ; ".intercalate os
      let s := " ; ".intercalate (items.map (fun it => rsShow it.dims (canon it))) ++ " ; eof=true"
      answer m s
    | _, _, _ => inv
  | _ => inv

/-! ### histories -/

def parseHOp (D : Nat) (toks : List String) : Option HOp :=
  let slot (s : String) : Option Nat := match s.toNat? with
    | some k => if k < 4 then some k else none
    | none => none
  let lst (s : String) : Option (List Nat) := match parseNatsComma? s with
    | some l => if l.length = D then some l else none
    | none => none
  match toks with
  | ["mk", s, d, st] =>
    match slot s, lst d, st.toInt? with
    | some s, some d, some st =>
      if d.all (· > 0) ∧ prod d > 100000 then none
      else if st < -1000000000000 ∨ st > 1000000000000 then none
      else some (.mk s d st)
    | _, _, _ => none
  | ["cl", s, r] => match slot s, slot r with
    | some s, some r => some (.cl s r)
    | _, _ => none
  | ["cf", s, r] => match slot s, slot r with
    | some s, some r => if s = r then none else some (.cf s r)
    | _, _ => none
  | ["eq", s, r] => match slot s, slot r with
    | some s, some r => some (.eq s r)
    | _, _ => none
  | ["dims", s] => (slot s).map .dims
  | ["dim", s, i] => match slot s, i.toNat? with
    | some s, some i => some (.dim s i)
    | _, _ => none
  | ["get", s, i] => match slot s, lst i with
    | some s, some i => some (.get s i)
    | _, _ => none
  | ["rd", s, i] => match slot s, lst i with
    | some s, some i => some (.rd s i)
    | _, _ => none
  | ["wr", s, i, v] => match slot s, lst i, v.toInt? with
    | some s, some i, some v => if v < -9223372036854775808 ∨ v > 9223372036854775807 then none else some (.wr s i v)
    | _, _, _ => none
  | ["it", s] => (slot s).map .it
  | ["w", s] => (slot s).map .w
  | _ => none

def showObs (raw : Bool) : Obs → String
  | .done => "ok"
  | .bool b => showBool b
  | .nat n => toString n
  | .nats l => showNats l
  | .int i => toString i
  | .ints l => showInts l
  | .pieces ps => escape (renderPieces (fun (i : Int) => (toString i).toList) ps)
  | .panic (some e) => if raw then showP e else (if e = .fuel then "fuel" else "panic")
  | .panic none => "panic"
  | .invalid => "INVALID"

def handleHist (hdr : String) (ops : List String) : String :=
  match tokens hdr with
  | ["h", d] =>
    match d.toNat? with
    | none => "M INVALID | V INVALID | S any"
    | some D =>
      if D > 4 then "M INVALID | V INVALID | S any" else
      match ops.mapM (fun o => parseHOp D (tokens o)) with
      | none => "M INVALID | V INVALID | S any"
      | some hops =>
        let m := runModel hops
        let s := runSpec hops
        if m.any (· == .invalid) || s.any (· == .invalid) then "M INVALID | V INVALID | S any" else
        answer3 (";".intercalate (m.map (showObs true))) (";".intercalate (m.map (showObs false)))
          (";".intercalate (s.map (showObs false)))
  | _ => "M INVALID | V INVALID | S any"

/-! ### element-generic histories -/

/-- the element types of the `g` histories; `==` as Rust's `PartialEq` of the corresponding type -/
inductive Elem where
  | int (i : Int)
  | str (s : String)
  | flt (tok : String) (v : Float)
  | unit
  | zst
  | nzst
  | kv (k t : Int)

instance : BEq Elem := ⟨fun a b => match a, b with
  | .int a, .int b => a == b
  | .str a, .str b => a == b
  | .flt _ a, .flt _ b => a == b        -- IEEE: NaN != NaN, +0.0 == -0.0
  | .unit, .unit => true
  | .zst, .zst => true
  | .nzst, .nzst => false               -- a zero-sized type whose `==` is never true
  | .kv k _, .kv k' _ => k == k'      -- records compare by key
  | _, _ => false⟩

/-- `f64` literals: token, value, `{:?}` text -/
def fltTable : List (String × Float × String) :=
  [("nan", 0.0 / 0.0, "NaN"), ("0.0", 0.0, "0.0"), ("-0.0", -0.0, "-0.0"), ("1.0", 1.0, "1.0"), ("-1.0", -1.0, "-1.0"),
   ("1.5", 1.5, "1.5"), ("-2.25", -2.25, "-2.25"), ("0.1", 0.1, "0.1"), ("inf", 1.0 / 0.0, "inf"), ("-inf", -1.0 / 0.0, "-inf"),
   ("1e300", 1e300, "1e300")]

def i64Ok (z : Int) : Bool := -9223372036854775808 ≤ z && z ≤ 9223372036854775807

def strOk (s : String) : Bool :=
  !s.isEmpty && s.toList.all (fun c => c.isAlphanum || c = '.' || c = '+' || c = '-')

def parseElem (ty tok : String) : Option Elem :=
  match ty with
  | "i64" => match tok.toInt? with
    | some z => if i64Ok z then some (.int z) else none
    | none => none
  | "str" => if strOk tok then some (.str tok) else none
  | "f64" => match fltTable.find? (fun e => e.1 == tok) with
    | some e => some (.flt tok e.2.1)
    | none => none
  | "unit" => if tok = "u" then some .unit else none
  | "zst" => if tok = "z" then some .zst else none
  | "nz" => if tok = "n" then some .nzst else none
  | "rec" => match tok.splitOn ":" with
    | [k, t] => match k.toInt?, t.toInt? with
      | some k, some t => if i64Ok k && i64Ok t then some (.kv k t) else none
      | _, _ => none
    | _ => none
  | _ => none

def showElem : Elem → String
  | .int i => toString i
  | .str s => s
  | .flt tok _ => tok
  | .unit => "u"
  | .zst => "z"
  | .nzst => "n"
  | .kv k t => s!"{k}:{t}"

/-- the element's `Writable` text (`f64` and `()` have none: `w` / `rdv` are not part of their histories) -/
def renderW : Elem → List Char
  | .flt _ _ => []
  | .unit => []
  | .nzst => []
  | e => (showElem e).toList

/-- the element's `{:?}` text -/
def renderD : Elem → List Char
  | .str s => ("\"" ++ s ++ "\"").toList
  | .flt tok _ => match fltTable.find? (fun e => e.1 == tok) with
    | some e => e.2.2.toList
    | none => tok.toList
  | .unit => "()".toList
  | .zst => "Z".toList
  | .nzst => "Nz".toList
  | e => (showElem e).toList

def dfltElem (ty : String) : Option Elem :=
  match ty with
  | "i64" => some (.int 0)
  | "str" => some (.str "")
  | "zst" => some .zst
  | "rec" => some (.kv 0 0)
  | _ => none

def parseElems (ty s : String) : Option (List Elem) :=
  if s = "-" then some [] else (s.splitOn ",").mapM (parseElem ty)

def parseGOp (D : Nat) (ty : String) (toks : List String) : Option (GOp Elem) :=
  let slot (s : String) : Option Nat := match s.toNat? with
    | some k => if k < 4 then some k else none
    | none => none
  let lst (s : String) : Option (List Nat) := match parseNatsComma? s with
    | some l => if l.length = D then some l else none
    | none => none
  let shape (s : String) : Option (List Nat) := match lst s with
    | some d => if d.all (· > 0) ∧ prod d > 100000 then none else some d
    | none => none
  let hasIo : Bool := (dfltElem ty).isSome
  match toks with
  | ["vec", s, d, x] => match slot s, shape d, parseElems ty x with
    | some s, some d, some x => if x.length > 100000 then none else some (.vec s d x)
    | _, _, _ => none
  | ["sl", s, d, x] => match slot s, shape d, parseElems ty x with
    | some s, some d, some x => if x.length > 100000 then none else some (.sl s d x)
    | _, _, _ => none
  | ["new", s, d, v] => match slot s, shape d, parseElem ty v with
    | some s, some d, some v => some (.new s d v)
    | _, _, _ => none
  | ["rdv", s, d, x] => match slot s, shape d, parseElems ty x, dfltElem ty with
    | some s, some d, some x, some df => if x.length > 100000 then none else some (.rdv s d x df)
    | _, _, _, _ => none
  | ["like", s, r, v] => match slot s, slot r, parseElem ty v with
    | some s, some r, some v => some (.like s r v)
    | _, _, _ => none
  | ["coll", s, r] => match slot s, slot r with
    | some s, some r => some (.coll s r)
    | _, _ => none
  | ["cl", s, r] => match slot s, slot r with
    | some s, some r => some (.cl s r)
    | _, _ => none
  | ["cf", s, r] => match slot s, slot r with
    | some s, some r => if s = r then none else some (.cf s r)
    | _, _ => none
  | ["eq", s, r] => match slot s, slot r with
    | some s, some r => some (.eq s r)
    | _, _ => none
  | ["ne", s, r] => match slot s, slot r with
    | some s, some r => some (.ne s r)
    | _, _ => none
  | ["dims", s] => (slot s).map .dims
  | ["dim", s, i] => match slot s, i.toNat? with
    | some s, some i => some (.dim s i)
    | _, _ => none
  | ["get", s, i] => match slot s, lst i with
    | some s, some i => some (.get s i)
    | _, _ => none
  | ["rd", s, i] => match slot s, lst i with
    | some s, some i => some (.rd s i)
    | _, _ => none
  | ["wr", s, i, v] => match slot s, lst i, parseElem ty v with
    | some s, some i, some v => some (.wr s i v)
    | _, _, _ => none
  | ["it", s] => (slot s).map .it
  | ["w", s] => if hasIo then (slot s).map .w else none
  | ["dbg", s] => (slot s).map .dbg
  | ["itx", s, k, j, q] => match slot s, k.toNat?, j.toNat? with
    | some s, some k, some j =>
      if k > 200000 ∨ j > 300 then none else
      match q with
      | "count" => some (.itx s k j .count)
      | "len" => some (.itx s k j .len)
      | "last" => some (.itx s k j .last)
      | "rev" => some (.itx s k j .rev)
      | "rest" => some (.itx s k j .rest)
      | _ => none
    | _, _, _ => none
  | ["itx", s, k, j, q, n] => match slot s, k.toNat?, j.toNat?, n.toNat? with
    | some s, some k, some j, some n =>
      if k > 200000 ∨ j > 300 ∨ n > 200000 then none else
      match q with
      | "nth" => some (.itx s k j (.nth n))
      | "nthb" => if n > 300 then none else some (.itx s k j (.nthBack n))
      | _ => none
    | _, _, _, _ => none
  | _ => none

def showGObs (raw : Bool) : GObs Elem → String
  | .done => "ok"
  | .bool b => showBool b
  | .nat n => toString n
  | .nats l => showNats l
  | .elem a => showElem a
  | .elems l => showList (l.map showElem)
  | .opt none => "none"
  | .opt (some a) => s!"some({showElem a})"
  | .text cs => escape cs
  | .panic (some e) => if raw then showP e else (if e = .fuel then "fuel" else "panic")
  | .panic none => "panic"
  | .invalid => "INVALID"

def handleGen (hdr : String) (ops : List String) : String :=
  match tokens hdr with
  | ["g", d, ty] =>
    match d.toNat? with
    | none => "M INVALID | V INVALID | S any"
    | some D =>
      if D > 4 then "M INVALID | V INVALID | S any" else
      match ops.mapM (fun o => parseGOp D ty (tokens o)) with
      | none => "M INVALID | V INVALID | S any"
      | some [] => "M INVALID | V INVALID | S any"
      | some gops =>
        let m := gRunModel renderW renderD gops
        let s := gRunSpec renderW renderD gops
        if m.any GObs.isInvalid || s.any GObs.isInvalid then "M INVALID | V INVALID | S any" else
        answer3 (";".intercalate (m.map (showGObs true))) (";".intercalate (m.map (showGObs false)))
          (";".intercalate (s.map (showGObs false)))
  | _ => "M INVALID | V INVALID | S any"

def handle (line : String) : String :=
  if (tokens line).head? = some "g" then
    match splitOps line with
    | hdr :: ops => handleGen hdr ops
    | [] => badLine line
  else
  if (tokens line).head? = some "h" then
    match splitOps line with
    | hdr :: ops => handleHist hdr ops
    | [] => badLine line
  else
  if (tokens line).head? = some "rs" then
    match splitOps line with
    | hdr :: ops => handleRs hdr ops
    | [] => badLine line
  else
  match tokens line with
  | ["get", d, i] =>
    match parseNatsComma? d, parseNatsComma? i with
    | some dims, some idx => handleGet dims idx
    | _, _ => badLine line
  | ["at", kind, d, i] =>
    match parseNatsComma? d, parseNatsComma? i with
    | some dims, some idx => handleAt kind dims idx
    | _, _ => badLine line
  | ["ctor", kind, d, len] =>
    match parseNatsComma? d, parseNat? len with
    | some dims, some len => handleCtor kind dims len
    | _, _ => badLine line
  | ["iter", d] =>
    match parseNatsComma? d with
    | some dims => handleIter dims
    | _ => badLine line
  | ["eq", da, db, xa, xb] =>
    match parseNatsComma? da, parseNatsComma? db, parseIntsComma? xa, parseIntsComma? xb with
    | some da, some db, some xa, some xb => handleEq da db xa xb
    | _, _, _, _ => badLine line
  | ["write", ty, d, x] =>
    match parseNatsComma? d, parseList? x with
    | some dims, some data => handleWrite ty dims data
    | _, _ => badLine line
  | ["debug", d, x] =>
    match parseNatsComma? d, parseList? x with
    | some dims, some data => handleDebug dims data
    | _, _ => badLine line
  | ["rt", ty, _chunk, d, x] =>
    match parseNatsComma? d, parseList? x with
    | some dims, some data => handleRt ty dims data
    | _, _ => badLine line
  | _ => badLine line

def main : IO Unit := driverMain handle
