import RlibModel.Model.Tensor
/-! Line-protocol driver for engine `tensor` (property C19).

Lists are comma separated without blanks, `-` is the empty list (rank 0).
* `get  <dims> <idx>`                 — `from_vec(dims, 0..n).get_index(idx)`
* `at   <dims> <idx>`                 — `t[idx]`, then `t[idx] = -1` and the list of storage positions that changed
* `ctor <kind> <dims> <len>`          — `kind` ∈ vec | slice | new | read, data / tokens `0..len`
* `iter <dims>`                       — `t[idx] = code(idx)` for every index, then `iter()`
* `eq   <dimsA> <dimsB> <dataA> <dataB>`
* `write <ty> <dims> <data>`          — `ty` ∈ i64 | str; the bytes of `Writable` (blank → `_`, newline → `/`)
* `debug <dims> <data>`               — `{:?}` of an `i64` tensor
* `rt   <ty> <chunk> <dims> <data>`   — write, read back through a `Reader` fed `chunk` bytes at a time
-/
open Rlib Rlib.Tensor

def showList (xs : List String) : String := "[" ++ ",".intercalate xs ++ "]"

def escape (cs : List Char) : String :=
  String.ofList (cs.map (fun c => if c = ' ' then '_' else if c = '\n' then '/' else c))

def allPos (dims : List Nat) : Bool := dims.all (· > 0)

/-- all valid indices in lexicographic order (spec-side enumeration, independent of `unflat`) -/
def allIdx : List Nat → List (List Nat)
  | [] => [[]]
  | d :: ds => (List.range d).flatMap (fun i => (allIdx ds).map (i :: ·))

def code (idx : List Nat) : Int := idx.foldl (fun (acc : Int) (i : Nat) => acc * 10 + Int.ofNat i) 0

def parseList? (s : String) : Option (List String) :=
  if s = "-" then some [] else some (s.splitOn ",")

def lexLtB : List Nat → List Nat → Bool
  | i :: is, j :: js => i < j || (i == j && lexLtB is js)
  | _, _ => false

def handleGet (dims idx : List Nat) : String :=
  if idx.length ≠ dims.length ∨ ¬ allPos dims then "M INVALID | V INVALID | S any" else
  let s := if decide (InRange dims idx) then toString (flat dims idx) else "panic:assert"
  answer (showExcept toString (getIndexU dims idx)) s

def handleAt (dims idx : List Nat) : String :=
  if idx.length ≠ dims.length ∨ ¬ allPos dims then "M INVALID | V INVALID | S any" else
  let n := prod dims
  let data : List Int := (List.range n).map (fun (k : Nat) => Int.ofNat k)
  match fromVec dims data with
  | .error e => answer e.toString "any"
  | .ok t =>
    let m :=
      match index t idx with
      | .error e => e.toString
      | .ok v =>
        match setAt t idx (-1) with
        | .error e => s!"v={v} set={e}"
        | .ok t' =>
          let changed := (List.range n).filter (fun k => t'.data[k]? != t.data[k]?)
          s!"v={v} set={showNats changed}"
    let s := if decide (InRange dims idx) then s!"v={flat dims idx} set=[{flat dims idx}]" else "panic:assert"
    answer m s

def handleCtor (kind : String) (dims : List Nat) (len : Nat) : String :=
  let zero := dims.any (· == 0)
  let big := decide (2 ^ 64 ≤ prod dims)
  -- huge shapes are only probed with short data (the harness never allocates them)
  if ¬ zero ∧ ¬ big ∧ kind ≠ "vec" ∧ kind ≠ "slice" ∧ prod dims > 100000 then "M INVALID | V INVALID | S any" else
  let data : List Int := (List.range len).map (fun (k : Nat) => Int.ofNat k)
  let showT (r : Except Panic (Tensor Int)) : String :=
    match r with
    | .error e => e.toString
    | .ok t => s!"ok dims={showNats t.dims} len={t.data.length}"
  let rej : Option String := if zero then some "panic:assert" else if big then some "panic:overflow" else none
  match kind with
  | "vec" =>
    answer (showT (fromVecU dims data))
      (match rej with | some r => r | none => if prod dims ≠ len then "panic:assert" else s!"ok dims={showNats dims} len={len}")
  | "slice" =>
    answer (showT (fromSliceU dims data))
      (match rej with | some r => r | none => if prod dims ≠ len then "panic:assert" else s!"ok dims={showNats dims} len={len}")
  | "new" =>
    answer (showT (newU dims (7 : Int))) (match rej with | some r => r | none => s!"ok dims={showNats dims} len={prod dims}")
  | "read" =>
    if rej.isNone ∧ len < prod dims then "M INVALID | V INVALID | S any" else
    let toks : List (List Char) := data.map (fun k => (toString k).toList)
    let r := readU dims (tokRd (fun cs => (String.ofList cs).toInt?.getD 0) (0 : Int)) toks
    answer (showT (match r with | .error e => .error e | .ok (t, _) => .ok t))
      (match rej with | some r => r | none => s!"ok dims={showNats dims} len={prod dims}")
  | _ => "M INVALID | V INVALID | S any"

def handleIter (dims : List Nat) : String :=
  if ¬ allPos dims then "M INVALID | V INVALID | S any" else
  match new dims (0 : Int) with
  | .error e => answer e.toString "any"
  | .ok t0 =>
    let r := (allIdx dims).foldl (fun (acc : Except Panic (Tensor Int)) idx =>
      match acc with
      | .error e => .error e
      | .ok t => setAt t idx (code idx)) (.ok t0)
    let m := match r with
      | .error e => e.toString
      | .ok t => showInts (iter t)
    let s := showInts ((List.range (prod dims)).map (fun k => code (unflat dims k)))
    answer m s

def handleEq (da db : List Nat) (xa xb : List Int) : String :=
  if da.length ≠ db.length then "M INVALID | V INVALID | S any" else
  match fromVec da xa, fromVec db xb with
  | .ok t, .ok u => answer (showBool (eq t u)) (showBool (decide (da = db ∧ xa = xb)))
  | _, _ => "M INVALID | V INVALID | S any"

def renderTok (ty : String) (tok : String) : List Char :=
  if ty = "i64" then (toString (tok.toInt?.getD 0)).toList else tok.toList

def validTok (ty : String) (tok : String) : Bool :=
  if ty = "i64" then tok.toInt?.isSome else (!tok.isEmpty && tok.toList.all (fun c => !isWs c))

def handleWrite (ty : String) (dims : List Nat) (data : List String) : String :=
  if ¬ allPos dims ∨ prod dims ≠ data.length ∨ ¬ data.all (validTok ty) then "M INVALID | V INVALID | S any" else
  match fromVec dims data with
  | .error e => answer e.toString "any"
  | .ok t =>
    let m := match writeText (renderTok ty) t with
      | .error e => e.toString
      | .ok cs => escape cs
    let s := escape (renderPieces (renderTok ty) (specPieces dims data))
    answer m s

def handleDebug (dims : List Nat) (data : List String) : String :=
  if ¬ allPos dims ∨ prod dims ≠ data.length ∨ ¬ data.all (validTok "i64") then "M INVALID | V INVALID | S any" else
  match fromVec dims data with
  | .error e => answer e.toString "any"
  | .ok t =>
    let render := renderTok "i64"
    let m := match debugText render t with
      | .error e => e.toString
      | .ok cs => escape cs
    let D := dims.length
    let viaPieces := List.replicate D '[' ++ ((specPieces dims data).map (renderPieceDbg render)).flatten ++ List.replicate D ']'
    -- cross-check (tested, not proved): the separator-count form is the nested-list layout
    let s := if viaPieces = nested render dims data then escape viaPieces else "SPEC-SELFCHECK-FAILED"
    answer m s

def handleRt (ty : String) (dims : List Nat) (data : List String) : String :=
  if ¬ allPos dims ∨ prod dims ≠ data.length ∨ ¬ data.all (validTok ty) then "M INVALID | V INVALID | S any" else
  -- elements are kept in canonical text form (`i64`: the decimal rendering of the value)
  let canon : List String := data.map (fun d => String.ofList (renderTok ty d))
  match fromVec dims canon with
  | .error e => answer e.toString "any"
  | .ok t =>
    let m := match writeText (fun (s : String) => s.toList) t with
      | .error e => e.toString
      | .ok cs =>
        match read dims (tokRd (fun cs => String.ofList cs) "") (splitWs cs) with
        | .error e => e.toString
        | .ok (u, rest) => s!"eq={showBool (eq u t)} data={showList u.data} eof={showBool rest.isEmpty}"
    answer m s!"eq=true data={showList canon} eof=true"

def handle (line : String) : String :=
  match tokens line with
  | ["get", d, i] =>
    match parseNatsComma? d, parseNatsComma? i with
    | some dims, some idx => handleGet dims idx
    | _, _ => badLine line
  | ["at", d, i] =>
    match parseNatsComma? d, parseNatsComma? i with
    | some dims, some idx => handleAt dims idx
    | _, _ => badLine line
  | ["ctor", kind, d, len] =>
    match parseNatsComma? d, parseNat? len with
    | some dims, some len => handleCtor kind dims len
    | _, _ => badLine line
  | ["iter", d] =>
    match parseNatsComma? d with
    | some dims => handleIter dims
    | _ => badLine line
  | ["eq", da, db, xa, xb] =>
    match parseNatsComma? da, parseNatsComma? db, parseIntsComma? xa, parseIntsComma? xb with
    | some da, some db, some xa, some xb => handleEq da db xa xb
    | _, _, _, _ => badLine line
  | ["write", ty, d, x] =>
    match parseNatsComma? d, parseList? x with
    | some dims, some data => handleWrite ty dims data
    | _, _ => badLine line
  | ["debug", d, x] =>
    match parseNatsComma? d, parseList? x with
    | some dims, some data => handleDebug dims data
    | _, _ => badLine line
  | ["rt", ty, _chunk, d, x] =>
    match parseNatsComma? d, parseList? x with
    | some dims, some data => handleRt ty dims data
    | _, _ => badLine line
  | _ => badLine line

def main : IO Unit := driverMain handle
