import RlibModel.Model.Dsu
/-!
Line-protocol driver for engine `dsu` (property C05).

A case is a history `n0 [flags] ; op ; op ; …` on `DSU::new(n0)` (plus a saved clone of it); flags (`ss` = the harness
runs the history in a child process with a 256 KiB stack, `dk` = the harness keeps decoy structures alive and uses them
between the operations) are ignored by the model.  Ops:
  `un u v` `par v` `check u v` `size v` `reset n` `clone` `swap` `dump`
  `clonefrom` (saved.clone_from(&current))   `restore` (current.clone_from(&saved))
  `feed v` (returned values fed back: r = par v; check v r; size r; par r; un r v - one token `r/b/k/r'/b'`)
and macro ops that both sides expand to the same primitive calls (adversarial orders for large n):
  `chain a b` (un(i,i+1), i=a..b-2)   `chainr a b` (un(i+1,i))   `star c a b` (un(c,i))   `starr c a b` (un(i,c))
  `binom lo hi` (rounds pairing the *last* elements of equal blocks: the binomial-tree worst case, no compression)
  `rand seed cnt` (SplitMix64 pairs mod n)   `parall` `sizeall` `checkadj`.
One result token per op, blank-separated; the first panic ends the history.
  raw : un/check `t|f`, par/size number, reset/clone/swap `-`, dump the constant `dump` (the private arrays are NOT compared:
        the property observes return values and the forest depth; `dumpdiag` prints `p=[..]/sz=[..]/depth=D` for the logged diagnostic),
        union macros `<number of true>:<fnv64 of the answers>`, parall/sizeall/checkadj `#<fnv64>`.
  view: as raw, except par ↦ `r` (the representative is a member of the class and the same as the one reported for
        that class since its last real union; else `R!`), parall likewise, dump ↦ `depth-ok` (every vertex's depth is
        ≤ log2 of its root's size; else `DEPTH!`).
  spec: the partition `Part` (quick-find), nothing forest-like.  An op with an argument out of range ends the history;
        its view and spec token are both `ood` (the property says nothing), its raw token is the panic.
  `randmix seed cnt`: cnt random un/par/size/check on random elements (lookups interleaved with unions at any n);
        raw = hash of every returned value, view = hash of the un/size/check answers + the representative rule.
-/
open Rlib Rlib.Dsu

def fnvInit : UInt64 := 0xcbf29ce484222325
@[inline] def fnvStep (h : UInt64) (x : Nat) : UInt64 := (h ^^^ x.toUInt64) * 0x100000001b3
def hex16 (h : UInt64) : String := toHex h.toNat 16

/-- the partition spec plus the representative reported for each class since its last real union -/
structure PSpec where
  part : Part
  reps : Array (Option Nat)

def PSpec.new (n : Nat) : PSpec := ⟨Part.new n, Array.replicate n none⟩

def PSpec.union : PSpec → Nat → Nat → PSpec × Bool
  | ⟨part, reps⟩, u, v =>
    let a := part.label.getD u u
    let b := part.label.getD v v
    match part.union u v with
    | (part', true) => (⟨part', (reps.setIfInBounds a none).setIfInBounds b none⟩, true)
    | (part', false) => (⟨part', reps⟩, false)

/-- is `r` an acceptable answer of `par v`?  records it. -/
def PSpec.rep : PSpec → Nat → Nat → PSpec × Bool
  | ⟨part, reps⟩, v, r =>
    let l := part.label.getD v v
    let ok := r < part.n && part.label.getD r r == l &&
      (match reps.getD l none with | none => true | some r0 => r0 == r)
    (⟨part, reps.setIfInBounds l (some r)⟩, ok)

structure DState where
  sys : Sys
  spC : PSpec
  spS : PSpec

/-- result of one op: the three tokens, or a panic that ends the history -/
structure Tok where
  raw : String
  view : String
  spec : String

def tok1 (s : String) : Tok := ⟨s, s, s⟩
def showB (b : Bool) : String := if b then "t" else "f"

/-! #### forest depth, read from the model's arrays exactly as the harness reads the `Debug` output -/

def depthOf (p : Array Nat) : Nat → Nat → Nat → Nat × Nat
  | 0, v, d => (v, d)
  | f + 1, v, d => let q := p.getD v v; if q = v then (v, d) else depthOf p f q (d + 1)

/-- (max depth, first vertex whose depth exceeds log2 of its root's size) -/
def forestDepth (s : S) : Nat × Option (Nat × Nat × Nat) :=
  (List.range s.p.size).foldl (fun (acc : Nat × Option (Nat × Nat × Nat)) v =>
    let (r, d) := depthOf s.p (s.p.size + 1) v 0
    let szr := s.sz.getD r 0
    let bad := if d ≤ Nat.log2 szr ∧ szr ≠ 0 then acc.2 else (match acc.2 with | some b => some b | none => some (v, d, szr))
    (max acc.1 d, bad)) (0, none)

def dumpTok (s : S) : Tok :=
  let (dmax, bad) := forestDepth s
  let raw :=
    if s.p.size ≤ 64 then s!"p={showNats s.p.toList}/sz={showNats s.sz.toList}/depth={dmax}"
    else
      let hp := s.p.foldl fnvStep fnvInit
      let hs := s.sz.foldl fnvStep fnvInit
      s!"p#{hex16 hp}/sz#{hex16 hs}/depth={dmax}"
  let view := match bad with
    | none => "depth-ok"
    | some (v, d, z) => s!"DEPTH!v={v},d={d},size={z}"
  ⟨raw, view, "depth-ok"⟩

/-! #### macro ops: lists of union pairs -/

def binomPairs (lo hi : Nat) : List (Nat × Nat) :=
  let rec rounds (fuel step : Nat) (acc : List (Nat × Nat)) : List (Nat × Nat) :=
    match fuel with
    | 0 => acc
    | fuel + 1 =>
      if step ≥ hi - lo then acc
      else
        let blocks := (hi - lo) / (2 * step)
        let acc := (List.range blocks).foldl (fun acc k =>
          let i := lo + k * 2 * step
          (i + step - 1, i + 2 * step - 1) :: acc) acc
        rounds fuel (2 * step) acc
  (rounds 64 1 []).reverse

def smNext (s : UInt64) : UInt64 × UInt64 :=
  let s := s + 0x9E3779B97F4A7C15
  let z := (s ^^^ (s >>> 30)) * 0xBF58476D1CE4E5B9
  let z := (z ^^^ (z >>> 27)) * 0x94D049BB133111EB
  (s, z ^^^ (z >>> 31))

def randPairs (seed : Nat) (cnt n : Nat) : List (Nat × Nat) :=
  if n = 0 then [] else
  let rec go (k : Nat) (s : UInt64) (acc : List (Nat × Nat)) : List (Nat × Nat) :=
    match k with
    | 0 => acc
    | k + 1 =>
      let (s, a) := smNext s
      let (s, b) := smNext s
      go k s ((a.toNat % n, b.toNat % n) :: acc)
  (go cnt seed.toUInt64 []).reverse

def macroPairs (n : Nat) : List String → Option (List (Nat × Nat))
  | ["chain", a, b] => do
    let a ← parseNat? a; let b ← parseNat? b
    pure ((List.range (b - 1 - a)).map (fun k => (a + k, a + k + 1)))
  | ["chainr", a, b] => do
    let a ← parseNat? a; let b ← parseNat? b
    pure ((List.range (b - 1 - a)).map (fun k => (a + k + 1, a + k)))
  | ["star", c, a, b] => do
    let c ← parseNat? c; let a ← parseNat? a; let b ← parseNat? b
    pure ((List.range (b - a)).map (fun k => (c, a + k)))
  | ["starr", c, a, b] => do
    let c ← parseNat? c; let a ← parseNat? a; let b ← parseNat? b
    pure ((List.range (b - a)).map (fun k => (a + k, c)))
  | ["binom", lo, hi] => do
    let lo ← parseNat? lo; let hi ← parseNat? hi
    pure (binomPairs lo hi)
  | ["rand", seed, cnt] => do
    let seed ← parseNat? seed; let cnt ← parseNat? cnt
    pure (randPairs seed cnt n)
  | _ => none

/-- accumulator of a union macro: model state, spec state, (#true, hash) of model and of spec answers -/
structure MacroAcc where
  s : S
  sp : PSpec
  mt : Nat
  mh : UInt64
  st : Nat
  sh : UInt64
  err : Option Panic

def runPairs (s : S) (sp : PSpec) (pairs : List (Nat × Nat)) : MacroAcc :=
  pairs.foldl (fun (acc : MacroAcc) (uv : Nat × Nat) =>
    match acc with
    | ⟨s, sp, mt, mh, st, sh, err⟩ =>
      match err with
      | some e => ⟨s, sp, mt, mh, st, sh, some e⟩
      | none =>
        match un (fuelFor s) s uv.1 uv.2 with
        | .error e => ⟨⟨#[], #[]⟩, sp, mt, mh, st, sh, some e⟩
        | .ok (s', b) =>
          let (sp', c) := sp.union uv.1 uv.2
          ⟨s', sp', mt + (if b then 1 else 0), fnvStep mh (if b then 1 else 0),
            st + (if c then 1 else 0), fnvStep sh (if c then 1 else 0), none⟩)
    ⟨s, sp, 0, fnvInit, 0, fnvInit, none⟩

/-- accumulator of `randmix`: model, spec, generator state, hash of everything the model returned, hash of the
    class-level answers (un/size/check) of model and of spec, representative rule so far -/
structure MixAcc where
  s : S
  sp : PSpec
  g : UInt64
  hAll : UInt64
  hM : UInt64
  hS : UInt64
  ok : Bool
  err : Option Panic

/-- `cnt` random operations (4/8 un, 1/8 par, 1/8 size, 2/8 check) on random elements -/
def runMix (s : S) (sp : PSpec) (seed cnt : Nat) : MixAcc :=
  let n := s.p.size
  if n = 0 then ⟨s, sp, 0, fnvInit, fnvInit, fnvInit, true, none⟩ else
  (List.range cnt).foldl (fun (acc : MixAcc) _ =>
    match acc with
    | ⟨s, sp, g, hAll, hM, hS, ok, err⟩ =>
      match err with
      | some e => ⟨s, sp, g, hAll, hM, hS, ok, some e⟩
      | none =>
        let (g, r) := smNext g
        let (g, a) := smNext g
        let (g, b) := smNext g
        let k := r.toNat % 8
        let a := a.toNat % n
        let b := b.toNat % n
        if k < 4 then
          match un (fuelFor s) s a b with
          | .error e => ⟨⟨#[], #[]⟩, sp, g, hAll, hM, hS, ok, some e⟩
          | .ok (s', x) =>
            let (sp', c) := sp.union a b
            let xm := if x then 1 else 0
            ⟨s', sp', g, fnvStep hAll xm, fnvStep hM xm, fnvStep hS (if c then 1 else 0), ok, none⟩
        else if k = 4 then
          match par (fuelFor s) s a with
          | .error e => ⟨⟨#[], #[]⟩, sp, g, hAll, hM, hS, ok, some e⟩
          | .ok (s', x) =>
            let (sp', o) := sp.rep a x
            ⟨s', sp', g, fnvStep hAll x, hM, hS, ok && o, none⟩
        else if k = 5 then
          match size (fuelFor s) s a with
          | .error e => ⟨⟨#[], #[]⟩, sp, g, hAll, hM, hS, ok, some e⟩
          | .ok (s', x) => ⟨s', sp, g, fnvStep hAll x, fnvStep hM x, fnvStep hS (sp.part.size a), ok, none⟩
        else
          match check (fuelFor s) s a b with
          | .error e => ⟨⟨#[], #[]⟩, sp, g, hAll, hM, hS, ok, some e⟩
          | .ok (s', x) =>
            let xm := if x then 1 else 0
            ⟨s', sp, g, fnvStep hAll xm, fnvStep hM xm, fnvStep hS (if sp.part.conn a b then 1 else 0), ok, none⟩)
    ⟨s, sp, seed.toUInt64, fnvInit, fnvInit, fnvInit, true, none⟩

inductive Out where
  | tok (st : DState) (t : Tok)
  | stop (t : Tok) (outOfDomain : Bool)
  | bad

/-- the model failed although every argument is in range: the theorems exclude this, so make it visible -/
def errTok (e : Panic) : Tok := ⟨e.toString, e.toString, "no-panic"⟩

/-- an argument is out of range: the property says nothing about this observation (view and spec are both `ood`),
    the raw column still compares the model's panic with the implementation's; the history ends here -/
def oodTok (raw : String) : Tok := ⟨raw, "ood", "ood"⟩

def withCur (st : DState) (s : S) (sp : PSpec) : DState := ⟨⟨s, st.sys.saved⟩, sp, st.spS⟩

/-- apply a model step; `k` builds the tokens from the result and the updated spec -/
def prim (st : DState) (op : Op) (inRange : Bool) (k : Sys → Res → Out) : Out :=
  match step st.sys op with
  | .error e => if inRange then .stop (errTok e) false else .stop (oodTok e.toString) false
  | .ok (sys, r) => if inRange then k sys r else .stop (oodTok "no-panic") false

def doOp (st : DState) (toks : List String) : Out :=
  let n := st.sys.cur.p.size
  match toks with
  | ["un", u, v] =>
    match parseNat? u, parseNat? v with
    | some u, some v =>
      let inR := u < n && v < n
      prim st (.un u v) inR (fun sys r =>
        match r with
        | .bool b =>
          let (sp, c) := st.spC.union u v
          .tok ⟨sys, sp, st.spS⟩ ⟨showB b, showB b, showB c⟩
        | _ => .bad)
    | _, _ => .bad
  | ["check", u, v] =>
    match parseNat? u, parseNat? v with
    | some u, some v =>
      let inR := u < n && v < n
      prim st (.check u v) inR (fun sys r =>
        match r with
        | .bool b => .tok ⟨sys, st.spC, st.spS⟩ ⟨showB b, showB b, showB (st.spC.part.conn u v)⟩
        | _ => .bad)
    | _, _ => .bad
  | ["size", v] =>
    match parseNat? v with
    | some v =>
      prim st (.size v) (v < n) (fun sys r =>
        match r with
        | .nat k => .tok ⟨sys, st.spC, st.spS⟩ ⟨toString k, toString k, toString (st.spC.part.size v)⟩
        | _ => .bad)
    | _ => .bad
  | ["par", v] =>
    match parseNat? v with
    | some v =>
      prim st (.par v) (v < n) (fun sys r =>
        match r with
        | .nat k =>
          let (sp, ok) := st.spC.rep v k
          .tok ⟨sys, sp, st.spS⟩ ⟨toString k, if ok then "r" else "R!", "r"⟩
        | _ => .bad)
    | _ => .bad
  | ["reset", m] =>
    match parseNat? m with
    | some m =>
      prim st (.reset m) true (fun sys _ => .tok ⟨sys, PSpec.new m, st.spS⟩ (tok1 "-"))
    | _ => .bad
  | ["clone"] => prim st .clone true (fun sys _ => .tok ⟨sys, st.spC, st.spC⟩ (tok1 "-"))
  | ["swap"] => prim st .swap true (fun sys _ => .tok ⟨sys, st.spS, st.spC⟩ (tok1 "-"))
  -- `Clone::clone_from` between the two live structures, both directions: the destination's specification state is replaced
  | ["clonefrom"] => prim st .cloneFrom true (fun sys _ => .tok ⟨sys, st.spC, st.spC⟩ (tok1 "-"))
  | ["restore"] => prim st .restore true (fun sys _ => .tok ⟨sys, st.spS, st.spS⟩ (tok1 "-"))
  -- returned values fed back: r = par v; check v r; size r; par r; un r v   (spec: r, t, |class of v|, r, f)
  | ["feed", v] =>
    match parseNat? v with
    | some v =>
      prim st (.par v) (v < n) (fun sys1 r1 =>
        match r1 with
        | .nat r =>
          let (sp1, ok1) := st.spC.rep v r
          if !(r < n) then .stop ⟨toString r, "R!", "r"⟩ false else
          prim ⟨sys1, sp1, st.spS⟩ (.check v r) true (fun sys2 r2 =>
            match r2 with
            | .bool b =>
              prim ⟨sys2, sp1, st.spS⟩ (.size r) true (fun sys3 r3 =>
                match r3 with
                | .nat k =>
                  prim ⟨sys3, sp1, st.spS⟩ (.par r) true (fun sys4 r4 =>
                    match r4 with
                    | .nat rr =>
                      let (sp4, ok4) := sp1.rep r rr
                      prim ⟨sys4, sp4, st.spS⟩ (.un r v) true (fun sys5 r5 =>
                        match r5 with
                        | .bool ub =>
                          let rp (o : Bool) : String := if o then "r" else "R!"
                          .tok ⟨sys5, sp4, st.spS⟩
                            ⟨s!"{r}/{showB b}/{k}/{rr}/{showB ub}", s!"{rp ok1}/{showB b}/{k}/{rp ok4}/{showB ub}",
                             s!"r/t/{st.spC.part.size v}/r/f"⟩
                        | _ => .bad)
                    | _ => .bad)
                | _ => .bad)
            | _ => .bad)
        | _ => .bad)
    | _ => .bad
  | ["dump"] => let t := dumpTok st.sys.cur; .tok st ⟨"dump", t.view, t.spec⟩
  | ["dumpdiag"] => let t := dumpTok st.sys.cur; .tok st ⟨t.raw, "diag", "diag"⟩
  | ["parall"] =>
    match st with
    | ⟨⟨cur, saved⟩, spC, spS⟩ =>
      let n := cur.p.size
      let r := (List.range n).foldl (fun (acc : S × PSpec × UInt64 × Bool × Option Panic) v =>
        match acc with
        | (s, sp, h, ok, err) =>
          match err with
          | some e => (s, sp, h, ok, some e)
          | none =>
            match par (fuelFor s) s v with
            | .error e => (⟨#[], #[]⟩, sp, h, ok, some e)
            | .ok (s', k) =>
              let (sp', ok') := sp.rep v k
              (s', sp', fnvStep h k, ok && ok', none)) (cur, spC, fnvInit, true, none)
      match r with
      | (s, sp, h, ok, none) => .tok ⟨⟨s, saved⟩, sp, spS⟩ ⟨s!"#{hex16 h}", if ok then "r" else "R!", "r"⟩
      | (_, _, _, _, some e) => .stop (errTok e) false
  | ["sizeall"] =>
    match st with
    | ⟨⟨cur, saved⟩, spC, spS⟩ =>
      let n := cur.p.size
      let r := (List.range n).foldl (fun (acc : S × UInt64 × UInt64 × Option Panic) v =>
        match acc with
        | (s, h, hs, err) =>
          match err with
          | some e => (s, h, hs, some e)
          | none =>
            match size (fuelFor s) s v with
            | .error e => (⟨#[], #[]⟩, h, hs, some e)
            | .ok (s', k) => (s', fnvStep h k, fnvStep hs (spC.part.size v), none)) (cur, fnvInit, fnvInit, none)
      match r with
      | (s, h, hs, none) => .tok ⟨⟨s, saved⟩, spC, spS⟩ ⟨s!"#{hex16 h}", s!"#{hex16 h}", s!"#{hex16 hs}"⟩
      | (_, _, _, some e) => .stop (errTok e) false
  | ["checkadj"] =>
    match st with
    | ⟨⟨cur, saved⟩, spC, spS⟩ =>
      let n := cur.p.size
      let r := (List.range (n - 1)).foldl (fun (acc : S × UInt64 × UInt64 × Option Panic) v =>
        match acc with
        | (s, h, hs, err) =>
          match err with
          | some e => (s, h, hs, some e)
          | none =>
            match check (fuelFor s) s v (v + 1) with
            | .error e => (⟨#[], #[]⟩, h, hs, some e)
            | .ok (s', b) => (s', fnvStep h (if b then 1 else 0), fnvStep hs (if spC.part.conn v (v + 1) then 1 else 0), none))
        (cur, fnvInit, fnvInit, none)
      match r with
      | (s, h, hs, none) => .tok ⟨⟨s, saved⟩, spC, spS⟩ ⟨s!"#{hex16 h}", s!"#{hex16 h}", s!"#{hex16 hs}"⟩
      | (_, _, _, some e) => .stop (errTok e) false
  | ["randmix", seed, cnt] =>
    match parseNat? seed, parseNat? cnt with
    | some seed, some cnt =>
      match st with
      | ⟨⟨cur, saved⟩, spC, spS⟩ =>
        match runMix cur spC seed cnt with
        | ⟨s, sp, _, hAll, hM, hS, ok, none⟩ =>
          .tok ⟨⟨s, saved⟩, sp, spS⟩ ⟨s!"#{hex16 hAll}", s!"#{hex16 hM}/{if ok then "r" else "R!"}", s!"#{hex16 hS}/r"⟩
        | ⟨_, _, _, _, _, _, _, some e⟩ => .stop (errTok e) false
    | _, _ => .bad
  | _ =>
    match macroPairs n toks with
    | none => .bad
    | some pairs =>
      -- pairs up to and including the first one with an argument out of range
      let inR (uv : Nat × Nat) : Bool := uv.1 < n && uv.2 < n
      let good := pairs.takeWhile inR
      let firstBad := (pairs.dropWhile inR).head?
      match st with
      | ⟨⟨cur, saved⟩, spC, spS⟩ =>
        match runPairs cur spC good with
        | ⟨s, sp, mt, mh, st', sh, none⟩ =>
          match firstBad with
          | none => .tok ⟨⟨s, saved⟩, sp, spS⟩ ⟨s!"{mt}:{hex16 mh}", s!"{mt}:{hex16 mh}", s!"{st'}:{hex16 sh}"⟩
          | some uv =>
            match un (fuelFor s) s uv.1 uv.2 with
            | .error e => .stop (oodTok e.toString) false
            | .ok _ => .stop (oodTok "no-panic") false
        | ⟨_, _, _, _, _, _, some e⟩ => .stop (errTok e) false

def runOps : DState → List String → List Tok → Bool → Option (List Tok × Bool)
  | _, [], acc, ood => some (acc.reverse, ood)
  | st, op :: ops, acc, ood =>
    match doOp st (tokens op) with
    | .bad => none
    | .stop t o => some ((t :: acc).reverse, ood || o)
    | .tok st' t => runOps st' ops (t :: acc) ood

def handle (line : String) : String :=
  match splitOps line with
  | [] => badLine line
  | hdr :: ops =>
    -- header: `n0` optionally followed by flags for the harness (`ss` = run on a small stack), which the model ignores
    match (tokens hdr).head?.bind parseNat? with
    | none => "M INVALID | V INVALID | S any"
    | some n0 =>
      let st : DState := ⟨initSys n0, PSpec.new n0, PSpec.new n0⟩
      match runOps st (ops.filter (· ≠ "")) [] false with
      | none => "M INVALID | V INVALID | S any"
      | some (ts, ood) =>
        let j (f : Tok → String) := " ".intercalate (ts.map f)
        let raw := if ts.isEmpty then "-" else j (·.raw)
        let view := if ts.isEmpty then "-" else j (·.view)
        let spec := if ood then "any" else if ts.isEmpty then "-" else j (·.spec)   -- `ood` is never set any more: `any` is per observation
        answer3 raw view spec

def main : IO Unit := driverMain handle
