import RlibModel.Model.TreapConc
import RlibModel.Generated.RngDiscipline
/-!
Line-protocol driver for engine `treapconc` (property C17).

Parameter block `P` = `<A> <C> <MIXMUL> <MIXSHIFT> <PRIOBITS> <SEED>` (decimal; extracted from the source).

* `disc`                                   → the discipline compiled into `Generated/RngDiscipline.lean`
* `stream P <n>`                           → the first `n` priorities from `SEED`:
                                             M = one thread of the transition system, S = `stream`
* `tie …` / `deep …` / `render …` / `stack …` / `panic …` / `exit …`
                                           → as `conc` (other operation mixes on the Rust side; the draws are the same:
                                             `k` threads × `m` draws each)
* `conc <disc> <k> <m> <opseed> P`         → `k` threads × `m` draws under a pseudo-random schedule derived
                                             from `opseed` (for the split disciplines: a pseudo-random *serial*
                                             schedule — there the model has no schedule-independent outcome)
* `long <disc> <k> <m> <opseed> P`         → (wave 4) 2 long-lived threads × `m` draws and a crowd of `k` threads × 1 draw, under the
                                             schedule the harness constructs: the first `m/2` draws of each long-lived thread,
                                             the crowd one after the other, the remaining draws of the long-lived threads
                                             (raw: the long-lived threads one by one, the crowd's draws as ONE stream)
* `sched <disc> P ; m0 m1 … ; i0 i1 …`     → programs `m0 m1 …` under exactly the schedule `i0 i1 …`
* `fsched <disc> P ; m0 m1 … ; i0 i1 …`    → the same on the fine-grained system (get/set, lock/read/write/unlock,
                                             load/CAS/retry); the answer is computed from `FState.abs`

raw: own-cell disciplines `T <summ t0>;<summ t1>;…`, shared ones `U <summ (sorted all results)>`;
view: `ok` iff the run satisfies the property's statement evaluated against `stream`
(thread-local: every thread's results are the sequential stream; shared: all results together are exactly the
first `total` elements of the sequential stream as a multiset and every thread's results are a subsequence of it).
-/
open Rlib Rlib.TreapConc

/-- `A = C = 0` in the case line: the extractor could not read the generator's arithmetic. The model then runs with a
    stand-in generator (any generator will do: the theorems hold for all of them) and only the numbers of draws are printed. -/
def standIn : LcgParams :=
  { a := 6364136223846793005, c := 1442695040888963407, mixMul := 0xff51afd7ed558ccd, mixShift := 33, prioBits := 32 }

def parseParams? (ts : List String) : Option (LcgParams × UInt64 × Bool) :=
  match parseNats? ts with
  | some [a, c, mm, sh, bits, seed] =>
    if a = 0 ∧ c = 0 then some (standIn, 42, true)
    else if a < 2 ^ 64 ∧ c < 2 ^ 64 ∧ mm < 2 ^ 64 ∧ sh < 64 ∧ seed < 2 ^ 64 then
      some ({ a := .ofNat a, c := .ofNat c, mixMul := .ofNat mm, mixShift := .ofNat sh, prioBits := bits }, .ofNat seed, false)
    else none
  | _ => none

def showRun (D : Discipline) (blind : Bool) (hist : List UInt64) (rs : List (List UInt64)) : String :=
  if D.isShared then "U " ++ (if blind then toString hist.length else summ (sortWords hist))
  else "T " ++ ";".intercalate (rs.map (fun r => if blind then toString r.length else summ r))

/-- The property's statement evaluated on one finished run of the model
    (`hist` = `history st`, `rs[i]` = `results st i`). -/
def viewRun (D : Discipline) (g : Gen UInt64 UInt64) (seed : UInt64) (progs : List Nat)
    (hist : List UInt64) (rs : List (List UInt64)) : String :=
  if D.isShared then
    let total := hist.length
    let seq := stream g seed total
    if total ≠ progs.sum then "fail:incomplete"
    else if sortWords hist ≠ sortWords seq then "fail:lost-or-duplicated-draw"
    else if rs.all (fun r => isSubseq r seq) then "ok"
    else "fail:thread-stream-not-increasing"
  else
    if (rs.zip progs).all (fun (r, m) => r == stream g seed m) then "ok"
    else "fail:thread-stream-differs-from-sequential"

def runLine (D : Discipline) (p : LcgParams) (seed : UInt64) (blind : Bool) (progs : List Nat) (sched : List Nat) : String :=
  let g := lcgGen p
  let st := exec D g (init seed progs) sched
  let hist := history st
  let rs := (List.range progs.length).map (results st)
  answer3 (showRun D blind hist rs) (viewRun D g seed progs hist rs) "ok"

/-- number of long-lived threads of a `long` case (`LONG_LIVED` in the harness) -/
def longLived : Nat := 2

/-- `long`: programs and the (serial) order of draws the harness constructs -/
def longProgs (k m : Nat) : List Nat := List.replicate longLived m ++ List.replicate k 1

def longOrder (k m : Nat) : List Nat :=
  let firstHalf := (List.range longLived).flatMap (fun i => List.replicate (m / 2) i)
  let crowd := (List.range k).map (· + longLived)
  let rest := (List.range longLived).flatMap (fun i => List.replicate (m - m / 2) i)
  firstHalf ++ crowd ++ rest

/-- as `showRun`, the crowd's results (one per thread, in thread order) shown as one stream -/
def showRunLong (D : Discipline) (blind : Bool) (hist : List UInt64) (rs : List (List UInt64)) : String :=
  if D.isShared then showRun D blind hist rs
  else
    let one := fun (r : List UInt64) => if blind then toString r.length else summ r
    "T " ++ ";".intercalate ((rs.take longLived).map one ++ ["crowd:" ++ one (rs.drop longLived).flatten])

def runLong (D : Discipline) (p : LcgParams) (seed : UInt64) (blind : Bool) (k m : Nat) : String :=
  let g := lcgGen p
  let progs := longProgs k m
  let st := exec D g (init seed progs) (expand D (longOrder k m))
  let hist := history st
  let rs := (List.range progs.length).map (results st)
  answer3 (showRunLong D blind hist rs) (viewRun D g seed progs hist rs) "ok"

def runFine (D : Discipline) (p : LcgParams) (seed : UInt64) (blind : Bool) (progs : List Nat) (sched : List Nat) : String :=
  let g := lcgGen p
  let st := (fexec D g (finit seed progs) sched).abs
  let hist := history st
  let rs := (List.range progs.length).map (results st)
  answer3 (showRun D blind hist rs) (viewRun D g seed progs hist rs) "ok"

def showStream (xs : List UInt64) : String := if xs.length ≤ 32 then showListWith toString xs else summ xs

def handle (line : String) : String :=
  match splitOps line with
  | [one] =>
    match tokens one with
    | ["disc"] => answer RngDiscipline.current.name RngDiscipline.current.name
    | "stream" :: rest =>
      match parseParams? (rest.take 6), parseNats? (rest.drop 6) with
      | some (p, seed, _), some [n] =>
        let g := lcgGen p
        let st := exec .threadLocal g (init seed [n]) (List.replicate n 0)
        answer (showStream (results st 0)) (showStream (stream g seed n))
      | _, _ => badLine line
    | "long" :: d :: rest =>
      match Discipline.parse? d, parseNats? (rest.take 3), parseParams? (rest.drop 3) with
      | some D, some [k, m, _], some (p, seed, blind) => runLong D p seed blind k m
      | _, _, _ => badLine line
    | "tie" :: d :: rest | "deep" :: d :: rest | "render" :: d :: rest | "stack" :: d :: rest | "panic" :: d :: rest
    | "exit" :: d :: rest | "conc" :: d :: rest =>
      match Discipline.parse? d, parseNats? (rest.take 3), parseParams? (rest.drop 3) with
      | some D, some [k, m, opseed], some (p, seed, blind) =>
        let progs := List.replicate k m
        let order := randomOrder (k * m) (UInt64.ofNat opseed) progs []
        runLine D p seed blind progs (expand D order)
      | _, _, _ => badLine line
    | _ => badLine line
  | [hdr, ps, ss] =>
    match tokens hdr with
    | "sched" :: d :: rest =>
      match Discipline.parse? d, parseParams? rest, parseNats? (tokens ps), parseNats? (tokens ss) with
      | some D, some (p, seed, blind), some progs, some sched => runLine D p seed blind progs sched
      | _, _, _, _ => badLine line
    | "fsched" :: d :: rest =>
      match Discipline.parse? d, parseParams? rest, parseNats? (tokens ps), parseNats? (tokens ss) with
      | some D, some (p, seed, blind), some progs, some sched => runFine D p seed blind progs sched
      | _, _, _, _ => badLine line
    | _ => badLine line
  | _ => badLine line

def main : IO Unit := driverMain handle
