import RlibModel.Model.Gcd
/-! Line-protocol driver for engine `gcd` (property C11). -/
open Rlib Rlib.Gcd

def viewSolve (a b c : Int) : Except Panic (Option (Int × Int)) → String
  | .error e => e.toString
  | .ok none => "none"
  | .ok (some (x, y)) => if a * x + b * y = c then "solution" else "bad-solution"

def viewCrt (a1 m1 a2 m2 : Int) : Except Panic (Option Int) → String
  | .error e => e.toString
  | .ok none => "none"
  | .ok (some x) => if specCrtIsSolution a1 m1 a2 m2 x then "solution" else "bad-solution"

def handle (line : String) : String :=
  match tokens line with
  | [] => badLine line
  | op :: rest =>
  match splitTy op, rest with
  | ("gcd", some t), rest =>
    match parseInts? rest with
    | some [a, b] =>
      -- domain of C11: operands representable and not the minimum of a signed type
      let inDom := t.fits a ∧ t.fits b ∧ t.fits (a.natAbs : Int) ∧ t.fits (b.natAbs : Int)
      answer (showExcept toString (gcdT t a b)) (if inDom then toString (specGcd a b) else "any")
    | _ => badLine line
  | ("lcm", some t), rest =>
    match parseInts? rest with
    | some [a, b] =>
      let inDom := t.fits a ∧ t.fits b ∧ t.fits (a.natAbs : Int) ∧ t.fits (b.natAbs : Int) ∧ ¬ (a = 0 ∧ b = 0) ∧ t.fits (specLcm a b)
      answer (showExcept toString (lcmT t a b)) (if inDom then toString (specLcm a b) else "any")
    | _ => badLine line
  | ("egcd", ty), rest =>
    match parseInts? rest with
    | some [a, b, c] =>
      -- `egcd:ty a b c` runs the checked model of `egcd::<ty>`; the untyped form is the i64 instantiation.  The domain is
      -- `domEgcd` (signed type, |operands| ≤ MAX, the coefficient bound fits): `egcd_dom_answer`; it contains the 2^20 box.
      let t := ty.getD IntTy.i64
      let r := egcdT t a b c
      let s := if ¬ domEgcd t a b c then "any" else if specSolvable a b c then "solution" else "none"
      answer3 (showExcept showOptPair r) (viewSolve a b c r) s
    | _ => badLine line
  | ("crt", ty), rest =>
    match parseInts? rest with
    | some [a1, m1, a2, m2] =>
      let t := ty.getD IntTy.i64
      let r := crtT t a1 m1 a2 m2
      let s := if ¬ domCrt t a1 m1 a2 m2 then "any" else if specCrtSolvable a1 m1 a2 m2 then "solution" else "none"
      answer3 (showExcept showOptInt r) (viewCrt a1 m1 a2 m2 r) s
    | _ => badLine line
  | _, _ => badLine line

def main : IO Unit := driverMain handle
