import RlibModel.Model.Gcd
/-! Line-protocol driver for engine `gcd` (property C11). -/
open Rlib Rlib.Gcd

def viewSolve (a b c : Int) : Except Panic (Option (Int × Int)) → String
  | .error e => e.toString
  | .ok none => "none"
  | .ok (some (x, y)) => if a * x + b * y = c then "solution" else "bad-solution"

def viewCrt (a1 m1 a2 m2 : Int) : Except Panic (Option Int) → String
  | .error e => e.toString
  | .ok none => "none"
  | .ok (some x) => if specCrtIsSolution a1 m1 a2 m2 x then "solution" else "bad-solution"

def handle (line : String) : String :=
  match tokens line with
  | [] => badLine line
  | op :: rest =>
  match splitTy op, rest with
  | ("gcd", some t), rest =>
    match parseInts? rest with
    | some [a, b] =>
      -- domain of C11: operands representable and not the minimum of a signed type
      let inDom := t.fits a ∧ t.fits b ∧ t.fits (a.natAbs : Int) ∧ t.fits (b.natAbs : Int)
      answer (showExcept toString (gcdT t a b)) (if inDom then toString (specGcd a b) else "any")
    | _ => badLine line
  | ("lcm", some t), rest =>
    match parseInts? rest with
    | some [a, b] =>
      let inDom := t.fits a ∧ t.fits b ∧ t.fits (a.natAbs : Int) ∧ t.fits (b.natAbs : Int) ∧ ¬ (a = 0 ∧ b = 0) ∧ t.fits (specLcm a b)
      answer (showExcept toString (lcmT t a b)) (if inDom then toString (specLcm a b) else "any")
    | _ => badLine line
  | ("egcd", none), rest =>
    match parseInts? rest with
    | some [a, b, c] =>
      -- the harness instantiates `egcd` / `crt` at i64; the property's box is |a|,|b|,|c| ≤ 2^20
      let r := egcdT IntTy.i64 a b c
      let inBox := a.natAbs ≤ 2 ^ 20 ∧ b.natAbs ≤ 2 ^ 20 ∧ c.natAbs ≤ 2 ^ 20
      let s := if (a = 0 ∧ b = 0) ∨ ¬ inBox then "any" else if specSolvable a b c then "solution" else "none"
      answer3 (showExcept showOptPair r) (viewSolve a b c r) s
    | _ => badLine line
  | ("crt", none), rest =>
    match parseInts? rest with
    | some [a1, m1, a2, m2] =>
      let inDom := 1 ≤ m1 ∧ m1 ≤ 2 ^ 20 ∧ 1 ≤ m2 ∧ m2 ≤ 2 ^ 20 ∧ 0 ≤ a1 ∧ a1 < m1 ∧ 0 ≤ a2 ∧ a2 < m2
      let r := crtT IntTy.i64 a1 m1 a2 m2
      let s := if ¬ inDom then "any" else if specCrtSolvable a1 m1 a2 m2 then "solution" else "none"
      answer3 (showExcept showOptInt r) (viewCrt a1 m1 a2 m2 r) s
    | _ => badLine line
  | _, _ => badLine line

def main : IO Unit := driverMain handle
