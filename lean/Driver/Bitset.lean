import RlibModel.Model.Bitset
/-!
Line-protocol driver for engine `bitset` (property C12).

Case line:  `<N> <K> ; op ; op ; …`   — `K` registers of type `Bitset<N>`, all `new()` at the start.
Ops: `new d`, `from d HEX`, `set d x`, `remove d x`, `flip d x`, `clear d`, `and d a b`, `or d a b`,
`xor d a b`, `anda d s`, `ora d s`, `xora d s`, `not d s`, `clone d s`, `test r x`,
`load d HEX,HEX,…` (a fresh bitset, then `set(i)` for every set bit of the words, ascending), `obs r` (observe
register `r` now: a record appended to the observation log), and two more spellings the harness executes through
other trait entry points of the crate: `default d` (`Default::default()`; in the crate it calls `new`, the model's `new`)
and `clonefrom d s` (`Clone::clone_from`, the provided method of the derived `Clone`; the model's `clone`).
Answer: `M <model observation> | S <spec observation>` (the view is the raw observation itself, so the
`V` field is omitted — `check` then takes view = raw); see `showObs`.
-/
open Rlib Rlib.Bitset

def parseWords? (s : String) : Option (List Nat) :=
  (s.splitOn ",").mapM (fun t => match parseHex? t with
    | some w => if w < 2 ^ 64 then some w else none
    | none => none)

def parsePos? (s : String) : Option Nat :=
  match parseNat? s with
  | some x => if x < 2 ^ 64 then some x else none
  | none => none

/-- Parse one op. -/
def parseOp? (k : Nat) (toks : List String) : Option (List Op) :=
  let reg? (s : String) : Option Nat :=
    match parseNat? s with
    | some r => if r < k then some r else none
    | none => none
  match toks with
  | ["new", d] => do let d ← reg? d; pure [.new d]
  | ["from", d, v] => do
      let d ← reg? d
      let v ← parseHex? v
      if v < 2 ^ 64 then pure [.fromU64 d v] else none
  | ["set", d, x] => do let d ← reg? d; let x ← parsePos? x; pure [.set d x]
  | ["remove", d, x] => do let d ← reg? d; let x ← parsePos? x; pure [.remove d x]
  | ["flip", d, x] => do let d ← reg? d; let x ← parsePos? x; pure [.flip d x]
  | ["clear", d] => do let d ← reg? d; pure [.clear d]
  | ["and", d, a, b] => do let d ← reg? d; let a ← reg? a; let b ← reg? b; pure [.and d a b]
  | ["or", d, a, b] => do let d ← reg? d; let a ← reg? a; let b ← reg? b; pure [.or d a b]
  | ["xor", d, a, b] => do let d ← reg? d; let a ← reg? a; let b ← reg? b; pure [.xor d a b]
  | ["anda", d, s] => do let d ← reg? d; let s ← reg? s; pure [.andA d s]
  | ["ora", d, s] => do let d ← reg? d; let s ← reg? s; pure [.orA d s]
  | ["xora", d, s] => do let d ← reg? d; let s ← reg? s; pure [.xorA d s]
  | ["not", d, s] => do let d ← reg? d; let s ← reg? s; pure [.not d s]
  | ["clone", d, s] => do let d ← reg? d; let s ← reg? s; pure [.clone d s]
  | ["clonefrom", d, s] => do let d ← reg? d; let s ← reg? s; pure [.clone d s]
  | ["default", d] => do let d ← reg? d; pure [.new d]
  | ["obs", r] => do let r ← reg? r; pure [.obs r]
  | ["test", r, x] => do let r ← reg? r; let x ← parsePos? x; pure [.test r x]
  | ["load", d, ws] => do
      let d ← reg? d
      let ws ← parseWords? ws
      pure [.load d ws]
  | _ => none

def invalid : String := "M INVALID | S any"

/-- The capacities `N` for which the harness instantiates `Bitset<N>` (its `NS`): small scope, the 64-word boundary family, and
    (wave 4) the 256-word / 512-word boundary family 256, 257, 512, 513. -/
def capacities : List Nat := [1, 2, 3, 10, 63, 64, 65, 128, 129, 256, 257, 512, 513]

def handle (line : String) : String :=
  match splitOps line with
  | [] => badLine line
  | hdr :: opStrs =>
    match parseNats? (tokens hdr) with
    | some [n, k] =>
      -- the harness instantiates the const generic for exactly these capacities
      if ¬ (capacities.contains n) ∨ k = 0 ∨ k > 16 then invalid else
      match (opStrs.filter (· ≠ "")).mapM (fun s => parseOp? k (tokens s)) with
      | none => invalid
      | some opss =>
        let ops := opss.flatten
        -- `runCaseFast` / `specRunCaseFast` are `runCase` / `specRunCase` (theorem `Rlib.C12.fast_path_eq`; `history_observed_fast`): the
        -- same functions with the words of a register converted to an array once per observation (a 32832-bit register otherwise
        -- costs ~50 million list steps to observe)
        let m := match runCaseFast n k ops with
          | .ok o => showObs n o ++ " o=ok"
          | .error e => e.toString
        let s := if ops.all (Op.inDomain n k) then showObs n (specRunCaseFast n k ops) ++ " o=ok" else "any"
        s!"M {m} | S {s}"     -- view = raw result: the property fixes every observed value
    | _ => badLine line

def main : IO Unit := driverMain handle
