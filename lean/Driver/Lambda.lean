import RlibModel.Model.Lambda
/-!
Line-protocol driver for engine `lambda` (property C20).

One shape per line:   `<caps> <args> <ret> <call>`
  caps  `-` or `c0:m,c1:s,…`   (declared order; `m` = `&mut`, `s` = `&`)
  args  `-` or `a0,a1,…`
  ret   `noret` or `ret:<type without blanks>`
  call  `tc` (recursive calls written `f!(x, y,)`) or `ntc` (`f!(x, y)`)

Answer:  `M <wiring> | V <wiring> | S <wiring>` where
  M = the token munchers run rule by rule (`expandSteps`) and the local macro run on a call with one
      expression per argument (`callRun`: the two arms as matchers on the call's tokens);
  S = the closed form the theorems of Props/C20 prove it equal to (`specExpansion`), `any` outside the
      supported shapes (no argument, repeated names).
  wiring = `fn(a0,&c1,&mut c0)->T rec(c1,c0) clo(a0;a0;&c1,&mut c0) steps=N call=K` (`stuck` if no rule applies).
-/
open Rlib Rlib.Lambda

def showParam : Name × Kind → String
  | (n, .arg) => n
  | (n, .shared) => "&" ++ n
  | (n, .mutable) => "&mut " ++ n

def commaSep (xs : List String) : String := ",".intercalate xs

def showExpansion (e : Expansion) : String :=
  s!"fn({commaSep (e.params.map showParam)})->{e.ret} rec({commaSep (e.recCallTail.map (·.1))}) " ++
  s!"clo({commaSep e.closureParams};{commaSep e.closureCallArgs};{commaSep (e.closureCallTail.map showParam)})"

/-- Number of local-macro steps until `_lambda_name_(…)` is emitted for a call with the given expressions,
    and what is emitted (user expressions, appended names): the two arms run on the call's token stream. -/
def runCall (e : Expansion) (exprs : List String) (tc : Bool) : Option (Nat × List String × List String) :=
  (callRun e 3 0 (.inv (callToks exprs tc))).map fun r => (r.2.2, r.1, r.2.1.map (·.1))

def showCall (exprs : List String) : Option (Nat × List String × List String) → String
  | none => "call=stuck"
  | some (k, us, tail) =>
    if us = exprs then s!"call={k}:({commaSep (us ++ tail)})" else s!"call={k}:BAD({commaSep (us ++ tail)})"

def parseCaps (s : String) : Option (List (Name × Bool)) :=
  if s = "-" then some [] else
  (s.splitOn ",").mapM fun p =>
    match p.splitOn ":" with
    | [n, "m"] => if n = "" then none else some (n, true)
    | [n, "s"] => if n = "" then none else some (n, false)
    | _ => none

def parseArgs (s : String) : Option (List Name) :=
  if s = "-" then some [] else
  (s.splitOn ",").mapM fun p => if p = "" then none else some p

def parseRet (s : String) : Option (Option Ty) :=
  if s = "noret" then some none
  else if s.startsWith "ret:" then some (some (s.drop 4).toString)
  else none

def handle (line : String) : String :=
  match tokens line with
  | [c, a, r, call] =>
    match parseCaps c, parseArgs a, parseRet r, (if call = "tc" then some true else if call = "ntc" then some false else none) with
    | some caps, some args, some ret, some tc =>
      let inv : Inv := { caps := caps, args := args, ret := ret }
      let exprs := args.map (fun x => "e_" ++ x)
      let m :=
        match expandSteps inv with
        | none => "stuck"
        | some (e, n) => s!"{showExpansion e} steps={n} {showCall exprs (runCall e exprs tc)}"
      let s :=
        if Supported inv then
          let e := specExpansion inv
          s!"{showExpansion e} steps={caps.length + args.length + 2} call={if tc then 1 else 2}:({commaSep (exprs ++ (specTail caps).map (·.1))})"
        else "any"
      answer m s
    | _, _, _, _ => badLine line
  | _ => badLine line

/-! ## Running the semantic model on the `arith-i64` body template (second line kind)

`run <caps> <args> <ret> <call> init=<v,…> <in1> <in2> <in3>`: the body template 0 of tools/c20_gen.py (all values `i64`)
as an interaction tree, evaluated three times in a row (state carried over)
  M/V: by `closureG` over the expansion produced by the token munchers (`expandSteps`),
  S:   by the explicit recursion `evalE`;
printed like the generated Rust program prints its results (`r1;r2;r3;c0=…;c1=…;`, without the trace hash). -/

def w64 (z : Int) : Int := wrapS 64 z
def xor64 (a b : Int) : Int := w64 (Int.ofNat ((wrapU 64 a).toNat ^^^ (wrapU 64 b).toNat))

/-- read the names in order, then continue with their values -/
def readAll : List Name → (List Val → Body) → Body
  | [], k => k []
  | n :: ns, k => .read n fun v => readAll ns fun vs => k (v :: vs)

/-- `*c = f(*c)` for every listed mutable capture `(name, position)`, in order -/
def updAll : List (Name × Nat) → (Nat → Val → Val) → Body → Body
  | [], _, k => k
  | (c, i) :: rest, f, k => .read c fun cv => .write c (f i cv) (updAll rest f k)

def arithBody (inv : Inv) (tc : Bool) : Body :=
  let idx := (List.range inv.caps.length).zip inv.caps
  let shared := idx.filterMap fun (i, (n, m)) => if m then none else some (n, i)
  let muts := idx.filterMap fun (i, (n, m)) => if m then some (n, i) else none
  let hasRet := inv.ret.isSome
  readAll inv.args fun as =>
  readAll (shared.map (·.1)) fun cs =>
  let a0 := as.headD 0
  let last := as.getLastD 0
  let sh := (cs.zip (shared.map (·.2))).foldl (fun acc (c, i) => w64 (acc + w64 (c * (2 * (i : Int) + 3)))) 1
  let step31 (c v salt : Int) : Int := w64 (w64 (w64 (c * 31) + v) + salt)
  let rest := (as.drop 1).zip (List.range (as.length - 1))
  let rec1 : List Val := (a0 - 1) :: rest.map fun (a, k) => w64 (a + ((k : Int) + 1))
  let rec2 : List Val := (a0 - 2) :: rest.map fun (a, k) => xor64 (w64 (a * 3)) ((k : Int) + 1)
  let after (v : Int) (k : Body) : Body := updAll muts (fun i c => step31 c v (10 + (i : Int))) k
  updAll muts (fun i c => step31 c (xor64 a0 sh) ((i : Int) + 1)) <|
  if a0 ≤ 0 then .ret (if hasRet then w64 (sh + last) else 0)
  else if a0.tmod 3 = 0 then
    .call tc rec1 fun x =>
    if hasRet then after x (.ret (w64 (x + 1))) else after a0 (.ret 0)
  else
    .call tc rec1 fun x =>
    if hasRet then .call tc rec2 fun y => after (xor64 x y) (.ret (w64 (w64 (x * 7) + y)))
    else after (a0 + 1) (.call tc rec2 fun _ => .ret 0)

def storeOf (kv : List (Name × Val)) : Store := fun n => (kv.lookup n).getD 0

/-- call `f` on each input in turn, carrying the store; render like the Rust program -/
def runCalls (f : List Val → Store → Res) (hasRet : Bool) : List (List Val) → Store → String → Except Err (String × Store)
  | [], s, acc => .ok (acc, s)
  | i :: is, s, acc =>
    match f i s with
    | .error e => .error e
    | .ok (v, s') => runCalls f hasRet is s' (acc ++ (if hasRet then toString v else "()") ++ ";")

def showErr : Err → String
  | .fuel => "fuel" | .unbound n => s!"unbound:{n}" | .notMutable n => s!"notMutable:{n}"
  | .arity => "arity" | .kind n => s!"kind:{n}" | .noRule => "noRule"

def showRun (caps : List (Name × Bool)) : Except Err (String × Store) → String
  | .error e => "error:" ++ showErr e
  | .ok (acc, s) => acc ++ String.join (caps.map fun (n, _) => s!"{n}={s n};")

def handleRun (line : String) (c a r call ini : String) (ins : List String) : String :=
  match parseCaps c, parseArgs a, parseRet r, (if ini.startsWith "init=" then parseIntsComma? (ini.drop 5).toString else none),
        ins.mapM parseIntsComma? with
  | some caps, some args, some ret, some inits, some inputs =>
    if call ≠ "tc" ∧ call ≠ "ntc" then badLine line else
    let inv : Inv := { caps := caps, args := args, ret := ret }
    let body := arithBody inv (call = "tc")
    let s0 := storeOf ((caps.map (·.1)).zip inits)
    let spec := showRun caps (runCalls (evalE inv body 64) ret.isSome inputs s0 "")
    let m :=
      match expandSteps inv with
      | none => "stuck"
      | some (e, _) => showRun caps (runCalls (closureG e body 64) ret.isSome inputs s0 "")
    answer m (if Supported inv then spec else "any")
  | _, _, _, _, _ => badLine line

/-! ## Name resolution (third line kind)

`names <hidden> <caps> <args> <ret> <call> locals=<l,…|-> uses=<u,…>`: `hidden` = the name of the inner fn as read from the REAL
expansion of the instance; `uses` = identifiers the body uses as values, `locals` = its `let`s.
  M/V: what every used name (and the callee `call` of a recursive call) denotes in the generated code (`resolveG`/`resolveCallG`
       over the munchers' expansion), S: what it denotes in the explicit recursion (`resolveE`; the callee must be the hidden fn).
Here V ≠ S is a result, not a driver bug: it says the real hidden-fn name captures (or is captured by) a name of the program. -/

def showEnt : Ent → String
  | .loc _ => "let" | .param _ => "param" | .hiddenFn => "hidden" | .outer _ => "outer"

def parseNameList (pref s : String) : Option (List Name) :=
  if s.startsWith pref then
    let r := (s.drop pref.length).toString
    if r = "-" then some [] else (r.splitOn ",").mapM fun p => if p = "" then none else some p
  else none

def handleNames (line : String) (hidden c a r call ls us : String) : String :=
  match parseCaps c, parseArgs a, parseRet r, parseNameList "locals=" ls, parseNameList "uses=" us with
  | some caps, some args, some ret, some locals, some uses =>
    if call ≠ "tc" ∧ call ≠ "ntc" ∨ hidden = "" then badLine line else
    let inv : Inv := { caps := caps, args := args, ret := ret }
    let spec := commaSep (uses.map fun u => s!"{u}>{showEnt (resolveE inv locals u)}") ++ ",call>hidden"
    let m :=
      match expandSteps inv with
      | none => "stuck"
      | some (e, _) =>
        commaSep (uses.map fun u => s!"{u}>{showEnt (resolveG hidden e locals u)}") ++ s!",call>{showEnt (resolveCallG hidden e hidden)}"
    answer m (if Supported inv then spec else "any")
  | _, _, _, _, _ => badLine line

/-! ## Histories (fourth line kind): the long-running instances of tools/c20_gen.py, first `n` outer calls

`hist <caps> <args> <ret> <call> init=<v,…|-> n=<N>`: the body template `exits-i64` (its exit forms `ret`/`brk`/`lop`/`tail` differ in
syntax only: one interaction tree, the exits are `ret` nodes in the middle of the tree) and the outer loop of a `many` instance: outer
call number `i` has the arguments `i & 3, i % 7 - 3, (i % 5) * 2 - 4, (i & 15) - 8` (as many as the shape has), the results are folded
into `acc = acc * 1000003 + v` (wrapping) and `acc` is printed whenever the number of calls made is a power of two.
  M/V: `histG` (the generated closure over the munchers' expansion), S: `histE` (explicit recursion). -/

def exitsBody (inv : Inv) (tc : Bool) : Body :=
  let idx := (List.range inv.caps.length).zip inv.caps
  let shared := idx.filterMap fun (i, (n, m)) => if m then none else some (n, i)
  let muts := idx.filterMap fun (i, (n, m)) => if m then some (n, i) else none
  let hasRet := inv.ret.isSome
  readAll inv.args fun as =>
  readAll (shared.map (·.1)) fun cs =>
  let a0 := as.headD 0
  let last := as.getLastD 0
  let sh := (cs.zip (shared.map (·.2))).foldl (fun acc (c, i) => w64 (acc + w64 (c * (2 * (i : Int) + 3)))) 1
  let step31 (c v salt : Int) : Int := w64 (w64 (w64 (c * 31) + v) + salt)
  let rest := (as.drop 1).zip (List.range (as.length - 1))
  let rec1 : List Val := (a0 - 1) :: rest.map fun (a, k) => w64 (a + ((k : Int) + 1))
  let rec2 : List Val := (a0 - 2) :: rest.map fun (a, k) => xor64 (w64 (a * 3)) ((k : Int) + 1)
  let after (v : Int) (k : Body) : Body := updAll muts (fun i c => step31 c v (10 + (i : Int))) k
  updAll muts (fun i c => step31 c (xor64 a0 sh) ((i : Int) + 1)) <|
  readAll (muts.map (·.1)) fun ms =>
  let mu := ms.foldl (fun acc m => w64 (acc + m)) 0
  let b := w64 (w64 (sh + last) + mu)
  if a0 ≤ 0 then .ret (if hasRet then b else 0)                                    -- early exit 1
  else if a0 > 3 ∨ a0 % 2 = 1 then
    .call tc rec1 fun x =>
    if hasRet then after x (.ret (w64 (x + 1))) else after a0 (.ret 0)             -- early exit 2
  else
    .call tc rec1 fun x =>
    if hasRet then .call tc rec2 fun y => after (xor64 x y) (.ret (w64 (w64 (x * 7) + y)))
    else after (a0 + 1) (.call tc rec2 fun _ => .ret 0)

def soakArgs (nargs : Nat) (i : Nat) : List Val :=
  let j : Int := i
  [j % 4, j % 7 - 3, (j % 5) * 2 - 4, j % 16 - 8].take nargs

def isPow2 (n : Nat) : Bool := n > 0 && (n &&& (n - 1)) == 0

/-- the checkpoints `1:acc;2:acc;4:acc;…` of the accumulator over the results -/
def checkpoints (hasRet : Bool) (rs : List Val) : String :=
  let (_, _, out) := rs.foldl (fun (st : Int × Nat × String) v =>
    let (acc, i, out) := st
    let acc' := w64 (w64 (acc * 1000003) + (if hasRet then v else 0))
    (acc', i + 1, if isPow2 (i + 1) then out ++ s!"{i + 1}:{acc'};" else out)) (0, 0, "")
  out

def showHist (hasRet : Bool) : Except Err (List Val × Store) → String
  | .error e => "error:" ++ showErr e
  | .ok (rs, _) => checkpoints hasRet rs

def handleHist (line : String) (c a r call ini ns : String) : String :=
  match parseCaps c, parseArgs a, parseRet r, (if ini.startsWith "init=" then parseIntsComma? (ini.drop 5).toString else none),
        (if ns.startsWith "n=" then (ns.drop 2).toString.toNat? else none) with
  | some caps, some args, some ret, some inits, some n =>
    if call ≠ "tc" ∧ call ≠ "ntc" then badLine line else
    let inv : Inv := { caps := caps, args := args, ret := ret }
    let live : List Live := [{ inv := inv, body := exitsBody inv (call = "tc"), fuel := 64 }]
    let evs : List Event := (List.range n).map fun i => (0, soakArgs args.length i)
    let s0 := storeOf ((caps.map (·.1)).zip inits)
    answer (showHist ret.isSome (histG live evs s0)) (if Supported inv then showHist ret.isSome (histE live evs s0) else "any")
  | _, _, _, _, _ => badLine line

def handleAny (line : String) : String :=
  match tokens line with
  | "run" :: c :: a :: r :: call :: ini :: ins => handleRun line c a r call ini ins
  | ["hist", c, a, r, call, ini, ns] => handleHist line c a r call ini ns
  | ["names", hidden, c, a, r, call, ls, us] => handleNames line hidden c a r call ls us
  | _ => handle line

def main : IO Unit := driverMain handleAny
