import RlibModel.Model.SegtreeItems
/-!
Line-protocol driver for engine `segtree` (properties C01, C02).

Case line:  `<item> <ctor> <n> <v…> ; op ; op ; …`      or      `const <type>`
  item  min | max | sum | minadd | maxadd | sumadd | mm | smm | aff | aa | str | flipz | flipb | ap | apap
        (ap = the harness's add-an-arithmetic-progression item, whose `push` treats its children differently; the element at
        index `i` has position `i`; modifier `from a d`; apap = Combinator<Ap,Ap>; both run with the guard `apGuard`)
        (mm = Combinator<MinAdd,MaxAdd>, smm = Combinator<Combinator<SumAdd,MinAdd>,MaxAdd>, aa = Combinator<AffHash,AffHash>)
        the eight integer items also as `<item>:<type>` (`minadd:u8`, `mm:u32`, `min:u64`, …): the item at that element type,
        run together with the overflow guard (`guardItem`); without a suffix: `i64`, moderate magnitudes, no guard.
        A guarded history on which any `+`/`*`/`+=` of the code would leave the element type is outside the property's
        domain: the whole line gets `S any`.
        `sum:cat`: `Sum<Cat>`, `Cat` = a string type whose `+` is concatenation (associative, not commutative);
        `min|max|minadd|maxadd|mm:rec`: the element type is the harness's record `Rec { key, tag }` ordered by `key` only (value
        token `key/tag`); `min|max|sum|minadd|maxadd|sumadd|mm:f64|f32`: floats — under `min`/`max` any non-NaN bit pattern
        (value token = the bits, decimal), under the other items integer-valued floats in the range where `+` is exact
        (value token = the integer).  Float results are printed and compared as bit patterns.
  `const <type>`: the trait constants `<T as MinMax>::MIN`, `MAX`, `<T as ZeroOne>::ZERO`, `ONE` against the model's
        `IntTy.minVal`, `IntTy.maxVal`, 0, 1 (all twelve integer types); for `f64` / `f32` as bit patterns
  value `v`, or `v@md` (`x@a:b` for aff/aa, `w@k:c` for str, `v@ta:td` for ap): an element that carries a pending modifier of its own;
        `_` = `Default::default()` as an element (the empty slot: `SumAdd { len: 0 }`, the empty string, …); `v#len[@md]` for
        sumadd / smm: a `SumAdd` element of length `len` (0 = empty slot, 2, 3 = weighted element);
        `* v1 … vk` in place of the `n` constructor values: `v1 … vk` repeated cyclically (large trees)
  ctor  new (one value) | slice | iter | iterp | iterr (n values; `iterp` / `iterr`: `from_iter` on a partially consumed /
        a reversed `ExactSizeIterator` that yields exactly these values)
  op    set i v | mod l r <modifier> | ask l r | lb l <pred> | lbr r <pred> | dbg | dfl (`Default::default()`)
        nlb l <pred> | nlbr r <pred>  (= lb / lbr for the model; the harness makes the predicate re-entrant)
        | cp i l r (`set(i, ask(l, r))`: a value the API returned is fed back)
        | x i l r  (`other.set(i, this.ask(l, r))`: into the SECOND tree, built by the same constructor from the same values
          plus the first value once more — one element longer)
        | y slice|iter|new (the second tree is REBUILT from values read back from this one: `from_slice` / `from_iter` of
          the `n` single-element asks, `new(n, ask(0, n-1))`)
        any op prefixed with `b` acts on the second tree (`b x i l r` transfers from the second tree into the first)
Answer: constructor result and one answer per op, joined by ` ; `:
  raw   `{:?}` of the returned item / `some i`|`none` + the probe log / the `debug()` string
  view  observable value of an `ask`; for a search: answer (`nm` when the predicate is not monotone on the current
        contents: outside C02's domain), the observable values of all probes in call order, `P`;
        `ood` for `set`/`mod`/`ask` outside `0 ≤ l ≤ r < n` (the property says nothing there; the model's panic is in raw)
  spec  the plain-list specification's answer in the format of the view; for the probes: the aggregates of the
        ranges `[l, k]` (`[k, r]`) of the plain list at the model's ghost indices `k`
-/
open Rlib Rlib.Segtree

structure ItemIO (T M A : Type) where
  item : Item T M A
  parseVal : String → Option T
  parseMod : List String → Option M
  parsePred : List String → Option (A → Bool)
  dbg : T → String
  showA : A → String
  /-- overflow flag of a value (`guardItem`); constantly `true` for the unguarded items -/
  ok : T → Bool
  guarded : Bool

/-- items whose elements do not know their position: `place` does nothing -/
def noPlace {T : Type} : Nat → T → T := fun _ x => x

section generic
/- `place i x`: the element `x` as it is stored at index `i` (only the positional item `ap` uses it: the element's
   position is its index; all other items: `noPlace`) -/
variable {T M A : Type} (io : ItemIO T M A) (place : Nat → T → T)

/-- an element token: `_` is `Default::default()` (the "empty slot" element: `SumAdd { len: 0 }`, the empty string, …),
    anything else is the item's own value syntax -/
def parseElem (tok : String) : Option T := if tok == "_" then some io.item.dflt else io.parseVal tok

def showIdx (o : Option Nat) : String := showOpt toString o

def dbgList (xs : List T) : String := "[" ++ ", ".intercalate (xs.map io.dbg) ++ "]"

/-- `(raw, view, spec, new model state, new spec state, no returned value carries an overflow flag)`;
    `none` = malformed / outside the protocol -/
def stepOp (s : Seg T) (xs : List T) (toks : List String) : Option (String × String × String × Seg T × List T × Bool) :=
  let I := io.item
  match toks with
  | ["set", i, v] =>
    match parseNat? i, parseElem io v with
    | some i, some v0 =>
      let v := place i v0
      -- outside 0 ≤ i < n the property says nothing: view and spec are `ood`, the model's panic stays in raw
      let sp := match Spec.set xs i v with
        | .ok xs' => (".", xs')
        | .error _ => ("ood", xs)
      match s.set I i v with
      | .ok s' => some (".", sp.1, sp.1, s', sp.2, true)
      | .error e => some (e.toString, sp.1, sp.1, s, sp.2, true)
    | _, _ => none
  | "mod" :: l :: r :: mt =>
    match parseNat? l, parseNat? r, io.parseMod mt with
    | some l, some r, some m =>
      let sp := match Spec.modify I xs l r m with
        | .ok xs' => (".", xs')
        | .error _ => ("ood", xs)
      match s.modify I l r m with
      | .ok s' => some (".", sp.1, sp.1, s', sp.2, true)
      | .error e => some (e.toString, sp.1, sp.1, s, sp.2, true)
    | _, _, _ => none
  | ["ask", l, r] =>
    match parseNat? l, parseNat? r with
    | some l, some r =>
      match Spec.ask I xs l r with
      | .ok a =>
        match s.ask I l r with
        | .ok (x, s') => some (io.dbg x, io.showA (I.val x), io.showA a, s', xs, io.ok x)
        | .error e => some (e.toString, e.toString, io.showA a, s, xs, true)
      | .error _ =>
        match s.ask I l r with
        | .ok (x, s') => some (io.dbg x, "ood", "ood", s', xs, io.ok x)
        | .error e => some (e.toString, "ood", "ood", s, xs, true)
    | _, _ => none
  | "lb" :: l :: pt =>
    match parseNat? l, io.parsePred pt with
    | some l, some g =>
      if l < s.n then
        let f := fun x => g (I.val x)
        let q := s.lowerBound I l f
        let raw := showIdx q.1 ++ " " ++ dbgList io (q.2.1.map (·.2))
        -- view: the observable values of the model's probes; spec: the aggregates of the ranges `[l, k]` of the plain
        -- list the theorem `probes_are_ranges` promises (k = ghost index of the probe)
        let pv := showListWith io.showA (q.2.1.map fun kp => I.val kp.2)
        let ps := showListWith io.showA (q.2.1.map fun kp => I.val (Spec.aggFwd I xs l kp.1))
        let mono := Spec.monoFwd I xs l f
        some (raw, (if mono then showIdx q.1 else "nm") ++ " " ++ pv ++ (if pv == ps then " P" else " p!"),
              (if mono then showIdx (Spec.first I xs l f) else "nm") ++ " " ++ ps ++ " P", q.2.2, xs,
              q.2.1.all fun kp => io.ok kp.2)
      else none
    | _, _ => none
  | "lbr" :: r :: pt =>
    match parseNat? r, io.parsePred pt with
    | some r, some g =>
      if r < s.n then
        let f := fun x => g (I.val x)
        let q := s.lowerBoundRev I r f
        let raw := showIdx q.1 ++ " " ++ dbgList io (q.2.1.map (·.2))
        let pv := showListWith io.showA (q.2.1.map fun kp => I.val kp.2)
        let ps := showListWith io.showA (q.2.1.map fun kp => I.val (Spec.aggBwd I xs kp.1 r))
        let mono := Spec.monoBwd I xs r f
        some (raw, (if mono then showIdx q.1 else "nm") ++ " " ++ pv ++ (if pv == ps then " P" else " p!"),
              (if mono then showIdx (Spec.last I xs r f) else "nm") ++ " " ++ ps ++ " P", q.2.2, xs,
              q.2.1.all fun kp => io.ok kp.2)
      else none
    | _, _ => none
  | ["dbg"] =>
    let q := s.debug I
    -- the harness obtains the observable values by a second round of single-element asks; so does the model
    let q2 := q.2.debug I
    some (dbgList io q.1, showListWith io.showA (q2.1.map I.val), showListWith io.showA (xs.map I.val), q2.2, xs,
          q.1.all io.ok && q2.1.all io.ok)
  | ["dfl"] =>
    -- `Default::default()`: the seed of the boundary searches (C02: an identity of `merge` on the elements present)
    some (io.dbg I.dflt, io.showA (I.val I.dflt), io.showA (I.val I.dflt), s, xs, true)
  | _ => none

/-- `dst.set(i, src.ask(l, r))` (`same`: `dst` is `src` itself).  As a history this is `ask l r` on the source followed by
    `set i x` on the destination, `x` being the item the model's `ask` returned (`C01.transfer_refines`); the plain-list
    side stores the same `x` and answers with its own left-to-right fold.
    `(raw, view, spec, src', xsS', dst', xsD', ok)`; with `same` the last pair is the other tree, untouched -/
def xferOp (same : Bool) (src : Seg T) (xsS : List T) (dst : Seg T) (xsD : List T) (i l r : Nat) :
    String × String × String × Seg T × List T × Seg T × List T × Bool :=
  let I := io.item
  match src.ask I l r with
  | .error e => (e.toString, "ood", "ood", src, xsS, dst, xsD, true)
  | .ok (x, src') =>
    let d0 := if same then src' else dst
    let xd0 := if same then xsS else xsD
    match d0.set I i x, Spec.set xd0 i x, Spec.ask I xsS l r with
    | .ok d', .ok xd', .ok a =>
      if same then (io.dbg x ++ " .", io.showA (I.val x), io.showA a, d', xd', dst, xsD, io.ok x)
      else (io.dbg x ++ " .", io.showA (I.val x), io.showA a, src', xsS, d', xd', io.ok x)
    | .ok d', _, _ =>
      if same then (io.dbg x ++ " .", "ood", "ood", d', xd0, dst, xsD, io.ok x)
      else (io.dbg x ++ " .", "ood", "ood", src', xsS, d', xd0, io.ok x)
    | .error e, _, _ =>
      if same then (io.dbg x ++ " " ++ e.toString, "ood", "ood", src', xsS, dst, xsD, io.ok x)
      else (io.dbg x ++ " " ++ e.toString, "ood", "ood", src', xsS, dst, xsD, io.ok x)

/-- `y slice | iter | new`: the OTHER tree is rebuilt from values read back from this one — `from_slice` / `from_iter` of the
    `n` single-element asks, or `new(n, ask(0, n-1))`.  The plain-list side of the rebuilt tree is the list of the items the
    model read (`C01.rebuild_refines`); the printed specification is the source's plain list.
    `(raw, view, spec, src', dst', xsD', ok)`; `none` = malformed -/
def rebuildOp (src : Seg T) (xsS : List T) (c : String) : Option (String × String × String × Seg T × Seg T × List T × Bool) :=
  let I := io.item
  if c == "new" then
    match src.ask I 0 (src.n - 1), Spec.ask I xsS 0 (src.n - 1) with
    | .ok (x, src'), .ok a =>
      match Seg.new I src.n x with
      | .ok d => some (io.dbg x, io.showA (I.val x), io.showA a, src', d, List.replicate src.n x, io.ok x)
      | .error _ => none
    | _, _ => none
  else
    let q := src.debug I
    let built := if c == "slice" then some (Seg.fromSlice I q.1) else if c == "iter" then some (Seg.fromIter I q.1) else none
    match built with
    | some (.ok d) =>
      some (dbgList io q.1, showListWith io.showA (q.1.map I.val), showListWith io.showA (xsS.map I.val), q.2, d, q.1, q.1.all io.ok)
    | _ => none

/-- no node of the model tree carries an overflow flag (always `true` for the unguarded items) -/
def treeOk (s : Seg T) : Bool := !io.guarded || s.t.all io.ok

/-- the last component: the history stayed inside the element type (no overflow flag in the tree after any operation,
    none on any returned value).  Two trees `(s, xs)` and `(s2, xs2)`; an op prefixed with `b` acts on the second. -/
def runOps (s : Seg T) (xs : List T) (s2 : Seg T) (xs2 : List T) : List String → List String → List String → List String → Bool →
    Option (List String × List String × List String × Bool)
  | [], rs, vs, ss, ok => some (rs.reverse, vs.reverse, ss.reverse, ok)
  | o :: os, rs, vs, ss, ok =>
    let toks := tokens o
    let sel := toks.head? == some "b"
    let toks := if sel then toks.drop 1 else toks
    -- `nlb` / `nlbr`: the harness runs the same search with a re-entrant predicate (at every probe it calls into other
    -- live trees before answering); nothing of that may show: to the model it is the plain search
    let toks := match toks with
      | "nlb" :: t => "lb" :: t
      | "nlbr" :: t => "lbr" :: t
      | _ => toks
    -- `(a, xa)` = the tree the op addresses, `(b, xb)` = the other one
    let a := if sel then s2 else s
    let xa := if sel then xs2 else xs
    let b := if sel then s else s2
    let xb := if sel then xs else xs2
    let res : Option (String × String × String × Seg T × List T × Seg T × List T × Bool) :=
      match toks with
      | [kind, i, l, r] =>
        if kind == "cp" || kind == "x" then
          match parseNat? i, parseNat? l, parseNat? r with
          | some i, some l, some r => some (xferOp io (kind == "cp") a xa b xb i l r)
          | _, _, _ => none
        else (stepOp io place a xa toks).map fun q => (q.1, q.2.1, q.2.2.1, q.2.2.2.1, q.2.2.2.2.1, b, xb, q.2.2.2.2.2)
      | ["y", c] => (rebuildOp io a xa c).map fun q => (q.1, q.2.1, q.2.2.1, q.2.2.2.1, xa, q.2.2.2.2.1, q.2.2.2.2.2.1, q.2.2.2.2.2.2)
      | _ => (stepOp io place a xa toks).map fun q => (q.1, q.2.1, q.2.2.1, q.2.2.2.1, q.2.2.2.2.1, b, xb, q.2.2.2.2.2)
    match res with
    | none => none
    | some (r, v, sp, a', xa', b', xb', ok') =>
      let ok'' := ok && ok' && treeOk io a' && treeOk io b'
      if sel then runOps b' xb' a' xa' os (r :: rs) (v :: vs) (sp :: ss) ok''
      else runOps a' xa' b' xb' os (r :: rs) (v :: vs) (sp :: ss) ok''

def invalid : String := answer3 "INVALID" "INVALID" "any"

def runCase (ctor : String) (vals : List String) (n : Nat) (ops : List String) : String :=
  let I := io.item
  -- `* v1 … vk` : the `n` values `v1 … vk v1 …` (cyclic; for the constructors that take `n` values) — large trees
  let cyc := vals.head? == some "*"
  let toks := if cyc then vals.drop 1 else vals
  match toks.mapM (parseElem io) with
  | none => invalid
  | some vs0 =>
    let arr := vs0.toArray
    let vs1 := if cyc && ctor != "new" && arr.size > 0 then (List.range n).filterMap fun i => arr[i % arr.size]? else vs0
    -- every element is stored at its index (`new`: one value for all positions)
    let vs := if ctor == "new" then vs1.map (place 0) else vs1.mapIdx place
    let built : Option (Except Panic (Seg T) × List T) :=
      match ctor, vs with
      | "new", [v] => some (Seg.new I n v, List.replicate n v)
      | "slice", vs => if vs.length = n then some (Seg.fromSlice I vs, vs) else none
      | "iter", vs => if vs.length = n then some (Seg.fromIter I vs, vs) else none
      -- `from_iter` on a partially consumed / a reversed `ExactSizeIterator` that yields exactly `vs`
      | "iterp", vs => if vs.length = n then some (Seg.fromIter I vs, vs) else none
      | "iterr", vs => if vs.length = n then some (Seg.fromIter I vs, vs) else none
      | _, _ => none
    match built with
    | none => invalid
    | some (.error e, _) =>
      -- the constructors are specified on n ≥ 1 only (and never fail there); the model mirrors the panic of the code
      answer3 e.toString e.toString "any"
    | some (.ok s, xs) =>
      -- the second live tree (only when the history addresses it): same constructor, one element longer (the first value
      -- once more)
      let two := ops.any fun o => match tokens o with
        | t :: _ => t == "b" || t == "x" || t == "y"
        | [] => false
      let second : Option (Seg T × List T) :=
        if !two then some (s, xs) else
        match ctor, vs with
        | "new", [v] => match Seg.new I (n + 1) v with
          | .ok s2 => some (s2, List.replicate (n + 1) v)
          | .error _ => none
        | "slice", v :: _ => match Seg.fromSlice I (vs ++ [place n v]) with
          | .ok s2 => some (s2, vs ++ [place n v])
          | .error _ => none
        | _, v :: _ => match Seg.fromIter I (vs ++ [place n v]) with
          | .ok s2 => some (s2, vs ++ [place n v])
          | .error _ => none
        | _, [] => none
      match second with
      | none => invalid
      | some (s2, xs2) =>
      match runOps io place s xs s2 xs2 ops ["ok"] ["ok"] ["ok"] (treeOk io s && treeOk io s2) with
      | none => invalid
      | some (rs, vs, ss, ok) =>
        -- a history on which the code's machine arithmetic would overflow is outside the property's domain
        answer3 (" ; ".intercalate rs) (" ; ".intercalate vs) (if ok then " ; ".intercalate ss else "any")

end generic

/-! ### the items of the harness -/

def parseWord (s : String) : Option (List Nat) :=
  if s.isEmpty then none else
  s.toList.mapM fun c => if 'a' ≤ c ∧ c ≤ 'z' then some (c.toNat - 97) else none

def showWord (s : List Nat) : String := "\"" ++ letters s ++ "\""

def intPair : List String → Option (Int × Int)
  | [a, b] => match parseInt? a, parseInt? b with
    | some a, some b => some (a, b)
    | _, _ => none
  | _ => none

def natPair : List String → Option (Nat × Nat)
  | [a, b] => match parseNat? a, parseNat? b with
    | some a, some b => some (a, b)
    | _, _ => none
  | _ => none

def unitMod : List String → Option Unit
  | ["u"] => some ()
  | _ => none

def intMod : List String → Option Int
  | [m] => parseInt? m
  | _ => none

def predConst {A : Type} : List String → Option (A → Bool)
  | ["T"] => some fun _ => true
  | ["F"] => some fun _ => false
  | _ => none

def predMin : List String → Option (Int → Bool)
  | ["lt", c] => (parseInt? c).map fun c a => decide (a < c)
  | ts => predConst ts

def predMax : List String → Option (Int → Bool)
  | ["gt", c] => (parseInt? c).map fun c a => decide (a > c)
  | ts => predConst ts

def predSum : List String → Option (Int → Bool)
  | ["ge", c] => (parseInt? c).map fun c a => decide (a ≥ c)
  | ts => predConst ts

def predSumAdd : List String → Option (Int × Int → Bool)
  | ["ge", c] => (parseInt? c).map fun c a => decide (a.1 ≥ c)
  | ["len", c] => (parseInt? c).map fun c a => decide (a.2 ≥ c)
  | ts => predConst ts

def predMM : List String → Option (Int × Int → Bool)
  | ["lt", c] => (parseInt? c).map fun c a => decide (a.1 < c)
  | ["gt", c] => (parseInt? c).map fun c a => decide (a.2 > c)
  | ["spread", c] => (parseInt? c).map fun c a => decide (a.2 - a.1 ≥ c)
  | ts => predConst ts

def predSMM : List String → Option (((Int × Int) × Int) × Int → Bool)
  | ["ge", c] => (parseInt? c).map fun c a => decide (a.1.1.1 ≥ c)
  | ["len", c] => (parseInt? c).map fun c a => decide (a.1.1.2 ≥ c)
  | ["lt", c] => (parseInt? c).map fun c a => decide (a.1.2 < c)
  | ["gt", c] => (parseInt? c).map fun c a => decide (a.2 > c)
  | ts => predConst ts

/-- `(hash, B^k)` of every prefix of `w` (the empty one included) -/
def affPrefixes (w : List Int) : List (Int × Int) :=
  let step := fun (acc : (Int × Int) × List (Int × Int)) (x : Int) =>
    let h := (acc.1.1 * hashB + x % hashP) % hashP
    let pw := (acc.1.2 * hashB) % hashP
    ((h, pw), (h, pw) :: acc.2)
  (w.foldl step ((0, 1), [(0, 1)])).2

/-- `(hash, B^k)` of every suffix of `w` (the empty one included) -/
def affSuffixes (w : List Int) : List (Int × Int) :=
  let step := fun (x : Int) (acc : (Int × Int) × List (Int × Int)) =>
    let h := (x % hashP * acc.1.2 + acc.1.1) % hashP
    let pw := (acc.1.2 * hashB) % hashP
    ((h, pw), (h, pw) :: acc.2)
  (w.foldr step ((0, 1), [(0, 1)])).2

def predAff : List String → Option (Int × Int × Int → Bool)
  | ["npre", w] => (parseIntsComma? w).map fun w =>
      let ps := affPrefixes w
      fun a => !(ps.any fun p => p.1 == a.1 && p.2 == a.2.1)
  | ["nsuf", w] => (parseIntsComma? w).map fun w =>
      let ps := affSuffixes w
      fun a => !(ps.any fun p => p.1 == a.1 && p.2 == a.2.1)
  | ts => predConst ts

def predStr : List String → Option (List Nat → Bool)
  | ["npre", w] => (parseWord w).map fun w a => !(a.isPrefixOf w)
  | ["nsuf", w] => (parseWord w).map fun w a => !(a.isSuffixOf w)
  | ["slen", c] => (parseNat? c).map fun c a => decide (a.length ≥ c)
  | ts => predConst ts

def showPairI (a : Int × Int) : String := s!"({a.1},{a.2})"

/-- `v` or `v@md` -/
def intVal? (s : String) : Option (Int × Int) :=
  match s.splitOn "@" with
  | [v] => (parseInt? v).map fun v => (v, 0)
  | [v, m] => match parseInt? v, parseInt? m with
    | some v, some m => some (v, m)
    | _, _ => none
  | _ => none

/-- `v`, `v@md`, `v#len`, `v#len@md`: a `SumAdd` element `(v, len, md)`; `len` defaults to 1 (what `SumAdd::new` gives), `#0` is an
    empty slot, `#2`, `#3` a weighted element (the fields are public) -/
def sumAddVal? (s : String) : Option (Int × Int × Int) :=
  match s.splitOn "@" with
  | [vl] => match vl.splitOn "#" with
    | [v] => (parseInt? v).map fun v => (v, 1, 0)
    | [v, k] => match parseInt? v, parseNat? k with
      | some v, some k => some (v, (k : Int), 0)
      | _, _ => none
    | _ => none
  | [vl, m] => match vl.splitOn "#", parseInt? m with
    | [v], some m => (parseInt? v).map fun v => (v, 1, m)
    | [v, k], some m => match parseInt? v, parseNat? k with
      | some v, some k => some (v, (k : Int), m)
      | _, _ => none
    | _, _ => none
  | _ => none

/-- `v` only (items without a modifier field) -/
def plainVal? (s : String) : Option Int := if s.contains '@' then none else parseInt? s

/-- `x` or `x@a:b` -/
def affVal? (s : String) : Option (Int × Option (Int × Int)) :=
  match s.splitOn "@" with
  | [x] => (parseInt? x).map fun x => (x, none)
  | [x, m] => match parseInt? x, intPair (m.splitOn ":") with
    | some x, some ab => some (x, some ab)
    | _, _ => none
  | _ => none

def affElem (x : Int) (md : Option (Int × Int)) : AffHash := ⟨x % hashP, hashB, 1, md⟩

/-- `w` or `w@k:c` -/
def strVal? (s : String) : Option StrCat :=
  match s.splitOn "@" with
  | [w] => (parseWord w).map fun w => ⟨w, none⟩
  | [w, m] => match parseWord w, natPair (m.splitOn ":") with
    | some w, some kc => some ⟨w, some kc⟩
    | _, _ => none
  | _ => none

def affNotIn (ps : List (Int × Int)) (h pw : Int) : Bool := !(ps.any fun p => p.1 == h && p.2 == pw)

def predAA : List String → Option ((Int × Int × Int) × (Int × Int × Int) → Bool)
  | ["npre0", w] => (parseIntsComma? w).map fun w => let ps := affPrefixes w; fun a => affNotIn ps a.1.1 a.1.2.1
  | ["nsuf0", w] => (parseIntsComma? w).map fun w => let ps := affSuffixes w; fun a => affNotIn ps a.1.1 a.1.2.1
  | ["npre1", w] => (parseIntsComma? w).map fun w => let ps := affPrefixes w; fun a => affNotIn ps a.2.1 a.2.2.1
  | ["nsuf1", w] => (parseIntsComma? w).map fun w => let ps := affSuffixes w; fun a => affNotIn ps a.2.1 a.2.2.1
  | ts => predConst ts

def showAff (a : Int × Int × Int) : String := s!"({a.1},{a.2.1},{a.2.2})"

def okAll {T : Type} : T → Bool := fun _ => true

def ioMin (ty : IntTy) : ItemIO MinI Unit Int :=
  ⟨minItem ty, fun s => (plainVal? s).map MinI.mk, unitMod, predMin, MinI.dbg, toString, okAll, false⟩
def ioMax (ty : IntTy) : ItemIO MaxI Unit Int :=
  ⟨maxItem ty, fun s => (plainVal? s).map MaxI.mk, unitMod, predMax, MaxI.dbg, toString, okAll, false⟩
def ioSum : ItemIO SumI Unit Int :=
  ⟨sumItem, fun s => (plainVal? s).map SumI.mk, unitMod, predSum, SumI.dbg, toString, okAll, false⟩
def ioMinAdd (ty : IntTy) : ItemIO MinAdd Int Int :=
  ⟨minAddItem ty, fun s => (intVal? s).map fun v => ⟨v.1, v.2⟩, intMod, predMin, MinAdd.dbg, toString, okAll, false⟩
def ioMaxAdd (ty : IntTy) : ItemIO MaxAdd Int Int :=
  ⟨maxAddItem ty, fun s => (intVal? s).map fun v => ⟨v.1, v.2⟩, intMod, predMax, MaxAdd.dbg, toString, okAll, false⟩
def ioSumAdd : ItemIO SumAdd Int (Int × Int) :=
  ⟨sumAddItem, fun s => (sumAddVal? s).map fun v => ⟨v.1, v.2.1, v.2.2⟩, intMod, predSumAdd, SumAdd.dbg, showPairI, okAll, false⟩
def ioMM (ty : IntTy) : ItemIO (MinAdd × MaxAdd) Int (Int × Int) :=
  ⟨prodItem (minAddItem ty) (maxAddItem ty), fun s => (intVal? s).map fun v => (⟨v.1, v.2⟩, ⟨v.1, v.2⟩), intMod, predMM,
   combDbg MinAdd.dbg MaxAdd.dbg, showPairI, okAll, false⟩
def ioSMM (ty : IntTy) : ItemIO ((SumAdd × MinAdd) × MaxAdd) Int (((Int × Int) × Int) × Int) :=
  ⟨prodItem (prodItem sumAddItem (minAddItem ty)) (maxAddItem ty),
   fun s => (sumAddVal? s).map fun v => ((⟨v.1, v.2.1, v.2.2⟩, ⟨v.1, v.2.2⟩), ⟨v.1, v.2.2⟩), intMod, predSMM,
   combDbg (combDbg SumAdd.dbg MinAdd.dbg) MaxAdd.dbg,
   fun a => s!"(({showPairI a.1.1},{a.1.2}),{a.2})", okAll, false⟩

/-- the item at a narrow / unsigned element type: the same item run together with the overflow guard `G`; values and
    modifiers must be representable in the type (`fitsV`, `fitsM`; otherwise the token is malformed, as for the harness) -/
def guardIO {T M A : Type} (io : ItemIO T M A) (G : Guard T M) (fitsV : T → Bool) (fitsM : M → Bool) : ItemIO (T × Bool) M A :=
  ⟨guardItem io.item G,
   fun s => (io.parseVal s).bind fun v => if fitsV v then some (v, true) else none,
   fun ts => (io.parseMod ts).bind fun m => if fitsM m then some m else none,
   io.parsePred, fun x => io.dbg x.1, io.showA, fun x => x.2, true⟩

def ioMinT (ty : IntTy) := guardIO (ioMin ty) noGuard (fun x => ty.fits x.v) (fun _ => true)
def ioMaxT (ty : IntTy) := guardIO (ioMax ty) noGuard (fun x => ty.fits x.v) (fun _ => true)
def ioSumT (ty : IntTy) := guardIO ioSum (sumGuard ty) (fun x => ty.fits x.v) (fun _ => true)
def ioMinAddT (ty : IntTy) := guardIO (ioMinAdd ty) (minAddGuard ty) (fun x => ty.fits x.v && ty.fits x.md) ty.fits
def ioMaxAddT (ty : IntTy) := guardIO (ioMaxAdd ty) (maxAddGuard ty) (fun x => ty.fits x.v && ty.fits x.md) ty.fits
def ioSumAddT (ty : IntTy) := guardIO ioSumAdd (sumAddGuard ty) (fun x => ty.fits x.v && ty.fits x.len && ty.fits x.md) ty.fits
def ioMMT (ty : IntTy) := guardIO (ioMM ty) (prodGuard (minAddGuard ty) (maxAddGuard ty))
  (fun x => ty.fits x.1.v && ty.fits x.1.md) ty.fits
def ioSMMT (ty : IntTy) := guardIO (ioSMM ty) (prodGuard (prodGuard (sumAddGuard ty) (minAddGuard ty)) (maxAddGuard ty))
  (fun x => ty.fits x.2.v && ty.fits x.1.1.len && ty.fits x.2.md) ty.fits

/-! ### element types whose order ignores part of the value: the record `Rec { key, tag }`, floats -/

/-- `key/tag` -/
def recVal? (s : String) : Option KV :=
  match s.splitOn "/" with
  | [k, t] => match parseInt? k, parseInt? t with
    | some k, some t => some ⟨k, t⟩
    | _, _ => none
  | _ => none

/-- `key/tag` or `key/tag@key/tag` -/
def recLazy? (s : String) : Option KL :=
  match s.splitOn "@" with
  | [v] => (recVal? v).map fun v => ⟨v, kvZero⟩
  | [v, m] => match recVal? v, recVal? m with
    | some v, some m => some ⟨v, m⟩
    | _, _ => none
  | _ => none

def recMod : List String → Option KV
  | [m] => recVal? m
  | _ => none

def showRec (a : KV) : String := s!"({a.k},{a.t})"

def predMinK : List String → Option (KV → Bool)
  | ["lt", c] => (parseInt? c).map fun c a => decide (a.k < c)
  | ts => predConst ts

def predMaxK : List String → Option (KV → Bool)
  | ["gt", c] => (parseInt? c).map fun c a => decide (a.k > c)
  | ts => predConst ts

def predMMK : List String → Option (KV × KV → Bool)
  | ["lt", c] => (parseInt? c).map fun c a => decide (a.1.k < c)
  | ["gt", c] => (parseInt? c).map fun c a => decide (a.2.k > c)
  | ["spread", c] => (parseInt? c).map fun c a => decide (a.2.k - a.1.k ≥ c)
  | ts => predConst ts

/-- `<Rec as MinMax>::MAX` / `MIN` as the harness defines them -/
def recMax : KV := ⟨i64Max, 0⟩
def recMin : KV := ⟨i64Min, 0⟩

def klDbg (name : String) (sh : KV → String) (x : KL) : String := s!"{name} \{ v: {sh x.v}, md: {sh x.md} }"

def ioMinR : ItemIO KV Unit KV :=
  ⟨minKItem recMax, recVal?, unitMod, predMinK, fun x => s!"Min \{ v: {x.dbgRec} }", showRec, okAll, false⟩
def ioMaxR : ItemIO KV Unit KV :=
  ⟨maxKItem recMin, recVal?, unitMod, predMaxK, fun x => s!"Max \{ v: {x.dbgRec} }", showRec, okAll, false⟩
def ioMinAddR : ItemIO KL KV KV :=
  ⟨minAddKItem recMax, recLazy?, recMod, predMinK, klDbg "MinAdd" KV.dbgRec, showRec, okAll, false⟩
def ioMaxAddR : ItemIO KL KV KV :=
  ⟨maxAddKItem recMin, recLazy?, recMod, predMaxK, klDbg "MaxAdd" KV.dbgRec, showRec, okAll, false⟩
def ioMMR : ItemIO (KL × KL) KV (KV × KV) :=
  ⟨prodItem (minAddKItem recMax) (maxAddKItem recMin), fun s => (recLazy? s).map fun v => (v, v), recMod, predMMK,
   combDbg (klDbg "MinAdd" KV.dbgRec) (klDbg "MaxAdd" KV.dbgRec), fun a => s!"({showRec a.1},{showRec a.2})", okAll, false⟩

/-- a non-NaN bit pattern of the format (decimal) -/
def bitsVal? (f : FloatFmt) (s : String) : Option KV :=
  (parseNat? s).bind fun b => if f.valid b then some ⟨f.ordKey b, b⟩ else none

def predMinF (f : FloatFmt) : List String → Option (KV → Bool)
  | ["lt", c] => (bitsVal? f c).map fun c a => decide (a.k < c.k)
  | ts => predConst ts

def predMaxF (f : FloatFmt) : List String → Option (KV → Bool)
  | ["gt", c] => (bitsVal? f c).map fun c a => decide (a.k > c.k)
  | ts => predConst ts

def showBitsKV (a : KV) : String := toString a.t

/-- `Min<f64>` / `Max<f64>` (`f32`): any non-NaN values, `Default` = the type's `MAX` / `MIN` -/
def ioMinF (f : FloatFmt) : ItemIO KV Unit KV :=
  ⟨minKItem ⟨f.ordKey f.maxBits, f.maxBits⟩, bitsVal? f, unitMod, predMinF f, fun x => s!"Min \{ v: {x.t} }", showBitsKV, okAll, false⟩
def ioMaxF (f : FloatFmt) : ItemIO KV Unit KV :=
  ⟨maxKItem ⟨f.ordKey f.minBits, f.minBits⟩, bitsVal? f, unitMod, predMaxF f, fun x => s!"Max \{ v: {x.t} }", showBitsKV, okAll, false⟩

/-- integers on which the float `+` / `*` of the additive items is exact: `|z| < 2^(mbits+1)` -/
def exactInt (f : FloatFmt) (z : Int) : Bool := decide (z.natAbs < 2 ^ (f.mbits + 1))

/-- an integer-valued float as the model sees it; the bit pattern it is printed as (`t ≠ 0` never occurs: marked) -/
def showIntKV (f : FloatFmt) (a : KV) : String := if a.t = 0 then toString (f.ofInt a.k) else s!"{f.ofInt a.k}!"

def intKL? (f : FloatFmt) (s : String) : Option KL :=
  (intVal? s).bind fun v => if exactInt f v.1 && exactInt f v.2 then some ⟨⟨v.1, 0⟩, ⟨v.2, 0⟩⟩ else none

def intKVMod (f : FloatFmt) : List String → Option KV
  | [m] => (parseInt? m).bind fun m => if exactInt f m then some ⟨m, 0⟩ else none
  | _ => none

/-- a value of the model is inside the exact range (or is the `Default`, which no arithmetic ever touches) -/
def klExact (f : FloatFmt) (x : KL) : Bool := (exactInt f x.v.k || x.v.k.natAbs == f.maxInt.natAbs) && exactInt f x.md.k

def ioMinAddF (f : FloatFmt) : ItemIO KL KV KV :=
  ⟨minAddKItem ⟨f.maxInt, 0⟩, intKL? f, intKVMod f, predMinK, klDbg "MinAdd" (showIntKV f), showIntKV f, klExact f, true⟩
def ioMaxAddF (f : FloatFmt) : ItemIO KL KV KV :=
  ⟨maxAddKItem ⟨-f.maxInt, 0⟩, intKL? f, intKVMod f, predMaxK, klDbg "MaxAdd" (showIntKV f), showIntKV f, klExact f, true⟩
def ioMMF (f : FloatFmt) : ItemIO (KL × KL) KV (KV × KV) :=
  ⟨prodItem (minAddKItem ⟨f.maxInt, 0⟩) (maxAddKItem ⟨-f.maxInt, 0⟩), fun s => (intKL? f s).map fun v => (v, v), intKVMod f, predMMK,
   combDbg (klDbg "MinAdd" (showIntKV f)) (klDbg "MaxAdd" (showIntKV f)),
   fun a => s!"({showIntKV f a.1},{showIntKV f a.2})", fun x => klExact f x.1 && klExact f x.2, true⟩

def intModF (f : FloatFmt) : List String → Option Int
  | [m] => (parseInt? m).bind fun m => if exactInt f m then some m else none
  | _ => none

/-- `Sum<f64>` / `SumAdd<f64>` on integer-valued floats: the integer items, printed as bit patterns; a history that leaves
    the exact range is outside the domain (`S any`) -/
def ioSumF (f : FloatFmt) : ItemIO SumI Unit Int :=
  ⟨sumItem, fun s => (plainVal? s).bind fun v => if exactInt f v then some ⟨v⟩ else none, unitMod, predSum,
   fun x => s!"Sum \{ v: {f.ofInt x.v} }", fun a => toString (f.ofInt a), fun x => exactInt f x.v, true⟩
def ioSumAddF (f : FloatFmt) : ItemIO SumAdd Int (Int × Int) :=
  ⟨sumAddItem, fun s => (intVal? s).bind fun v => if exactInt f v.1 && exactInt f v.2 then some ⟨v.1, 1, v.2⟩ else none,
   intModF f, predSumAdd,
   fun x => s!"SumAdd \{ v: {f.ofInt x.v}, len: {f.ofInt x.len}, md: {f.ofInt x.md} }",
   fun a => s!"({f.ofInt a.1},{f.ofInt a.2})",
   -- every intermediate of `v + m * len` stays exact when the three fields and the product bound do
   fun x => exactInt f x.v && exactInt f x.len && exactInt f x.md && exactInt f (x.md * x.len), true⟩

/-- `Sum<Cat>`: `Cat` = the harness's string type whose `+` is concatenation (`{:?}` prints the quoted string) -/
def ioSumCat : ItemIO (List Nat) Unit (List Nat) :=
  ⟨catSumItem, fun s => if s.contains '@' then none else parseWord s, unitMod, predStr,
   fun x => s!"Sum \{ v: \"{letters x}\" }", showWord, okAll, false⟩

def floatFmt? : String → Option FloatFmt
  | "f64" => some f64Fmt
  | "f32" => some f32Fmt
  | _ => none

/-- `const f64` / `const f32`: `MinMax::MIN`, `MAX`, `ZeroOne::ZERO`, `ONE` as bit patterns -/
def constLineF (f : FloatFmt) : String :=
  let s := s!"{f.minBits} {f.maxBits} 0 {f.oneBits}"
  answer3 s s s

def ioAff : ItemIO AffHash (Int × Int) (Int × Int × Int) :=
  ⟨affHashItem, fun s => (affVal? s).map fun v => affElem v.1 v.2, intPair, predAff, AffHash.dbg, showAff, okAll, false⟩
def ioAA : ItemIO (AffHash × AffHash) (Int × Int) ((Int × Int × Int) × (Int × Int × Int)) :=
  ⟨prodItem affHashItem affHashItem, fun s => (affVal? s).map fun v => (affElem v.1 v.2, affElem (2 * v.1 + 1) v.2),
   intPair, predAA, combDbg AffHash.dbg AffHash.dbg, fun a => s!"({showAff a.1},{showAff a.2})", okAll, false⟩
/-- `0` / `1`, or `b@1` for an element that carries a pending flip of its own -/
def flipVal? (s : String) : Option Flip :=
  match intVal? s with
  | some (v, m) => if (v = 0 ∨ v = 1) ∧ (m = 0 ∨ m = 1) then some ⟨v, 1, m == 1⟩ else none
  | none => none

def predFlip : List String → Option (Int × Int → Bool)
  | ["ge", c] => (parseInt? c).map fun c a => decide (a.1 ≥ c)
  | ["zeros", c] => (parseInt? c).map fun c a => decide (a.2 - a.1 ≥ c)
  | ["len", c] => (parseInt? c).map fun c a => decide (a.2 ≥ c)
  | ts => predConst ts

def byteMod : List String → Option Nat
  | [m] => (parseNat? m).bind fun m => if m < 256 then some m else none
  | _ => none

def ioFlipZ : ItemIO Flip Unit (Int × Int) :=
  ⟨flipZItem, flipVal?, unitMod, predFlip, Flip.dbg "FlipZ", showPairI, okAll, false⟩
def ioFlipB : ItemIO Flip Nat (Int × Int) :=
  ⟨flipBItem, flipVal?, byteMod, predFlip, Flip.dbg "FlipB", showPairI, okAll, false⟩
def ioStr : ItemIO StrCat (Nat × Nat) (List Nat) :=
  ⟨strCatItem, strVal?, natPair, predStr, StrCat.dbg, showWord, okAll, false⟩

/-! ### `ap` / `apap`: add-an-arithmetic-progression, alone and as both components of a `Combinator` (wave 4) -/

/-- `v` or `v@ta:td` (an element with a pending tag of its own); the position is assigned by `placeAp` -/
def apVal? (s : String) : Option Ap :=
  match s.splitOn "@" with
  | [v] => (parseInt? v).map fun v => ⟨v, 1, 0, some 0, 0, 0⟩
  | [v, m] => match parseInt? v, intPair (m.splitOn ":") with
    | some v, some ab => some ⟨v, 1, 0, some 0, ab.1, ab.2⟩
    | _, _ => none
  | _ => none

/-- the element as it is stored at index `i`: its position is `i` (`Default`, which has no position, stays as it is) -/
def placeAp (i : Nat) (x : Ap) : Ap :=
  match x.lo with
  | none => x
  | some _ => { x with ps := (i : Int) * x.len, lo := some (i : Int) }

/-- `from a d`: add `a + d * (q - from)` to the element at position `q` -/
def apMod : List String → Option (Int × Int × Int)
  | [f, a, d] => match parseInt? f, parseInt? a, parseInt? d with
    | some f, some a, some d => some (f, a, d)
    | _, _, _ => none
  | _ => none

def showOptPos : Option Int → String
  | none => "-"
  | some q => toString q

def showApV (a : ApV) : String := s!"({a.1},{a.2.1},{a.2.2.1},{showOptPos a.2.2.2})"

def predAp : List String → Option (ApV → Bool)
  | ["ge", c] => (parseInt? c).map fun c a => decide (a.1 ≥ c)
  | ["len", c] => (parseInt? c).map fun c a => decide (a.2.1 ≥ c)
  | ts => predConst ts

def predApAp : List String → Option (ApV × ApV → Bool)
  | ["ge0", c] => (parseInt? c).map fun c a => decide (a.1.1 ≥ c)
  | ["ge1", c] => (parseInt? c).map fun c a => decide (a.2.1 ≥ c)
  | ["len", c] => (parseInt? c).map fun c a => decide (a.1.2.1 ≥ c)
  | ts => predConst ts

def ioAp0 : ItemIO Ap (Int × Int × Int) ApV :=
  ⟨apItem, apVal?, apMod, predAp, Ap.dbg, showApV, okAll, false⟩
def ioApAp0 : ItemIO (Ap × Ap) (Int × Int × Int) (ApV × ApV) :=
  ⟨prodItem apItem apItem, fun s => (apVal? s).map fun v => (v, { v with sum := 2 * v.sum + 1 }), apMod, predApAp,
   combDbg Ap.dbg Ap.dbg, fun a => s!"({showApV a.1},{showApV a.2})", okAll, false⟩

/-- what the driver runs: the item together with the correspondence guard (`apGuard`: on every `push` of the history the
    Rust item's `push` — written with `left.len` — and the model's `push` are the same function; `S any` otherwise) -/
def ioAp := guardIO ioAp0 apGuard (fun _ => true) (fun _ => true)
def ioApAp := guardIO ioApAp0 (prodGuard apGuard apGuard) (fun _ => true) (fun _ => true)
def placeG {T : Type} (f : Nat → T → T) (i : Nat) (x : T × Bool) : T × Bool := (f i x.1, x.2)
def placeApAp (i : Nat) (x : Ap × Ap) : Ap × Ap := (placeAp i x.1, placeAp i x.2)

/-- `const <type>`: what the model takes `<T as MinMax>::MIN`, `MAX`, `<T as ZeroOne>::ZERO`, `ONE` to be -/
def constLine (ty : IntTy) : String :=
  let s := s!"{ty.minVal} {ty.maxVal} 0 1"
  answer3 s s s

def handle (line : String) : String :=
  match splitOps line with
  | [] => badLine line
  | hdr :: ops =>
    match tokens hdr with
    | ["const", ty] =>
      match IntTy.parse? ty, floatFmt? ty, ops with
      | some ty, _, [] => constLine ty
      | none, some f, [] => constLineF f
      | _, _, _ => invalid
    | item :: ctor :: n :: vals =>
      match parseNat? n with
      | none => badLine line
      | some n =>
        match item.splitOn ":" with
        | [item] =>
          match item with
          | "min" => runCase (ioMin .i64) noPlace ctor vals n ops
          | "max" => runCase (ioMax .i64) noPlace ctor vals n ops
          | "sum" => runCase ioSum noPlace ctor vals n ops
          | "minadd" => runCase (ioMinAdd .i64) noPlace ctor vals n ops
          | "maxadd" => runCase (ioMaxAdd .i64) noPlace ctor vals n ops
          | "sumadd" => runCase ioSumAdd noPlace ctor vals n ops
          | "mm" => runCase (ioMM .i64) noPlace ctor vals n ops
          | "smm" => runCase (ioSMM .i64) noPlace ctor vals n ops
          | "aff" => runCase ioAff noPlace ctor vals n ops
          | "aa" => runCase ioAA noPlace ctor vals n ops
          | "flipz" => runCase ioFlipZ noPlace ctor vals n ops
          | "flipb" => runCase ioFlipB noPlace ctor vals n ops
          | "str" => runCase ioStr noPlace ctor vals n ops
          | "ap" => runCase ioAp (placeG placeAp) ctor vals n ops
          | "apap" => runCase ioApAp (placeG placeApAp) ctor vals n ops
          | _ => badLine line
        | ["sum", "cat"] => runCase ioSumCat noPlace ctor vals n ops
        | [item, "rec"] =>
          match item with
          | "min" => runCase ioMinR noPlace ctor vals n ops
          | "max" => runCase ioMaxR noPlace ctor vals n ops
          | "minadd" => runCase ioMinAddR noPlace ctor vals n ops
          | "maxadd" => runCase ioMaxAddR noPlace ctor vals n ops
          | "mm" => runCase ioMMR noPlace ctor vals n ops
          | _ => invalid
        | [item, ty] =>
          match IntTy.parse? ty with
          | none =>
            match floatFmt? ty with
            | none => invalid
            | some f =>
              match item with
              | "min" => runCase (ioMinF f) noPlace ctor vals n ops
              | "max" => runCase (ioMaxF f) noPlace ctor vals n ops
              | "sum" => runCase (ioSumF f) noPlace ctor vals n ops
              | "minadd" => runCase (ioMinAddF f) noPlace ctor vals n ops
              | "maxadd" => runCase (ioMaxAddF f) noPlace ctor vals n ops
              | "sumadd" => runCase (ioSumAddF f) noPlace ctor vals n ops
              | "mm" => runCase (ioMMF f) noPlace ctor vals n ops
              | _ => invalid
          | some ty =>
            match item with
            | "min" => runCase (ioMinT ty) noPlace ctor vals n ops
            | "max" => runCase (ioMaxT ty) noPlace ctor vals n ops
            | "sum" => runCase (ioSumT ty) noPlace ctor vals n ops
            | "minadd" => runCase (ioMinAddT ty) noPlace ctor vals n ops
            | "maxadd" => runCase (ioMaxAddT ty) noPlace ctor vals n ops
            | "sumadd" => runCase (ioSumAddT ty) noPlace ctor vals n ops
            | "mm" => runCase (ioMMT ty) noPlace ctor vals n ops
            | "smm" => runCase (ioSMMT ty) noPlace ctor vals n ops
            | _ => invalid
        | _ => invalid
    | _ => badLine line

def main : IO Unit := driverMain handle
