import RlibModel.Model.Mint
/-! Line-protocol driver for engine `mint` (property C06).

Case lines (all numbers decimal):
* `new M v`       — `Modular::<M>::new(v)`, `v : i64`
* `pair M a b`    — `x = new(a)`, `y = new(b)`; `x+y`, `x-y`, `x*y`, `x/y`, `x==y` (and the assigning forms)
* `un M a`        — `x = new(a)`; `-x`, `x.inv()`, `Display`/`Debug`
* `pow M a d`     — `new(a).pow(d)`, `d : u64`
* `io M v`        — `Writable` bytes of `new(v)` and `Readable` value of the token `v`

* `cst M 0`       — `ZERO`, `ONE`, `md()`, `ZERO == new(0)`, `ONE == new(1)`
* `chain M v0 ; op ; op …` — one accumulator, every result fed back (`Op` in `Model/Mint.lean`); prints the
                    accumulator after every step; `S any` when an inverse of a non-coprime value is taken on the way
* `ios M ; t1 ; … ; tk` — k tokens read one after the other from ONE `Reader` (as `Modular<M>`, and alternating with `i64`),
                    the values written through ONE `Writer` and read back
* `thr <case>`    — the same case evaluated on a freshly spawned thread (same answer expected)

`S` is `any` outside the property's domain (`2 ≤ M < 2^31`, arguments inside their machine types).
-/
open Rlib Rlib.Mint

def showR : Except Panic Int → String := showExcept toString

def inDomM (M : Int) : Bool := 2 ≤ M && M < 2 ^ 31

/-- Outside the property's domain (`S any`) nothing is pinned, not even model = implementation: the
    raw field is the constant `ood` and the model's result moves to the view (shown, never compared). -/
def ood (dom : Bool) (line : String) : String :=
  if dom then line else
  match line.splitOn " | V " with
  | m :: _ => s!"M ood | V {(m.drop 2).toString} | S any"
  | _ => line

/-- view of an inverse: the predicate of `inv_spec`, for operands coprime to `M` -/
def viewInv (M a : Int) (r : Except Panic Int) : String :=
  -- the property speaks about inverses only for operands coprime to `M`
  if Int.gcd a M ≠ 1 then "any" else
  match r with
  | .error e => e.toString
  | .ok r => if isInvOf M a r then "ok" else "bad"

def viewDiv (M x y : Int) (r : Except Panic Int) : String :=
  if Int.gcd y M ≠ 1 then "any" else
  match r with
  | .error e => e.toString
  | .ok z => if isQuotOf M x y z then "ok" else "bad"

/-- one step of a `chain` case; assigning and by-value spellings are the same model step, and so are all
    the ways of copying a value (the harness reports a mismatch between them in place of the value) -/
def parseOp? (s : String) : Option Op :=
  match tokens s with
  | [o, v] =>
    if o == "pow" || o == "powc" then (parseNat? v).map Op.pow else
    (parseInt? v).bind fun v =>
      match o with
      | "+" | "+=" => some (.add v)
      | "-" | "-=" => some (.sub v)
      | "r-" => some (.rsub v)
      | "*" | "*=" => some (.mul v)
      | "/" | "/=" => some (.div v)
      | "r/" => some (.rdiv v)
      | "eq" => some (.eqv v)
      | _ => none
  | [o] =>
    match o with
    | "neg" => some .neg
    | "inv" => some .inv
    | "sq" | "sq=" => some .sq
    | "dbl" | "dbl=" => some .dbl
    | "ssub" | "ssub=" => some .selfsub
    | "sdiv" | "sdiv=" => some .selfdiv
    | "clone" | "clonefrom" | "copy" | "vec" | "rt" | "fmt" => some .ident
    | "renew" => some .renew
    | "zero" => some .zero
    | "one" => some .one
    | _ => none
  | _ => none

def opArgsFit : Op → Bool
  | .add v | .sub v | .rsub v | .mul v | .div v | .rdiv v | .eqv v => i64.fits v
  | .pow d => u64.fits d
  | _ => true

def showChain (xs : List String) : String := "[" ++ ",".intercalate xs ++ "]"

def handleChain (line : String) : String :=
  match splitOps line with
  | [] => badLine line
  | hdr :: opss =>
    match tokens hdr, opss.mapM parseOp? with
    | [_, Ms, v0s], some ops =>
      match parseInt? Ms, parseInt? v0s with
      | some M, some v0 =>
        let dom0 := inDomM M && i64.fits v0 && ops.all opArgsFit
        match new M v0 with
        | .ok a0 =>
          let m := showChain (toString a0 :: (runM M a0 ops).map showR)
          let dom := dom0 && domS M (red M v0) ops
          let s := showChain ((red M v0 :: runS M (red M v0) ops).map toString)
          ood (inDomM M) (answer m (if dom then s else "any"))
        | .error e =>
          let m := s!"operand:{e}"
          ood (inDomM M) (answer m (if dom0 then "no-panic" else "any"))
      | _, _ => badLine line
    | _, _ => badLine line

def handle1 (line : String) : String :=
  match tokens line with
  | [] => badLine line
  | "chain" :: _ => handleChain line
  | op :: rest =>
  match op, parseInts? rest with
  | "cst", some [M, _] =>
    let dom := inDomM M
    let e0 := match new M 0 with | .ok x => showBool (eq zero x) | .error e => e.toString
    let e1 := match new M 1 with | .ok x => showBool (eq one x) | .error e => e.toString
    -- `pub type Mint998 = Modular<998244353>`, `pub type Mint107 = Modular<1000000007>`: the harness prints `md()` of the alias
    let al := if M = 998244353 ∨ M = 1000000007 then toString M else "-"
    let m := s!"zero={zero} one={one} md={md M} eqz={e0} eqo={e1} alias={al}"
    ood dom (answer m (if dom then s!"zero={red M 0} one={red M 1} md={M} eqz=true eqo=true alias={al}" else "any"))
  | "ios", some (M :: ts) =>
    let dom := inDomM M && ts.all i64.fits
    let rs := showChain ((ts.map (readTok M)).map showR)
    -- the written text of every value, read back as a token
    let back := ts.map fun t => match readTok M t with
      | .ok x => showR (readTok M x)
      | .error e => e.toString
    let w := "_".intercalate ((ts.map (readTok M)).map fun r => match r with | .ok x => render x | .error e => e.toString)
    let m := s!"r={rs} alt={rs} w={w} rt={showChain back} eof=true"
    let ss := showChain (ts.map fun t => toString (red M t).toNat)
    let sw := "_".intercalate (ts.map fun t => toString (red M t).toNat)
    ood dom (answer m (if dom then s!"r={ss} alt={ss} w={sw} rt={ss} eof=true" else "any"))
  | "new", some [M, v] =>
    let dom := inDomM M && i64.fits v
    ood dom (answer (showR (new M v)) (if dom then toString (specNew M v) else "any"))
  | "pair", some [M, a, b] =>
    let dom := inDomM M && i64.fits a && i64.fits b
    match new M a, new M b with
    | .ok x, .ok y =>
      let rAdd := add M x y
      let rSub := sub M x y
      let rMul := mul M x y
      let rDiv := div M x y
      let e := showBool (eq x y)
      let m := s!"add={showR rAdd} sub={showR rSub} mul={showR rMul} div={showR rDiv} eq={e}"
      let v := s!"add={showR rAdd} sub={showR rSub} mul={showR rMul} div={viewDiv M x y rDiv} eq={e}"
      let s := s!"add={specAdd M a b} sub={specSub M a b} mul={specMul M a b} div={if Int.gcd b M ≠ 1 then "any" else "ok"} eq={showBool (decide (red M a = red M b))}"
      ood dom (answer3 m v (if dom then s else "any"))
    | rx, ry =>
      let m := s!"operand:{showR rx}:{showR ry}"
      ood dom (answer3 m m (if dom then "no-panic" else "any"))
  | "un", some [M, a] =>
    let dom := inDomM M && i64.fits a
    match new M a with
    | .ok x =>
      let rNeg := neg M x
      let rInv := inv M x
      let f := render x
      let m := s!"neg={showR rNeg} inv={showR rInv} fmt={f}/{f}"
      let v := s!"neg={showR rNeg} inv={viewInv M x rInv} fmt={f}/{f}"
      let sf := toString (red M a).toNat
      let s := s!"neg={specNeg M a} inv={if Int.gcd a M ≠ 1 then "any" else "ok"} fmt={sf}/{sf}"
      ood dom (answer3 m v (if dom then s else "any"))
    | rx =>
      let m := s!"operand:{showR rx}"
      ood dom (answer3 m m (if dom then "no-panic" else "any"))
  | "pow", some [M, a, d] =>
    let dom := inDomM M && i64.fits a && u64.fits d
    match new M a with
    | .ok x =>
      ood dom (answer (showR (pow M x d.toNat)) (if dom then toString (specPow M a d.toNat) else "any"))
    | rx =>
      let m := s!"operand:{showR rx}"
      ood dom (answer3 m m (if dom then "no-panic" else "any"))
  | "io", some [M, v] =>
    let dom := inDomM M && i64.fits v
    let w := match new M v with
      | .ok x => render x
      | .error e => e.toString
    -- rt: the written text read back as a token (its value is the canonical representative)
    let rt := match new M v with
      | .ok x => showR (readTok M x)
      | .error e => e.toString
    let m := s!"w={w} r={showR (readTok M v)} rt={rt}"
    let sv := toString (red M v).toNat
    ood dom (answer m (if dom then s!"w={sv} r={sv} rt={sv}" else "any"))
  | _, _ => badLine line

/-- `thr <case>`: the harness evaluates `<case>` on a freshly spawned thread; the answer must be the same -/
def handle2 (line : String) : String :=
  match tokens line with
  | "ios" :: _ =>
    -- `ios M ; t1 ; t2 …` (one token per step, so that the shrinker can delete tokens)
    match splitOps line with
    | hdr :: ts =>
      if (tokens hdr).length == 2 && !ts.isEmpty && ts.all (fun t => (tokens t).length == 1) then handle1 (" ".intercalate (hdr :: ts))
      else badLine line
    | [] => badLine line
  | _ => handle1 line

def handle (line : String) : String :=
  match tokens line with
  | "thr" :: _ => handle2 ((line.trimAscii.toString.drop 3).toString)
  | _ => handle2 line

def main : IO Unit := driverMain handle
