import RlibModel.Model.Mint
/-! Line-protocol driver for engine `mint` (property C06).

Case lines (all numbers decimal):
* `new M v`       — `Modular::<M>::new(v)`, `v : i64`
* `pair M a b`    — `x = new(a)`, `y = new(b)`; `x+y`, `x-y`, `x*y`, `x/y`, `x==y` (and the assigning forms)
* `un M a`        — `x = new(a)`; `-x`, `x.inv()`, `Display`/`Debug`
* `pow M a d`     — `new(a).pow(d)`, `d : u64`
* `io M v`        — `Writable` bytes of `new(v)` and `Readable` value of the token `v`

`S` is `any` outside the property's domain (`2 ≤ M < 2^31`, arguments inside their machine types).
-/
open Rlib Rlib.Mint

def showR : Except Panic Int → String := showExcept toString

def inDomM (M : Int) : Bool := 2 ≤ M && M < 2 ^ 31

/-- Outside the property's domain (`S any`) nothing is pinned, not even model = implementation: the
    raw field is the constant `ood` and the model's result moves to the view (shown, never compared). -/
def ood (dom : Bool) (line : String) : String :=
  if dom then line else
  match line.splitOn " | V " with
  | m :: _ => s!"M ood | V {(m.drop 2).toString} | S any"
  | _ => line

/-- view of an inverse: the predicate of `inv_spec`, for operands coprime to `M` -/
def viewInv (M a : Int) (r : Except Panic Int) : String :=
  -- the property speaks about inverses only for operands coprime to `M`
  if Int.gcd a M ≠ 1 then "any" else
  match r with
  | .error e => e.toString
  | .ok r => if isInvOf M a r then "ok" else "bad"

def viewDiv (M x y : Int) (r : Except Panic Int) : String :=
  if Int.gcd y M ≠ 1 then "any" else
  match r with
  | .error e => e.toString
  | .ok z => if isQuotOf M x y z then "ok" else "bad"

def handle (line : String) : String :=
  match tokens line with
  | [] => badLine line
  | op :: rest =>
  match op, parseInts? rest with
  | "new", some [M, v] =>
    let dom := inDomM M && i64.fits v
    ood dom (answer (showR (new M v)) (if dom then toString (specNew M v) else "any"))
  | "pair", some [M, a, b] =>
    let dom := inDomM M && i64.fits a && i64.fits b
    match new M a, new M b with
    | .ok x, .ok y =>
      let rAdd := add M x y
      let rSub := sub M x y
      let rMul := mul M x y
      let rDiv := div M x y
      let e := showBool (eq x y)
      let m := s!"add={showR rAdd} sub={showR rSub} mul={showR rMul} div={showR rDiv} eq={e}"
      let v := s!"add={showR rAdd} sub={showR rSub} mul={showR rMul} div={viewDiv M x y rDiv} eq={e}"
      let s := s!"add={specAdd M a b} sub={specSub M a b} mul={specMul M a b} div={if Int.gcd b M ≠ 1 then "any" else "ok"} eq={showBool (decide (red M a = red M b))}"
      ood dom (answer3 m v (if dom then s else "any"))
    | rx, ry =>
      let m := s!"operand:{showR rx}:{showR ry}"
      ood dom (answer3 m m (if dom then "no-panic" else "any"))
  | "un", some [M, a] =>
    let dom := inDomM M && i64.fits a
    match new M a with
    | .ok x =>
      let rNeg := neg M x
      let rInv := inv M x
      let f := render x
      let m := s!"neg={showR rNeg} inv={showR rInv} fmt={f}/{f}"
      let v := s!"neg={showR rNeg} inv={viewInv M x rInv} fmt={f}/{f}"
      let sf := toString (red M a).toNat
      let s := s!"neg={specNeg M a} inv={if Int.gcd a M ≠ 1 then "any" else "ok"} fmt={sf}/{sf}"
      ood dom (answer3 m v (if dom then s else "any"))
    | rx =>
      let m := s!"operand:{showR rx}"
      ood dom (answer3 m m (if dom then "no-panic" else "any"))
  | "pow", some [M, a, d] =>
    let dom := inDomM M && i64.fits a && u64.fits d
    match new M a with
    | .ok x =>
      ood dom (answer (showR (pow M x d.toNat)) (if dom then toString (specPow M a d.toNat) else "any"))
    | rx =>
      let m := s!"operand:{showR rx}"
      ood dom (answer3 m m (if dom then "no-panic" else "any"))
  | "io", some [M, v] =>
    let dom := inDomM M && i64.fits v
    let w := match new M v with
      | .ok x => render x
      | .error e => e.toString
    -- rt: the written text read back as a token (its value is the canonical representative)
    let rt := match new M v with
      | .ok x => showR (readTok M x)
      | .error e => e.toString
    let m := s!"w={w} r={showR (readTok M v)} rt={rt}"
    let sv := toString (red M v).toNat
    ood dom (answer m (if dom then s!"w={sv} r={sv} rt={sv}" else "any"))
  | _, _ => badLine line

def main : IO Unit := driverMain handle
