import Lean.Meta.Tactic.Simp.RegisterCommand
/-!
Hand-written, fixed (NOT generated): the simp set `src_def`.  `tools/rs2lean.py` tags every definition it emits with `@[src_def]`,
so that `simp only [src_def]` unfolds regenerated definitions one step without naming them; the equivalence proofs in
`Lemmas/*Src.lean` use it together with the generated `*_callee<i>` aliases to stay valid when a private helper is renamed or a
loop is turned into a helper function of the same shape.
-/
register_simp_attr src_def
