import RlibModel.Model.Reader
/-!
Hand-written, fixed (NOT generated): the reading of the std / core items that `tools/rs2lean_reader.py` uses when it translates
`rlib/io/src/reader.rs` (rules of its doc comment).  Everything here is TRUSTED to be what std does; it is deliberately small.

* the byte source handed to `Reader::new` (`Box<dyn Read>`) is the ORACLE of the generated definitions: an explicit parameter of type
  `Source` = the list of `Rlib.Reader.Event`s of the hand-written model (`data bs` = a chunk the source is willing to hand over in one
  `read` call, `intr` = `Err(ErrorKind::Interrupted)`; the empty list answers every call with `Ok(0)`).  `read src buf off room` is ONE
  call `src.read(&mut buf[off..])` on a slice of `room` bytes: the answer (`IoResult`), the buffer after the call and the source after
  the call.  Assumed contract of `std::io::Read`: `Ok(n)` means that exactly the first `n ≤ room` bytes of the slice were written and
  nothing else of the buffer was touched; an `Err` leaves the buffer alone; after `Ok(0)` (on a non-empty slice) no more data follows.
  `IoResult.failed` (an `Err` of any other kind) is never produced by this oracle — the abstract source has no such event — but the
  generated text says what the code does with it (`unwrap` ⇒ `Panic.unwrap`).
* `usize` is `Nat` with CHECKED `+`/`-` (`uadd`, `usub`: the harness builds rlib with overflow-checks = true; `usize` is 64-bit);
  `u8` is `UInt8` with checked `+`/`-` (`badd`, `bsub`); a `char` obtained by `u8 as char` is kept as its code point (`UInt8`), a
  `String` built from such chars is the `Array UInt8` of the code points (Latin-1 reading, as in the hand-written model).
* `index`, `copyWithin`, `sliceFrom`: the slice operations with their panics (`Panic.index`).
-/
namespace Rlib.SrcIo
open Rlib.Reader (Event writeAt)

abbrev Source := List Event

/-- `io::Result<usize>` as far as the code looks at it: `Ok(n)`, `Err(e)` with `e.kind() == ErrorKind::Interrupted`, any other `Err`. -/
inductive IoResult where
  | ok (n : Nat)
  | interrupted
  | failed
  deriving Repr, DecidableEq, Inhabited

/-- `a + b` on `usize`, overflow-checked. -/
def uadd (a b : Nat) : Except Panic Nat := if a + b < 2 ^ 64 then .ok (a + b) else .error .overflow

/-- `a - b` on `usize`, overflow-checked. -/
def usub (a b : Nat) : Except Panic Nat := if b ≤ a then .ok (a - b) else .error .overflow

/-- `a + b` on `u8`, overflow-checked. -/
def badd (a b : UInt8) : Except Panic UInt8 := if a.toNat + b.toNat < 256 then .ok (a + b) else .error .overflow

/-- `a - b` on `u8`, overflow-checked. -/
def bsub (a b : UInt8) : Except Panic UInt8 := if b ≤ a then .ok (a - b) else .error .overflow

/-- `buf[i]` as a value. -/
def index (buf : Array UInt8) (i : Nat) : Except Panic UInt8 :=
  match buf[i]? with
  | some c => .ok c
  | none => .error .index

/-- `buf.copy_within(a..b, d)`: panics unless `a ≤ b ≤ len` and the destination fits. -/
def copyWithin (buf : Array UInt8) (a b d : Nat) : Except Panic (Array UInt8) :=
  if a ≤ b ∧ b ≤ buf.size ∧ d + (b - a) ≤ buf.size then .ok (writeAt buf d (buf.extract a b).toList) else .error .index

/-- `&mut buf[a..]`: the length of the slice; panics when `a > len`. -/
def sliceFrom (buf : Array UInt8) (a : Nat) : Except Panic Nat :=
  if a ≤ buf.size then .ok (buf.size - a) else .error .index

/-- ONE call `src.read(&mut buf[off..])` on a slice of `room` bytes (the oracle). -/
def read (src : Source) (buf : Array UInt8) (off room : Nat) : IoResult × Array UInt8 × Source :=
  match src with
  | [] => (.ok 0, buf, [])
  | .intr :: t => (.interrupted, buf, t)
  | .data bs :: t =>
    let k := min room bs.length
    (.ok k, writeAt buf off (bs.take k), if k < bs.length then .data (bs.drop k) :: t else t)

/-- Budget of a `loop` that only `continue`s after an `Interrupted` answer: every such answer consumes one event of the schedule,
    so `|schedule| + 1` rounds are enough (proved in `Lemmas/ReaderSrc.lean`: the `fuel` error of such a loop is unreachable). -/
def retryBudget (src : Source) : Nat := src.length + 1

/-- `u8::is_ascii_whitespace`: space, tab, LF, FF, CR. -/
def isAsciiWhitespace (c : UInt8) : Bool := c == 32 || c == 9 || c == 10 || c == 12 || c == 13

/-- `u8::is_ascii_digit`. -/
def isAsciiDigit (c : UInt8) : Bool := 48 ≤ c && c ≤ 57

end Rlib.SrcIo
