import RlibModel.Model.Decimal
import RlibModel.Generated.IoPrelude
/-!
Hand-written, fixed (NOT generated): the reading of the std / core / `rlib_num_traits` items that `tools/rs2lean_writer.py` uses when it
translates `rlib/io/src/writer.rs` (rules of its doc comment), in addition to `SrcIo.uadd / usub / badd` of `Generated/IoPrelude.lean`
(checked `usize` / `u8` arithmetic).  Everything here is TRUSTED to be what std does; it is deliberately small.

* the sink handed to `Writer::new` (`Box<dyn Write>`) is the ORACLE of the generated definitions: an explicit parameter of type `Sink` =
  the bytes it has received so far and the number of `write_all` calls it has answered (the two sink fields of the hand-written model's
  state).  `writeAll k bytes` is ONE call `k.write_all(bytes)`: its answer (`WResult`) and the sink after the call.  Assumed contract of
  `std::io::Write::write_all` — the same contract the hand-written model assumes (`Model/Writer.lean`, `flush`): the call returns `Ok(())`
  after the WHOLE slice has been appended to what the sink holds, whatever the sink's partial-write / `Interrupted` behaviour (that std's
  provided loop does this over the harness's sink family is the stand-alone theorem `C09.write_all_delivers`).  `WResult.failed` (an `Err`)
  is never produced by this oracle, but the generated text says what the code does with it (`unwrap` ⇒ `Panic.unwrap`).
* slices: `slice a lo hi` = `&a[lo..hi]` (`&a[..hi]`: `lo = 0`; `&a[lo..]`: `hi = a.len()`), `copyFromSlice buf lo hi src` =
  `buf[lo..hi].copy_from_slice(src)`, `store buf i v` = `buf[i] = v`, each with its bounds panic (`Panic.index`; a length mismatch in
  `copy_from_slice` is classified as `index` by the harness as well).
* iterators: `for x in it { B }` is `loop { match it.next() { None => break, Some(x) => B } }` (the desugaring of the Rust reference);
  `Chunks` = `slice::Chunks` (remaining slice + chunk size; `chunks(0)` panics: "chunk size must be non-zero" — class `assert`),
  `Enumerate` = `iter().enumerate()` over a `Vec` (items + position).
* integers of a `$t` macro parameter are `Int`s in the range of `(t : IntTy)`: `irem` / `idiv` are `%` / `/` with the guards of a build with
  overflow checks (zero divisor; `MIN % -1`, `MIN / -1`), `toU8` is `as u8`, `unsignedAbs` is `unsigned_abs()` typed at `unsignedOf t`
  (`FixedSizeInteger::Unsigned`), `base10Len t` is `<$t as FixedSizeInteger>::BASE_10_LEN`: `rlib_num_traits` defines it for `$it` and
  `$ut` alike as `base_10_len!($ut)`, the digit-counting loop on `<$ut>::MAX` — here the hand-written model's transcription of that loop
  (`Decimal.base10len`, about which `C09.base10len_spec / base10len_table` are proved); the macro itself is NOT translated
  (`checks/C09.py` compares its text with an anchor on every run and notes a difference).
* a `char` is its code point (`Nat`); `c as u8` is `UInt8.ofNat c` (truncation).
-/
namespace Rlib.SrcIoW

/-- `Box<dyn Write>`: what the sink has received, and how many `write_all` calls it has answered. -/
structure Sink where
  data : ByteArray
  calls : Nat

/-- `io::Result<()>` as far as the code looks at it. -/
inductive WResult where
  | ok
  | failed
  deriving Repr, DecidableEq, Inhabited

/-- ONE call `sink.write_all(bytes)` (the oracle). -/
def writeAll (k : Sink) (bytes : Array UInt8) : WResult × Sink := (.ok, ⟨k.data ++ ⟨bytes⟩, k.calls + 1⟩)

/-- `&a[lo..hi]`. -/
def slice (a : Array UInt8) (lo hi : Nat) : Except Panic (Array UInt8) :=
  if lo ≤ hi ∧ hi ≤ a.size then .ok (a.extract lo hi) else .error .index

/-- `buf` with `src` written at `lo` (the part before `lo` and the part after `lo + src.len()` are kept). -/
def overwrite (buf : Array UInt8) (lo : Nat) (src : Array UInt8) : Array UInt8 :=
  buf.extract 0 lo ++ src ++ buf.extract (lo + src.size) buf.size

/-- `buf[lo..hi].copy_from_slice(src)`. -/
def copyFromSlice (buf : Array UInt8) (lo hi : Nat) (src : Array UInt8) : Except Panic (Array UInt8) :=
  if lo ≤ hi ∧ hi ≤ buf.size then (if hi - lo = src.size then .ok (overwrite buf lo src) else .error .index) else .error .index

/-- `buf[i] = v`. -/
def store (buf : Array UInt8) (i : Nat) (v : UInt8) : Except Panic (Array UInt8) :=
  if i < buf.size then .ok (buf.setIfInBounds i v) else .error .index

/-- `slice::Chunks`. -/
structure Chunks where
  rest : Array UInt8
  size : Nat

/-- `a.chunks(n)`. -/
def chunks (a : Array UInt8) (n : Nat) : Except Panic Chunks := if n = 0 then .error .assert else .ok ⟨a, n⟩

/-- `Chunks::next`: `None` when nothing is left, else the first `min(len, n)` bytes and the iterator over the rest. -/
def Chunks.next (it : Chunks) : Option (Array UInt8 × Chunks) :=
  if it.rest.size = 0 then none
  else some (it.rest.extract 0 (min it.rest.size it.size), ⟨it.rest.extract (min it.rest.size it.size) it.rest.size, it.size⟩)

/-- `v.iter().enumerate()`. -/
structure Enumerate (T : Type) where
  items : Array T
  pos : Nat

def enumerate {T : Type} (a : Array T) : Enumerate T := ⟨a, 0⟩

def Enumerate.next {T : Type} (it : Enumerate T) : Option ((Nat × T) × Enumerate T) :=
  match it.items[it.pos]? with
  | none => none
  | some x => some ((it.pos, x), ⟨it.items, it.pos + 1⟩)

/-- `FixedSizeInteger::Unsigned`. -/
def unsignedOf (t : IntTy) : IntTy := ⟨false, t.bits⟩

/-- `v.unsigned_abs()`. -/
def unsignedAbs (v : Int) : Int := (v.natAbs : Int)

/-- `a % b` on `t`. -/
def irem (t : IntTy) (a b : Int) : Except Panic Int :=
  if b = 0 then .error .divzero else if t.signed = true ∧ a = t.minVal ∧ b = -1 then .error .overflow else .ok (Int.tmod a b)

/-- `a / b` on `t`. -/
def idiv (t : IntTy) (a b : Int) : Except Panic Int :=
  if b = 0 then .error .divzero else checked t (Int.tdiv a b)

/-- `v as u8`. -/
def toU8 (v : Int) : UInt8 := UInt8.ofNat (v % 256).toNat

/-- `<t as FixedSizeInteger>::BASE_10_LEN`. -/
def base10Len (t : IntTy) : Nat := Rlib.Decimal.base10len t.bits

end Rlib.SrcIoW
