import RlibModel.Generated.VecPrelude
/-!
Hand-written, fixed (NOT generated): the reading of the array / slice / iterator operations that `tools/rs2lean_typed.py` uses in
rules A2, A3 of its doc comment.  Arrays `[t; N]`, slices `[t]` and `Vec<t>` are all `Array`s
(`Generated/VecPrelude.lean`); machine integers are `Int`s.  Imported only by generated files that use one of these rules.

* `contains v x`     `v.contains(&x)` on integers;
* `product T v`      `v.iter().product::<t>()`: std's `impl Product for <int>` is `iter.fold(1, |a, b| a * b)`; the multiplication is
                     overflow-checked like every `*` of the translated code (`#[rustc_inherit_overflow_checks]`; the harness builds
                     with overflow-checks = true), left to right, starting from `1`.

* `sum T v`          `….sum::<t>()` of an iterator over the values `v`: std's `fold(0, |a, b| a + b)`, every addition overflow-checked;
                     the translator passes `Array.map (fun x => body) v` for `v.iter().map(|x| body).sum()` (rule A5);
* `fill v x`         `v.fill(x)`: every element becomes `x`, the length is kept;
* `SrcInt.countOnes T w`, `SrcInt.trailingZeros T w`     `w.count_ones()`, `w.trailing_zeros()` of a value of the integer type `T`, as a `u32`
                     value: by recursion over the `T.bits` bits of the two's-complement pattern `wrapU T.bits w` (`trailing_zeros` of `0` is
                     `T.bits`).  These two are the translator's TRUSTED PRIMITIVES for the intrinsics (rules M15, M16): nothing relates
                     them to the hardware instruction except the differential run.

Trusted: that this is what `<[T]>::contains`, `<[T]>::fill`, `Iterator::product`, `Iterator::sum` and the two intrinsics of std do for
the primitive integer types.
-/
namespace Rlib.SrcVec

def contains (v : Array Int) (x : Int) : Bool := v.contains x

def productFrom (T : IntTy) : Int → List Int → Except Panic Int
  | acc, [] => .ok acc
  | acc, x :: xs =>
    match checked T (acc * x) with
    | .error e => .error e
    | .ok a => productFrom T a xs

def product (T : IntTy) (v : Array Int) : Except Panic Int := productFrom T 1 v.toList

def sumFrom (T : IntTy) : Int → List Int → Except Panic Int
  | acc, [] => .ok acc
  | acc, x :: xs =>
    match checked T (acc + x) with
    | .error e => .error e
    | .ok a => sumFrom T a xs

def sum (T : IntTy) (v : Array Int) : Except Panic Int := sumFrom T 0 v.toList

def fill {α : Type} (v : Array α) (x : α) : Array α := Array.replicate v.size x

end Rlib.SrcVec

namespace Rlib.SrcInt

/-- number of one bits among the lowest `k` bits of `w` -/
def onesGo : Nat → Nat → Nat
  | 0, _ => 0
  | k + 1, w => w % 2 + onesGo k (w / 2)

/-- `w.count_ones()` for `w : T` -/
def countOnes (T : IntTy) (w : Int) : Int := (onesGo T.bits (wrapU T.bits w).toNat : Nat)

/-- number of trailing zero bits among the lowest `k` bits of `w` (`k` when they are all zero) -/
def zerosGo : Nat → Nat → Nat
  | 0, _ => 0
  | k + 1, w => if w % 2 = 1 then 0 else 1 + zerosGo k (w / 2)

/-- `w.trailing_zeros()` for `w : T` -/
def trailingZeros (T : IntTy) (w : Int) : Int := (zerosGo T.bits (wrapU T.bits w).toNat : Nat)

end Rlib.SrcInt
