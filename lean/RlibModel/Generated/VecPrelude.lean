import RlibModel.Model.Common
/-!
Hand-written, fixed (NOT generated): the reading of `Vec<T>` (T a primitive integer or `bool`) that `tools/rs2lean_typed.py`
uses (rules V1–V8 of its doc comment).  A vector is an `Array`; machine integers are `Int`s, so an index is an `Int` (a `usize`
value, never negative — a negative index is nevertheless treated as out of range, so no theorem depends on that).

* `index v i`     `v[i]` as a value: CHECKED — out of range is `Panic.index`, as in Rust (and as in the hand-written models);
* `store v i x`   `v[i] = x`: CHECKED in the same way; the new vector;
* `len v`         `v.len()` as a `usize` value;
* `replicate n x` `vec![x; n]`;
* `range a b`     `(a..b).collect()` : `a, a+1, …, b-1` (empty when `b ≤ a`);
* `resize v n x`  `v.resize(n, x)`: truncated to `n` elements or padded with `x` up to `n`;
* `v.push x`      is `Array.push`, `Vec::new()` is `#[]`.

Trusted: that this is what `Vec`'s `Index/IndexMut<usize>`, `len`, `resize`, `push`, `vec!`, and `Range<usize>: Iterator` +
`collect::<Vec<_>>()` of std do; allocation failure / capacity overflow are not modelled.
-/
namespace Rlib.SrcVec

def index {α : Type} (v : Array α) (i : Int) : Except Panic α :=
  if h : 0 ≤ i ∧ i.toNat < v.size then .ok (v[i.toNat]'h.2) else .error .index

def store {α : Type} (v : Array α) (i : Int) (x : α) : Except Panic (Array α) :=
  if h : 0 ≤ i ∧ i.toNat < v.size then .ok (v.set i.toNat x h.2) else .error .index

def len {α : Type} (v : Array α) : Int := (v.size : Int)

def replicate {α : Type} (n : Int) (x : α) : Array α := Array.replicate n.toNat x

def range (a b : Int) : Array Int := (Array.range (b - a).toNat).map (fun (k : Nat) => a + (k : Int))

def resize {α : Type} (v : Array α) (n : Int) (x : α) : Array α :=
  if v.size ≤ n.toNat then v ++ Array.replicate (n.toNat - v.size) x else v.extract 0 n.toNat

end Rlib.SrcVec
