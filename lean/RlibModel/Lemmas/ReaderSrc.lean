import RlibModel.Generated.ReaderSrc
import RlibModel.Lemmas.Reader
/-!
Second tie of C08: the definitions regenerated from `rlib/io/src/reader.rs` (`Generated/ReaderSrc.lean`, written by
`tools/rs2lean_reader.py` on every run) return what the hand-written model (`Model/Reader.lean`) returns.
-/
set_option linter.unusedSimpArgs false
set_option linter.unusedVariables false
namespace Rlib.ReaderSrc
open Rlib Rlib.Reader Rlib.SrcIo

/-- The components of a model state in the order of the fields of the Rust struct (what the generated functions take and return). -/
def out (s : RState) : Array UInt8 × Nat × Nat × Source × Bool := (s.buf, s.b, s.e, s.src, s.eof)

/-- A model result `(value, state)` as the generated functions return it: the components, then the value. -/
def outV {α : Type} (p : α × RState) : Array UInt8 × Nat × Nat × Source × Bool × α := (p.2.buf, p.2.b, p.2.e, p.2.src, p.2.eof, p.1)

theorem refill_loop0_eq : ∀ (src : Source) (n : Nat) (buf : Array UInt8) (b e : Nat) (eof : Bool), src.length < n → e ≤ buf.size →
    refill_loop0 n buf b e src eof =
      .ok (writeAt buf e (readRetry (buf.size - e) src).1, b, e, (readRetry (buf.size - e) src).2, eof, (readRetry (buf.size - e) src).1.length) := by
  intro src
  induction src with
  | nil =>
    intro n buf b e eof hn he
    obtain ⟨m, rfl⟩ : ∃ m, n = m + 1 := ⟨n - 1, by simp at hn; omega⟩
    simp [refill_loop0, sliceFrom, he, SrcIo.read, readRetry, writeAt]
  | cons ev t ih =>
    intro n buf b e eof hn he
    obtain ⟨m, rfl⟩ : ∃ m, n = m + 1 := ⟨n - 1, by simp at hn; omega⟩
    cases ev with
    | intr =>
      have := ih m buf b e eof (by simp at hn; omega) he
      simp [refill_loop0, sliceFrom, he, SrcIo.read, readRetry, this]
    | data bs =>
      simp [refill_loop0, sliceFrom, he, SrcIo.read, readRetry]

theorem refill_loop0_index (n : Nat) (buf : Array UInt8) (b e : Nat) (src : Source) (eof : Bool) (he : buf.size < e) :
    refill_loop0 (n + 1) buf b e src eof = .error .index := by
  have : ¬ e ≤ buf.size := by omega
  simp [refill_loop0, sliceFrom, this]

theorem copyWithin_ok (buf : Array UInt8) (b e : Nat) (hbe : b ≤ e) (he : e ≤ buf.size) :
    copyWithin buf b e 0 = .ok (writeAt buf 0 (buf.extract b e).toList) := by
  have : b ≤ e ∧ e ≤ buf.size ∧ 0 + (e - b) ≤ buf.size := ⟨hbe, he, by omega⟩
  simp only [copyWithin, this, and_self, if_true]

theorem copyWithin_err (buf : Array UInt8) (b e : Nat) (h : ¬ (b ≤ e ∧ e ≤ buf.size)) :
    copyWithin buf b e 0 = .error .index := by
  have : ¬ (b ≤ e ∧ e ≤ buf.size ∧ 0 + (e - b) ≤ buf.size) := fun h' => h ⟨h'.1, h'.2.1⟩
  simp only [copyWithin, this, if_false]

theorem usub_ok (a b : Nat) (h : b ≤ a) : usub a b = .ok (a - b) := by simp [usub, h]

theorem uadd_ok (a b : Nat) (h : a + b < 2 ^ 64) : uadd a b = .ok (a + b) := by simp only [uadd, h, if_true]

theorem readRetry_len_le (room : Nat) (src : Source) : (readRetry room src).1.length ≤ room := by
  induction src with
  | nil => simp [readRetry]
  | cons ev t ih =>
    cases ev with
    | intr => simpa [readRetry] using ih
    | data bs => simp only [readRetry, List.length_take]; omega

theorem refill_eq_model (fuel : Nat) (s : RState) (hsz : s.buf.size < 2 ^ 64) :
    refill fuel s.buf s.b s.e s.src s.eof = (Reader.refill s).map out := by
  rcases s with ⟨buf, b, e, eof, src⟩
  simp only at hsz
  cases eof with
  | true => simp [refill, Reader.refill, out, Except.map]
  | false =>
    by_cases hb : b = 0
    · subst hb
      by_cases he : e ≤ buf.size
      · have hl := readRetry_len_le (buf.size - e) src
        have h1 : ¬ buf.size < e := by omega
        simp only [refill, Reader.refill, retryBudget, refill_loop0_eq src _ buf 0 e false (Nat.lt_succ_self _) he]
        simp [out, Except.map, uadd, h1]
        have h2 : e + (readRetry (buf.size - e) src).1.length < 18446744073709551616 := by omega
        have h3 : e < 18446744073709551616 := by omega
        by_cases h0 : (readRetry (buf.size - e) src).1 = [] <;> simp [h0, h2, h3]
      · have h1 : buf.size < e := by omega
        simp [refill, Reader.refill, retryBudget, refill_loop0_index _ buf 0 e src false h1, h1, Except.map]
    · by_cases hg : b ≤ e ∧ e ≤ buf.size
      · obtain ⟨hbe, he⟩ := hg
        have hm : ¬ (b ≠ 0 ∧ (e < b ∨ buf.size < e)) := by omega
        simp only [refill, Reader.refill, copyWithin_ok buf b e hbe he, usub_ok e b hbe, retryBudget, window, hb, ne_eq,
          not_false_eq_true, if_true, if_false, hm, Bool.false_eq_true]
        generalize hbuf1 : writeAt buf 0 (buf.extract b e).toList = buf1
        have hw : buf1.size = buf.size := by rw [← hbuf1]; exact writeAt_size _ _ _
        have he1 : e - b ≤ buf1.size := by omega
        have hl := readRetry_len_le (buf1.size - (e - b)) src
        have hm2 : ¬ buf1.size < e - b := by omega
        have h2 : e - b + (readRetry (buf1.size - (e - b)) src).1.length < 2 ^ 64 := by omega
        simp only [refill_loop0_eq src _ buf1 0 (e - b) false (Nat.lt_succ_self _) he1, hm2, if_false, uadd_ok _ _ h2]
        have hm3 : ¬ (e < b ∨ buf.size < e) := by omega
        by_cases h0 : (readRetry (buf1.size - (e - b)) src).1 = [] <;> simp [h0, out, Except.map, hm3]
      · have hm : b ≠ 0 ∧ (e < b ∨ buf.size < e) := by omega
        simp only [refill, Reader.refill, copyWithin_err buf b e hg, hb, ne_eq, not_false_eq_true, if_true, if_false, hm, Bool.false_eq_true]
        simp [Except.map]

/-- component form of `refill_eq_model` (what the unfolded generated text contains) -/
theorem refill_eq (fuel : Nat) (buf : Array UInt8) (b e : Nat) (src : Source) (eof : Bool) (hsz : buf.size < 2 ^ 64) :
    refill fuel buf b e src eof = (Reader.refill ⟨buf, b, e, eof, src⟩).map out :=
  refill_eq_model fuel ⟨buf, b, e, eof, src⟩ hsz

/-! ### bounds that keep the checked `usize` arithmetic of the generated text from firing -/

/-- `end ≤ BUF` and `BUF + 1` fits `usize`: all that the equalities below need (nothing about `begin`, `eof` or the source). -/
def Bnd (s : RState) : Prop := s.buf.size + 1 < 2 ^ 64 ∧ s.e ≤ s.buf.size

theorem refill_bnd (s s' : RState) (hB : Bnd s) (h : Reader.refill s = .ok s') : Bnd s' := by
  rcases s with ⟨buf, b, e, eof, src⟩
  obtain ⟨h1, h2⟩ := hB
  simp only at h1 h2
  cases eof with
  | true => simp [Reader.refill] at h; subst h; exact ⟨h1, h2⟩
  | false =>
    by_cases hb : b = 0
    · subst hb
      have hl := readRetry_len_le (buf.size - e) src
      have hn : ¬ buf.size < e := by omega
      simp [Reader.refill, hn] at h
      subst h
      simp only [Bnd, writeAt_size]
      exact ⟨h1, by omega⟩
    · by_cases hg : e < b ∨ buf.size < e
      · simp [Reader.refill, hb, hg] at h
      · have hs : (writeAt buf 0 (window ⟨buf, b, e, false, src⟩)).size = buf.size := writeAt_size _ _ _
        have hl := readRetry_len_le (buf.size - (e - b)) src
        have hn : ¬ buf.size < e - b := by omega
        simp only [Reader.refill, hb, hg, ne_eq, not_false_eq_true, true_and, if_true, if_false, Bool.false_eq_true, hs, hn] at h
        cases h
        simp only [Bnd, writeAt_size]
        exact ⟨h1, by omega⟩

theorem ensure_bnd (s s' : RState) (hB : Bnd s) (h : ensure s = .ok s') : Bnd s' := by
  simp only [ensure] at h
  split at h
  · exact refill_bnd s s' hB h
  · cases h; exact hB

theorem adv_bnd (s : RState) (hB : Bnd s) : Bnd (adv s) := hB

/-- After a successful `peek` the position is inside the buffer, or nothing is left (`begin = end`, the answer is 0). -/
theorem peek_facts (s s' : RState) (c : UInt8) (hB : Bnd s) (h : Reader.peek s = .ok (c, s')) :
    Bnd s' ∧ (s'.b < s'.buf.size ∨ (s'.b = s'.e ∧ c = 0)) := by
  simp only [Reader.peek] at h
  cases he : ensure s with
  | error x => rw [he] at h; cases h
  | ok s1 =>
    rw [he] at h
    simp only at h
    have hB1 := ensure_bnd s s1 hB he
    split at h
    · cases h; rename_i hbe; exact ⟨hB1, Or.inr ⟨hbe, rfl⟩⟩
    · split at h
      · cases h
        rename_i hc
        refine ⟨hB1, Or.inl ?_⟩
        rcases Nat.lt_or_ge s'.b s'.buf.size with hn | hn
        · exact hn
        · rw [Array.getElem?_eq_none hn] at hc
          cases hc
      · cases h

theorem peek_eq (fuel : Nat) (buf : Array UInt8) (b e : Nat) (src : Source) (eof : Bool) (hsz : buf.size < 2 ^ 64) :
    peek fuel buf b e src eof = (Reader.peek ⟨buf, b, e, eof, src⟩).map outV := by
  simp only [peek, Reader.peek, ensure]
  by_cases hbe : b = e
  · simp only [hbe, if_true]
    rw [refill_eq fuel buf e e src eof hsz]
    cases hr : Reader.refill ⟨buf, e, e, eof, src⟩ with
    | error x => simp [Except.map]
    | ok s1 =>
      rcases s1 with ⟨buf1, b1, e1, eof1, src1⟩
      simp only [Except.map, out]
      by_cases h1 : b1 = e1
      · simp [h1, outV]
      · simp only [h1, if_false, index]
        cases hc : buf1[b1]? <;> simp [outV]
  · simp only [hbe, if_false, index]
    cases hc : buf[b]? <;> simp [outV, Except.map]

theorem peek_eq_model (fuel : Nat) (s : RState) (hsz : s.buf.size < 2 ^ 64) :
    peek fuel s.buf s.b s.e s.src s.eof = (Reader.peek s).map outV :=
  peek_eq fuel s.buf s.b s.e s.src s.eof hsz

theorem isWs_eq (c : UInt8) : isAsciiWhitespace c = isWs c := rfl

theorem bnd_size (s : RState) (h : Bnd s) : s.buf.size < 2 ^ 64 := by have := h.1; omega

/-- `self.begin += 1` after a successful `peek` that returned a byte `c ≠ 0`, or in any state where `begin ≤ end`-ish bounds hold. -/
theorem uadd_adv (s : RState) (hB : Bnd s) (h : s.b < s.buf.size ∨ s.b = s.e) : uadd s.b 1 = .ok (s.b + 1) := by
  apply uadd_ok
  have h1 := hB.1
  have h2 := hB.2
  omega

/-! ### skip_whitespace -/

/-- The part of one round of `skip_whitespace`'s loop after `if begin == end { refill }` (the generated text contains it twice: the
    continuation of that `if` is duplicated). -/
local macro "skip_tail" buf:ident b:ident e:ident src:ident eof:ident hB:ident ih:ident : tactic => `(tactic| (
  cases $eof:ident with
  | true => simp [Except.map, out]
  | false =>
    simp only [Bool.false_eq_true, if_false]
    rw [peek_eq _ _ _ _ _ _ (bnd_size _ $hB)]
    cases hp : Reader.peek ⟨$buf, $b, $e, false, $src⟩ with
    | error x => simp [Except.map]
    | ok r =>
      rcases r with ⟨c, ⟨bufp, bp, ep, eofp, srcp⟩⟩
      obtain ⟨hBp, hpos⟩ := peek_facts _ _ _ $hB hp
      simp only [Except.map, outV, isWs_eq]
      by_cases hws : isWs c = true
      · have hadv : uadd bp 1 = .ok (bp + 1) := uadd_adv ⟨bufp, bp, ep, eofp, srcp⟩ hBp (by
          rcases hpos with h | ⟨h, hc⟩
          · exact Or.inl h
          · subst hc; simp [isWs] at hws)
        simp only [hws, if_true, hadv, ensure, adv]
        by_cases h2 : bp + 1 = ep
        · simp only [h2, if_true]
          rw [refill_eq _ _ _ _ _ _ (bnd_size _ hBp)]
          cases hr2 : Reader.refill ⟨bufp, ep, ep, eofp, srcp⟩ with
          | error x => simp [Except.map]
          | ok s3 =>
            have hB3 := refill_bnd ⟨bufp, ep, ep, eofp, srcp⟩ s3 hBp hr2
            rcases s3 with ⟨buf3, b3, e3, eof3, src3⟩
            simp only [Except.map, out]
            rw [$ih buf3 b3 e3 src3 eof3 hB3]
            rfl
        · simp only [h2, if_false]
          rw [$ih bufp (bp + 1) ep srcp eofp hBp]
          rfl
      · simp [hws, out]))

theorem skip_loop_eq : ∀ (fuel : Nat) (buf : Array UInt8) (b e : Nat) (src : Source) (eof : Bool), Bnd ⟨buf, b, e, eof, src⟩ →
    skip_whitespace_loop0 fuel buf b e src eof = (skipWs fuel ⟨buf, b, e, eof, src⟩).map out := by
  intro fuel
  induction fuel with
  | zero => intro buf b e src eof _; simp [skip_whitespace_loop0, skipWs, Except.map]
  | succ n ih =>
    have key : ∀ (buf1 : Array UInt8) (b1 e1 : Nat) (src1 : Source) (eof1 : Bool), Bnd ⟨buf1, b1, e1, eof1, src1⟩ →
        skip_whitespace_loop0 (n + 1) buf1 b1 e1 src1 eof1 = (skipWs (n + 1) ⟨buf1, b1, e1, eof1, src1⟩).map out := by
      intro buf1 b1 e1 src1 eof1 hB1
      simp only [skip_whitespace_loop0, skipWs, ensure]
      by_cases hbe : b1 = e1
      · simp only [hbe, if_true]
        subst hbe
        rw [refill_eq _ _ _ _ _ _ (bnd_size _ hB1)]
        cases hr : Reader.refill ⟨buf1, b1, b1, eof1, src1⟩ with
        | error x => simp [Except.map]
        | ok s2 =>
          have hB2 := refill_bnd _ s2 hB1 hr
          rcases s2 with ⟨buf2, b2, e2, eof2, src2⟩
          simp only [Except.map, out]
          skip_tail buf2 b2 e2 src2 eof2 hB2 ih
      · simp only [hbe, if_false]
        skip_tail buf1 b1 e1 src1 eof1 hB1 ih
    exact key

theorem skip_whitespace_eq (fuel : Nat) (buf : Array UInt8) (b e : Nat) (src : Source) (eof : Bool) (hB : Bnd ⟨buf, b, e, eof, src⟩) :
    skip_whitespace fuel buf b e src eof = (skipWs fuel ⟨buf, b, e, eof, src⟩).map out := by
  simp only [skip_whitespace, skip_loop_eq fuel buf b e src eof hB]
  cases skipWs fuel ⟨buf, b, e, eof, src⟩ <;> simp [Except.map, out]

theorem skipWs_bnd : ∀ (fuel : Nat) (s s' : RState), Bnd s → skipWs fuel s = .ok s' → Bnd s' := by
  intro fuel
  induction fuel with
  | zero => intro s s' _ h; simp [skipWs] at h
  | succ n ih =>
    intro s s' hB h
    simp only [skipWs] at h
    cases he : ensure s with
    | error x => rw [he] at h; cases h
    | ok s1 =>
      have hB1 := ensure_bnd s s1 hB he
      rw [he] at h
      simp only at h
      split at h
      · cases h; exact hB1
      · cases hp : Reader.peek s1 with
        | error x => rw [hp] at h; cases h
        | ok r =>
          obtain ⟨c, s2⟩ := r
          have hB2 := (peek_facts s1 s2 c hB1 hp).1
          rw [hp] at h
          simp only at h
          split at h
          · cases he2 : ensure (adv s2) with
            | error x => rw [he2] at h; cases h
            | ok s3 =>
              rw [he2] at h
              exact ih s3 s' (ensure_bnd _ _ (adv_bnd s2 hB2) he2) h
          · cases h; exact hB2

/-- What a successful `refill` leaves: the state itself when `eof` was set; otherwise `begin = 0` and `eof` is set iff `end = 0`-many bytes arrived. -/
theorem refill_shape (s s' : RState) (h : Reader.refill s = .ok s') :
    (s.eof = true ∧ s' = s) ∨ (s.eof = false ∧ s'.b = 0 ∧ (s'.eof = false → 0 < s'.e) ∧ (s'.eof = true → s'.e = if s.b ≠ 0 then s.e - s.b else s.e)) := by
  rcases s with ⟨buf, b, e, eof, src⟩
  cases eof with
  | true => simp [Reader.refill] at h; exact Or.inl ⟨rfl, h.symm⟩
  | false =>
    refine Or.inr ⟨rfl, ?_⟩
    by_cases hg : b ≠ 0 ∧ (e < b ∨ buf.size < e)
    · simp [Reader.refill, hg] at h
    · simp only [Reader.refill, Bool.false_eq_true, if_false, hg] at h
      simp only
      generalize (if b ≠ 0 then writeAt buf 0 (window ⟨buf, b, e, false, src⟩) else buf) = buf1 at h
      generalize (if b ≠ 0 then e - b else e) = e1 at h ⊢
      by_cases hlt : buf1.size < e1
      · simp [hlt] at h
      · simp only [hlt, if_false] at h
        cases h
        refine ⟨rfl, ?_, ?_⟩
        · intro he
          simp only [List.isEmpty_eq_false_iff] at he
          have := List.length_pos_iff.mpr he
          simp only
          omega
        · intro he
          simp only [List.isEmpty_iff] at he
          simp only [he, List.length_nil, Nat.add_zero]

/-- After `if begin == end { refill }` has succeeded and `eof` is not set, a byte is in the window. -/
theorem ensure_noeof (s s1 : RState) (h : ensure s = .ok s1) (he : s1.eof = false) : s1.b ≠ s1.e := by
  simp only [ensure] at h
  split at h
  · rcases refill_shape s s1 h with ⟨h1, h2⟩ | ⟨_, h2, h3, _⟩
    · subst h2; rw [h1] at he; cases he
    · have := h3 he; omega
  · cases h; assumption

theorem refill_of_eof (s : RState) (h : s.eof = true) : Reader.refill s = .ok s := by simp [Reader.refill, h]

theorem ensure_idem (s s1 : RState) (h : ensure s = .ok s1) : ensure s1 = .ok s1 := by
  by_cases h1 : s1.b = s1.e
  · have heof : s1.eof = true := by
      cases he : s1.eof with
      | true => rfl
      | false => exact absurd h1 (ensure_noeof s s1 h he)
    simp [ensure, h1, refill_of_eof s1 heof]
  · simp [ensure, h1]

/-- `peek` is idempotent: a second `peek` returns the same byte and leaves the state alone. -/
theorem peek_idem (s s' : RState) (c : UInt8) (h : Reader.peek s = .ok (c, s')) : Reader.peek s' = .ok (c, s') := by
  simp only [Reader.peek] at h
  cases he : ensure s with
  | error x => rw [he] at h; cases h
  | ok s1 =>
    rw [he] at h
    simp only at h
    have hi := ensure_idem s s1 he
    by_cases h1 : s1.b = s1.e
    · simp only [h1, if_true] at h
      cases h
      simp [Reader.peek, hi, h1]
    · simp only [h1, if_false] at h
      cases hc : s1.buf[s1.b]? with
      | none => rw [hc] at h; cases h
      | some c' =>
        rw [hc] at h
        cases h
        simp [Reader.peek, hi, h1, hc]

/-! ### `if begin == end { refill }` in front of a duplicated continuation -/

/-- Splits on `begin = end`, rewrites the generated `refill` into the model's, and runs the same tactic `t` on both copies of the
    continuation; in both the state is called `buf b e src eof` and its bound `hB` (the refilled state shadows the old one). -/
local macro "with_ensure" buf:ident b:ident e:ident src:ident eof:ident hB:ident hne:ident " => " t:tacticSeq : tactic => `(tactic| (
  by_cases hbe : $b = $e
  · simp only [hbe, if_true]
    subst hbe
    rw [refill_eq _ _ _ _ _ _ (bnd_size _ $hB)]
    cases hr : Reader.refill ⟨$buf, $b, $b, $eof, $src⟩ with
    | error x => simp [Except.map]
    | ok s2 =>
      have $hne : s2.eof = false → s2.b ≠ s2.e := ensure_noeof ⟨$buf, $b, $b, $eof, $src⟩ s2 (by simp [ensure, hr])
      have $hB := refill_bnd _ s2 $hB hr
      cases s2 with
      | mk $buf $b $e $eof $src =>
        simp only [Except.map, out]
        simp only at $hne:ident
        ($t)
  · simp only [hbe, if_false]
    have $hne : $eof = false → $b ≠ $e := fun _ => hbe
    ($t)))

/-! ### the token loops -/

/-- forget the `read_something` flag of the token loops (their callers drop it: the `debug_assert!` that reads it is off) -/
def dropRs {α : Type} : Array UInt8 × Nat × Nat × Source × Bool × α × Bool → Array UInt8 × Nat × Nat × Source × Bool × α :=
  fun (a, b, c, d, e, f, _) => (a, b, c, d, e, f)

theorem string_loop_eq : ∀ (fuel : Nat) (buf : Array UInt8) (b e : Nat) (src : Source) (eof : Bool) (acc : Array UInt8) (rs : Bool),
    Bnd ⟨buf, b, e, eof, src⟩ →
    (String_read_loop0 fuel buf b e src eof acc rs).map dropRs =
      (tokenLoop (fun (acc : Array UInt8) c => .ok (acc.push c)) fuel ⟨buf, b, e, eof, src⟩ acc).map outV := by
  intro fuel
  induction fuel with
  | zero => intro buf b e src eof acc rs _; simp [String_read_loop0, tokenLoop, Except.map]
  | succ n ih =>
    intro buf b e src eof acc rs hB
    simp only [String_read_loop0, tokenLoop, ensure]
    with_ensure buf b e src eof hB hne =>
      cases eof with
      | true => simp [Except.map, outV, dropRs]
      | false =>
        simp only [Bool.false_eq_true, if_false]
        rw [peek_eq _ _ _ _ _ _ (bnd_size _ hB)]
        cases hp : Reader.peek ⟨buf, b, e, false, src⟩ with
        | error x => simp [Except.map]
        | ok r =>
          rcases r with ⟨c, ⟨bufp, bp, ep, eofp, srcp⟩⟩
          obtain ⟨hBp, hpos⟩ := peek_facts _ _ _ hB hp
          simp only [Except.map, outV, isWs_eq]
          by_cases hws : isWs c = true
          · simp [hws, dropRs]
          · rw [peek_eq _ _ _ _ _ _ (bnd_size _ hBp), peek_idem _ _ _ hp]
            have hadv := uadd_adv ⟨bufp, bp, ep, eofp, srcp⟩ hBp (hpos.imp id (·.1))
            simp only [hws, if_false, Except.map, outV, hadv, Bool.false_eq_true]
            exact ih bufp (bp + 1) ep srcp eofp (acc.push c) true hBp

theorem peek_ne (s : RState) (h : s.b ≠ s.e) :
    Reader.peek s = match s.buf[s.b]? with | some c => .ok (c, s) | none => .error .index := by
  cases h2 : s.buf[s.b]? <;> simp [Reader.peek, ensure, h, h2]

theorem digit_eq (t : IntTy) (neg : Bool) (m : Int) (c : UInt8) :
    (match bsub c 48 with
      | .error e => .error e
      | .ok d => checked t (if neg then m - IntTy.wrap t (Int.ofNat d.toNat) else m + IntTy.wrap t (Int.ofNat d.toNat))) =
    (if c < 48 then .error .overflow else checked t (if neg then m - t.wrap ((c.toNat - 48 : Nat) : Int) else m + t.wrap ((c.toNat - 48 : Nat) : Int))) := by
  by_cases h : c < 48
  · have : ¬ (48 : UInt8) ≤ c := UInt8.not_le.mpr h
    simp [bsub, h, this]
  · have h' : (48 : UInt8) ≤ c := UInt8.not_lt.mp h
    have : (c - 48).toNat = c.toNat - 48 := by rw [UInt8.toNat_sub_of_le _ _ h']; rfl
    simp [bsub, h, h', this]

/-- One round of a digit loop of `read_signed!` / `read_unsigned!` after `if begin == end { refill }`. -/
local macro "int_tail" t:ident buf:ident b:ident e:ident src:ident eof:ident acc:ident hB:ident hne:ident ih:ident : tactic => `(tactic| (
  cases $eof:ident with
  | true => simp [Except.map, outV, dropRs]
  | false =>
    have hbe := $hne rfl
    simp only [Bool.false_eq_true, if_false]
    rw [peek_eq _ _ _ _ _ _ (bnd_size _ $hB), peek_ne _ hbe]
    simp only
    cases hc : ($buf)[$b]? with
    | none => simp [Except.map]
    | some c =>
      have hlt : $b < ($buf).size := by
        rcases Nat.lt_or_ge $b ($buf).size with h | h
        · exact h
        · rw [Array.getElem?_eq_none h] at hc; cases hc
      have hadv := uadd_adv ⟨$buf, $b, $e, false, $src⟩ $hB (Or.inl hlt)
      simp only at hadv
      simp only [Except.map, outV, isWs_eq]
      by_cases hws : isWs c = true
      · simp [hws, dropRs]
      · have hd := digit_eq $t true
        have hd' := digit_eq $t false
        simp only [if_true, Bool.false_eq_true, if_false] at hd hd'
        simp only [hws, if_false, Bool.false_eq_true, digitStep, index, hc]
        cases hm : checked $t ($acc * 10) with
        | error x => simp
        | ok m =>
          simp only
          by_cases h48 : c < 48
          · have : ¬ (48 : UInt8) ≤ c := UInt8.not_le.mpr h48
            simp [h48, bsub, this]
          · have h48' : (48 : UInt8) ≤ c := UInt8.not_lt.mp h48
            have hsub : (c - 48).toNat = c.toNat - 48 := by rw [UInt8.toNat_sub_of_le _ _ h48']; rfl
            simp only [h48, if_false, bsub, h48', if_true, hsub, if_true]
            first
              | (cases hr : checked $t (m - IntTy.wrap $t (Int.ofNat (c.toNat - 48))) with
                 | error x => simp
                 | ok r => simp only [hadv, adv]; exact $ih $buf ($b + 1) $e $src false r true $hB)
              | (cases hr : checked $t (m + IntTy.wrap $t (Int.ofNat (c.toNat - 48))) with
                 | error x => simp
                 | ok r => simp only [hadv, adv]; exact $ih $buf ($b + 1) $e $src false r true $hB)))

theorem signed_loop0_eq (t : IntTy) : ∀ (fuel : Nat) (buf : Array UInt8) (b e : Nat) (src : Source) (eof : Bool) (acc : Int) (rs : Bool),
    Bnd ⟨buf, b, e, eof, src⟩ →
    (read_signed_loop0 t fuel buf b e src eof acc rs).map dropRs = (tokenLoop (digitStep t true) fuel ⟨buf, b, e, eof, src⟩ acc).map outV := by
  intro fuel
  induction fuel with
  | zero => intro buf b e src eof acc rs _; simp [read_signed_loop0, tokenLoop, Except.map]
  | succ n ih =>
    intro buf b e src eof acc rs hB
    simp only [read_signed_loop0, tokenLoop, ensure]
    with_ensure buf b e src eof hB hne =>
      int_tail t buf b e src eof acc hB hne ih

theorem signed_loop1_eq (t : IntTy) : ∀ (fuel : Nat) (buf : Array UInt8) (b e : Nat) (src : Source) (eof : Bool) (acc : Int) (rs : Bool),
    Bnd ⟨buf, b, e, eof, src⟩ →
    (read_signed_loop1 t fuel buf b e src eof acc rs).map dropRs = (tokenLoop (digitStep t false) fuel ⟨buf, b, e, eof, src⟩ acc).map outV := by
  intro fuel
  induction fuel with
  | zero => intro buf b e src eof acc rs _; simp [read_signed_loop1, tokenLoop, Except.map]
  | succ n ih =>
    intro buf b e src eof acc rs hB
    simp only [read_signed_loop1, tokenLoop, ensure]
    with_ensure buf b e src eof hB hne =>
      int_tail t buf b e src eof acc hB hne ih

theorem unsigned_loop0_eq (t : IntTy) : ∀ (fuel : Nat) (buf : Array UInt8) (b e : Nat) (src : Source) (eof : Bool) (acc : Int) (rs : Bool),
    Bnd ⟨buf, b, e, eof, src⟩ →
    (read_unsigned_loop0 t fuel buf b e src eof acc rs).map dropRs = (tokenLoop (digitStep t false) fuel ⟨buf, b, e, eof, src⟩ acc).map outV := by
  intro fuel
  induction fuel with
  | zero => intro buf b e src eof acc rs _; simp [read_unsigned_loop0, tokenLoop, Except.map]
  | succ n ih =>
    intro buf b e src eof acc rs hB
    simp only [read_unsigned_loop0, tokenLoop, ensure]
    with_ensure buf b e src eof hB hne =>
      int_tail t buf b e src eof acc hB hne ih

theorem read_unsigned_eq (t : IntTy) (ht : t.signed = false) (fuel : Nat) (buf : Array UInt8) (b e : Nat) (src : Source) (eof : Bool)
    (hB : Bnd ⟨buf, b, e, eof, src⟩) :
    read_unsigned fuel t buf b e src eof = (readInt t fuel ⟨buf, b, e, eof, src⟩).map outV := by
  simp only [read_unsigned, readInt, skip_whitespace_eq fuel buf b e src eof hB, ht]
  cases hs : skipWs fuel ⟨buf, b, e, eof, src⟩ with
  | error x => simp [Except.map]
  | ok s1 =>
    have hB1 := skipWs_bnd fuel _ s1 hB hs
    rcases s1 with ⟨buf1, b1, e1, eof1, src1⟩
    simp only [Except.map, out, Bool.false_eq_true, if_false]
    have hh := unsigned_loop0_eq t fuel buf1 b1 e1 src1 eof1 0 false hB1
    split <;> split <;> simp_all [Except.map, dropRs, outV]

theorem read_signed_eq (t : IntTy) (ht : t.signed = true) (fuel : Nat) (buf : Array UInt8) (b e : Nat) (src : Source) (eof : Bool)
    (hB : Bnd ⟨buf, b, e, eof, src⟩) :
    read_signed fuel t buf b e src eof = (readInt t fuel ⟨buf, b, e, eof, src⟩).map outV := by
  simp only [read_signed, readInt, skip_whitespace_eq fuel buf b e src eof hB, ht]
  cases hs : skipWs fuel ⟨buf, b, e, eof, src⟩ with
  | error x => simp [Except.map]
  | ok s1 =>
    have hB1 := skipWs_bnd fuel _ s1 hB hs
    rcases s1 with ⟨buf1, b1, e1, eof1, src1⟩
    simp only [Except.map, out, if_true]
    rw [peek_eq _ _ _ _ _ _ (bnd_size _ hB1)]
    cases hp : Reader.peek ⟨buf1, b1, e1, eof1, src1⟩ with
    | error x => simp [Except.map]
    | ok r =>
      rcases r with ⟨c, ⟨bufp, bp, ep, eofp, srcp⟩⟩
      obtain ⟨hBp, hpos⟩ := peek_facts _ _ _ hB1 hp
      have hadv := uadd_adv ⟨bufp, bp, ep, eofp, srcp⟩ hBp (hpos.imp id (·.1))
      simp only [Except.map, outV, hadv, adv]
      by_cases h45 : c = 45
      · simp only [h45, if_true]
        have hh := signed_loop0_eq t fuel bufp (bp + 1) ep srcp eofp 0 false hBp
        split <;> split <;> simp_all [Except.map, dropRs, outV]
      · simp only [h45, if_false]
        have hh := signed_loop1_eq t fuel bufp bp ep srcp eofp 0 false hBp
        split <;> split <;> simp_all [Except.map, dropRs, outV]

/-! ### read_line -/

/-- a result `(line, read_something, state)` of the model's line loop as the generated loop returns it -/
def outL (p : Array UInt8 × Bool × RState) : Array UInt8 × Nat × Nat × Source × Bool × Array UInt8 × Bool :=
  (p.2.2.buf, p.2.2.b, p.2.2.e, p.2.2.src, p.2.2.eof, p.1, p.2.1)

theorem line_loop_eq : ∀ (fuel : Nat) (buf : Array UInt8) (b e : Nat) (src : Source) (eof : Bool) (acc : Array UInt8) (rs : Bool),
    Bnd ⟨buf, b, e, eof, src⟩ →
    read_line_loop0 fuel buf b e src eof acc rs = (lineLoop fuel ⟨buf, b, e, eof, src⟩ acc rs).map outL := by
  intro fuel
  induction fuel with
  | zero => intro buf b e src eof acc rs _; simp [read_line_loop0, lineLoop, Except.map]
  | succ n ih =>
    intro buf b e src eof acc rs hB
    simp only [read_line_loop0, lineLoop, ensure]
    with_ensure buf b e src eof hB hne =>
      cases eof with
      | true => simp [Except.map, outL]
      | false =>
        have hbe := hne rfl
        simp only [Bool.false_eq_true, if_false]
        rw [peek_eq _ _ _ _ _ _ (bnd_size _ hB), peek_ne _ hbe]
        simp only
        cases hc : buf[b]? with
        | none => simp [Except.map]
        | some c =>
          have hlt : b < buf.size := by
            rcases Nat.lt_or_ge b buf.size with h | h
            · exact h
            · rw [Array.getElem?_eq_none h] at hc; cases hc
          have hadv := uadd_adv ⟨buf, b, e, false, src⟩ hB (Or.inl hlt)
          simp only at hadv
          have hBa : Bnd ⟨buf, b + 1, e, false, src⟩ := hB
          simp only [Except.map, outV, hadv, adv, Array.size_push, Nat.add_eq_zero_iff, Nat.succ_ne_zero, and_false, if_false]
          by_cases h13 : c = 13
          · simp only [h13, if_true]
            rw [peek_eq _ _ _ _ _ _ (bnd_size _ hBa)]
            cases hp : Reader.peek ⟨buf, b + 1, e, false, src⟩ with
            | error x => simp [Except.map]
            | ok r =>
              rcases r with ⟨c2, ⟨bufp, bp, ep, eofp, srcp⟩⟩
              obtain ⟨hBp, hpos⟩ := peek_facts _ _ _ hBa hp
              simp only [Except.map, outV]
              by_cases h10 : c2 = 10
              · have hadv2 := uadd_adv ⟨bufp, bp, ep, eofp, srcp⟩ hBp (hpos.imp id (·.1))
                simp only at hadv2
                simp [h10, hadv2, outL]
              · have hne13 : ¬ ((13 : UInt8) = 10) := by decide
                simp only [h10, if_false, hne13]
                exact ih bufp bp ep srcp eofp (acc.push 13) true hBp
          · simp only [h13, if_false]
            by_cases h10 : c = 10
            · simp [h10, outL]
            · simp only [h10, if_false]
              exact ih buf (b + 1) e src false (acc.push c) true hBa

/-- an `Option<String>` result of the generated text as the model's optional byte list -/
def lineOut : Array UInt8 × Nat × Nat × Source × Bool × Option (Array UInt8) → Array UInt8 × Nat × Nat × Source × Bool × Option (List UInt8) :=
  fun (a, b, c, d, e, f) => (a, b, c, d, e, f.map Array.toList)

theorem read_line_eq (fuel : Nat) (buf : Array UInt8) (b e : Nat) (src : Source) (eof : Bool) (hB : Bnd ⟨buf, b, e, eof, src⟩) :
    (read_line fuel buf b e src eof).map lineOut = (readLine fuel ⟨buf, b, e, eof, src⟩).map outV := by
  simp only [read_line, readLine, line_loop_eq fuel buf b e src eof #[] false hB]
  cases hl : lineLoop fuel ⟨buf, b, e, eof, src⟩ #[] false with
  | error x => simp [Except.map]
  | ok r =>
    obtain ⟨acc, rs, s'⟩ := r
    cases rs <;> simp [Except.map, outL, outV, lineOut]

/-- a `String` result of the generated text (the array of code points) as the model's byte list -/
def strOut : Array UInt8 × Nat × Nat × Source × Bool × Array UInt8 → Array UInt8 × Nat × Nat × Source × Bool × List UInt8 :=
  fun (a, b, c, d, e, f) => (a, b, c, d, e, f.toList)

theorem String_read_eq (fuel : Nat) (buf : Array UInt8) (b e : Nat) (src : Source) (eof : Bool) (hB : Bnd ⟨buf, b, e, eof, src⟩) :
    (String_read fuel buf b e src eof).map strOut = (readString fuel ⟨buf, b, e, eof, src⟩).map outV := by
  simp only [String_read, readString, skip_whitespace_eq fuel buf b e src eof hB]
  cases hs : skipWs fuel ⟨buf, b, e, eof, src⟩ with
  | error x => simp [Except.map]
  | ok s1 =>
    have hB1 := skipWs_bnd fuel _ s1 hB hs
    rcases s1 with ⟨buf1, b1, e1, eof1, src1⟩
    have h := string_loop_eq fuel buf1 b1 e1 src1 eof1 #[] false hB1
    simp only [Except.map, out]
    cases hl : String_read_loop0 fuel buf1 b1 e1 src1 eof1 #[] false <;>
      cases ht : tokenLoop (fun (acc : Array UInt8) c => Except.ok (acc.push c)) fuel ⟨buf1, b1, e1, eof1, src1⟩ #[] <;>
      rw [hl, ht] at h <;> simp [Except.map, dropRs, outV, strOut] at h ⊢
    · exact h
    · rename_i v w
      obtain ⟨a1, a2, a3, a4, a5, a6, a7⟩ := v
      simp only [dropRs] at h
      simp [strOut, h]

theorem char_read_eq (fuel : Nat) (buf : Array UInt8) (b e : Nat) (src : Source) (eof : Bool) (hB : Bnd ⟨buf, b, e, eof, src⟩) :
    char_read fuel buf b e src eof = (readChar fuel ⟨buf, b, e, eof, src⟩).map outV := by
  simp only [char_read, readChar, skip_whitespace_eq fuel buf b e src eof hB]
  cases hs : skipWs fuel ⟨buf, b, e, eof, src⟩ with
  | error x => simp [Except.map]
  | ok s1 =>
    have hB1 := skipWs_bnd fuel _ s1 hB hs
    rcases s1 with ⟨buf1, b1, e1, eof1, src1⟩
    simp only [Except.map, out]
    rw [peek_eq _ _ _ _ _ _ (bnd_size _ hB1)]
    cases hp : Reader.peek ⟨buf1, b1, e1, eof1, src1⟩ with
    | error x => simp [Except.map]
    | ok r =>
      rcases r with ⟨c, ⟨bufp, bp, ep, eofp, srcp⟩⟩
      obtain ⟨hBp, hpos⟩ := peek_facts _ _ _ hB1 hp
      have hadv := uadd_adv ⟨bufp, bp, ep, eofp, srcp⟩ hBp (hpos.imp id (·.1))
      simp only [Except.map, outV, hadv, adv]

theorem is_eof_eq (fuel : Nat) (buf : Array UInt8) (b e : Nat) (src : Source) (eof : Bool) (hB : Bnd ⟨buf, b, e, eof, src⟩) :
    is_eof fuel buf b e src eof = (isEof fuel ⟨buf, b, e, eof, src⟩).map outV := by
  simp only [is_eof, isEof, skip_whitespace_eq fuel buf b e src eof hB]
  cases hs : skipWs fuel ⟨buf, b, e, eof, src⟩ <;> simp [Except.map, out, outV]

theorem new_eq (fuel : Nat) (src : Source) : new fuel src = .ok (out (init BUF_SIZE src)) := by
  simp [new, init, out]

theorem buf_size_bound : BUF_SIZE + 1 < 2 ^ 64 := by decide

end Rlib.ReaderSrc
