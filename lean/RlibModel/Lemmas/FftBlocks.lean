import RlibModel.Model.Fft
/-!
Level-A lemmas for C04 about the block recursion of `multiply_into` (`blockLoop`, `mulBlocks` in `Model/Fft.lean`),
generic in the object type `σ` and in the single-transform code `direct` — core Lean only.

* `addPrefix` (the `*x += y` zip) pointwise, and the "slide" rule for a destination processed block by block;
* `blockLoop` / `mulBlocks` keep the destination's length;
* `mulBlocks_sim`: two runs whose single-transform parts agree (and keep a relation between the objects) agree;
* `mulBlocks_adds`: if the single-transform part ADDS a value that does not depend on the destination (and leaves
  an object that does not depend on it), the whole recursion adds a value that does not depend on the destination
  — however short the destination is (early `break`, truncation of every block by `res[offset..]`).
-/
namespace Rlib.Fft

/-! ### `addPrefix` -/

theorem length_addPrefix : ∀ (res vs : List Int), (addPrefix res vs).length = res.length
  | [], [] => rfl
  | [], _ :: _ => rfl
  | _ :: _, [] => rfl
  | r :: rs, v :: vs => by simp [addPrefix, length_addPrefix rs vs]

theorem addPrefix_nil (res : List Int) : addPrefix res [] = res := by
  cases res <;> rfl

theorem nil_addPrefix (vs : List Int) : addPrefix [] vs = [] := by
  cases vs <;> rfl

theorem addPrefix_replicate_zero : ∀ (res : List Int) (n : Nat), addPrefix res (List.replicate n 0) = res
  | [], 0 => rfl
  | [], _+1 => rfl
  | _ :: _, 0 => rfl
  | r :: rs, n+1 => by
    rw [List.replicate_succ, addPrefix, addPrefix_replicate_zero rs n, Int.add_zero]

theorem addPrefix_zeros : ∀ (n : Nat) (vs : List Int), vs.length ≤ n →
    ∀ res, addPrefix res (addPrefix (List.replicate n 0) vs) = addPrefix res vs
  | n, [], _, res => by rw [addPrefix_nil, addPrefix_nil, addPrefix_replicate_zero]
  | 0, _ :: _, h, _ => by simp at h
  | n+1, v :: vs, h, res => by
    rw [List.replicate_succ, addPrefix]
    cases res with
    | nil => rfl
    | cons r rs =>
      rw [addPrefix, addPrefix, addPrefix_zeros n vs (by simpa using h) rs]
      simp

/-- entry `i` of `addPrefix res vs`: `res[i] + vs[i]` (`vs` read as zero beyond its end), for `i < res.len()`. -/
theorem getElem?_addPrefix : ∀ (res vs : List Int) (i : Nat),
    (addPrefix res vs)[i]? = res[i]?.map (· + vs[i]?.getD 0)
  | [], vs, i => by rw [nil_addPrefix]; rfl
  | r :: rs, [], i => by
    rw [addPrefix_nil]
    cases h : (r :: rs)[i]? <;> simp
  | r :: rs, v :: vs, 0 => by simp [addPrefix]
  | r :: rs, v :: vs, i+1 => by
    simp only [addPrefix, List.getElem?_cons_succ]
    exact getElem?_addPrefix rs vs i

/-- Two `i64` lists of the same length with the same entries are equal. -/
theorem ext_getD0 {l₁ l₂ : List Int} (hl : l₁.length = l₂.length)
    (h : ∀ i, i < l₁.length → l₁[i]?.getD 0 = l₂[i]?.getD 0) : l₁ = l₂ := by
  apply List.ext_getElem hl
  intro i h1 h2
  have := h i h1
  rw [List.getElem?_eq_getElem h1, List.getElem?_eq_getElem h2] at this
  exact this

theorem getD0_addPrefix (res vs : List Int) (i : Nat) :
    (addPrefix res vs)[i]?.getD 0 = if i < res.length then res[i]?.getD 0 + vs[i]?.getD 0 else 0 := by
  rw [getElem?_addPrefix]
  by_cases h : i < res.length
  · rw [if_pos h, List.getElem?_eq_getElem h]; rfl
  · rw [if_neg h, List.getElem?_eq_none (l := res) (by omega)]; rfl

/-- A destination processed block by block: adding `Fv` at the front, then `V'` from position `ss` on, is adding
    the list `V` whose entries are `Fv[i] + V'[i - ss]`. -/
theorem addPrefix_slide (rest Fv V' V : List Int) (ss : Nat)
    (hV : ∀ i, V[i]?.getD 0 = Fv[i]?.getD 0 + if ss ≤ i then V'[i - ss]?.getD 0 else 0) :
    (addPrefix rest Fv).take ss ++ addPrefix ((addPrefix rest Fv).drop ss) V' = addPrefix rest V := by
  apply ext_getD0
  · simp only [List.length_append, List.length_take, List.length_drop, length_addPrefix]; omega
  · intro i hi
    simp only [List.length_append, List.length_take, List.length_drop, length_addPrefix] at hi
    have hi' : i < rest.length := by omega
    rw [getD0_addPrefix rest V, if_pos hi', hV i]
    by_cases h : i < ss
    · rw [List.getElem?_append_left (by simp only [List.length_take, length_addPrefix]; omega),
        List.getElem?_take_of_lt h, getD0_addPrefix, if_pos hi', if_neg (by omega)]
      omega
    · rw [List.getElem?_append_right (by simp only [List.length_take, length_addPrefix]; omega)]
      simp only [List.length_take, length_addPrefix]
      rw [show min ss rest.length = ss by omega, getD0_addPrefix, List.length_drop, length_addPrefix,
        if_pos (by omega), List.getElem?_drop, show ss + (i - ss) = i by omega, getD0_addPrefix, if_pos hi',
        if_pos (by omega)]
      omega

/-! ### unfolding `blockLoop` and `mulBlocks` -/

section Loop
variable {σ : Type}

theorem size_extract_le (long : Array Int) (off ss : Nat) : (long.extract off (off + ss)).size ≤ ss := by
  simp only [Array.size_extract]; omega

theorem size_extract_block (long : Array Int) (off ss : Nat) :
    (long.extract off (off + ss)).size = min ss (long.size - off) := by
  simp only [Array.size_extract]; omega

theorem blockLoop_eq (short long : Array Int)
    (rec : (blk : Array Int) → blk.size ≤ short.size → σ → List Int → σ × List Int)
    (k : Nat) (s : σ) (done : Array Int) (rest : List Int) :
    blockLoop short long rec k s done rest =
      if k * short.size < long.size ∧ 0 < short.size then
        if rest = [] then (s, done.toList ++ rest)
        else
          blockLoop short long rec (k + 1)
            (rec (long.extract (k * short.size) (k * short.size + short.size)) (size_extract_le _ _ _) s rest).1
            (done ++ (rec (long.extract (k * short.size) (k * short.size + short.size)) (size_extract_le _ _ _) s rest).2.take short.size)
            ((rec (long.extract (k * short.size) (k * short.size + short.size)) (size_extract_le _ _ _) s rest).2.drop short.size)
      else (s, done.toList ++ rest) := by
  rw [blockLoop]
  by_cases hc : k * short.size < long.size ∧ 0 < short.size
  · rw [dif_pos hc, if_pos hc]
    cases rest with
    | nil => simp
    | cons x xs => simp
  · rw [dif_neg hc, if_neg hc]

/-- The finished prefix `done` is only carried along. -/
theorem blockLoop_done (short long : Array Int)
    (rec : (blk : Array Int) → blk.size ≤ short.size → σ → List Int → σ × List Int) :
    ∀ (n k : Nat) (s : σ) (done : Array Int) (rest : List Int), long.size - k * short.size = n →
      blockLoop short long rec k s done rest
        = ((blockLoop short long rec k s #[] rest).1, done.toList ++ (blockLoop short long rec k s #[] rest).2) := by
  intro n
  induction n using Nat.strongRecOn with
  | _ n ih =>
    intro k s done rest hn
    rw [blockLoop_eq short long rec k s done rest, blockLoop_eq short long rec k s #[] rest]
    by_cases hc : k * short.size < long.size ∧ 0 < short.size
    · rw [if_pos hc, if_pos hc]
      by_cases hr : rest = []
      · rw [if_pos hr, if_pos hr]; simp
      · rw [if_neg hr, if_neg hr]
        have hlt : long.size - (k + 1) * short.size < n := by rw [Nat.add_mul]; omega
        generalize rec (long.extract (k * short.size) (k * short.size + short.size)) (size_extract_le _ _ _) s rest = r
        rw [ih _ hlt (k + 1) r.1 (done ++ r.2.take short.size) _ rfl,
          ih _ hlt (k + 1) r.1 (#[] ++ r.2.take short.size) _ rfl]
        simp
    · rw [if_neg hc, if_neg hc]; simp

/-- One iteration of the block loop (`done = []`): the recursive call on `res[offset..]`, its first `short.len()`
    entries are final, the loop goes on with the rest. -/
theorem blockLoop_step (short long : Array Int)
    (rec : (blk : Array Int) → blk.size ≤ short.size → σ → List Int → σ × List Int)
    (k : Nat) (s : σ) (rest : List Int) (hc : k * short.size < long.size ∧ 0 < short.size) (hr : rest ≠ []) :
    blockLoop short long rec k s #[] rest =
      ((blockLoop short long rec (k + 1)
          (rec (long.extract (k * short.size) (k * short.size + short.size)) (size_extract_le _ _ _) s rest).1 #[]
          ((rec (long.extract (k * short.size) (k * short.size + short.size)) (size_extract_le _ _ _) s rest).2.drop short.size)).1,
       (rec (long.extract (k * short.size) (k * short.size + short.size)) (size_extract_le _ _ _) s rest).2.take short.size
        ++ (blockLoop short long rec (k + 1)
          (rec (long.extract (k * short.size) (k * short.size + short.size)) (size_extract_le _ _ _) s rest).1 #[]
          ((rec (long.extract (k * short.size) (k * short.size + short.size)) (size_extract_le _ _ _) s rest).2.drop short.size)).2) := by
  rw [blockLoop_eq, if_pos hc, if_neg hr, blockLoop_done short long rec _ (k + 1) _ _ _ rfl]
  simp

theorem blockLoop_stop (short long : Array Int)
    (rec : (blk : Array Int) → blk.size ≤ short.size → σ → List Int → σ × List Int)
    (k : Nat) (s : σ) (rest : List Int) (hc : ¬(k * short.size < long.size ∧ 0 < short.size)) :
    blockLoop short long rec k s #[] rest = (s, rest) := by
  rw [blockLoop_eq, if_neg hc]; simp

theorem blockLoop_break (short long : Array Int)
    (rec : (blk : Array Int) → blk.size ≤ short.size → σ → List Int → σ × List Int)
    (k : Nat) (s : σ) : blockLoop short long rec k s #[] [] = (s, []) := by
  rw [blockLoop_eq]; split <;> simp

theorem mulBlocks_eq (direct : σ → Array Int → Array Int → List Int → σ × List Int)
    (s : σ) (a b : Array Int) (res : List Int) :
    mulBlocks direct s a b res =
      if a.size = 0 ∨ b.size = 0 then (s, res)
      else if a.size ≤ b.size then
        if b.size > 2 * a.size then
          blockLoop a b (fun blk _ s' r' => mulBlocks direct s' a blk r') 0 s #[] res
        else direct s a b res
      else
        if a.size > 2 * b.size then
          blockLoop b a (fun blk _ s' r' => mulBlocks direct s' b blk r') 0 s #[] res
        else direct s a b res := by
  rw [mulBlocks]
  simp only [dite_eq_ite]

/-- Operands whose lengths differ by at most a factor 2: the single-transform code, operands in the caller's order. -/
theorem mulBlocks_balanced (direct : σ → Array Int → Array Int → List Int → σ × List Int)
    (s : σ) (a b : Array Int) (res : List Int) (_ha : a.size ≠ 0) (hb : b.size ≠ 0)
    (h1 : b.size ≤ 2 * a.size) (h2 : a.size ≤ 2 * b.size) :
    mulBlocks direct s a b res = direct s a b res := by
  rw [mulBlocks_eq, if_neg (by omega)]
  split
  · rw [if_neg (by omega)]
  · rw [if_neg (by omega)]

/-! ### length -/

theorem blockLoop_length (short long : Array Int)
    (rec : (blk : Array Int) → blk.size ≤ short.size → σ → List Int → σ × List Int)
    (hrec : ∀ blk h s r, (rec blk h s r).2.length = r.length) :
    ∀ (n k : Nat) (s : σ) (rest : List Int), long.size - k * short.size = n →
      (blockLoop short long rec k s #[] rest).2.length = rest.length := by
  intro n
  induction n using Nat.strongRecOn with
  | _ n ih =>
    intro k s rest hn
    by_cases hc : k * short.size < long.size ∧ 0 < short.size
    · by_cases hr : rest = []
      · rw [hr, blockLoop_break]
      · rw [blockLoop_step short long rec k s rest hc hr]
        have hlt : long.size - (k + 1) * short.size < n := by rw [Nat.add_mul]; omega
        simp only [List.length_append, List.length_take, ih _ hlt (k + 1) _ _ rfl, List.length_drop, hrec]
        omega
    · rw [blockLoop_stop short long rec k s rest hc]

/-- `multiply_into` never changes the length of the destination. -/
theorem mulBlocks_length (direct : σ → Array Int → Array Int → List Int → σ × List Int)
    (hd : ∀ s a b res, (direct s a b res).2.length = res.length) :
    ∀ (n : Nat) (a b : Array Int), a.size + b.size = n → ∀ s res, (mulBlocks direct s a b res).2.length = res.length := by
  intro n
  induction n using Nat.strongRecOn with
  | _ n ih =>
    intro a b hn s res
    rw [mulBlocks_eq]
    split
    · rfl
    · split
      · split
        · exact blockLoop_length a b _ (fun blk h s r => ih (a.size + blk.size) (by omega) a blk rfl s r) _ 0 s res rfl
        · exact hd s a b res
      · split
        · exact blockLoop_length b a _ (fun blk h s r => ih (b.size + blk.size) (by omega) b blk rfl s r) _ 0 s res rfl
        · exact hd s a b res

end Loop

/-! ### simulation: two runs with corresponding single-transform parts -/

section Sim
variable {σ τ : Type}

theorem blockLoop_sim (R : σ → τ → Prop) (short long : Array Int)
    (rec₁ : (blk : Array Int) → blk.size ≤ short.size → σ → List Int → σ × List Int)
    (rec₂ : (blk : Array Int) → blk.size ≤ short.size → τ → List Int → τ × List Int)
    (hrec : ∀ blk h s t r, R s t → R (rec₁ blk h s r).1 (rec₂ blk h t r).1 ∧ (rec₁ blk h s r).2 = (rec₂ blk h t r).2) :
    ∀ (n k : Nat) (s : σ) (t : τ) (done : Array Int) (rest : List Int), long.size - k * short.size = n → R s t →
      R (blockLoop short long rec₁ k s done rest).1 (blockLoop short long rec₂ k t done rest).1
      ∧ (blockLoop short long rec₁ k s done rest).2 = (blockLoop short long rec₂ k t done rest).2 := by
  intro n
  induction n using Nat.strongRecOn with
  | _ n ih =>
    intro k s t done rest hn hR
    rw [blockLoop_eq short long rec₁, blockLoop_eq short long rec₂]
    by_cases hc : k * short.size < long.size ∧ 0 < short.size
    · rw [if_pos hc, if_pos hc]
      by_cases hr : rest = []
      · rw [if_pos hr, if_pos hr]; exact ⟨hR, rfl⟩
      · rw [if_neg hr, if_neg hr]
        have hlt : long.size - (k + 1) * short.size < n := by rw [Nat.add_mul]; omega
        obtain ⟨h1, h2⟩ := hrec (long.extract (k * short.size) (k * short.size + short.size)) (size_extract_le _ _ _) s t rest hR
        rw [h2]
        exact ih _ hlt (k + 1) _ _ _ _ rfl h1
    · rw [if_neg hc, if_neg hc]; exact ⟨hR, rfl⟩

/-- If the single-transform parts of two runs (on objects related by `R`) return the same list and related objects,
    so do the whole block recursions. -/
theorem mulBlocks_sim (R : σ → τ → Prop)
    (d₁ : σ → Array Int → Array Int → List Int → σ × List Int)
    (d₂ : τ → Array Int → Array Int → List Int → τ × List Int)
    (hd : ∀ s t a b res, a.size ≠ 0 → b.size ≠ 0 → R s t →
      R (d₁ s a b res).1 (d₂ t a b res).1 ∧ (d₁ s a b res).2 = (d₂ t a b res).2) :
    ∀ (n : Nat) (a b : Array Int), a.size + b.size = n → ∀ s t res, R s t →
      R (mulBlocks d₁ s a b res).1 (mulBlocks d₂ t a b res).1 ∧ (mulBlocks d₁ s a b res).2 = (mulBlocks d₂ t a b res).2 := by
  intro n
  induction n using Nat.strongRecOn with
  | _ n ih =>
    intro a b hn s t res hR
    rw [mulBlocks_eq d₁, mulBlocks_eq d₂]
    by_cases he : a.size = 0 ∨ b.size = 0
    · rw [if_pos he, if_pos he]; exact ⟨hR, rfl⟩
    · rw [if_neg he, if_neg he]
      by_cases hab : a.size ≤ b.size
      · rw [if_pos hab, if_pos hab]
        by_cases h : b.size > 2 * a.size
        · rw [if_pos h, if_pos h]
          exact blockLoop_sim R a b _ _
            (fun blk hb s t r hR => ih (a.size + blk.size) (by omega) a blk rfl s t r hR) _ 0 s t #[] res rfl hR
        · rw [if_neg h, if_neg h]; exact hd s t a b res (by omega) (by omega) hR
      · rw [if_neg hab, if_neg hab]
        by_cases h : a.size > 2 * b.size
        · rw [if_pos h, if_pos h]
          exact blockLoop_sim R b a _ _
            (fun blk hb s t r hR => ih (b.size + blk.size) (by omega) b blk rfl s t r hR) _ 0 s t #[] res rfl hR
        · rw [if_neg h, if_neg h]; exact hd s t a b res (by omega) (by omega) hR

end Sim

/-! ### the recursion ADDS a value that does not depend on the destination -/

section Adds
variable {σ : Type}

/-- Bound on the number of entries blocks `k, k+1, …` write, counted from `offset = k * short.len()`. -/
def blockBound (short long : Array Int) (k : Nat) : Nat :=
  if k * short.size < long.size then short.size + (long.size - k * short.size) - 1 else 0

theorem blockLoop_adds (short long : Array Int)
    (rec : (blk : Array Int) → blk.size ≤ short.size → σ → List Int → σ × List Int)
    (hrec : ∀ blk h, blk.size ≠ 0 → ∃ F : σ → List Int, (∀ s, (F s).length ≤ short.size + blk.size - 1) ∧
      ∀ s r, (rec blk h s r).2 = addPrefix r (F s))
    (hG : ∀ blk h s r r', blk.size = short.size → (rec blk h s r).1 = (rec blk h s r').1) :
    ∀ (n k : Nat), long.size - k * short.size = n →
      ∃ V : σ → List Int, (∀ s, (V s).length ≤ blockBound short long k) ∧
        ∀ s rest, (blockLoop short long rec k s #[] rest).2 = addPrefix rest (V s) := by
  intro n
  induction n using Nat.strongRecOn with
  | _ n ih =>
    intro k hn
    by_cases hc : k * short.size < long.size ∧ 0 < short.size
    · have hlt : long.size - (k + 1) * short.size < n := by rw [Nat.add_mul]; omega
      obtain ⟨V', hV'len, hV'⟩ := ih _ hlt (k + 1) rfl
      have hbs := size_extract_block long (k * short.size) short.size
      obtain ⟨F, hFlen, hF⟩ := hrec (long.extract (k * short.size) (k * short.size + short.size)) (size_extract_le _ _ _)
        (by rw [hbs]; omega)
      -- the object the next block starts from (it matters only if there is a next block: then this block is full)
      let G : σ → σ := fun s => (rec (long.extract (k * short.size) (k * short.size + short.size)) (size_extract_le _ _ _) s []).1
      let N := short.size + (long.size - k * short.size) - 1
      let V : σ → List Int := fun s => (List.range N).map (fun i =>
        (F s)[i]?.getD 0 + if short.size ≤ i then (V' (G s))[i - short.size]?.getD 0 else 0)
      have hB : blockBound short long k = N := by unfold blockBound; rw [if_pos hc.1]
      have hB' : blockBound short long (k + 1) + short.size ≤ N := by
        unfold blockBound; rw [Nat.add_mul]; split <;> omega
      refine ⟨V, fun s => by rw [hB]; simp [V], fun s rest => ?_⟩
      by_cases hr : rest = []
      · rw [hr, blockLoop_break, nil_addPrefix]
      · rw [blockLoop_step short long rec k s rest hc hr, hV', hF]
        -- the state after this block
        have hst : V' (rec (long.extract (k * short.size) (k * short.size + short.size)) (size_extract_le _ _ _) s rest).1
            = V' (G s) := by
          by_cases hnext : (k + 1) * short.size < long.size
          · rw [hG _ _ s rest [] (by rw [hbs]; rw [Nat.add_mul] at hnext; omega)]
          · have hz : ∀ s', V' s' = [] := by
              intro s'
              have := hV'len s'
              unfold blockBound at this
              rw [if_neg hnext] at this
              exact List.eq_nil_of_length_eq_zero (by omega)
            rw [hz, hz]
        rw [hst]
        apply addPrefix_slide
        intro i
        by_cases hi : i < N
        · simp only [V, List.getElem?_map, List.getElem?_range hi, Option.map_some, Option.getD_some]
        · have h1 : (V s)[i]? = none := List.getElem?_eq_none (by simp [V]; omega)
          have h2 : (F s)[i]? = none := List.getElem?_eq_none (by have := hFlen s; rw [hbs] at this; omega)
          rw [h1, h2]
          split
          · have h3 : (V' (G s))[i - short.size]? = none :=
              List.getElem?_eq_none (by have := hV'len (G s); omega)
            rw [h3]; rfl
          · rfl
    · refine ⟨fun _ => [], fun _ => Nat.zero_le _, fun s rest => ?_⟩
      rw [blockLoop_stop short long rec k s rest hc, addPrefix_nil]

/-- **The block recursion adds a destination-independent value.**  If the single-transform code `direct` adds to the
    destination a list `val s a b` (of at most `|a|+|b|-1` entries) and leaves an object `st s a b`, neither depending
    on the destination, then `multiply_into` as a whole adds a list `V s` of at most `|a|+|b|-1` entries that does not
    depend on the destination — for a destination of ANY length (blocks cut off by `res[offset..]`, early `break`). -/
theorem mulBlocks_adds (direct : σ → Array Int → Array Int → List Int → σ × List Int)
    (val : σ → Array Int → Array Int → List Int) (st : σ → Array Int → Array Int → σ)
    (hd : ∀ s a b res, direct s a b res = (st s a b, addPrefix res (val s a b)))
    (hlen : ∀ s a b, (val s a b).length ≤ a.size + b.size - 1) :
    ∀ (n : Nat) (a b : Array Int), a.size + b.size = n → a.size ≠ 0 → b.size ≠ 0 →
      ∃ V : σ → List Int, (∀ s, (V s).length ≤ a.size + b.size - 1) ∧
        ∀ s res, (mulBlocks direct s a b res).2 = addPrefix res (V s) := by
  intro n
  induction n using Nat.strongRecOn with
  | _ n ih =>
    intro a b hn ha hb
    -- full blocks are multiplied by the single-transform code: the object they leave does not depend on the destination
    have hfull : ∀ (sh blk : Array Int) s r r', sh.size ≠ 0 → blk.size = sh.size →
        (mulBlocks direct s sh blk r).1 = (mulBlocks direct s sh blk r').1 := by
      intro sh blk s r r' h0 he
      rw [mulBlocks_balanced direct s sh blk r h0 (by omega) (by omega) (by omega),
        mulBlocks_balanced direct s sh blk r' h0 (by omega) (by omega) (by omega), hd, hd]
    by_cases hab : a.size ≤ b.size
    · by_cases h : b.size > 2 * a.size
      · obtain ⟨V, hVlen, hV⟩ := blockLoop_adds a b (fun blk _ s' r' => mulBlocks direct s' a blk r')
          (fun blk hb h0 => ih (a.size + blk.size) (by omega) a blk rfl ha h0)
          (fun blk hb s r r' he => hfull a blk s r r' ha he) _ 0 rfl
        refine ⟨V, fun s => ?_, fun s res => ?_⟩
        · have := hVlen s
          unfold blockBound at this
          rw [if_pos (by omega)] at this
          omega
        · rw [mulBlocks_eq, if_neg (by omega), if_pos hab, if_pos h]
          exact hV s res
      · refine ⟨fun s => val s a b, fun s => hlen s a b, fun s res => ?_⟩
        rw [mulBlocks_eq, if_neg (by omega), if_pos hab, if_neg h, hd]
    · by_cases h : a.size > 2 * b.size
      · obtain ⟨V, hVlen, hV⟩ := blockLoop_adds b a (fun blk _ s' r' => mulBlocks direct s' b blk r')
          (fun blk hb' h0 => ih (b.size + blk.size) (by omega) b blk rfl hb h0)
          (fun blk hb' s r r' he => hfull b blk s r r' hb he) _ 0 rfl
        refine ⟨V, fun s => ?_, fun s res => ?_⟩
        · have := hVlen s
          unfold blockBound at this
          rw [if_pos (by omega)] at this
          omega
        · rw [mulBlocks_eq, if_neg (by omega), if_neg hab, if_pos h]
          exact hV s res
      · refine ⟨fun s => val s a b, fun s => hlen s a b, fun s res => ?_⟩
        rw [mulBlocks_eq, if_neg (by omega), if_neg hab, if_neg h, hd]

end Adds

end Rlib.Fft
