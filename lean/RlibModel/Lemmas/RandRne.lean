import Mathlib.Data.Int.Log
import Mathlib.Data.Rat.Floor
import Mathlib.Algebra.Order.Field.Rat
import Mathlib.Algebra.Order.Field.Basic
import Mathlib.Tactic.Linarith
import Mathlib.Tactic.Ring
import Mathlib.Tactic.Positivity
/-! A concrete rounding for `float_range_in`: **round to nearest, ties to even, to `p` significant bits with
gradual underflow at exponent `emin`** on the rationals (`p = 53`, `emin = -1074` is IEEE-754 binary64 without
the overflow to ±∞). Proved: monotone, `rne 0 = 0`, every `m·2^j` with `|m| < 2^p`, `emin ≤ j` is a fixed point. -/
namespace Rlib.Rand

/-- round a rational to the nearest integer, ties to even -/
def rhe (q : ℚ) : ℤ :=
  if q - ⌊q⌋ < 1 / 2 then ⌊q⌋ else if 1 / 2 < q - ⌊q⌋ then ⌊q⌋ + 1 else if ⌊q⌋ % 2 = 0 then ⌊q⌋ else ⌊q⌋ + 1

theorem floor_le_rhe (q : ℚ) : ⌊q⌋ ≤ rhe q := by
  unfold rhe; split_ifs <;> omega

theorem rhe_le_floor_succ (q : ℚ) : rhe q ≤ ⌊q⌋ + 1 := by
  unfold rhe; split_ifs <;> omega

theorem rhe_intCast (n : ℤ) : rhe (n : ℚ) = n := by
  unfold rhe
  rw [Int.floor_intCast]
  norm_num

theorem rhe_mono (a b : ℚ) (h : a ≤ b) : rhe a ≤ rhe b := by
  have hf : ⌊a⌋ ≤ ⌊b⌋ := Int.floor_mono h
  by_cases heq : ⌊a⌋ = ⌊b⌋
  · unfold rhe
    rw [heq]
    have : a - (⌊b⌋ : ℚ) ≤ b - ⌊b⌋ := by linarith
    split_ifs <;> first | omega | (exfalso; linarith)
  · calc rhe a ≤ ⌊a⌋ + 1 := rhe_le_floor_succ a
      _ ≤ ⌊b⌋ := by omega
      _ ≤ rhe b := floor_le_rhe b

theorem rhe_neg (q : ℚ) : rhe (-q) = -rhe q := by
  by_cases hint : q = ⌊q⌋
  · rw [hint, ← Int.cast_neg, rhe_intCast, rhe_intCast]
  · have h0 : (⌊q⌋ : ℚ) ≤ q := Int.floor_le q
    have h1 : q < ⌊q⌋ + 1 := Int.lt_floor_add_one q
    have h0' : (⌊q⌋ : ℚ) < q := lt_of_le_of_ne h0 (Ne.symm hint)
    have hfl : ⌊-q⌋ = -⌊q⌋ - 1 := by
      rw [Int.floor_eq_iff]
      push_cast
      constructor <;> linarith
    unfold rhe
    rw [hfl]
    push_cast
    split_ifs <;> first | omega | (exfalso; linarith)

/-! ### scaling by a power of two -/

theorem two_zpow_pos (e : ℤ) : (0 : ℚ) < 2 ^ e := zpow_pos (by norm_num) e

/-- `2^t` as an integer multiple of `2^e` for `e ≤ t` -/
theorem zpow_as_multiple (t e : ℤ) (h : e ≤ t) : (2 : ℚ) ^ t = ((2 ^ (t - e).toNat : ℤ) : ℚ) * 2 ^ e := by
  push_cast
  rw [← zpow_natCast, Int.toNat_of_nonneg (by omega), ← zpow_add₀ (by norm_num)]
  congr 1
  omega

/-- rounding at a fixed exponent `e` -/
def rndAt (e : ℤ) (x : ℚ) : ℚ := (rhe (x / 2 ^ e) : ℚ) * 2 ^ e

theorem rndAt_mono (e : ℤ) (a b : ℚ) (h : a ≤ b) : rndAt e a ≤ rndAt e b := by
  unfold rndAt
  have hp := two_zpow_pos e
  have h1 : a / 2 ^ e ≤ b / 2 ^ e := div_le_div_of_nonneg_right h hp.le
  have h2 : ((rhe (a / 2 ^ e) : ℤ) : ℚ) ≤ (rhe (b / 2 ^ e) : ℤ) := by exact_mod_cast rhe_mono _ _ h1
  exact mul_le_mul_of_nonneg_right h2 hp.le

theorem rndAt_multiple (e : ℤ) (M : ℤ) : rndAt e ((M : ℚ) * 2 ^ e) = (M : ℚ) * 2 ^ e := by
  unfold rndAt
  have hp := two_zpow_pos e
  rw [mul_div_assoc, div_self hp.ne', mul_one, rhe_intCast]

theorem rndAt_le_multiple (e : ℤ) (M : ℤ) (x : ℚ) (h : x ≤ (M : ℚ) * 2 ^ e) : rndAt e x ≤ (M : ℚ) * 2 ^ e := by
  rw [← rndAt_multiple e M]; exact rndAt_mono e _ _ h

theorem multiple_le_rndAt (e : ℤ) (M : ℤ) (x : ℚ) (h : (M : ℚ) * 2 ^ e ≤ x) : (M : ℚ) * 2 ^ e ≤ rndAt e x := by
  rw [← rndAt_multiple e M]; exact rndAt_mono e _ _ h

theorem rndAt_neg (e : ℤ) (x : ℚ) : rndAt e (-x) = -rndAt e x := by
  unfold rndAt
  rw [neg_div, rhe_neg]
  push_cast
  ring

/-! ### round to nearest even with `p` significant bits, gradual underflow at `emin` -/

/-- exponent of the unit in the last place used for `x` -/
def expo (p : ℕ) (emin : ℤ) (x : ℚ) : ℤ := max (Int.log 2 |x| - ((p : ℤ) - 1)) emin

def rne (p : ℕ) (emin : ℤ) (x : ℚ) : ℚ := rndAt (expo p emin x) x

theorem rne_zero (p : ℕ) (emin : ℤ) : rne p emin 0 = 0 := by
  unfold rne rndAt
  rw [zero_div]
  have : rhe 0 = 0 := by simpa using rhe_intCast 0
  rw [this]; simp

theorem rne_neg (p : ℕ) (emin : ℤ) (x : ℚ) : rne p emin (-x) = -rne p emin x := by
  unfold rne expo
  rw [abs_neg, rndAt_neg]

theorem log_spec (x : ℚ) (hx : 0 < x) : (2 : ℚ) ^ Int.log 2 x ≤ x ∧ x < 2 ^ (Int.log 2 x + 1) := by
  have h1 := Int.zpow_log_le_self (b := 2) (by norm_num) hx
  have h2 := Int.lt_zpow_succ_log_self (b := 2) (by norm_num) x
  simp only [Nat.cast_ofNat] at h1 h2
  exact ⟨h1, h2⟩

theorem rne_nonneg (p : ℕ) (emin : ℤ) (x : ℚ) (hx : 0 ≤ x) : 0 ≤ rne p emin x := by
  unfold rne
  have := multiple_le_rndAt (expo p emin x) 0 x (by simpa using hx)
  simpa using this

theorem rne_mono_pos (p : ℕ) (hp : 1 ≤ p) (emin : ℤ) (a b : ℚ) (ha : 0 < a) (h : a ≤ b) :
    rne p emin a ≤ rne p emin b := by
  have hb : 0 < b := lt_of_lt_of_le ha h
  have hk : Int.log 2 a ≤ Int.log 2 b := Int.log_mono_right ha h
  obtain ⟨_, ha2⟩ := log_spec a ha
  obtain ⟨hb1, _⟩ := log_spec b hb
  have hpz : (1 : ℤ) ≤ (p : ℤ) := by exact_mod_cast hp
  unfold rne expo
  rw [abs_of_pos ha, abs_of_pos hb]
  generalize hka : Int.log 2 a = ka at *
  generalize hkb : Int.log 2 b = kb at *
  by_cases heq : max (ka - ((p : ℤ) - 1)) emin = max (kb - ((p : ℤ) - 1)) emin
  · rw [heq]; exact rndAt_mono _ a b h
  · -- different exponents: a power of two lies between the two results
    set ea := max (ka - ((p : ℤ) - 1)) emin with hea
    set eb := max (kb - ((p : ℤ) - 1)) emin with heb
    have hlt : ea < eb := by omega
    have hebk : eb = kb - ((p : ℤ) - 1) := by omega
    have hkk : ka + 1 ≤ kb := by
      by_contra hc
      have : ka = kb := by omega
      rw [this] at hea
      omega
    set t := max (ka + 1) ea with ht
    have ht1 : ea ≤ t := by omega
    have ht2 : t ≤ kb := by omega
    have hup : rndAt ea a ≤ 2 ^ t := by
      rw [zpow_as_multiple t ea ht1]
      apply rndAt_le_multiple
      rw [← zpow_as_multiple t ea ht1]
      calc a ≤ 2 ^ (ka + 1) := ha2.le
        _ ≤ 2 ^ t := zpow_le_zpow_right₀ (by norm_num) (by omega)
    have hlow : (2 : ℚ) ^ kb ≤ rndAt eb b := by
      rw [zpow_as_multiple kb eb (by omega)]
      apply multiple_le_rndAt
      rw [← zpow_as_multiple kb eb (by omega)]
      exact hb1
    calc rndAt ea a ≤ 2 ^ t := hup
      _ ≤ 2 ^ kb := zpow_le_zpow_right₀ (by norm_num) ht2
      _ ≤ rndAt eb b := hlow

/-- round-to-nearest-even is monotone -/
theorem rne_mono (p : ℕ) (hp : 1 ≤ p) (emin : ℤ) (a b : ℚ) (h : a ≤ b) : rne p emin a ≤ rne p emin b := by
  rcases lt_trichotomy a 0 with ha | ha | ha
  · rcases lt_or_ge b 0 with hb | hb
    · have := rne_mono_pos p hp emin (-b) (-a) (by linarith) (by linarith)
      rw [rne_neg, rne_neg] at this
      linarith
    · have h1 : 0 ≤ rne p emin (-a) := rne_nonneg p emin (-a) (by linarith)
      rw [rne_neg] at h1
      have h2 := rne_nonneg p emin b hb
      linarith
  · subst ha
    rw [rne_zero]
    exact rne_nonneg p emin b h
  · exact rne_mono_pos p hp emin a b ha h

/-- representable numbers (`p`-bit significand, exponent not below `emin`) are fixed points -/
theorem rne_fix (p : ℕ) (emin : ℤ) (m j : ℤ) (hm : |m| < 2 ^ p) (hj : emin ≤ j) :
    rne p emin ((m : ℚ) * 2 ^ j) = (m : ℚ) * 2 ^ j := by
  by_cases hm0 : m = 0
  · subst hm0; simp [rne_zero]
  have hpj := two_zpow_pos j
  have habs : |(m : ℚ) * 2 ^ j| = (|m| : ℤ) * 2 ^ j := by
    rw [abs_mul, abs_of_pos hpj, Int.cast_abs]
  have hpos : (0 : ℚ) < (|m| : ℤ) * 2 ^ j := by
    have : (0 : ℚ) < ((|m| : ℤ) : ℚ) := by exact_mod_cast abs_pos.mpr hm0
    positivity
  have hlt : ((|m| : ℤ) : ℚ) * 2 ^ j < 2 ^ ((p : ℤ) + j) := by
    rw [zpow_add₀ (by norm_num), zpow_natCast]
    have : ((|m| : ℤ) : ℚ) < 2 ^ p := by exact_mod_cast hm
    exact mul_lt_mul_of_pos_right this hpj
  have hlog : Int.log 2 (((|m| : ℤ) : ℚ) * 2 ^ j) < (p : ℤ) + j := by
    have := (Int.lt_zpow_iff_log_lt (b := 2) (by norm_num) (x := (p : ℤ) + j) hpos).mp (by simpa using hlt)
    exact this
  have he : expo p emin ((m : ℚ) * 2 ^ j) ≤ j := by
    unfold expo
    rw [habs]
    omega
  unfold rne
  generalize expo p emin ((m : ℚ) * 2 ^ j) = e at he
  have : (m : ℚ) * 2 ^ j = ((m * 2 ^ (j - e).toNat : ℤ) : ℚ) * 2 ^ e := by
    rw [zpow_as_multiple j e he]
    push_cast
    ring
  rw [this]
  exact rndAt_multiple e _

end Rlib.Rand
