import RlibModel.Lemmas.Fft
/-!
Pointwise descriptions of the in-place loops of `fft_internal` / `multiply_into` (still for EVERY carrier
and arithmetic): each loop nest is turned into a closed formula for every array position.  These are the
bridge between the array-level model and the algebra of `Lemmas/FftExact.lean`.
-/
namespace Rlib.Fft
variable {K : Type}


/-- Loops whose iterations work on pairwise disjoint index sets `S k` (each iteration reads and writes
    only inside its own set): the result on `S k` is what iteration `k` does to the ORIGINAL array. -/
theorem forRange_indep {α : Type} (lo hi : Nat) (f : Nat → Array α → Array α) (S : Nat → Nat → Prop) (a : Array α)
    (hsize : ∀ k x, (f k x).size = x.size)
    (hframe : ∀ k x p, lo ≤ k → k < hi → x.size = a.size → ¬ S k p → (f k x)[p]? = x[p]?)
    (hlocal : ∀ k x p, lo ≤ k → k < hi → x.size = a.size → (∀ q, S k q → x[q]? = a[q]?) → S k p →
      (f k x)[p]? = (f k a)[p]?)
    (hdisj : ∀ k k' p, lo ≤ k → k < k' → k' < hi → S k p → ¬ S k' p) :
    (forRange lo hi f a).size = a.size ∧
    (∀ k p, lo ≤ k → k < hi → S k p → (forRange lo hi f a)[p]? = (f k a)[p]?) ∧
    (∀ p, (∀ k, lo ≤ k → k < hi → ¬ S k p) → (forRange lo hi f a)[p]? = a[p]?) := by
  by_cases hle : lo ≤ hi
  · have key := forRange_induct f a
      (fun n x => n ≤ hi → (x.size = a.size ∧
        (∀ k p, lo ≤ k → k < n → S k p → x[p]? = (f k a)[p]?) ∧
        (∀ p, (∀ k, lo ≤ k → k < n → ¬ S k p) → x[p]? = a[p]?))) hle ?_ ?_
    · exact key (Nat.le_refl _)
    · intro _
      exact ⟨rfl, fun k p h1 h2 => by omega, fun p _ => rfl⟩
    · intro n x h1 h2 ih _
      obtain ⟨hs, hd, hu⟩ := ih (by omega)
      refine ⟨by rw [hsize, hs], ?_, ?_⟩
      · intro k p hk1 hk2 hS
        by_cases hkn : k = n
        · subst hkn
          apply hlocal k x p h1 h2 hs _ hS
          intro q hq
          exact hu q (fun k' hk'1 hk'2 hS' => hdisj k' k q hk'1 hk'2 h2 hS' hq)
        · have hlt : k < n := by omega
          rw [hframe n x p h1 h2 hs (hdisj k n p hk1 hlt h2 hS)]
          exact hd k p hk1 hlt hS
      · intro p hp
        rw [hframe n x p h1 h2 hs (hp n h1 (by omega))]
        exact hu p (fun k hk1 hk2 => hp k hk1 (by omega))
  · rw [forRange_of_le f a (by omega)]
    exact ⟨rfl, fun k p h1 h2 => by omega, fun p _ => rfl⟩

/-! ### bit reversal: low-bit recursion and involution -/

theorem revC_low : ∀ (k B c : Nat), B < 2^k → c < 2 → revC (k+1) (2 * B + c) = revC k B + c * 2^k := by
  intro k
  induction k with
  | zero =>
    intro B c hB hc
    have : B = 0 := by simpa using hB
    subst this
    rcases (by omega : c = 0 ∨ c = 1) with rfl | rfl <;> simp [revC]
  | succ k ih =>
    intro B c hB hc
    rw [revC]
    have hp : 2^(k+1) = 2 * 2^k := by rw [Nat.pow_succ]; omega
    by_cases h : B < 2^k
    · rw [if_pos (by omega), ih B c h hc]
      conv => rhs; rw [revC, if_pos h]
      rw [hp]; rw [Nat.mul_add, ← Nat.mul_assoc, Nat.mul_comm 2 c, Nat.mul_assoc]
    · rw [if_neg (by omega)]
      have : 2 * B + c - 2^(k+1) = 2 * (B - 2^k) + c := by omega
      rw [this, ih (B - 2^k) c (by omega) hc]
      conv => rhs; rw [revC, if_neg h]
      rw [hp]
      have e : c * (2 * 2^k) = 2 * (c * 2^k) := by rw [← Nat.mul_assoc, Nat.mul_comm c 2, Nat.mul_assoc]
      omega

theorem revC_revC : ∀ (k i : Nat), i < 2^k → revC k (revC k i) = i := by
  intro k
  induction k with
  | zero => intro i hi; simp [revC]; omega
  | succ k ih =>
    intro i hi
    have hp : 2^(k+1) = 2 * 2^k := by rw [Nat.pow_succ]; omega
    conv => lhs; arg 2; rw [revC]
    by_cases h : i < 2^k
    · rw [if_pos h]
      have := revC_low k (revC k i) 0 (revC_lt k i) (by omega)
      simp only [Nat.add_zero, Nat.zero_mul] at this
      rw [this, ih i h]
    · rw [if_neg h]
      have := revC_low k (revC k (i - 2^k)) 1 (revC_lt k _) (by omega)
      rw [this, ih (i - 2^k) (by omega)]
      omega

theorem revC_zero : ∀ k, revC k 0 = 0
  | 0 => rfl
  | k+1 => by rw [revC, if_pos (Nat.two_pow_pos k), revC_zero k]

/-! ### arrays as functions; the bit-reversal loop -/

/-- `v` read as a total function (the default is never observed inside the bounds). -/
def rdA (A : Arith K) (v : Array K) (p : Nat) : K := v.getD p A.zero

theorem getElem?_eq_rdA (A : Arith K) (v : Array K) (p : Nat) (h : p < v.size) : v[p]? = some (rdA A v p) := by
  unfold rdA
  rw [Array.getD_eq_getD_getElem?, Array.getElem?_eq_getElem h]; rfl

theorem rdA_of_getElem? (A : Arith K) (v : Array K) (p : Nat) (x : K) (h : v[p]? = some x) : rdA A v p = x := by
  unfold rdA
  rw [Array.getD_eq_getD_getElem?, h]; rfl

/-- bit-reversal permutation loop: position `p` receives `v[rv p]` (`rv` an involution of `[0,n)` fixing 0) -/
theorem bitrev_spec (A : Arith K) (rv : Nat → Nat) (n : Nat) (v : Array K) (hn : v.size = n)
    (hlt : ∀ i, i < n → rv i < n) (hinv : ∀ i, i < n → rv (rv i) = i) (h0 : rv 0 = 0) :
    (bitrev A rv n v).size = n ∧ ∀ p, p < n → rdA A (bitrev A rv n v) p = rdA A v (rv p) := by
  unfold bitrev
  have hsz : ∀ (k : Nat) (x : Array K), (if k < rv k then
      (x.setIfInBounds k (x.getD (rv k) A.zero)).setIfInBounds (rv k) (x.getD k A.zero) else x).size = x.size := by
    intro k x; split <;> simp
  obtain ⟨h1, h2, h3⟩ := forRange_indep 1 n
    (fun i v => let r := rv i
      if i < r then
        let x := v.getD i A.zero
        let y := v.getD r A.zero
        (v.setIfInBounds i y).setIfInBounds r x
      else v)
    (fun i p => i < rv i ∧ (p = i ∨ p = rv i)) v hsz
    (by
      intro k x p _ _ _ hS
      simp only []
      split
      · rename_i hk
        rw [Array.getElem?_setIfInBounds, if_neg (fun h => hS ⟨hk, Or.inr h.symm⟩),
          Array.getElem?_setIfInBounds, if_neg (fun h => hS ⟨hk, Or.inl h.symm⟩)]
      · rfl)
    (by
      intro k x p _ _ hs hq hS
      obtain ⟨hk, hp⟩ := hS
      simp only [if_pos hk]
      have e1 : x.getD k A.zero = v.getD k A.zero := by
        rw [Array.getD_eq_getD_getElem?, Array.getD_eq_getD_getElem?, hq k ⟨hk, Or.inl rfl⟩]
      have e2 : x.getD (rv k) A.zero = v.getD (rv k) A.zero := by
        rw [Array.getD_eq_getD_getElem?, Array.getD_eq_getD_getElem?, hq (rv k) ⟨hk, Or.inr rfl⟩]
      rw [e1, e2]
      simp only [Array.getElem?_setIfInBounds, Array.size_setIfInBounds, hs, hq p ⟨hk, hp⟩])
    (by
      intro k k' p hk1 hkk' hk'n ⟨hk, hp⟩ ⟨hk', hp'⟩
      have hkn : k < n := by omega
      rcases hp with rfl | rfl <;> rcases hp' with h | h
      · omega
      · have := hinv k' hk'n; rw [← h] at this; omega
      · have := hinv k hkn; rw [h] at this; omega
      · have e1 := hinv k hkn; have e2 := hinv k' hk'n; rw [h] at e1; omega)
  refine ⟨by rw [h1, hn], fun p hp => ?_⟩
  apply rdA_of_getElem?
  by_cases hlt' : p < rv p
  · by_cases hp0 : p = 0
    · subst hp0; omega
    · rw [h2 p p (by omega) hp ⟨hlt', Or.inl rfl⟩]
      simp only [if_pos hlt']
      rw [Array.getElem?_setIfInBounds, if_neg (by omega), Array.getElem?_setIfInBounds, if_pos rfl,
        if_pos (by omega)]
      rfl
  · by_cases heq : rv p = p
    · rw [h3 p (fun k _ _ ⟨hk, hkp⟩ => by
        rcases hkp with rfl | rfl
        · omega
        · have := hinv k (by omega); rw [heq] at this; omega), heq]
      exact getElem?_eq_rdA A v p (by omega)
    · have hgt : rv p < p := by omega
      have hrn := hlt p hp
      have hrr := hinv p hp
      have hr0 : rv p ≠ 0 := by
        intro h; rw [h, h0] at hrr; omega
      rw [h2 (rv p) p (by omega) hrn ⟨by omega, Or.inr hrr.symm⟩]
      simp only [hrr, if_pos hgt]
      rw [Array.getElem?_setIfInBounds, if_pos rfl, Array.size_setIfInBounds, if_pos (by omega)]
      rfl

/-! ### the butterfly loops -/

/-- one butterfly: the body of the `for j` loop of `fft_internal` at position `p = i + j`, twiddle `w` -/
def bfly (A : Arith K) (w : K) (p ln : Nat) (v : Array K) : Array K :=
  let y := A.mul (v.getD (p + ln) A.zero) w
  let v := v.setIfInBounds (p + ln) (A.sub (v.getD p A.zero) y)
  v.setIfInBounds p (A.add (v.getD p A.zero) y)

theorem innerLoop_eq_forRange (A : Arith K) (rd : Nat → K) (i ln : Nat) (step : Int) :
    ∀ (d j : Nat) (ind : Int) (v : Array K), ln - j = d →
      innerLoop A rd i ln step j ind v
        = forRange j ln (fun j' x => bfly A (rd (ind + ((j' - j : Nat) : Int) * step).toNat) (i + j') ln x) v := by
  intro d
  induction d with
  | zero =>
    intro j ind v hd
    rw [innerLoop, dif_neg (by omega), forRange_of_le _ _ (by omega)]
  | succ d ih =>
    intro j ind v hd
    rw [innerLoop, dif_pos (by omega), forRange_step _ _ (by omega : j < ln)]
    rw [ih (j+1) _ _ (by omega)]
    have e0 : bfly A (rd (ind + ((j - j : Nat) : Int) * step).toNat) (i + j) ln v
        = (v.setIfInBounds (i + j + ln) (A.sub (v.getD (i + j) A.zero) (A.mul (v.getD (i + j + ln) A.zero) (rd ind.toNat)))).setIfInBounds (i + j)
            (A.add ((v.setIfInBounds (i + j + ln) (A.sub (v.getD (i + j) A.zero) (A.mul (v.getD (i + j + ln) A.zero) (rd ind.toNat)))).getD (i + j) A.zero)
              (A.mul (v.getD (i + j + ln) A.zero) (rd ind.toNat))) := by
      simp [bfly]
    rw [e0]
    apply forRange_congr
    intro j' x hj1 hj2
    have : ind + step + ((j' - (j+1) : Nat) : Int) * step = ind + ((j' - j : Nat) : Int) * step := by
      have : ((j' - j : Nat) : Int) = ((j' - (j+1) : Nat) : Int) + 1 := by omega
      rw [this, Int.add_mul, Int.one_mul]; ac_rfl
    rw [this]

/-- Closed form of the whole `for j in 0..ln` loop on the block starting at `i`. -/
theorem innerLoop_spec (A : Arith K) (rd : Nat → K) (i ln : Nat) (hln : 0 < ln) (step ind : Int) (v : Array K)
    (hsz : i + 2 * ln ≤ v.size) :
    (innerLoop A rd i ln step 0 ind v).size = v.size ∧
    (∀ j, j < ln → rdA A (innerLoop A rd i ln step 0 ind v) (i + j)
        = A.add (rdA A v (i + j)) (A.mul (rdA A v (i + j + ln)) (rd (ind + (j : Int) * step).toNat))) ∧
    (∀ j, j < ln → rdA A (innerLoop A rd i ln step 0 ind v) (i + j + ln)
        = A.sub (rdA A v (i + j)) (A.mul (rdA A v (i + j + ln)) (rd (ind + (j : Int) * step).toNat))) ∧
    (∀ p, (p < i ∨ i + 2 * ln ≤ p) → (innerLoop A rd i ln step 0 ind v)[p]? = v[p]?) := by
  rw [innerLoop_eq_forRange A rd i ln step (ln - 0) 0 ind v rfl]
  obtain ⟨h1, h2, h3⟩ := forRange_indep 0 ln
    (fun j' x => bfly A (rd (ind + ((j' - 0 : Nat) : Int) * step).toNat) (i + j') ln x)
    (fun j p => p = i + j ∨ p = i + j + ln) v
    (by intro k x; simp [bfly])
    (by
      intro k x p _ _ _ hS
      simp only [bfly]
      rw [Array.getElem?_setIfInBounds, if_neg (fun h => hS (Or.inl h.symm)),
        Array.getElem?_setIfInBounds, if_neg (fun h => hS (Or.inr h.symm))])
    (by
      intro k x p _ _ hs hq hS
      simp only [bfly, Array.getElem?_setIfInBounds, Array.size_setIfInBounds, Array.getD_eq_getD_getElem?,
        hs, hq p hS, hq (i + k) (Or.inl rfl), hq (i + k + ln) (Or.inr rfl)])
    (by
      intro k k' p _ hkk' hk' hS hS'
      rcases hS with rfl | rfl <;> rcases hS' with h | h <;> omega)
  refine ⟨h1, ?_, ?_, ?_⟩
  · intro j hj
    apply rdA_of_getElem?
    rw [h2 j (i + j) (by omega) hj (Or.inl rfl)]
    simp only [bfly, Nat.sub_zero]
    rw [Array.getElem?_setIfInBounds, if_pos rfl, Array.size_setIfInBounds, if_pos (by omega)]
    congr 2
    unfold rdA
    rw [Array.getD_eq_getD_getElem?, Array.getElem?_setIfInBounds, if_neg (by omega), ← Array.getD_eq_getD_getElem?]
  · intro j hj
    apply rdA_of_getElem?
    rw [h2 j (i + j + ln) (by omega) hj (Or.inr rfl)]
    simp only [bfly, Nat.sub_zero]
    rw [Array.getElem?_setIfInBounds, if_neg (by omega), Array.getElem?_setIfInBounds, if_pos rfl, if_pos (by omega)]
    rfl
  · intro p hp
    apply h3
    intro k _ hk hS
    rcases hS with rfl | rfl <;> omega


theorem size_innerLoop (A : Arith K) (rd : Nat → K) (i ln : Nat) (step ind : Int) (v : Array K) :
    (innerLoop A rd i ln step 0 ind v).size = v.size := by
  rw [innerLoop_eq_forRange A rd i ln step (ln - 0) 0 ind v rfl]
  exact forRange_induct _ v (fun _ x => x.size = v.size) (Nat.zero_le _) rfl
    (fun j x _ _ hx => by simp [bfly, hx])

/-- One stage of the transform as a function on positions: block size `2L`, twiddles `w j`, `j < L`. -/
def stageF (A : Arith K) (w : Nat → K) (L : Nat) (x : Nat → K) (p : Nat) : K :=
  if p % (2 * L) < L then A.add (x p) (A.mul (x (p + L)) (w (p % (2 * L))))
  else A.sub (x (p - L)) (A.mul (x p) (w (p % (2 * L) - L)))

theorem stage_spec (A : Arith K) (rd : Nat → K) (maxN n L : Nat) (inv : Bool) (v : Array K)
    (hL : 0 < L) (hn : v.size = n) (hdiv : 2 * L ∣ n) :
    (stage A rd maxN n L inv v).size = n ∧
    ∀ p, p < n → rdA A (stage A rd maxN n L inv v) p
      = stageF A (fun j => rd ((if inv then (maxN : Int) else 0) + (j : Int) *
          (if inv then -(maxN : Int) else (maxN : Int)).tdiv ((L : Int) * 2)).toNat) L (rdA A v) p := by
  obtain ⟨nb, rfl⟩ := hdiv
  have hcnt : (2 * L * nb + 2 * L - 1) / (2 * L) = nb := by
    have h2 : 0 < 2 * L := by omega
    rw [show 2 * L * nb + 2 * L - 1 = (2 * L - 1) + 2 * L * nb by omega, Nat.add_mul_div_left _ _ h2,
      Nat.div_eq_of_lt (by omega)]
    omega
  unfold stage
  simp only []
  rw [hcnt]
  generalize hstep : (if inv then -(maxN : Int) else (maxN : Int)).tdiv ((L : Int) * 2) = step
  generalize hind : (if inv = true then (maxN : Int) else 0) = ind0
  have hblk : ∀ b, b < nb → b * (2 * L) + 2 * L ≤ v.size := by
    intro b hb
    rw [hn]
    have : (b + 1) * (2 * L) ≤ nb * (2 * L) := Nat.mul_le_mul_right _ hb
    rw [Nat.add_mul, Nat.one_mul, Nat.mul_comm nb] at this
    exact this
  obtain ⟨h1, h2, h3⟩ := forRange_indep 0 nb
    (fun b v => innerLoop A rd (b * (2 * L)) L step 0 ind0 v)
    (fun b p => b * (2 * L) ≤ p ∧ p < b * (2 * L) + 2 * L) v
    (fun b x => size_innerLoop A rd _ L step ind0 x)
    (by
      intro b x p _ hb hs hS
      exact (innerLoop_spec A rd (b * (2 * L)) L hL step ind0 x (by rw [hs]; exact hblk b hb)).2.2.2 p (by omega))
    (by
      intro b x p _ hb hs hq ⟨hp1, hp2⟩
      have hx := innerLoop_spec A rd (b * (2 * L)) L hL step ind0 x (by rw [hs]; exact hblk b hb)
      have hv := innerLoop_spec A rd (b * (2 * L)) L hL step ind0 v (hblk b hb)
      have hpx : p < (innerLoop A rd (b * (2 * L)) L step 0 ind0 x).size := by
        rw [hx.1, hs]; have := hblk b hb; omega
      have hpv : p < (innerLoop A rd (b * (2 * L)) L step 0 ind0 v).size := by
        rw [hv.1]; have := hblk b hb; omega
      rw [getElem?_eq_rdA A _ p hpx, getElem?_eq_rdA A _ p hpv]
      congr 1
      have hrd : ∀ q, b * (2 * L) ≤ q → q < b * (2 * L) + 2 * L → rdA A x q = rdA A v q := by
        intro q hq1 hq2
        unfold rdA
        rw [Array.getD_eq_getD_getElem?, Array.getD_eq_getD_getElem?, hq q ⟨hq1, hq2⟩]
      by_cases hj : p - b * (2 * L) < L
      · have e : p = b * (2 * L) + (p - b * (2 * L)) := by omega
        rw [e, hx.2.1 _ hj, hv.2.1 _ hj, hrd _ (by omega) (by omega), hrd _ (by omega) (by omega)]
      · have e : p = b * (2 * L) + (p - b * (2 * L) - L) + L := by omega
        rw [e, hx.2.2.1 _ (by omega), hv.2.2.1 _ (by omega), hrd _ (by omega) (by omega), hrd _ (by omega) (by omega)])
    (by
      intro b b' p _ hbb' _ ⟨h1, h2⟩ ⟨h3, _⟩
      have : (b + 1) * (2 * L) ≤ b' * (2 * L) := Nat.mul_le_mul_right _ hbb'
      rw [Nat.add_mul, Nat.one_mul] at this
      omega)
  refine ⟨by rw [h1, hn], fun p hp => ?_⟩
  have h2L : 0 < 2 * L := by omega
  have hb : p / (2 * L) < nb := by
    rw [Nat.div_lt_iff_lt_mul h2L, Nat.mul_comm]; exact hp
  have hdm := Nat.div_add_mod p (2 * L)
  have hmod := Nat.mod_lt p h2L
  have hS : p / (2 * L) * (2 * L) ≤ p ∧ p < p / (2 * L) * (2 * L) + 2 * L := by
    rw [Nat.mul_comm]; omega
  apply rdA_of_getElem?
  rw [h2 (p / (2 * L)) p (Nat.zero_le _) hb hS]
  have hv := innerLoop_spec A rd (p / (2 * L) * (2 * L)) L hL step ind0 v (hblk _ hb)
  rw [getElem?_eq_rdA A _ p (by rw [hv.1, hn]; exact hp)]
  congr 1
  unfold stageF
  have hbase : p / (2 * L) * (2 * L) = p - p % (2 * L) := by rw [Nat.mul_comm]; omega
  by_cases hj : p % (2 * L) < L
  · rw [if_pos hj]
    have e : p = p / (2 * L) * (2 * L) + p % (2 * L) := by rw [Nat.mul_comm]; omega
    have := hv.2.1 (p % (2 * L)) hj
    rw [← e] at this
    rw [this]
  · rw [if_neg hj]
    have e : p = p / (2 * L) * (2 * L) + (p % (2 * L) - L) + L := by rw [Nat.mul_comm]; omega
    have := hv.2.2.1 (p % (2 * L) - L) (by omega)
    rw [← e] at this
    rw [this]
    have e2 : p / (2 * L) * (2 * L) + (p % (2 * L) - L) = p - L := by omega
    rw [e2]


theorem stageF_congr (A : Arith K) (w : Nat → K) (L n : Nat) (hL : 0 < L) (hdiv : 2 * L ∣ n) (x x' : Nat → K)
    (h : ∀ q, q < n → x q = x' q) (p : Nat) (hp : p < n) : stageF A w L x p = stageF A w L x' p := by
  obtain ⟨nb, rfl⟩ := hdiv
  unfold stageF
  have h2L : 0 < 2 * L := by omega
  have hb : p / (2 * L) < nb := by rw [Nat.div_lt_iff_lt_mul h2L, Nat.mul_comm]; exact hp
  have hdm := Nat.div_add_mod p (2 * L)
  have hle : 2 * L * (p / (2 * L) + 1) ≤ 2 * L * nb := Nat.mul_le_mul_left _ hb
  rw [Nat.mul_add, Nat.mul_one] at hle
  by_cases hj : p % (2 * L) < L
  · rw [if_pos hj, if_pos hj, h p hp, h (p + L) (by omega)]
  · rw [if_neg hj, if_neg hj, h p hp, h (p - L) (by omega)]

/-- `d` consecutive stages starting with block size `2·2^t`, as a function on positions. -/
def stagesF (A : Arith K) (W : Nat → Nat → K) : Nat → Nat → (Nat → K) → (Nat → K)
  | 0, _, x => x
  | d+1, t, x => stagesF A W d (t+1) (stageF A (W t) (2^t) x)

theorem stagesF_congr (A : Arith K) (W : Nat → Nat → K) (m : Nat) :
    ∀ (d t : Nat) (x x' : Nat → K), t + d ≤ m → (∀ q, q < 2^m → x q = x' q) →
      ∀ p, p < 2^m → stagesF A W d t x p = stagesF A W d t x' p := by
  intro d
  induction d with
  | zero => intro t x x' _ h p hp; exact h p hp
  | succ d ih =>
    intro t x x' ht h p hp
    simp only [stagesF]
    apply ih (t+1) _ _ (by omega) _ p hp
    intro q hq
    apply stageF_congr A (W t) (2^t) (2^m) (Nat.two_pow_pos t) _ x x' h q hq
    rw [← Nat.pow_succ']
    exact Nat.pow_dvd_pow 2 (by omega)

/-- twiddle read by `stage` at block half-size `2^t`, position `j` -/
def stageTw (rd : Nat → K) (maxN : Nat) (inv : Bool) (t j : Nat) : K :=
  rd ((if inv then (maxN : Int) else 0) + (j : Int) *
    (if inv then -(maxN : Int) else (maxN : Int)).tdiv (((2^t : Nat) : Int) * 2)).toNat

theorem stages_spec (A : Arith K) (rd : Nat → K) (maxN m : Nat) (inv : Bool) :
    ∀ (d t : Nat) (v : Array K), t + d = m → v.size = 2^m →
      (stages A rd maxN (2^m) inv (2^t) v).size = 2^m ∧
      ∀ p, p < 2^m → rdA A (stages A rd maxN (2^m) inv (2^t) v) p
        = stagesF A (stageTw rd maxN inv) d t (rdA A v) p := by
  intro d
  induction d with
  | zero =>
    intro t v ht hv
    have : t = m := by omega
    subst this
    rw [stages, dif_neg (by omega)]
    exact ⟨hv, fun p _ => rfl⟩
  | succ d ih =>
    intro t v ht hv
    have hlt : 2^t < 2^m := Nat.pow_lt_pow_right (by omega) (by omega)
    rw [stages, dif_pos ⟨hlt, Nat.two_pow_pos t⟩, ← Nat.pow_succ]
    have hdiv : 2 * 2^t ∣ 2^m := by
      rw [← Nat.pow_succ']; exact Nat.pow_dvd_pow 2 (by omega)
    obtain ⟨s1, s2⟩ := stage_spec A rd maxN (2^m) (2^t) inv v (Nat.two_pow_pos t) hv hdiv
    obtain ⟨i1, i2⟩ := ih (t+1) _ (by omega) s1
    refine ⟨i1, fun p hp => ?_⟩
    rw [i2 p hp]
    simp only [stagesF]
    apply stagesF_congr A _ m d (t+1) _ _ (by omega) _ p hp
    intro q hq
    rw [s2 q hq]
    rfl

/-- `fft_internal`'s loops as a function on positions (exact or not): bit reversal, stages, scaling. -/
def fftF (A : Arith K) (rd : Nat → K) (rv : Nat → Nat) (maxN m : Nat) (inv : Bool) (x : Nat → K) (p : Nat) : K :=
  let y := stagesF A (stageTw rd maxN inv) m 0 (fun q => x (rv q)) p
  if inv then A.scaleInv (2^m) y else y

theorem fftCore_spec (A : Arith K) (rd : Nat → K) (rv : Nat → Nat) (maxN m : Nat) (inv : Bool) (v : Array K)
    (hv : v.size = 2^m) (hlt : ∀ i, i < 2^m → rv i < 2^m) (hinv : ∀ i, i < 2^m → rv (rv i) = i) (h0 : rv 0 = 0) :
    (fftCore A rd rv maxN (2^m) inv v).size = 2^m ∧
    ∀ p, p < 2^m → rdA A (fftCore A rd rv maxN (2^m) inv v) p = fftF A rd rv maxN m inv (rdA A v) p := by
  unfold fftCore fftF
  obtain ⟨b1, b2⟩ := bitrev_spec A rv (2^m) v hv hlt hinv h0
  obtain ⟨s1, s2⟩ := stages_spec A rd maxN m inv m 0 (bitrev A rv (2^m) v) (by omega) b1
  rw [Nat.pow_zero] at s1 s2
  have key : ∀ p, p < 2^m → rdA A (stages A rd maxN (2^m) inv 1 (bitrev A rv (2^m) v)) p
      = stagesF A (stageTw rd maxN inv) m 0 (fun q => rdA A v (rv q)) p := by
    intro p hp
    rw [s2 p hp]
    exact stagesF_congr A _ m m 0 _ _ (by omega) (fun q hq => b2 q hq) p hp
  simp only []
  cases inv with
  | false =>
    simp only [Bool.false_eq_true, if_false]
    exact ⟨s1, key⟩
  | true =>
    simp only [if_true]
    obtain ⟨m1, m2⟩ := forRange_modify_spec 0 (stages A rd maxN (2^m) true 1 (bitrev A rv (2^m) v)).size
      (fun _ => A.scaleInv (2^m)) (stages A rd maxN (2^m) true 1 (bitrev A rv (2^m) v))
    refine ⟨by rw [m1, s1], fun p hp => ?_⟩
    apply rdA_of_getElem?
    rw [m2 p, if_pos ⟨Nat.zero_le _, by rw [s1]; exact hp⟩, getElem?_eq_rdA A _ p (by rw [s1]; exact hp), key p hp]
    rfl

/-! ### the loops of `multiply_into` -/

theorem rdA_congr (A : Arith K) (x y : Array K) (p : Nat) (h : x[p]? = y[p]?) : rdA A x p = rdA A y p := by
  unfold rdA; rw [Array.getD_eq_getD_getElem?, Array.getD_eq_getD_getElem?, h]

theorem fillRe_spec (A : Arith K) (v : Array Int) (buf : Array K) :
    (fillRe A v buf).size = buf.size ∧
    ∀ p, p < buf.size → rdA A (fillRe A v buf) p = if p < v.size then A.setRe (rdA A buf p) (v.getD p 0) else rdA A buf p := by
  unfold fillRe
  obtain ⟨h1, h2⟩ := forRange_modify_spec 0 v.size (fun i c => A.setRe c (v.getD i 0)) buf
  refine ⟨h1, fun p hp => ?_⟩
  apply rdA_of_getElem?
  rw [h2 p, getElem?_eq_rdA A buf p hp]
  by_cases h : p < v.size
  · rw [if_pos ⟨Nat.zero_le _, h⟩, if_pos h]; rfl
  · rw [if_neg (by omega), if_neg h]

theorem fillIm_spec (A : Arith K) (v : Array Int) (buf : Array K) :
    (fillIm A v buf).size = buf.size ∧
    ∀ p, p < buf.size → rdA A (fillIm A v buf) p = if p < v.size then A.setIm (rdA A buf p) (v.getD p 0) else rdA A buf p := by
  unfold fillIm
  obtain ⟨h1, h2⟩ := forRange_modify_spec 0 v.size (fun i c => A.setIm c (v.getD i 0)) buf
  refine ⟨h1, fun p hp => ?_⟩
  apply rdA_of_getElem?
  rw [h2 p, getElem?_eq_rdA A buf p hp]
  by_cases h : p < v.size
  · rw [if_pos ⟨Nat.zero_le _, h⟩, if_pos h]; rfl
  · rw [if_neg (by omega), if_neg h]

theorem rdA_replicate (A : Arith K) (n p : Nat) : rdA A (Array.replicate n A.zero) p = A.zero := by
  unfold rdA
  rw [Array.getD_eq_getD_getElem?, Array.getElem?_replicate]
  split <;> rfl

/-- `j = (n - i) & (n - 1)` is `(n - i) mod n` -/
def negIdx (n i : Nat) : Nat := if i = 0 then 0 else n - i

theorem and_mask_eq_negIdx (m i : Nat) (hi : i ≤ 2^m) : (2^m - i) &&& (2^m - 1) = negIdx (2^m) i := by
  rw [Nat.and_two_pow_sub_one_eq_mod]
  unfold negIdx
  by_cases h : i = 0
  · subst h; simp
  · rw [if_neg h, Nat.mod_eq_of_lt (by omega)]

/-- the value `v` computed by iteration `q` of the unpacking loop of `multiply_into` from the ORIGINAL buffer -/
def unpackV (A : Arith K) (n : Nat) (x : Nat → K) (q : Nat) : K :=
  let cj := A.conj (x (negIdx n q))
  A.mul (A.mul (A.add (x q) cj) (A.sub cj (x q))) A.i8

theorem unpack_spec (A : Arith K) (m : Nat) (hm : 1 ≤ m) (buf : Array K) (hb : buf.size = 2^m) :
    (unpack A (2^m) buf).size = 2^m ∧
    ∀ p, p < 2^m → rdA A (unpack A (2^m) buf) p =
      if p = 0 ∨ p = 2^(m-1) then A.conj (unpackV A (2^m) (rdA A buf) p)
      else if p < 2^(m-1) then unpackV A (2^m) (rdA A buf) p
      else A.conj (unpackV A (2^m) (rdA A buf) (2^m - p)) := by
  have hn : 2^m = 2 * 2^(m-1) := by
    obtain ⟨q, rfl⟩ : ∃ q, m = q + 1 := ⟨m - 1, by omega⟩
    rw [Nat.pow_succ]; simp; omega
  have hh : 0 < 2^(m-1) := Nat.two_pow_pos _
  unfold unpack
  rw [two_pow_shiftRight_one m hm]
  -- the loop body with `negIdx`
  have hbody : ∀ (i : Nat) (x : Array K), i < 2^(m-1) + 1 →
      (let j := (2^m - i) &&& (2^m - 1)
       let bi := x.getD i A.zero
       let cj := A.conj (x.getD j A.zero)
       let v := A.mul (A.mul (A.add bi cj) (A.sub cj bi)) A.i8
       (x.setIfInBounds i v).setIfInBounds j (A.conj v))
      = (x.setIfInBounds i (unpackV A (2^m) (rdA A x) i)).setIfInBounds (negIdx (2^m) i) (A.conj (unpackV A (2^m) (rdA A x) i)) := by
    intro i x hi
    simp only [and_mask_eq_negIdx m i (by omega)]
    rfl
  rw [forRange_congr _ (fun i x => (x.setIfInBounds i (unpackV A (2^m) (rdA A x) i)).setIfInBounds (negIdx (2^m) i)
      (A.conj (unpackV A (2^m) (rdA A x) i))) buf (fun i x _ hi => hbody i x hi)]
  obtain ⟨h1, h2, h3⟩ := forRange_indep 0 (2^(m-1) + 1)
    (fun i x => (x.setIfInBounds i (unpackV A (2^m) (rdA A x) i)).setIfInBounds (negIdx (2^m) i)
      (A.conj (unpackV A (2^m) (rdA A x) i)))
    (fun i p => p = i ∨ p = negIdx (2^m) i) buf
    (by intro k x; simp)
    (by
      intro k x p _ _ _ hS
      rw [Array.getElem?_setIfInBounds, if_neg (fun h => hS (Or.inr h.symm)),
        Array.getElem?_setIfInBounds, if_neg (fun h => hS (Or.inl h.symm))])
    (by
      intro k x p _ _ hs hq hS
      have e : unpackV A (2^m) (rdA A x) k = unpackV A (2^m) (rdA A buf) k := by
        unfold unpackV
        rw [rdA_congr A x buf k (hq k (Or.inl rfl)), rdA_congr A x buf _ (hq _ (Or.inr rfl))]
      rw [e]
      simp only [Array.getElem?_setIfInBounds, Array.size_setIfInBounds, hs, hq p hS])
    (by
      intro k k' p _ hkk' hk' hS hS'
      unfold negIdx at hS hS'
      rcases hS with rfl | rfl <;> rcases hS' with h | h
      · omega
      · split at h <;> omega
      · split at h <;> omega
      · split at h <;> split at h <;> omega)
  refine ⟨by rw [h1, hb], fun p hp => ?_⟩
  apply rdA_of_getElem?
  by_cases hp0 : p = 0 ∨ p = 2^(m-1)
  · rw [if_pos hp0]
    have hneg : negIdx (2^m) p = p := by
      unfold negIdx; rcases hp0 with rfl | rfl
      · simp
      · rw [if_neg (by omega)]; omega
    rw [h2 p p (Nat.zero_le _) (by omega) (Or.inl rfl), hneg,
      Array.getElem?_setIfInBounds, if_pos rfl, Array.size_setIfInBounds, if_pos (by omega)]
  · rw [if_neg hp0]
    by_cases hlt : p < 2^(m-1)
    · rw [if_pos hlt, h2 p p (Nat.zero_le _) (by omega) (Or.inl rfl)]
      have hneg : negIdx (2^m) p ≠ p := by unfold negIdx; rw [if_neg (by omega)]; omega
      rw [Array.getElem?_setIfInBounds, if_neg hneg, Array.getElem?_setIfInBounds, if_pos rfl, if_pos (by omega)]
    · rw [if_neg hlt]
      have hneg : negIdx (2^m) (2^m - p) = p := by unfold negIdx; rw [if_neg (by omega)]; omega
      rw [h2 (2^m - p) p (Nat.zero_le _) (by omega) (Or.inr hneg.symm), hneg,
        Array.getElem?_setIfInBounds, if_pos rfl, Array.size_setIfInBounds, if_pos (by omega)]


theorem foldHalf_spec (A : Arith K) (f : K → K) (w : Array K) (maxN m : Nat) (hm : 1 ≤ m) (buf : Array K)
    (hb : buf.size = 2^m) :
    (foldHalf A f w maxN (2^m) buf).size = 2^m ∧
    (∀ p, p < 2^(m-1) → rdA A (foldHalf A f w maxN (2^m) buf) p =
      f (A.sub (A.add (rdA A buf p) (rdA A buf (p + 2^(m-1))))
          (A.mul (A.sub (rdA A buf p) (rdA A buf (p + 2^(m-1))))
            (w.getD (maxN - maxN >>> 2 - maxN / 2^m * p) A.zero)))) := by
  have hn : 2^m = 2 * 2^(m-1) := by
    obtain ⟨q, rfl⟩ : ∃ q, m = q + 1 := ⟨m - 1, by omega⟩
    rw [Nat.pow_succ]; simp; omega
  unfold foldHalf
  simp only []
  rw [two_pow_shiftRight_one m hm]
  obtain ⟨h1, h2, _⟩ := forRange_set_spec 0 (2^(m-1)) (fun i => i)
    (fun i b => f (A.sub (A.add (b.getD i A.zero) (b.getD (i + 2^(m-1)) A.zero))
      (A.mul (A.sub (b.getD i A.zero) (b.getD (i + 2^(m-1)) A.zero)) (w.getD (maxN - maxN >>> 2 - maxN / 2^m * i) A.zero))))
    (fun i => f (A.sub (A.add (rdA A buf i) (rdA A buf (i + 2^(m-1))))
      (A.mul (A.sub (rdA A buf i) (rdA A buf (i + 2^(m-1)))) (w.getD (maxN - maxN >>> 2 - maxN / 2^m * i) A.zero))))
    buf (fun i j _ h _ => by omega)
    (by
      intro i x _ hi _ hx
      have e1 : x.getD i A.zero = rdA A buf i := by
        unfold rdA; rw [Array.getD_eq_getD_getElem?, Array.getD_eq_getD_getElem?, hx i (fun j _ hj => by omega)]
      have e2 : x.getD (i + 2^(m-1)) A.zero = rdA A buf (i + 2^(m-1)) := by
        unfold rdA; rw [Array.getD_eq_getD_getElem?, Array.getD_eq_getD_getElem?, hx _ (fun j _ hj => by omega)]
      rw [e1, e2])
  refine ⟨by rw [h1, hb], fun p hp => ?_⟩
  apply rdA_of_getElem?
  exact h2 p (Nat.zero_le _) hp (by omega)

theorem extract_spec (A : Arith K) (buf : Array K) (h : Nat) (hh : h ≤ buf.size) :
    (buf.extract 0 h).size = h ∧ ∀ p, p < h → rdA A (buf.extract 0 h) p = rdA A buf p := by
  refine ⟨by rw [Array.size_extract]; omega, fun p hp => ?_⟩
  apply rdA_congr
  rw [Array.getElem?_extract, if_pos (by omega), Nat.zero_add]

theorem roundPairs_getElem? (A : Arith K) (buf : Array K) (u : Nat) (hu : u < 2 * buf.size) :
    (roundPairs A buf)[u]? = some (if u % 2 = 0 then A.roundRe (rdA A buf (u / 2)) else A.roundIm (rdA A buf (u / 2))) := by
  unfold roundPairs rdA
  obtain ⟨l⟩ := buf
  simp only [List.size_toArray] at hu
  simp only [Array.getD_eq_getD_getElem?, List.getElem?_toArray]
  induction l generalizing u with
  | nil => simp at hu
  | cons c l ih =>
    rw [List.flatMap_cons]
    match u with
    | 0 => simp
    | 1 => simp
    | u+2 =>
      have := ih u (by simp only [List.length_cons] at hu; omega)
      rw [show ([A.roundRe c, A.roundIm c] ++ List.flatMap (fun c => [A.roundRe c, A.roundIm c]) l)[u+2]?
            = (List.flatMap (fun c => [A.roundRe c, A.roundIm c]) l)[u]? by
          rw [List.getElem?_append_right (by simp)]; simp]
      rw [this]
      have e1 : (u + 2) % 2 = u % 2 := by omega
      have e2 : (u + 2) / 2 = u / 2 + 1 := by omega
      rw [e1, e2, List.getElem?_cons_succ]

theorem length_roundPairs (A : Arith K) (buf : Array K) : (roundPairs A buf).length = 2 * buf.size := by
  unfold roundPairs
  obtain ⟨l⟩ := buf
  simp only [List.size_toArray]
  induction l with
  | nil => rfl
  | cons c l ih => rw [List.flatMap_cons, List.length_append, ih]; simp; omega

/-! ### the executable convolution -/

theorem convRow_spec (x : Int) (b : Array Int) (k : Nat) (acc : Array Int) :
    (convRow x b k acc).size = acc.size ∧
    ∀ p, (convRow x b k acc)[p]? =
      if k ≤ p ∧ p < k + b.size then acc[p]?.map (· + x * b.getD (p - k) 0) else acc[p]? := by
  unfold convRow
  refine forRange_induct _ acc (fun j y => y.size = acc.size ∧ ∀ p, y[p]? =
      if k ≤ p ∧ p < k + j then acc[p]?.map (· + x * b.getD (p - k) 0) else acc[p]?) (Nat.zero_le _) ?_ ?_
  · exact ⟨rfl, fun p => by rw [if_neg (by omega)]⟩
  · intro j y _ hj ⟨hs, hy⟩
    refine ⟨by rw [Array.size_modify, hs], fun p => ?_⟩
    rw [Array.getElem?_modify, hy p]
    by_cases hp : k + j = p
    · subst hp
      rw [if_pos rfl, if_neg (by omega), if_pos (by omega), Nat.add_sub_cancel_left]
    · rw [if_neg hp]
      by_cases hq : k ≤ p ∧ p < k + j
      · rw [if_pos hq, if_pos (by omega)]
      · rw [if_neg hq, if_neg (by omega)]

theorem conv_getElem? (a b : Array Int) (ha : a.size ≠ 0) (hb : b.size ≠ 0) (p : Nat) :
    (conv a b)[p]? = if p < a.size + b.size - 1 then some (convAt a b p) else none := by
  unfold conv
  rw [if_neg (by omega)]
  rw [Array.getElem?_toList]
  have key := forRange_induct (fun i acc =>
      let x := a.getD i 0
      if x = 0 then acc else convRow x b i acc) (Array.replicate (a.size + b.size - 1) 0)
    (fun i y => i ≤ a.size → y.size = a.size + b.size - 1 ∧ ∀ p, y[p]? =
      if p < a.size + b.size - 1 then
        some (sumTo i (fun s => if s ≤ p ∧ p - s < b.size then a.getD s 0 * b.getD (p - s) 0 else 0)) else none)
    (Nat.zero_le a.size) ?_ ?_
  · exact (key (Nat.le_refl _)).2 p
  · intro _
    refine ⟨by simp, fun p => ?_⟩
    rw [Array.getElem?_replicate]; rfl
  · intro i y _ hi ih _
    obtain ⟨hs, hy⟩ := ih (by omega)
    have hrow : ∀ p, (let x := a.getD i 0; if x = 0 then y else convRow x b i y)[p]? =
        if i ≤ p ∧ p < i + b.size then y[p]?.map (· + a.getD i 0 * b.getD (p - i) 0) else y[p]? := by
      intro p
      show (if a.getD i 0 = 0 then y else convRow (a.getD i 0) b i y)[p]? = _
      by_cases hx : a.getD i 0 = 0
      · rw [if_pos hx, hx]
        split
        · cases y[p]? <;> simp
        · rfl
      · rw [if_neg hx]; exact (convRow_spec _ b i y).2 p
    refine ⟨?_, fun p => ?_⟩
    · show (if a.getD i 0 = 0 then y else convRow (a.getD i 0) b i y).size = _
      by_cases hx : a.getD i 0 = 0
      · rw [if_pos hx]; exact hs
      · rw [if_neg hx, (convRow_spec _ b i y).1, hs]
    · rw [hrow p, hy p]
      simp only [sumTo]
      by_cases hp : p < a.size + b.size - 1
      · rw [if_pos hp, if_pos hp]
        by_cases hr : i ≤ p ∧ p < i + b.size
        · rw [if_pos hr, if_pos ⟨hr.1, by omega⟩]; rfl
        · rw [if_neg hr, if_neg (by omega), Int.add_zero]
      · rw [if_neg hp, if_neg hp]
        split <;> rfl

/-- The executable convolution used by the driver is the mathematical one. -/
theorem conv_eq_convSpec (a b : Array Int) : conv a b = convSpec a b := by
  by_cases he : a.size = 0 ∨ b.size = 0
  · unfold conv convSpec; rw [if_pos he, if_pos he]
  · unfold convSpec
    rw [if_neg he]
    apply List.ext_getElem?
    intro p
    rw [conv_getElem? a b (by omega) (by omega) p, List.getElem?_map]
    by_cases hp : p < a.size + b.size - 1
    · rw [if_pos hp, List.getElem?_range hp]; rfl
    · rw [if_neg hp, List.getElem?_eq_none (by simpa using hp)]; rfl

/-! ### `fft_inv_into` / `fft_into` accumulate; `fft(v, 0)` chooses its size -/

theorem size_fftRef (A : Arith K) (m : Nat) (inv : Bool) (v : Array K) (hv : v.size = 2^m) : (fftRef A m inv v).size = 2^m := by
  unfold fftRef
  exact (fftCore_spec A (wC A.tw A.one m) (revC m) (2^m) m inv v hv (fun i _ => revC_lt m i) (revC_revC m) (revC_zero m)).1

/-- `fft_inv_into(v, res)` adds to `res` (common prefix) exactly what `fft_inv(v)` returns — every size incl. 1, every
    destination length, every arithmetic. -/
theorem fftInvIntoRef_adds (A : Arith K) (m : Nat) (v : Array K) (hv : v.size = 2^m) (res : List Int) :
    fftInvIntoRef A v res = addPrefix res (fftInvIntoRef A v (List.replicate v.size 0)) := by
  unfold fftInvIntoRef
  by_cases h1 : v.size = 1
  · rw [if_pos h1, if_pos h1, h1]
    cases res with
    | nil => rfl
    | cons r rs =>
      show _ = addPrefix (r :: rs) [0 + A.roundRe (v.getD 0 A.zero)]
      rw [addPrefix, addPrefix_nil, Int.zero_add]
  · rw [if_neg h1, if_neg h1]
    have hm : 1 ≤ m := by
      cases m with
      | zero => simp at hv; exact absurd hv h1
      | succ m => omega
    simp only []
    rw [hv, Nat.log2_two_pow, two_pow_shiftRight_one m hm]
    have hn2 : 2 * 2^(m-1) = 2^m := by
      obtain ⟨q, rfl⟩ : ∃ q, m = q + 1 := ⟨m - 1, by omega⟩
      rw [Nat.pow_succ]; simp; omega
    have g1 : (foldHalfRef A A.half m v).size = 2^m := by
      unfold foldHalfRef; exact (foldHalf_spec A A.half _ _ m hm v hv).1
    have x1 : ((foldHalfRef A A.half m v).extract 0 (2^(m-1))).size = 2^(m-1) :=
      (extract_spec A _ (2^(m-1)) (by rw [g1]; omega)).1
    have hl : (roundPairs A (fftRef A (m-1) true ((foldHalfRef A A.half m v).extract 0 (2^(m-1))))).length ≤ 2^m := by
      rw [length_roundPairs, size_fftRef A (m-1) true _ x1, hn2]; exact Nat.le_refl _
    rw [addPrefix_zeros (2^m) _ hl res]

end Rlib.Fft
