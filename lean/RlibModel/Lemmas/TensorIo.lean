import RlibModel.Lemmas.Tensor
import RlibModel.Lemmas.Decimal
namespace Rlib.Tensor
open Rlib

/-! Bridge between the tensor round-trip theorems (element rendering as a parameter) and the decimal text of
`rlib_io` (C09 `Decimal.decimalS`, C08/C09 `Decimal.parseS`): the hypotheses of `write_read` hold for `i64`. -/

/-- the bytes of an ASCII rendering as characters, and back -/
def toChars (bs : List UInt8) : List Char := bs.map (fun b => Char.ofNat b.toNat)
def toBytes (cs : List Char) : List UInt8 := cs.map (fun c => UInt8.ofNat c.toNat)

/-- `i64`'s `Writable` text (C09: `Decimal.decimalS`) and `Readable` value of a token (C08/C09: `Decimal.parseS`) -/
def renderI64 (z : Int) : List Char := toChars (Decimal.decimalS z)
def parseI64 (cs : List Char) : Int := Decimal.parseS (toBytes cs)

theorem ascii_facts : ∀ n, n < 128 →
    UInt8.ofNat (Char.ofNat (UInt8.ofNat n).toNat).toNat = UInt8.ofNat n ∧
    (Decimal.isWs (UInt8.ofNat n) = false → isWs (Char.ofNat (UInt8.ofNat n).toNat) = false) := by
  decide

theorem byte_facts (b : UInt8) (h : b.toNat < 128) :
    UInt8.ofNat (Char.ofNat b.toNat).toNat = b ∧ (Decimal.isWs b = false → isWs (Char.ofNat b.toNat) = false) := by
  have := ascii_facts b.toNat h
  simpa using this

theorem toBytes_toChars (bs : List UInt8) (h : ∀ b ∈ bs, b.toNat < 128) : toBytes (toChars bs) = bs := by
  induction bs with
  | nil => rfl
  | cons b bs ih =>
    have hb := (byte_facts b (h b (by simp))).1
    have := ih (fun x hx => h x (by simp [hx]))
    simp only [toBytes, toChars, List.map_cons, List.map_map] at this ⊢
    rw [this]
    congr 1

theorem renderI64_clean (z : Int) : renderI64 z ≠ [] ∧ ∀ c ∈ renderI64 z, isWs c = false := by
  constructor
  · unfold renderI64 toChars
    intro h
    exact Decimal.decimalS_ne_nil z (List.map_eq_nil_iff.1 h)
  · intro c hc
    unfold renderI64 toChars at hc
    obtain ⟨b, hb, rfl⟩ := List.mem_map.1 hc
    obtain ⟨h1, h2⟩ := Decimal.decimalS_bytes z b hb
    exact (byte_facts b h2).2 h1

theorem parse_renderI64 (z : Int) : parseI64 (renderI64 z) = z := by
  unfold parseI64 renderI64
  rw [toBytes_toChars _ (fun b hb => (Decimal.decimalS_bytes z b hb).2)]
  exact Decimal.parseS_decimalS z

end Rlib.Tensor
