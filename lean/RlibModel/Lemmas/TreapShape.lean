import RlibModel.Lemmas.TreapHeap
import RlibModel.Lemmas.TreapHistory
/-!
C16, tie-tolerant shape invariant. rlib's priorities are 32 bit and do repeat in big trees, so the
canonical-shape statement must not assume distinct priorities. `merge`'s rule "ties → the right
root wins" maintains `HeapR`: every left child's priority is `≥` its parent's, every right
child's priority is `>` its parent's. `HeapR` alone determines the shape: it is `cartShape` of the
in-order priority sequence (whose `consLeft` has the matching tie-break `if p < q`).
-/
namespace Rlib.Treap
variable {T E G M V : Type} (I : TItem T E G M V)

/-- root priority is strictly above `p` (vacuous for the empty tree) -/
def rootGt (p : Nat) : Tree T → Prop
  | .nil => True
  | .node _ q _ _ => p < q

/-- left child `≥` parent, right child `>` parent, on every edge -/
def HeapR : Tree T → Prop
  | .nil => True
  | .node _ p l r => rootGe p l ∧ rootGt p r ∧ HeapR l ∧ HeapR r

theorem rootGt_ge {p : Nat} {t : Tree T} (h : rootGt p t) : rootGe p t := by
  cases t <;> simp [rootGt, rootGe] at *; omega

theorem HeapR.heap {t : Tree T} (h : HeapR t) : Heap t := by
  induction t with
  | nil => trivial
  | node it p l r ihl ihr => exact ⟨h.1, rootGt_ge h.2.1, ihl h.2.2.1, ihr h.2.2.2⟩

theorem rootGt_setItem (p : Nat) (t : Tree T) (o : Option T) : rootGt p (t.setItem? o) ↔ rootGt p t := by
  cases t <;> cases o <;> simp [Tree.setItem?, rootGt]
theorem HeapR_setItem (t : Tree T) (o : Option T) : HeapR (t.setItem? o) ↔ HeapR t := by
  cases t <;> cases o <;> simp [Tree.setItem?, HeapR]

theorem rootGt_mono {p q : Nat} (h : p ≤ q) (t : Tree T) : rootGt q t → rootGt p t := by
  cases t <;> simp [rootGt]; omega

theorem rootGt_of_ge {p q : Nat} (h : p < q) (t : Tree T) : rootGe q t → rootGt p t := by
  cases t <;> simp [rootGt, rootGe]; omega

theorem HeapR_single (it : T) (p : Nat) : HeapR (single it p) := by simp [single, HeapR, rootGe, rootGt]

theorem rootGt_skel (p : Nat) (t : Tree T) : rootGt p (skel t) ↔ rootGt p t := by
  cases t <;> simp [skel, rootGt]

theorem HeapR_skel (t : Tree T) : HeapR (skel t) ↔ HeapR t := by
  induction t with
  | nil => simp [skel, HeapR]
  | node it p l r ihl ihr => simp [skel, HeapR, rootGe_skel, rootGt_skel, ihl, ihr]

theorem HeapR_of_skel_eq {a b : Tree T} (h : skel a = skel b) (hb : HeapR b) : HeapR a := by
  rw [← HeapR_skel] at hb ⊢; rw [h]; exact hb

/-- with pairwise distinct priorities plain heap order is `HeapR` -/
theorem HeapR_of_heap_nodup (t : Tree T) (h : Heap t) (hd : (prios t).Nodup) : HeapR t := by
  induction t with
  | nil => trivial
  | node it p l r ihl ihr =>
    obtain ⟨h1, h2, h3, h4⟩ := h
    simp only [prios] at hd
    obtain ⟨dl, dr, _⟩ := List.pairwise_append.1 hd
    have dr' := List.nodup_cons.1 dr
    refine ⟨h1, ?_, ihl h3 dl, ihr h4 dr'.2⟩
    cases r with
    | nil => trivial
    | node ir q rl rr =>
      have hq : p ≤ q := h2
      have hne : p ≠ q := by intro e; apply dr'.1; rw [e]; simp [prios]
      show p < q
      omega

/-! ### merge / split keep `HeapR` -/

theorem merge_heapR (a b : Tree T) (ha : HeapR a) (hb : HeapR b) :
    HeapR (merge I a b) ∧ (∀ p, rootGe p a → rootGe p b → rootGe p (merge I a b)) ∧
    (∀ p, rootGt p a → rootGt p b → rootGt p (merge I a b)) := by
  fun_induction merge I a b with
  | case1 b => exact ⟨hb, fun _ _ h => h, fun _ _ h => h⟩
  | case2 a _ => exact ⟨ha, fun _ h _ => h, fun _ h _ => h⟩
  | case3 ia pa_ la ra ib pb lb rb hlt q ih =>
    obtain ⟨h1, h2, h3, h4⟩ := ha
    have hq1 : rootGe pa_ q.2.1 := by simp only [q, pushParts, rootGe_setItem]; exact h1
    have hq2 : rootGt pa_ q.2.2 := by simp only [q, pushParts, rootGt_setItem]; exact h2
    have hH1 : HeapR q.2.1 := by simp only [q, pushParts, HeapR_setItem]; exact h3
    have hH2 : HeapR q.2.2 := by simp only [q, pushParts, HeapR_setItem]; exact h4
    obtain ⟨i1, _, i3⟩ := ih hH2 hb
    refine ⟨⟨hq1, i3 pa_ hq2 (by simp only [rootGt]; omega), hH1, i1⟩, ?_, ?_⟩
    · intro p hp _; simpa [upd, rootGe] using hp
    · intro p hp _; simpa [upd, rootGt] using hp
  | case4 ia pa_ la ra ib pb lb rb hlt q ih =>
    obtain ⟨h1, h2, h3, h4⟩ := hb
    have hq1 : rootGe pb q.2.1 := by simp only [q, pushParts, rootGe_setItem]; exact h1
    have hq2 : rootGt pb q.2.2 := by simp only [q, pushParts, rootGt_setItem]; exact h2
    have hH1 : HeapR q.2.1 := by simp only [q, pushParts, HeapR_setItem]; exact h3
    have hH2 : HeapR q.2.2 := by simp only [q, pushParts, HeapR_setItem]; exact h4
    obtain ⟨i1, i2, _⟩ := ih ha hH1
    refine ⟨⟨i2 pb (by simp only [rootGe]; omega) hq1, hq2, i1, hH2⟩, ?_, ?_⟩
    · intro p _ hp; simpa [upd, rootGe] using hp
    · intro p _ hp; simpa [upd, rootGt] using hp

/-- what both split functions need: given the two recursive facts, the rebuilt pair is fine -/
theorem splitAt_heapR (t : Tree T) (pos : Nat) (h : HeapR t) :
    HeapR (splitAt I t pos).1 ∧ HeapR (splitAt I t pos).2 ∧
    (∀ p, rootGe p t → rootGe p (splitAt I t pos).1 ∧ rootGe p (splitAt I t pos).2) ∧
    (∀ p, rootGt p t → rootGt p (splitAt I t pos).1 ∧ rootGt p (splitAt I t pos).2) := by
  fun_induction splitAt I t pos with
  | case1 pos => simp [HeapR, rootGe, rootGt]
  | case2 pos it p l r q lsz hgt s ih =>
    obtain ⟨h1, h2, h3, h4⟩ := h
    have hq1 : rootGe p q.2.1 := by simp only [q, pushParts, rootGe_setItem]; exact h1
    have hq2 : rootGt p q.2.2 := by simp only [q, pushParts, rootGt_setItem]; exact h2
    have hH1 : HeapR q.2.1 := by simp only [q, pushParts, HeapR_setItem]; exact h3
    have hH2 : HeapR q.2.2 := by simp only [q, pushParts, HeapR_setItem]; exact h4
    obtain ⟨i1, i2, _, i4⟩ := ih hH2
    refine ⟨⟨hq1, (i4 p hq2).1, hH1, i1⟩, i2, ?_, ?_⟩
    · intro p' hp'
      have hpp : p' ≤ p := by simpa [rootGe] using hp'
      exact ⟨by simpa [upd, rootGe] using hp', rootGt_ge (rootGt_mono hpp _ (i4 p hq2).2)⟩
    · intro p' hp'
      have hpp : p' < p := by simpa [rootGt] using hp'
      exact ⟨by simpa [upd, rootGt] using hp', rootGt_mono (by omega) _ (i4 p hq2).2⟩
  | case3 pos it p l r q lsz hle s ih =>
    obtain ⟨h1, h2, h3, h4⟩ := h
    have hq1 : rootGe p q.2.1 := by simp only [q, pushParts, rootGe_setItem]; exact h1
    have hq2 : rootGt p q.2.2 := by simp only [q, pushParts, rootGt_setItem]; exact h2
    have hH1 : HeapR q.2.1 := by simp only [q, pushParts, HeapR_setItem]; exact h3
    have hH2 : HeapR q.2.2 := by simp only [q, pushParts, HeapR_setItem]; exact h4
    obtain ⟨i1, i2, i3, _⟩ := ih hH1
    refine ⟨i1, ⟨(i3 p hq1).2, hq2, i2, hH2⟩, ?_, ?_⟩
    · intro p' hp'
      have hpp : p' ≤ p := by simpa [rootGe] using hp'
      exact ⟨rootGe_mono hpp _ (i3 p hq1).1, by simpa [upd, rootGe] using hp'⟩
    · intro p' hp'
      have hpp : p' < p := by simpa [rootGt] using hp'
      exact ⟨rootGt_of_ge hpp _ (i3 p hq1).1, by simpa [upd, rootGt] using hp'⟩

theorem splitBy_heapR (pred : T → Bool) (t : Tree T) (h : HeapR t) :
    HeapR (splitBy I pred t).1 ∧ HeapR (splitBy I pred t).2 ∧
    (∀ p, rootGe p t → rootGe p (splitBy I pred t).1 ∧ rootGe p (splitBy I pred t).2) ∧
    (∀ p, rootGt p t → rootGt p (splitBy I pred t).1 ∧ rootGt p (splitBy I pred t).2) := by
  fun_induction splitBy I pred t with
  | case1 => simp [HeapR, rootGe, rootGt]
  | case2 it p l r q hgt s ih =>
    obtain ⟨h1, h2, h3, h4⟩ := h
    have hq1 : rootGe p q.2.1 := by simp only [q, pushParts, rootGe_setItem]; exact h1
    have hq2 : rootGt p q.2.2 := by simp only [q, pushParts, rootGt_setItem]; exact h2
    have hH1 : HeapR q.2.1 := by simp only [q, pushParts, HeapR_setItem]; exact h3
    have hH2 : HeapR q.2.2 := by simp only [q, pushParts, HeapR_setItem]; exact h4
    obtain ⟨i1, i2, _, i4⟩ := ih hH2
    refine ⟨⟨hq1, (i4 p hq2).1, hH1, i1⟩, i2, ?_, ?_⟩
    · intro p' hp'
      have hpp : p' ≤ p := by simpa [rootGe] using hp'
      exact ⟨by simpa [upd, rootGe] using hp', rootGt_ge (rootGt_mono hpp _ (i4 p hq2).2)⟩
    · intro p' hp'
      have hpp : p' < p := by simpa [rootGt] using hp'
      exact ⟨by simpa [upd, rootGt] using hp', rootGt_mono (by omega) _ (i4 p hq2).2⟩
  | case3 it p l r q hle s ih =>
    obtain ⟨h1, h2, h3, h4⟩ := h
    have hq1 : rootGe p q.2.1 := by simp only [q, pushParts, rootGe_setItem]; exact h1
    have hq2 : rootGt p q.2.2 := by simp only [q, pushParts, rootGt_setItem]; exact h2
    have hH1 : HeapR q.2.1 := by simp only [q, pushParts, HeapR_setItem]; exact h3
    have hH2 : HeapR q.2.2 := by simp only [q, pushParts, HeapR_setItem]; exact h4
    obtain ⟨i1, i2, i3, _⟩ := ih hH1
    refine ⟨i1, ⟨(i3 p hq1).2, hq2, i2, hH2⟩, ?_, ?_⟩
    · intro p' hp'
      have hpp : p' ≤ p := by simpa [rootGe] using hp'
      exact ⟨rootGe_mono hpp _ (i3 p hq1).1, by simpa [upd, rootGe] using hp'⟩
    · intro p' hp'
      have hpp : p' < p := by simpa [rootGt] using hp'
      exact ⟨rootGt_of_ge hpp _ (i3 p hq1).1, by simpa [upd, rootGt] using hp'⟩

theorem insertAt_heapR (t : Tree T) (pos : Nat) (it : T) (p : Nat) (h : HeapR t) : HeapR (insertAt I t pos it p) := by
  obtain ⟨s1, s2, _⟩ := splitAt_heapR I t pos h
  exact (merge_heapR I _ _ (merge_heapR I _ _ s1 (HeapR_single it p)).1 s2).1

theorem removeAt_heapR (t : Tree T) (pos : Nat) (h : HeapR t) : HeapR (removeAt I t pos).2 := by
  obtain ⟨a1, a2, _⟩ := splitAt_heapR I t pos h
  obtain ⟨_, b2, _⟩ := splitAt_heapR I (splitAt I t pos).2 1 a2
  have := (merge_heapR I _ _ a1 b2).1
  simp only [removeAt]
  split <;> exact this

/-! ### a shape predicate kept by the primitives is kept by every operation and every history -/

/-- what a predicate on trees must satisfy to be an invariant of the operation language -/
structure ShapeInv (P : Tree T → Prop) : Prop where
  nil : P .nil
  single : ∀ it p, P (single it p)
  merge : ∀ a b, P a → P b → P (merge I a b)
  splitAt : ∀ t k, P t → P (splitAt I t k).1 ∧ P (splitAt I t k).2
  splitBy : ∀ pred t, P t → P (splitBy I pred t).1 ∧ P (splitBy I pred t).2
  skel : ∀ a b : Tree T, skel a = skel b → P b → P a

theorem step_inv {P : Tree T → Prop} (hP : ShapeInv I P) (ts : List (Tree T)) (op : Op E M V)
    (h : ∀ t ∈ ts, P t) : ∀ r : List (Tree T) × Obs E G, stepM I ts op = some r → ∀ t ∈ r.1, P t := by
  have hget : ∀ {i : Nat} {t : Tree T}, ts[i]? = some t → P t := fun ht => h _ (List.mem_of_getElem? ht)
  have hset : ∀ (i : Nat) {x : Tree T}, P x → ∀ t ∈ ts.set i x, P t := by
    intro i x hx t ht
    rcases List.mem_or_eq_of_mem_set ht with h' | h'
    · exact h t h'
    · exact h' ▸ hx
  have hpush : ∀ {l : List (Tree T)} {x : Tree T}, (∀ t ∈ l, P t) → P x → ∀ t ∈ l ++ [x], P t := by
    intro l x hl hx t ht
    rcases List.mem_append.1 ht with h' | h'
    · exact hl t h'
    · exact (List.mem_singleton.1 h') ▸ hx
  have herase : ∀ {l : List (Tree T)} (j : Nat), (∀ t ∈ l, P t) → ∀ t ∈ l.eraseIdx j, P t :=
    fun j hl t ht => hl t (List.mem_of_mem_eraseIdx ht)
  intro r hr
  cases op with
  | new => simp only [stepM, Option.some.injEq] at hr; subst hr; exact hpush h hP.nil
  | item v p => simp only [stepM, Option.some.injEq] at hr; subst hr; exact hpush h (hP.single _ _)
  | merge i j =>
    simp only [stepM] at hr
    split at hr
    · cases hr
    · split at hr
      · rename_i a b hti htj
        simp only [Option.some.injEq] at hr; subst hr
        exact herase j (hset i (hP.merge a b (hget hti) (hget htj)))
      · cases hr
  | splitAt i k =>
    simp only [stepM] at hr
    split at hr
    · rename_i t hti
      simp only [Option.some.injEq] at hr; subst hr
      obtain ⟨s1, s2⟩ := hP.splitAt t k (hget hti)
      exact hpush (hset i s1) s2
    · cases hr
  | splitBy i g =>
    simp only [stepM] at hr
    split at hr
    · rename_i t hti
      simp only [Option.some.injEq] at hr; subst hr
      obtain ⟨s1, s2⟩ := hP.splitBy (fun it => g (I.own it)) t (hget hti)
      exact hpush (hset i s1) s2
    · cases hr
  | insertAt i k v p =>
    simp only [stepM] at hr
    split at hr
    · rename_i t hti
      simp only [Option.some.injEq] at hr; subst hr
      obtain ⟨s1, s2⟩ := hP.splitAt t k (hget hti)
      exact hset i (hP.merge _ _ (hP.merge _ _ s1 (hP.single _ p)) s2)
    · cases hr
  | removeAt i k =>
    simp only [stepM] at hr
    split at hr
    · rename_i t hti
      simp only [Option.some.injEq] at hr; subst hr
      obtain ⟨a1, a2⟩ := hP.splitAt t k (hget hti)
      obtain ⟨_, b2⟩ := hP.splitAt _ 1 a2
      have := hP.merge _ _ a1 b2
      refine hset i ?_
      simp only [removeAt]
      split <;> exact this
    · cases hr
  | first i =>
    simp only [stepM] at hr
    split at hr
    · rename_i t hti
      simp only [Option.some.injEq] at hr; subst hr
      exact hset i (hP.skel _ _ (skel_first I t) (hget hti))
    · cases hr
  | last i =>
    simp only [stepM] at hr
    split at hr
    · rename_i t hti
      simp only [Option.some.injEq] at hr; subst hr
      exact hset i (hP.skel _ _ (skel_last I t) (hget hti))
    · cases hr
  | collect i =>
    simp only [stepM] at hr
    split at hr
    · rename_i t hti
      simp only [Option.some.injEq] at hr; subst hr
      exact hset i (hP.skel _ _ (skel_collect I t) (hget hti))
    · cases hr
  | size i =>
    simp only [stepM] at hr
    split at hr
    · simp only [Option.some.injEq] at hr; subst hr; exact h
    · cases hr
  | agg i =>
    simp only [stepM] at hr
    split at hr
    · simp only [Option.some.injEq] at hr; subst hr; exact h
    · cases hr
  | tag i m =>
    simp only [stepM] at hr
    split at hr
    · rename_i t hti
      simp only [Option.some.injEq] at hr; subst hr
      exact hset i (hP.skel _ _ (skel_tagRoot I m t) (hget hti))
    · cases hr
  | drop i =>
    simp only [stepM] at hr
    split at hr
    · simp only [Option.some.injEq] at hr; subst hr; exact herase i h
    · cases hr
  | moveAt i k j pos p =>
    simp only [stepM] at hr
    split at hr
    · rename_i t u0 hti htj
      have hrem : P (removeAt I t k).2 := by
        obtain ⟨a1, a2⟩ := hP.splitAt t k (hget hti)
        obtain ⟨_, b2⟩ := hP.splitAt _ 1 a2
        have := hP.merge _ _ a1 b2
        simp only [removeAt]
        split <;> exact this
      have h1 : ∀ t' ∈ ts.set i (removeAt I t k).2, P t' := hset i hrem
      split at hr
      · simp only [Option.some.injEq] at hr; subst hr; exact h1
      · split at hr
        · rename_i u huj
          simp only [Option.some.injEq] at hr; subst hr
          obtain ⟨s1, s2⟩ := hP.splitAt u pos (h1 _ (List.mem_of_getElem? huj))
          intro t' ht'
          rcases List.mem_or_eq_of_mem_set ht' with h' | h'
          · exact h1 t' h'
          · exact h' ▸ hP.merge _ _ (hP.merge _ _ s1 (hP.single _ p)) s2
        · cases hr
    · cases hr
  | takeAt i k p =>
    simp only [stepM] at hr
    split at hr
    · rename_i t hti
      have hrem : P (removeAt I t k).2 := by
        obtain ⟨a1, a2⟩ := hP.splitAt t k (hget hti)
        obtain ⟨_, b2⟩ := hP.splitAt _ 1 a2
        have := hP.merge _ _ a1 b2
        simp only [removeAt]
        split <;> exact this
      split at hr
      · simp only [Option.some.injEq] at hr; subst hr; exact hset i hrem
      · simp only [Option.some.injEq] at hr; subst hr; exact hpush (hset i hrem) (hP.single _ _)
    · cases hr
  | dup i w p =>
    simp only [stepM] at hr
    split at hr
    · rename_i t hti
      split at hr
      · simp only [Option.some.injEq] at hr; subst hr
        refine hpush (hset i (hP.skel _ _ (skel_pick I w t) (hget hti))) ?_
        cases (pick I w t).1 with
        | none => exact hP.nil
        | some it => exact hP.single it p
      · simp only [Option.some.injEq] at hr; subst hr; exact hpush h hP.nil
    · cases hr
  | collect2 i j =>
    simp only [stepM] at hr
    split at hr
    · cases hr
    · split at hr
      · rename_i a b hti htj
        simp only [Option.some.injEq] at hr; subst hr
        intro t' ht'
        rcases List.mem_or_eq_of_mem_set ht' with h' | h'
        · exact hset i (hP.skel _ _ (skel_collect I a) (hget hti)) t' h'
        · exact h' ▸ hP.skel _ _ (skel_collect I b) (hget htj)
      · cases hr
  | insertTag i k v m p =>
    simp only [stepM] at hr
    split at hr
    · rename_i t hti
      simp only [Option.some.injEq] at hr; subst hr
      obtain ⟨s1, s2⟩ := hP.splitAt t k (hget hti)
      exact hset i (hP.merge _ _ (hP.merge _ _ s1 (hP.single _ p)) s2)
    · cases hr
  | moveRoot i w j pos p =>
    simp only [stepM] at hr
    split at hr
    · rename_i t u0 hti htj
      have hx : P (if w = 0 then Tree.nil else t) := by
        split
        · exact hP.nil
        · exact hget hti
      have h1 : ∀ t' ∈ ts.set i (if w = 0 then Tree.nil else t), P t' := hset i hx
      split at hr
      · simp only [Option.some.injEq] at hr; subst hr; exact h
      · split at hr
        · rename_i u huj
          simp only [Option.some.injEq] at hr; subst hr
          obtain ⟨s1, s2⟩ := hP.splitAt u pos (h1 _ (List.mem_of_getElem? huj))
          intro t' ht'
          rcases List.mem_or_eq_of_mem_set ht' with h' | h'
          · exact h1 t' h'
          · exact h' ▸ hP.merge _ _ (hP.merge _ _ s1 (hP.single _ p)) s2
        · cases hr
    · cases hr

theorem run_inv {P : Tree T → Prop} (hP : ShapeInv I P) (ops : List (Op E M V)) (ts : List (Tree T))
    (h : ∀ t ∈ ts, P t) : ∀ r : List (Tree T) × List (Obs E G), runM I ts ops = some r → ∀ t ∈ r.1, P t := by
  induction ops generalizing ts with
  | nil => intro r hr; simp only [runM, Option.some.injEq] at hr; subst hr; exact h
  | cons op ops ih =>
    intro r hr
    simp only [runM] at hr
    cases hm : stepM (G := G) I ts op with
    | none => rw [hm] at hr; cases hr
    | some r1 =>
      obtain ⟨ts', o⟩ := r1
      rw [hm] at hr
      simp only at hr
      cases hr2 : runM (G := G) I ts' ops with
      | none => rw [hr2] at hr; cases hr
      | some r2 =>
        obtain ⟨ts'', os⟩ := r2
        rw [hr2] at hr
        simp only [Option.some.injEq] at hr; subst hr
        exact ih ts' (step_inv I hP ts op h _ hm) (ts'', os) hr2

theorem heapR_inv : ShapeInv I (HeapR (T := T)) where
  nil := trivial
  single := HeapR_single
  merge a b ha hb := (merge_heapR I a b ha hb).1
  splitAt t k h := ⟨(splitAt_heapR I t k h).1, (splitAt_heapR I t k h).2.1⟩
  splitBy pred t h := ⟨(splitBy_heapR I pred t h).1, (splitBy_heapR I pred t h).2.1⟩
  skel _ _ := HeapR_of_skel_eq

/-! ### `HeapR` alone fixes the shape -/

/-- The tree is the Cartesian tree (first minimum… with `consLeft`'s tie-break) of its in-order
    priority sequence — ties allowed. -/
theorem skel_eq_cartShape_of_heapR (t : Tree T) (h : HeapR t) : skel t = cartShape (prios t) := by
  induction t with
  | nil => rfl
  | node it p l r ihl ihr =>
    obtain ⟨h1, h2, h3, h4⟩ := h
    simp only [prios]
    have e1 : cartShape (p :: prios r) = .node () p .nil (skel r) := by
      rw [cartShape, ← ihr h4]
      cases r with
      | nil => rfl
      | node ir q rl rr =>
        have hq : p < q := h2
        simp only [skel, consLeft]
        rw [if_pos hq]
    rw [cartShape_append, e1, foldr_consLeft_node _ _ _ _ (prios_ge l h3.heap p h1)]
    have e2 : (prios l).foldr consLeft .nil = cartShape (prios l) := by
      have := cartShape_append (prios l) []
      simpa [cartShape] using this.symm
    rw [e2, ← ihl h3]
    rfl

/-! ### priorities through the remaining operations -/

/-- for **every** predicate the two parts of `split_by` carry the priorities of the original, in order -/
theorem prios_splitBy (pred : T → Bool) (t : Tree T) :
    prios (splitBy I pred t).1 ++ prios (splitBy I pred t).2 = prios t := by
  fun_induction splitBy I pred t with
  | case1 => rfl
  | case2 it p l r q hg s ih =>
    have e2 : prios q.2.2 = prios r := by simp [q, pushParts]
    have e1 : prios q.2.1 = prios l := by simp [q, pushParts]
    rw [e2] at ih
    simp only [upd, prios, e1, List.append_assoc, List.cons_append]
    rw [show prios s.1 ++ prios s.2 = prios r from ih]
  | case3 it p l r q hg s ih =>
    have e2 : prios q.2.2 = prios r := by simp [q, pushParts]
    have e1 : prios q.2.1 = prios l := by simp [q, pushParts]
    rw [e1] at ih
    simp only [upd, prios, e2]
    rw [← List.append_assoc, show prios s.1 ++ prios s.2 = prios l from ih]

theorem prios_removeAt (hI : Lawful I) (t : Tree T) (pos : Nat) (h : WFt I t) :
    prios (removeAt I t pos).2 = (prios t).eraseIdx pos := by
  obtain ⟨a1, a2⟩ := prios_splitAt I hI t pos h
  obtain ⟨_, _, _, w2⟩ := splitAt_spec I hI t pos h
  obtain ⟨_, b2⟩ := prios_splitAt I hI (splitAt I t pos).2 1 w2
  have : prios (merge I (splitAt I t pos).1 (splitAt I (splitAt I t pos).2 1).2) = (prios t).eraseIdx pos := by
    rw [prios_merge, a1, b2, a2, List.eraseIdx_eq_take_drop_succ, List.drop_drop]
  simp only [removeAt]
  split <;> exact this

theorem prios_of_skel_eq {a b : Tree T} (h : skel a = skel b) : prios a = prios b := by
  rw [← prios_skel a, ← prios_skel b, h]

/-! ### the priority lists of a history -/

theorem splitBy_WFt (hI : Lawful I) (pred : T → Bool) (t : Tree T) (h : WFt I t) :
    WFt I (splitBy I pred t).1 ∧ WFt I (splitBy I pred t).2 := by
  fun_induction splitBy I pred t with
  | case1 => simp [WFt]
  | case2 it p l r q hg s ih =>
    have hwl : WFt I q.2.1 := WFt_pushParts_l I hI it l r h.1
    have hwr : WFt I q.2.2 := WFt_pushParts_r I hI it l r h.2.1
    obtain ⟨i1, i2⟩ := ih hwr
    exact ⟨WFt_upd I hI _ _ _ _ (pushParts_pa I hI it l r) hwl i1, i2⟩
  | case3 it p l r q hg s ih =>
    have hwl : WFt I q.2.1 := WFt_pushParts_l I hI it l r h.1
    have hwr : WFt I q.2.2 := WFt_pushParts_r I hI it l r h.2.1
    obtain ⟨i1, i2⟩ := ih hwl
    exact ⟨i1, WFt_upd I hI _ _ _ _ (pushParts_pa I hI it l r) i2 hwr⟩

/-- well-formedness survives every operation, whatever the `split_by` predicate -/
theorem step_WF (hI : Lawful I) (ts : List (Tree T)) (op : Op E M V) (hwf : AllWF I ts) :
    ∀ r : List (Tree T) × Obs E G, stepM I ts op = some r → AllWF I r.1 := by
  cases op with
  | splitBy i g =>
    intro r hr
    simp only [stepM] at hr
    split at hr
    · rename_i t hti
      simp only [Option.some.injEq] at hr; subst hr
      obtain ⟨s1, s2⟩ := splitBy_WFt I hI (fun it => g (I.own it)) t (hwf.get hti)
      exact (hwf.set i s1).push s2
    · cases hr
  | _ => exact (step_refines I hI ts _ hwf rfl).2

theorem size_eq_prios (t : Tree T) (h : WFt I t) : size I t = (prios t).length := by
  rw [prios_length]; exact item_sz I t h

/-- one operation moves the priority lists as `stepP` says -/
theorem step_prios (hI : Lawful I) (ts : List (Tree T)) (op : Op E M V) (hwf : AllWF I ts)
    (r : List (Tree T) × Obs E G) (hr : stepM I ts op = some r) :
    stepP (ts.map prios) op r.2 = some (r.1.map prios) := by
  cases op with
  | new => simp only [stepM, Option.some.injEq] at hr; subst hr; simp [stepP, prios]
  | item v p => simp only [stepM, Option.some.injEq] at hr; subst hr; simp [stepP, prios, single]
  | merge i j =>
    simp only [stepM] at hr
    simp only [stepP, List.getElem?_map]
    split at hr
    · cases hr
    · rename_i hij
      split at hr
      · rename_i a b hti htj
        simp only [Option.some.injEq] at hr; subst hr
        simp [hij, hti, htj, map_eraseIdx, List.map_set, prios_merge]
      · cases hr
  | splitAt i k =>
    simp only [stepM] at hr
    simp only [stepP, List.getElem?_map]
    split at hr
    · rename_i t hti
      simp only [Option.some.injEq] at hr; subst hr
      obtain ⟨s1, s2⟩ := prios_splitAt I hI t k (hwf.get hti)
      simp [hti, List.map_set, s1, s2]
    · cases hr
  | splitBy i g =>
    simp only [stepM] at hr
    simp only [stepP, List.getElem?_map]
    split at hr
    · rename_i t hti
      simp only [Option.some.injEq] at hr; subst hr
      have hw := (splitBy_WFt I hI (fun it => g (I.own it)) t (hwf.get hti)).1
      have hsz := size_eq_prios I _ hw
      have hp := prios_splitBy I (fun it => g (I.own it)) t
      simp only [hti, Option.map_some, Obs.firstNat, List.map_append, List.map_set, List.map_cons, List.map_nil]
      rw [← hp, hsz, List.take_left' rfl, List.drop_left' rfl]
    · cases hr
  | insertAt i k v p =>
    simp only [stepM] at hr
    simp only [stepP, List.getElem?_map]
    split at hr
    · rename_i t hti
      simp only [Option.some.injEq] at hr; subst hr
      simp [hti, List.map_set, prios_insertAt I hI t k _ p (hwf.get hti)]
    · cases hr
  | removeAt i k =>
    simp only [stepM] at hr
    simp only [stepP, List.getElem?_map]
    split at hr
    · rename_i t hti
      simp only [Option.some.injEq] at hr; subst hr
      simp [hti, List.map_set, prios_removeAt I hI t k (hwf.get hti)]
    · cases hr
  | first i =>
    simp only [stepM] at hr
    simp only [stepP, List.getElem?_map]
    split at hr
    · rename_i t hti
      simp only [Option.some.injEq] at hr; subst hr
      simp [hti, map_set_same prios ts i t _ hti (prios_of_skel_eq (skel_first I t))]
    · cases hr
  | last i =>
    simp only [stepM] at hr
    simp only [stepP, List.getElem?_map]
    split at hr
    · rename_i t hti
      simp only [Option.some.injEq] at hr; subst hr
      simp [hti, map_set_same prios ts i t _ hti (prios_of_skel_eq (skel_last I t))]
    · cases hr
  | collect i =>
    simp only [stepM] at hr
    simp only [stepP, List.getElem?_map]
    split at hr
    · rename_i t hti
      simp only [Option.some.injEq] at hr; subst hr
      simp [hti, map_set_same prios ts i t _ hti (prios_of_skel_eq (skel_collect I t))]
    · cases hr
  | size i =>
    simp only [stepM] at hr
    simp only [stepP, List.getElem?_map]
    split at hr
    · rename_i t hti
      simp only [Option.some.injEq] at hr; subst hr
      simp [hti]
    · cases hr
  | agg i =>
    simp only [stepM] at hr
    simp only [stepP, List.getElem?_map]
    split at hr
    · rename_i t hti
      simp only [Option.some.injEq] at hr; subst hr
      simp [hti]
    · cases hr
  | tag i m =>
    simp only [stepM] at hr
    simp only [stepP, List.getElem?_map]
    split at hr
    · rename_i t hti
      simp only [Option.some.injEq] at hr; subst hr
      simp [hti, map_set_same prios ts i t _ hti (prios_of_skel_eq (skel_tagRoot I m t))]
    · cases hr
  | drop i =>
    simp only [stepM] at hr
    simp only [stepP, List.getElem?_map]
    split at hr
    · rename_i t hti
      simp only [Option.some.injEq] at hr; subst hr
      simp [hti, map_eraseIdx]
    · cases hr
  | moveAt i k j pos p =>
    simp only [stepM] at hr
    simp only [stepP, List.getElem?_map]
    split at hr
    · rename_i t u0 hti htj
      have ht := hwf.get hti
      have hpr := prios_removeAt I hI t k ht
      have hlen : (prios t).length = (seq I t).length := by rw [prios_length, seq_length]
      have hwf1 : AllWF I (ts.set i (removeAt I t k).2) := hwf.set i (removeAt_spec I hI t k ht).2.2
      simp only [hti, htj, Option.map_some]
      split at hr
      · rename_i e he
        simp only [Option.some.injEq] at hr; subst hr
        have hk : ¬ k < (prios t).length := by
          intro hk
          obtain ⟨it, hit⟩ := (removeAt_ok_iff I hI t k ht).2 (hlen ▸ hk)
          rw [hit] at he; cases he
        rw [if_neg hk]
        have : prios (removeAt I t k).2 = prios t := by
          rw [hpr, List.eraseIdx_of_length_le (by omega)]
        simp [map_set_same prios ts i t _ hti this]
      · rename_i it hit
        have hk : k < (prios t).length := hlen ▸ (removeAt_ok_iff I hI t k ht).1 ⟨it, hit⟩
        rw [if_pos hk]
        have hmap1 : (ts.map prios).set i ((prios t).eraseIdx k) = (ts.set i (removeAt I t k).2).map prios := by
          rw [List.map_set, hpr]
        split at hr
        · rename_i u huj
          simp only [Option.some.injEq] at hr; subst hr
          simp only [hmap1, List.getElem?_map, huj, Option.map_some]
          simp [List.map_set, prios_insertAt I hI u pos it p (hwf1.get huj)]
        · cases hr
    · cases hr
  | takeAt i k p =>
    simp only [stepM] at hr
    simp only [stepP, List.getElem?_map]
    split at hr
    · rename_i t hti
      have ht := hwf.get hti
      have hpr := prios_removeAt I hI t k ht
      have hlen : (prios t).length = (seq I t).length := by rw [prios_length, seq_length]
      simp only [hti, Option.map_some]
      split at hr
      · rename_i e he
        simp only [Option.some.injEq] at hr; subst hr
        have hk : ¬ k < (prios t).length := by
          intro hk
          obtain ⟨it, hit⟩ := (removeAt_ok_iff I hI t k ht).2 (hlen ▸ hk)
          rw [hit] at he; cases he
        rw [if_neg hk]
        have : prios (removeAt I t k).2 = prios t := by
          rw [hpr, List.eraseIdx_of_length_le (by omega)]
        simp [map_set_same prios ts i t _ hti this]
      · rename_i it hit
        simp only [Option.some.injEq] at hr; subst hr
        have hk : k < (prios t).length := hlen ▸ (removeAt_ok_iff I hI t k ht).1 ⟨it, hit⟩
        rw [if_pos hk]
        simp [List.map_set, hpr, single, prios]
    · cases hr
  | dup i w p =>
    simp only [stepM] at hr
    simp only [stepP, List.getElem?_map]
    split at hr
    · rename_i t hti
      have ht := hwf.get hti
      have hsz : size I t = (prios t).length := size_eq_prios I t ht
      simp only [hti, Option.map_some]
      split at hr
      · rename_i hle
        simp only [Option.some.injEq] at hr; subst hr
        have hps : prios (pick I w t).2 = prios t := prios_of_skel_eq (skel_pick I w t)
        have hit : prios (ofItem? (pick I w t).1 p) = if (prios t).length = 1 then [p] else [] := by
          rw [hsz] at hle
          have hc : (seq I t).length ≤ 1 := by rw [seq_length, ← prios_length]; exact hle
          have hq := (pick_spec I hI w t ht hc p).2.2.2.1
          have hl2 : (prios (ofItem? (pick I w t).1 p)).length = (prios t).length := by
            rw [prios_length, prios_length, ← seq_length I, hq, seq_length]
          cases ho : (pick I w t).1 with
          | none =>
            rw [ho] at hl2
            simp only [ofItem?, prios, List.length_nil] at hl2
            rw [if_neg (by omega)]; rfl
          | some it =>
            rw [ho] at hl2
            simp only [ofItem?, single, prios, List.nil_append, List.length_cons, List.length_nil] at hl2
            rw [if_pos (by omega)]; rfl
        simp [map_set_same prios ts i t _ hti hps, hit]
      · rename_i hgt
        simp only [Option.some.injEq] at hr; subst hr
        rw [hsz] at hgt
        simp [prios, show ¬ (prios t).length = 1 by omega]
    · cases hr
  | collect2 i j =>
    simp only [stepM] at hr
    simp only [stepP, List.getElem?_map]
    split at hr
    · cases hr
    · rename_i hij
      split at hr
      · rename_i a b hti htj
        simp only [Option.some.injEq] at hr; subst hr
        have htj' : (ts.set i (collect I a).2)[j]? = some b := by
          rw [List.getElem?_set, if_neg hij]; exact htj
        simp only [hij, if_false, hti, htj, Option.map_some]
        rw [map_set_same prios _ j b _ htj' (prios_of_skel_eq (skel_collect I b)),
          map_set_same prios ts i a _ hti (prios_of_skel_eq (skel_collect I a))]
      · cases hr
  | insertTag i k v m p =>
    simp only [stepM] at hr
    simp only [stepP, List.getElem?_map]
    split at hr
    · rename_i t hti
      simp only [Option.some.injEq] at hr; subst hr
      simp [hti, List.map_set, prios_insertAt I hI t k _ p (hwf.get hti)]
    · cases hr
  | moveRoot i w j pos p =>
    simp only [stepM] at hr
    simp only [stepP, List.getElem?_map]
    split at hr
    · rename_i t u0 hti htj
      have ht := hwf.get hti
      have hlen : (prios t).length = (seq I t).length := by rw [prios_length, seq_length]
      simp only [hti, htj, Option.map_some]
      split at hr
      · rename_i ho
        simp only [Option.some.injEq] at hr; subst hr
        have hk : ¬ (prios t).length = 1 := by rw [hlen]; exact onlyItem_none I t ht ho
        rw [if_neg hk]
      · rename_i it ho
        obtain ⟨⟨q, hq⟩, hseq, _⟩ := onlyItem_some I hI t ht it ho
        have hk : (prios t).length = 1 := by rw [hlen, hseq]; rfl
        rw [if_pos hk]
        have hx : WFt I (if w = 0 then Tree.nil else t) := by
          split
          · trivial
          · exact ht
        have hwf1 : AllWF I (ts.set i (if w = 0 then Tree.nil else t)) := hwf.set i hx
        have hmap1 : (ts.map prios).set i (if w = 0 then [] else prios t) =
            (ts.set i (if w = 0 then Tree.nil else t)).map prios := by
          rw [List.map_set]; congr 1
          split <;> rfl
        split at hr
        · rename_i u huj
          simp only [Option.some.injEq] at hr; subst hr
          simp only [hmap1, List.getElem?_map, huj, Option.map_some]
          simp [List.map_set, prios_insertAt I hI u pos it p (hwf1.get huj)]
        · cases hr
    · cases hr

/-- whole histories: the priority lists of the live treaps are `runP` of the operations and the
    observations the run produced -/
theorem run_prios (hI : Lawful I) (ops : List (Op E M V)) (ts : List (Tree T)) (hwf : AllWF I ts)
    (r : List (Tree T) × List (Obs E G)) (hr : runM I ts ops = some r) :
    runP (ts.map prios) ops r.2 = some (r.1.map prios) := by
  induction ops generalizing ts r with
  | nil => simp only [runM, Option.some.injEq] at hr; subst hr; rfl
  | cons op ops ih =>
    simp only [runM] at hr
    cases hm : stepM (G := G) I ts op with
    | none => rw [hm] at hr; cases hr
    | some r1 =>
      obtain ⟨ts', o⟩ := r1
      rw [hm] at hr
      simp only at hr
      cases hr2 : runM (G := G) I ts' ops with
      | none => rw [hr2] at hr; cases hr
      | some r2 =>
        obtain ⟨ts'', os⟩ := r2
        rw [hr2] at hr
        simp only [Option.some.injEq] at hr; subst hr
        have h1 := step_prios I hI ts op hwf _ hm
        have h2 := ih ts' (step_WF I hI ts op hwf _ hm) _ hr2
        simp only [runP]
        simp only at h1 h2
        rw [h1]; exact h2

/-! ### monotone priorities: the Cartesian tree is a path (wave 3, seeded C16_m10)

The measured half of C16 (`height ≤ c·log n`) is a statement about the priorities of the nodes that END UP in one
treap, in sequence order — by `history_shape` nothing else matters. If that subsequence of the thread's draws is
strictly monotone (a priority source that is a low-discrepancy counter hash, read with the right stride) the treap is
a path: its height is its size. -/

/-- strictly increasing priorities: every new leftmost element becomes the root -/
theorem cartShape_increasing (ps : List Nat) (h : ps.Pairwise (· < ·)) :
    height (cartShape ps) = ps.length ∧ ∀ p, (∀ q ∈ ps, p < q) → rootGt p (cartShape ps) := by
  induction ps with
  | nil => exact ⟨rfl, fun _ _ => trivial⟩
  | cons p0 ps ih =>
    obtain ⟨hlt, hps⟩ := List.pairwise_cons.1 h
    obtain ⟨hh, hroot⟩ := ih hps
    have hr := hroot p0 hlt
    simp only [cartShape]
    cases ht : cartShape ps with
    | nil =>
      rw [ht] at hh
      simp only [height] at hh
      refine ⟨?_, ?_⟩
      · simp only [consLeft, height, List.length_cons]; omega
      · intro p hp
        simp only [consLeft, rootGt]
        exact hp p0 (List.mem_cons_self ..)
    | node u q l r =>
      rw [ht] at hh hr
      simp only [rootGt] at hr
      refine ⟨?_, ?_⟩
      · simp only [consLeft, if_pos hr, height, List.length_cons] at hh ⊢
        omega
      · intro p hp
        simp only [consLeft, if_pos hr, rootGt]
        exact hp p0 (List.mem_cons_self ..)

/-- a left spine all of whose priorities are below `b` -/
def LSpineLt (b : Nat) : Tree Unit → Prop
  | .nil => True
  | .node _ q l r => q < b ∧ r = .nil ∧ LSpineLt b l

theorem consLeft_lspine (b : Nat) (t : Tree Unit) (h : LSpineLt b t) :
    height (consLeft b t) = height t + 1 ∧ ∀ b', b < b' → LSpineLt b' (consLeft b t) := by
  induction t with
  | nil => exact ⟨by simp [consLeft, height], fun b' hb => ⟨hb, rfl, trivial⟩⟩
  | node u q l r ihl _ =>
    obtain ⟨hq, hr, hl⟩ := h
    subst hr
    obtain ⟨h1, h2⟩ := ihl hl
    have hn : ¬ b < q := by omega
    refine ⟨?_, ?_⟩
    · simp only [consLeft, if_neg hn, height] at h1 ⊢
      omega
    · intro b' hb
      simp only [consLeft, if_neg hn]
      exact ⟨by omega, rfl, h2 b' hb⟩

/-- strictly decreasing priorities: every new leftmost element goes to the bottom of a left spine -/
theorem cartShape_decreasing (ps : List Nat) (h : ps.Pairwise (· > ·)) :
    height (cartShape ps) = ps.length ∧ ∀ b, (∀ q ∈ ps, q < b) → LSpineLt b (cartShape ps) := by
  induction ps with
  | nil => exact ⟨rfl, fun _ _ => trivial⟩
  | cons p0 ps ih =>
    obtain ⟨hgt, hps⟩ := List.pairwise_cons.1 h
    obtain ⟨hh, hsp⟩ := ih hps
    have hs := hsp p0 (fun q hq => hgt q hq)
    obtain ⟨h1, h2⟩ := consLeft_lspine p0 (cartShape ps) hs
    refine ⟨?_, ?_⟩
    · simp only [cartShape, List.length_cons]
      omega
    · intro b hb
      exact h2 b (hb p0 (List.mem_cons_self ..))

end Rlib.Treap
