import RlibModel.Lemmas.FftBlocks
/-!
Level-A lemmas for C04: everything here holds for EVERY carrier `K` and EVERY `Arith K`
(no laws), in particular bit-for-bit for IEEE floats with whatever `sin`/`cos` the platform has.

* `forRange` loop rules;
* canonical doubling tables `revC`, `wC` (ported from `spikes/FftTables.lean`) and the stride
  lemmas `revC_stride`, `wC_stride`;
* `update_n` refines the doubling recursion (`updateNCore_canon`);
* `fft_internal` on any reachable object = the transform run on the canonical table of exactly
  its own size (`fftInternal_canon`).
-/
namespace Rlib.Fft
variable {K : Type}

/-! ### `forRange` -/

theorem forRange_of_le {α : Type} {lo hi : Nat} (f : Nat → α → α) (a : α) (h : hi ≤ lo) :
    forRange lo hi f a = a := by
  rw [forRange, dif_neg (by omega)]

theorem forRange_step {α : Type} {lo hi : Nat} (f : Nat → α → α) (a : α) (h : lo < hi) :
    forRange lo hi f a = forRange (lo + 1) hi f (f lo a) := by
  rw [forRange, dif_pos h]

theorem forRange_succ_right {α : Type} (f : Nat → α → α) :
    ∀ (d lo : Nat) (a : α), forRange lo (lo + d + 1) f a = f (lo + d) (forRange lo (lo + d) f a) := by
  intro d
  induction d with
  | zero =>
    intro lo a
    rw [forRange_step f a (by omega), forRange_of_le f _ (by omega), forRange_of_le f a (by omega)]
    rfl
  | succ d ih =>
    intro lo a
    rw [forRange_step f a (by omega), forRange_step f a (by omega : lo < lo + (d + 1))]
    have := ih (lo + 1) (f lo a)
    rw [show lo + 1 + d + 1 = lo + (d + 1) + 1 by omega, show lo + 1 + d = lo + (d + 1) by omega] at this
    exact this

/-- Loop-invariant rule. -/
theorem forRange_induct {α : Type} {lo hi : Nat} (f : Nat → α → α) (a : α) (P : Nat → α → Prop)
    (hle : lo ≤ hi) (h0 : P lo a)
    (hs : ∀ i x, lo ≤ i → i < hi → P i x → P (i + 1) (f i x)) : P hi (forRange lo hi f a) := by
  obtain ⟨d, rfl⟩ : ∃ d, hi = lo + d := ⟨hi - lo, by omega⟩
  clear hle
  induction d with
  | zero => rw [forRange_of_le f a (by omega)]; exact h0
  | succ d ih =>
    rw [show lo + (d + 1) = lo + d + 1 by omega, forRange_succ_right]
    exact hs _ _ (by omega) (by omega) (ih (fun i x h1 h2 => hs i x h1 (by omega)))

/-- Two loops whose bodies agree on the range agree. -/
theorem forRange_congr {α : Type} {lo hi : Nat} (f g : Nat → α → α) (a : α)
    (h : ∀ i x, lo ≤ i → i < hi → f i x = g i x) : forRange lo hi f a = forRange lo hi g a := by
  by_cases hle : lo ≤ hi
  · refine forRange_induct f a (fun i x => x = forRange lo i g a) hle ?_ ?_
    · rw [forRange_of_le g a (Nat.le_refl _)]
    · intro i x h1 h2 hx
      obtain ⟨d, rfl⟩ : ∃ d, i = lo + d := ⟨i - lo, by omega⟩
      rw [forRange_succ_right, ← hx, h _ _ h1 h2]
  · rw [forRange_of_le f a (by omega), forRange_of_le g a (by omega)]

/-! ### two loop shapes: `a[i] = g(a[i])` and `a[tgt i] = val(i, a)` with reads that are never overwritten before -/

theorem forRange_modify_spec {α : Type} (lo hi : Nat) (g : Nat → α → α) (a : Array α) :
    (forRange lo hi (fun i r => r.modify i (g i)) a).size = a.size ∧
    ∀ p, (forRange lo hi (fun i r => r.modify i (g i)) a)[p]? =
      if lo ≤ p ∧ p < hi then a[p]?.map (g p) else a[p]? := by
  by_cases hle : lo ≤ hi
  · refine forRange_induct _ a (fun i x => x.size = a.size ∧ ∀ p, x[p]? = if lo ≤ p ∧ p < i then a[p]?.map (g p) else a[p]?) hle ?_ ?_
    · exact ⟨rfl, fun p => by rw [if_neg (by omega)]⟩
    · intro i x h1 h2 ⟨hs, hx⟩
      refine ⟨by rw [Array.size_modify, hs], fun p => ?_⟩
      rw [Array.getElem?_modify, hx p]
      by_cases hp : i = p
      · subst hp; rw [if_pos rfl, if_neg (by omega), if_pos (by omega)]
      · rw [if_neg hp]
        by_cases hq : lo ≤ p ∧ p < i
        · rw [if_pos hq, if_pos (by omega)]
        · rw [if_neg hq, if_neg (by omega)]
  · rw [forRange_of_le _ a (by omega)]
    exact ⟨rfl, fun p => by rw [if_neg (by omega)]⟩

theorem forRange_set_spec {α : Type} (lo hi : Nat) (tgt : Nat → Nat) (val : Nat → Array α → α)
    (val0 : Nat → α) (a : Array α)
    (hinj : ∀ i j, lo ≤ i → i < j → j < hi → tgt i ≠ tgt j)
    (hval : ∀ i x, lo ≤ i → i < hi → x.size = a.size →
      (∀ p, (∀ j, lo ≤ j → j < i → tgt j ≠ p) → x[p]? = a[p]?) → val i x = val0 i) :
    (forRange lo hi (fun i x => x.setIfInBounds (tgt i) (val i x)) a).size = a.size ∧
    (∀ i, lo ≤ i → i < hi → tgt i < a.size →
      (forRange lo hi (fun i x => x.setIfInBounds (tgt i) (val i x)) a)[tgt i]? = some (val0 i)) ∧
    (∀ p, (∀ j, lo ≤ j → j < hi → tgt j ≠ p) →
      (forRange lo hi (fun i x => x.setIfInBounds (tgt i) (val i x)) a)[p]? = a[p]?) := by
  by_cases hle : lo ≤ hi
  · have key := forRange_induct (fun i x => x.setIfInBounds (tgt i) (val i x)) a
      (fun n x => n ≤ hi → (x.size = a.size ∧
        (∀ i, lo ≤ i → i < n → tgt i < a.size → x[tgt i]? = some (val0 i)) ∧
        (∀ p, (∀ j, lo ≤ j → j < n → tgt j ≠ p) → x[p]? = a[p]?))) hle ?_ ?_
    · exact key (Nat.le_refl _)
    · intro _
      exact ⟨rfl, fun i h1 h2 => by omega, fun p _ => rfl⟩
    · intro i x h1 h2 ih _
      obtain ⟨hs, hw, hu⟩ := ih (by omega)
      have hv : val i x = val0 i := hval i x h1 h2 hs hu
      refine ⟨by rw [Array.size_setIfInBounds, hs], ?_, ?_⟩
      · intro j hj1 hj2 hjs
        rw [Array.getElem?_setIfInBounds]
        by_cases hji : j = i
        · subst hji; rw [if_pos rfl, if_pos (by omega), hv]
        · rw [if_neg (fun h => hinj j i hj1 (by omega) h2 h.symm)]
          exact hw j hj1 (by omega) hjs
      · intro p hp
        rw [Array.getElem?_setIfInBounds, if_neg (hp i h1 (by omega))]
        exact hu p (fun j hj1 hj2 => hp j hj1 (by omega))
  · rw [forRange_of_le _ a (by omega)]
    exact ⟨rfl, fun i h1 h2 => by omega, fun p _ => rfl⟩

/-! ### canonical tables (doubling recursion) -/

/-- canonical twiddle table of level `k` (`N = 2^k`, entries `0..N`), as produced by doubling:
even entries are copied from the previous level, odd ones computed, both ends forced to `one`. -/
def wC (tw : Nat → Nat → K) (one : K) : Nat → Nat → K
  | 0, _ => one
  | k+1, i => if i = 0 ∨ i = 2^(k+1) then one else if i % 2 = 0 then wC tw one k (i/2) else tw i (2^k)

/-- canonical bit-reversal table of level `k` -/
def revC : Nat → Nat → Nat
  | 0, _ => 0
  | k+1, i => if i < 2^k then 2 * revC k i else 2 * revC k (i - 2^k) + 1

theorem wC_zero (tw : Nat → Nat → K) (one : K) : ∀ k, wC tw one k 0 = one
  | 0 => rfl
  | k+1 => by simp [wC]

theorem wC_last (tw : Nat → Nat → K) (one : K) : ∀ k, wC tw one k (2^k) = one
  | 0 => rfl
  | k+1 => by simp [wC]

/-- a table grown to `2^(k+d)` read with stride `2^d` is the table of size `2^k` — for ANY carrier and
ANY twiddle function, i.e. bit-for-bit for floats -/
theorem wC_stride (tw : Nat → Nat → K) (one : K) (k : Nat) :
    ∀ d j, j ≤ 2^k → wC tw one (k+d) (j * 2^d) = wC tw one k j := by
  intro d
  induction d with
  | zero => intro j _; simp
  | succ d ih =>
    intro j hj
    rw [show k + (d+1) = (k+d)+1 from rfl, wC]
    by_cases h0 : j = 0
    · subst h0; simp [wC_zero]
    · by_cases hl : j = 2^k
      · subst hl
        have : 2 ^ k * 2 ^ (d + 1) = 2 ^ (k + d + 1) := by rw [← Nat.pow_add]; rfl
        simp [this, wC_last]
      · have hpos : 0 < 2 ^ (d+1) := Nat.two_pow_pos _
        have hne0 : j * 2 ^ (d + 1) ≠ 0 := Nat.mul_ne_zero h0 (by omega)
        have hneL : j * 2 ^ (d + 1) ≠ 2 ^ (k + d + 1) := by
          intro h
          have : 2 ^ (k + d + 1) = 2 ^ k * 2 ^ (d + 1) := by rw [← Nat.pow_add]; rfl
          rw [this] at h
          exact hl (Nat.eq_of_mul_eq_mul_right hpos h)
        have hev : j * 2 ^ (d + 1) % 2 = 0 := by rw [Nat.pow_succ, ← Nat.mul_assoc]; simp
        have hhalf : j * 2 ^ (d + 1) / 2 = j * 2 ^ d := by rw [Nat.pow_succ, ← Nat.mul_assoc]; simp
        simp only [hne0, hneL, or_self, if_false, hev, if_true, hhalf]
        exact ih j hj

theorem revC_stride (k : Nat) : ∀ d i, i < 2^k → revC (k+d) i >>> d = revC k i := by
  intro d
  induction d with
  | zero => intro i _; simp
  | succ d ih =>
    intro i hi
    have hlt : i < 2 ^ (k + d) := Nat.lt_of_lt_of_le hi (Nat.pow_le_pow_right (by omega) (by omega))
    rw [show k + (d+1) = (k+d)+1 from rfl, revC, if_pos hlt, Nat.shiftRight_succ_inside]
    rw [show 2 * revC (k + d) i / 2 = revC (k + d) i by omega]
    exact ih i hi

theorem revC_lt : ∀ k i, revC k i < 2^k
  | 0, _ => by simp [revC]
  | k+1, i => by
    rw [revC]
    have h1 := revC_lt k i
    have h2 := revC_lt k (i - 2^k)
    rw [Nat.pow_succ]
    split <;> omega

/-- The canonical tables as arrays. -/
def revArr (k : Nat) : Array Nat := Array.ofFn (n := 2^k) (fun i => revC k i)
def wArr (A : Arith K) (k : Nat) : Array K := Array.ofFn (n := 2^k + 1) (fun i => wC A.tw A.one k i)

/-- The object whose tables are the canonical ones of size `2^k`. -/
def canonState (A : Arith K) (k : Nat) (buf : Array K) : State K := { w := wArr A k, rev := revArr k, buf := buf }

/-- `s` has the canonical tables of size `2^k`. -/
def Canon (A : Arith K) (k : Nat) (s : State K) : Prop := s.rev = revArr k ∧ s.w = wArr A k

theorem Canon.eq {A : Arith K} {k : Nat} {s : State K} (h : Canon A k s) : s = canonState A k s.buf := by
  cases s; simp only [Canon] at h; simp [canonState, h.1, h.2]

theorem canon_canonState (A : Arith K) (k : Nat) (buf : Array K) : Canon A k (canonState A k buf) := ⟨rfl, rfl⟩

@[simp] theorem size_revArr (k : Nat) : (revArr k).size = 2^k := by simp [revArr]
@[simp] theorem size_wArr (A : Arith K) (k : Nat) : (wArr A k).size = 2^k + 1 := by simp [wArr]

theorem getElem?_revArr (k i : Nat) : (revArr k)[i]? = if i < 2^k then some (revC k i) else none := by
  simp [revArr, Array.getElem?_ofFn]

theorem getElem?_wArr (A : Arith K) (k i : Nat) :
    (wArr A k)[i]? = if i < 2^k + 1 then some (wC A.tw A.one k i) else none := by
  simp [wArr, Array.getElem?_ofFn]

theorem getD_revArr (k i : Nat) (h : i < 2^k) : (revArr k).getD i 0 = revC k i := by
  rw [Array.getD_eq_getD_getElem?, getElem?_revArr, if_pos h]; rfl

theorem getD_wArr (A : Arith K) (k i : Nat) (h : i ≤ 2^k) : (wArr A k).getD i A.zero = wC A.tw A.one k i := by
  rw [Array.getD_eq_getD_getElem?, getElem?_wArr, if_pos (by omega)]; rfl

/-! ### `update_n` refines the doubling recursion -/

theorem two_mul_xor_one (x : Nat) : (2 * x) ^^^ 1 = 2 * x + 1 := by
  apply Nat.eq_of_testBit_eq
  intro i
  rw [Nat.testBit_xor]
  cases i with
  | zero => simp [Nat.testBit_zero]
  | succ i =>
    rw [Nat.testBit_succ, Nat.testBit_succ, Nat.testBit_succ]
    have h1 : 2 * x / 2 = x := by omega
    have h2 : (2 * x + 1) / 2 = x := by omega
    rw [h1, h2]; simp

/-- Prefix of the tables agrees with the canonical tables of level `j` (the entry `w[2^j]` is
    not constrained: inside `update_n` it is only forced at the very end). -/
def Pre (A : Arith K) (j : Nat) (s : State K) : Prop :=
  (∀ i, i < 2^j → s.rev[i]? = some (revC j i)) ∧ (∀ i, i < 2^j → s.w[i]? = some (wC A.tw A.one j i))

theorem growStep_pre (A : Arith K) (j : Nat) (s : State K) (hp : Pre A j s)
    (hr : 2^(j+1) ≤ s.rev.size) (hw : 2^(j+1) ≤ s.w.size) :
    Pre A (j+1) (growStep A (2^j) s) ∧ (growStep A (2^j) s).rev.size = s.rev.size ∧
    (growStep A (2^j) s).w.size = s.w.size ∧ (growStep A (2^j) s).buf = s.buf := by
  have hpow : 2^(j+1) = 2 * 2^j := by rw [Nat.pow_succ]; omega
  have hpos : 0 < 2^j := Nat.two_pow_pos j
  obtain ⟨hpr, hpw⟩ := hp
  -- reversed
  have h1 := forRange_modify_spec 0 (2^j) (fun _ x => x <<< 1) s.rev
  have h2 := forRange_set_spec (2^j) (2^j <<< 1) (fun i => i)
    (fun i r => r.getD (i - 2^j) 0 ^^^ 1)
    (fun i => (forRange 0 (2^j) (fun i r => r.modify i (· <<< 1)) s.rev).getD (i - 2^j) 0 ^^^ 1)
    (forRange 0 (2^j) (fun i r => r.modify i (· <<< 1)) s.rev)
    (fun i j _ h _ => by omega)
    (fun i x hi1 hi2 _ hx => by
      have : 2^j <<< 1 = 2 * 2^j := by rw [Nat.shiftLeft_eq]; omega
      simp only [Array.getD_eq_getD_getElem?]
      rw [hx (i - 2^j) (fun j hj1 _ => by omega)])
  -- w
  have h3 := forRange_set_spec 0 (2^j - 1) (fun t => (2^j <<< 1) - 2 - 2 * t)
    (fun t w => w.getD (((2^j <<< 1) - 2 - 2 * t) / 2) A.zero)
    (fun t => s.w.getD (((2^j <<< 1) - 2 - 2 * t) / 2) A.zero) s.w
    (fun i j _ h1 h2 => by
      have : 2^j <<< 1 = 2 * 2^j := by rw [Nat.shiftLeft_eq]; omega
      omega)
    (fun i x hi1 hi2 _ hx => by
      have : 2^j <<< 1 = 2 * 2^j := by rw [Nat.shiftLeft_eq]; omega
      simp only [Array.getD_eq_getD_getElem?]
      rw [hx _ (fun j hj1 hj2 => by omega)])
  have h4 := forRange_set_spec 0 (2^j) (fun t => 2 * t + 1) (fun t _ => A.tw (2 * t + 1) (2^j))
    (fun t => A.tw (2 * t + 1) (2^j))
    (forRange 0 (2^j - 1) (fun t w => w.setIfInBounds ((2^j <<< 1) - 2 - 2 * t)
      (w.getD (((2^j <<< 1) - 2 - 2 * t) / 2) A.zero)) s.w)
    (fun i j _ h1 h2 => by omega) (fun _ _ _ _ _ _ => rfl)
  have hsh : 2^j <<< 1 = 2 * 2^j := by rw [Nat.shiftLeft_eq]; omega
  refine ⟨⟨?_, ?_⟩, ?_, ?_, rfl⟩
  · -- reversed prefix
    intro i hi
    show (forRange (2^j) (2^j <<< 1) _ (forRange 0 (2^j) _ s.rev))[i]? = _
    rw [revC]
    by_cases hlt : i < 2^j
    · rw [if_pos hlt, h2.2.2 i (fun j hj1 _ => by omega), h1.2 i, if_pos (by omega), hpr i hlt]
      simp [Nat.shiftLeft_eq, Nat.mul_comm]
    · rw [if_neg hlt]
      have := h2.2.1 i (by omega) (by omega) (by rw [h1.1]; omega)
      rw [this, Array.getD_eq_getD_getElem?, h1.2 (i - 2^j), if_pos (by omega), hpr (i - 2^j) (by omega)]
      simp only [Option.map_some, Option.getD_some, Nat.shiftLeft_eq, Nat.pow_one]
      rw [Nat.mul_comm, two_mul_xor_one]
  · -- w prefix
    intro i hi
    show (forRange 0 (2^j) _ (forRange 0 (2^j - 1) _ s.w))[i]? = _
    rw [wC]
    by_cases hodd : i % 2 = 1
    · -- odd: computed
      have := h4.2.1 (i / 2) (by omega) (by omega) (by rw [h3.1]; omega)
      rw [show 2 * (i / 2) + 1 = i by omega] at this
      rw [this, if_neg (by omega), if_neg (by omega)]
    · rw [h4.2.2 i (fun j _ _ => by omega)]
      by_cases h0 : i = 0
      · subst h0
        rw [h3.2.2 0 (fun j _ hj => by omega), if_pos (Or.inl rfl), hpw 0 hpos, wC_zero]
      · have := h3.2.1 (2^j - 1 - i / 2) (by omega) (by omega) (by omega)
        rw [show 2 ^ j <<< 1 - 2 - 2 * (2 ^ j - 1 - i / 2) = i by omega] at this
        rw [this, if_neg (by omega), if_pos (by omega), Array.getD_eq_getD_getElem?, hpw (i / 2) (by omega)]
        rfl
  · show (forRange (2^j) (2^j <<< 1) _ (forRange 0 (2^j) _ s.rev)).size = _
    rw [h2.1, h1.1]
  · show (forRange 0 (2^j) _ (forRange 0 (2^j - 1) _ s.w)).size = _
    rw [h4.1, h3.1]


theorem growLoop_pre (A : Arith K) : ∀ (d j : Nat) (s : State K), Pre A j s →
    2^(j+d) ≤ s.rev.size → 2^(j+d) ≤ s.w.size →
    Pre A (j+d) (growLoop A (2^j) (2^(j+d)) s) ∧ (growLoop A (2^j) (2^(j+d)) s).rev.size = s.rev.size ∧
    (growLoop A (2^j) (2^(j+d)) s).w.size = s.w.size ∧ (growLoop A (2^j) (2^(j+d)) s).buf = s.buf := by
  intro d
  induction d with
  | zero =>
    intro j s hp _ _
    rw [growLoop, dif_neg (by simp)]
    exact ⟨hp, rfl, rfl, rfl⟩
  | succ d ih =>
    intro j s hp hr hw
    have hlt : 2^j < 2^(j+(d+1)) := Nat.pow_lt_pow_right (by omega) (by omega)
    have hle : 2^(j+1) ≤ 2^(j+(d+1)) := Nat.pow_le_pow_right (by omega) (by omega)
    rw [growLoop, dif_pos ⟨hlt, Nat.two_pow_pos j⟩]
    obtain ⟨g1, g2, g3, g4⟩ := growStep_pre A j s hp (by omega) (by omega)
    have e : 2^j * 2 = 2^(j+1) := by rw [Nat.pow_succ]
    have e2 : j + (d+1) = (j+1) + d := by omega
    rw [e, e2]
    obtain ⟨i1, i2, i3, i4⟩ := ih (j+1) (growStep A (2^j) s) g1 (by rw [g2, ← e2]; exact hr) (by rw [g3, ← e2]; exact hw)
    exact ⟨i1, by rw [i2, g2], by rw [i3, g3], by rw [i4, g4]⟩

theorem getElem?_resize_of_lt {α : Type} (a : Array α) (n : Nat) (v : α) (i : Nat) (h : i < a.size) (hn : a.size ≤ n) :
    (resize a n v)[i]? = a[i]? := by
  unfold resize
  split
  · have : n = a.size := by omega
    subst this; simp
  · rw [Array.getElem?_append, if_pos h]

theorem size_resize {α : Type} (a : Array α) (n : Nat) (v : α) : (resize a n v).size = n := by
  unfold resize
  split
  · rw [Array.size_extract]; omega
  · rw [Array.size_append, Array.size_replicate]; omega

theorem canon_pre {A : Arith K} {k : Nat} {s : State K} (h : Canon A k s) : Pre A k s := by
  obtain ⟨h1, h2⟩ := h
  refine ⟨fun i hi => ?_, fun i hi => ?_⟩
  · rw [h1, getElem?_revArr, if_pos hi]
  · rw [h2, getElem?_wArr, if_pos (by omega)]

/-- `update_n` on an object with canonical tables of size `2^j`: nothing if `m ≤ j`, else exactly the
    canonical tables of size `2^m` (`tables_canonical`, one step). -/
theorem updateNCore_canon (A : Arith K) (j m : Nat) (s : State K) (h : Canon A j s) :
    updateNCore A s (2^m) = if m ≤ j then s else canonState A m s.buf := by
  have hsz : s.rev.size = 2^j := by rw [h.1, size_revArr]
  have hwz : s.w.size = 2^j + 1 := by rw [h.2, size_wArr]
  unfold updateNCore
  by_cases hm : m ≤ j
  · rw [if_pos hm]
    simp only []
    rw [if_pos (by rw [hsz]; exact Nat.pow_le_pow_right (by omega) hm)]
  · rw [if_neg hm]
    have hlt : 2^j < 2^m := Nat.pow_lt_pow_right (by omega) (by omega)
    simp only []
    rw [if_neg (by rw [hsz]; omega)]
    obtain ⟨d, rfl⟩ : ∃ d, m = j + d := ⟨m - j, by omega⟩
    have hp := canon_pre h
    have hp1 : Pre A j { s with rev := resize s.rev (2^(j+d)) 0, w := resize s.w (2^(j+d) + 1) A.zero } := by
      refine ⟨fun i hi => ?_, fun i hi => ?_⟩
      · show (resize s.rev _ 0)[i]? = _
        rw [getElem?_resize_of_lt _ _ _ _ (by omega) (by omega)]; exact hp.1 i hi
      · show (resize s.w _ A.zero)[i]? = _
        rw [getElem?_resize_of_lt _ _ _ _ (by omega) (by omega)]; exact hp.2 i hi
    rw [hsz]
    obtain ⟨g1, g2, g3, g4⟩ := growLoop_pre A d j _ hp1
      (by show _ ≤ (resize s.rev _ 0).size; rw [size_resize]; exact Nat.le_refl _)
      (by show _ ≤ (resize s.w _ A.zero).size; rw [size_resize]; omega)
    rw [show ({ s with rev := resize s.rev (2^(j+d)) 0, w := resize s.w (2^(j+d) + 1) A.zero } : State K).rev.size
          = 2^(j+d) from size_resize _ _ _] at g2
    rw [show ({ s with rev := resize s.rev (2^(j+d)) 0, w := resize s.w (2^(j+d) + 1) A.zero } : State K).w.size
          = 2^(j+d) + 1 from size_resize _ _ _] at g3
    simp only [canonState]
    congr 1
    · -- w
      apply Array.ext_getElem?
      intro i
      rw [Array.getElem?_setIfInBounds, g3, getElem?_wArr]
      by_cases hi : 2^(j+d) + 1 - 1 = i
      · rw [if_pos hi, if_pos (by omega), if_pos (by omega)]
        rw [← hi, show 2^(j+d) + 1 - 1 = 2^(j+d) by omega, wC_last]
      · rw [if_neg hi]
        by_cases hi2 : i < 2^(j+d)
        · rw [if_pos (by omega)]; exact g1.2 i hi2
        · rw [if_neg (by omega)]
          exact Array.getElem?_eq_none (by omega)
    · -- rev
      apply Array.ext_getElem?
      intro i
      rw [getElem?_revArr]
      by_cases hi2 : i < 2^(j+d)
      · rw [if_pos hi2]; exact g1.1 i hi2
      · rw [if_neg hi2]; exact Array.getElem?_eq_none (by omega)

/-! ### `fft_internal` reads the shared tables exactly as a table of its own size -/

theorem init_canon (A : Arith K) : Canon A 0 (init A) := by
  refine ⟨?_, ?_⟩
  · apply Array.ext_getElem?; intro i
    rw [getElem?_revArr]
    match i with
    | 0 => rfl
    | i+1 => simp [init]
  · apply Array.ext_getElem?; intro i
    rw [getElem?_wArr]
    match i with
    | 0 => rfl
    | 1 => rfl
    | i+2 => simp [init]

/-- `FFT::new()` has the canonical tables of size 4. -/
theorem new_eq (A : Arith K) : new A = canonState A 2 #[] := by
  have := updateNCore_canon A 0 2 (init A) (init_canon A)
  rw [if_neg (by omega)] at this
  exact this

theorem innerLoop_congr (A : Arith K) (rd1 rd2 : Nat → K) (i ln : Nat) (step1 step2 : Int) :
    ∀ (d j : Nat) (ind1 ind2 : Int) (v : Array K), ln - j = d →
      (∀ t, j + t < ln → rd1 (ind1 + t * step1).toNat = rd2 (ind2 + t * step2).toNat) →
      innerLoop A rd1 i ln step1 j ind1 v = innerLoop A rd2 i ln step2 j ind2 v := by
  intro d
  induction d with
  | zero =>
    intro j ind1 ind2 v hd _
    rw [innerLoop, dif_neg (by omega), innerLoop, dif_neg (by omega)]
  | succ d ih =>
    intro j ind1 ind2 v hd h
    rw [innerLoop, dif_pos (by omega)]
    conv => rhs; rw [innerLoop, dif_pos (show j < ln by omega)]
    have h0 := h 0 (by omega)
    simp only [Int.natCast_zero, Int.zero_mul, Int.add_zero] at h0
    simp only [h0]
    apply ih (j+1) _ _ _ (by omega)
    intro t ht
    have := h (t+1) (by omega)
    rw [show ind1 + step1 + ↑t * step1 = ind1 + ↑(t + 1) * step1 by
          rw [Int.natCast_add, Int.add_mul, Int.natCast_one, Int.one_mul]; ac_rfl,
        show ind2 + step2 + ↑t * step2 = ind2 + ↑(t + 1) * step2 by
          rw [Int.natCast_add, Int.add_mul, Int.natCast_one, Int.one_mul]; ac_rfl]
    exact this


theorem tdiv_two_pow (k t : Nat) (h : t < k) :
    ((2^k : Nat) : Int).tdiv (((2^t : Nat) : Int) * 2) = ((2^(k-t-1) : Nat) : Int) := by
  rw [Int.tdiv_eq_ediv_of_nonneg (Int.natCast_nonneg _)]
  have : (2^k : Nat) = 2^(k-t-1) * (2^t * 2) := by
    rw [← Nat.pow_succ, ← Nat.pow_add]; congr 1; omega
  rw [this]
  have hpos : (0 : Int) < ((2^t : Nat) : Int) * 2 := by
    have := Nat.two_pow_pos t; omega
  rw [Int.natCast_mul, Int.natCast_mul]
  rw [show ((2 : Nat) : Int) = 2 from rfl]
  exact Int.mul_ediv_cancel _ (by omega)

theorem twIdx_fwd (k t j : Nat) (h : t < k) :
    ((0 : Int) + (j : Int) * ((2^k : Nat) : Int).tdiv (((2^t : Nat) : Int) * 2)).toNat = j * 2^(k-t-1) := by
  rw [tdiv_two_pow k t h, Int.zero_add, ← Int.natCast_mul, Int.toNat_natCast]

theorem twIdx_inv (k t j : Nat) (h : t < k) (hj : j < 2^t) :
    (((2^k : Nat) : Int) + (j : Int) * (-((2^k : Nat) : Int)).tdiv (((2^t : Nat) : Int) * 2)).toNat
      = 2^k - j * 2^(k-t-1) := by
  rw [Int.neg_tdiv, tdiv_two_pow k t h]
  have hle : j * 2^(k-t-1) ≤ 2^k := by
    have : (2^k : Nat) = 2^t * 2 * 2^(k-t-1) := by
      rw [← Nat.pow_succ, ← Nat.pow_add]; congr 1; omega
    rw [this]
    exact Nat.mul_le_mul_right _ (by omega)
  rw [Int.mul_neg, ← Int.natCast_mul, ← Int.sub_eq_add_neg, ← Int.natCast_sub hle, Int.toNat_natCast]

/-- reading the table of size `2^(m+e)` with stride `2^e` -/
theorem wArr_read (A : Arith K) (m e j : Nat) (hj : j ≤ 2^m) :
    (wArr A (m+e)).getD (j * 2^e) A.zero = wC A.tw A.one m j := by
  rw [getD_wArr A (m+e) _ (by rw [Nat.pow_add]; exact Nat.mul_le_mul_right _ hj), wC_stride _ _ m e j hj]

theorem stage_canon (A : Arith K) (m e t n : Nat) (ht : t < m) (inv : Bool) (v : Array K) :
    stage A (fun i => (wArr A (m+e)).getD i A.zero) (2^(m+e)) n (2^t) inv v
      = stage A (wC A.tw A.one m) (2^m) n (2^t) inv v := by
  unfold stage
  apply forRange_congr
  intro b x _ _
  apply innerLoop_congr A _ _ _ _ _ _ (2^t - 0) 0 _ _ _ rfl
  intro j hj
  have hj' : j < 2^t := by omega
  have hsplit : 2^(m+e-t-1) = 2^(m-t-1) * 2^e := by
    rw [← Nat.pow_add]; congr 1; omega
  have hle : j * 2^(m-t-1) ≤ 2^m := by
    have : (2^m : Nat) = 2^t * 2 * 2^(m-t-1) := by
      rw [← Nat.pow_succ, ← Nat.pow_add]; congr 1; omega
    rw [this]
    exact Nat.mul_le_mul_right _ (by omega)
  cases inv with
  | false =>
    simp only [Bool.false_eq_true, if_false]
    rw [twIdx_fwd (m+e) t j (by omega), twIdx_fwd m t j ht, hsplit, ← Nat.mul_assoc]
    exact wArr_read A m e _ hle
  | true =>
    simp only [if_true]
    rw [twIdx_inv (m+e) t j (by omega) hj', twIdx_inv m t j ht hj', hsplit, ← Nat.mul_assoc,
      Nat.pow_add, ← Nat.sub_mul]
    exact wArr_read A m e _ (by omega)

theorem stages_canon (A : Arith K) (m e : Nat) (inv : Bool) :
    ∀ (d t : Nat) (v : Array K), t + d = m →
      stages A (fun i => (wArr A (m+e)).getD i A.zero) (2^(m+e)) (2^m) inv (2^t) v
        = stages A (wC A.tw A.one m) (2^m) (2^m) inv (2^t) v := by
  intro d
  induction d with
  | zero =>
    intro t v ht
    have : t = m := by omega
    subst this
    rw [stages, dif_neg (by omega), stages, dif_neg (by omega)]
  | succ d ih =>
    intro t v ht
    have hlt : 2^t < 2^m := Nat.pow_lt_pow_right (by omega) (by omega)
    rw [stages, dif_pos ⟨hlt, Nat.two_pow_pos t⟩]
    conv => rhs; rw [stages, dif_pos ⟨hlt, Nat.two_pow_pos t⟩]
    rw [stage_canon A m e t _ (by omega), ← Nat.pow_succ]
    exact ih (t+1) _ (by omega)

/-- The transform of size `2^m` on the canonical table of exactly that size. -/
def fftRef (A : Arith K) (m : Nat) (inv : Bool) (v : Array K) : Array K :=
  fftCore A (wC A.tw A.one m) (revC m) (2^m) (2^m) inv v

theorem fftCore_canon (A : Arith K) (m e : Nat) (inv : Bool) (v : Array K) :
    fftCore A (fun i => (wArr A (m+e)).getD i A.zero) (fun i => (revArr (m+e)).getD i 0 >>> e) (2^(m+e)) (2^m) inv v
      = fftRef A m inv v := by
  unfold fftRef fftCore
  have hb : bitrev A (fun i => (revArr (m+e)).getD i 0 >>> e) (2^m) v = bitrev A (revC m) (2^m) v := by
    unfold bitrev
    apply forRange_congr
    intro i x _ hi
    have : (revArr (m+e)).getD i 0 >>> e = revC m i := by
      rw [getD_revArr _ _ (Nat.lt_of_lt_of_le hi (Nat.pow_le_pow_right (by omega) (by omega))), revC_stride m e i hi]
    simp only [this]
  simp only [hb]
  have := stages_canon A m e inv m 0 (bitrev A (revC m) (2^m) v) (by omega)
  rw [Nat.pow_zero] at this
  rw [this]

/-- `fft_internal` on an object with canonical tables of ANY size `2^k`: the tables become the
    canonical ones of size `2^(max k m)` and the buffer is transformed exactly as by an object whose
    table has size `2^m` (`fft_internal_table_indep`). -/
theorem fftInternal_canon (A : Arith K) (k m : Nat) (s : State K) (h : Canon A k s) (inv : Bool) :
    fftInternal A s (2^m) inv = canonState A (max k m) (fftRef A m inv s.buf) := by
  unfold fftInternal
  rw [updateNCore_canon A k m s h]
  by_cases hm : m ≤ k
  · rw [if_pos hm]
    obtain ⟨e, rfl⟩ : ∃ e, k = m + e := ⟨k - m, by omega⟩
    simp only [h.1, h.2, size_revArr, Nat.log2_two_pow, show m + e - m = e by omega, fftCore_canon]
    rw [show max (m+e) m = m + e by omega]
    rfl
  · rw [if_neg hm]
    have := fftCore_canon A m 0 inv s.buf
    simp only [canonState, size_revArr, Nat.log2_two_pow, Nat.sub_self]
    rw [Nat.add_zero] at this
    rw [this, show max k m = m by omega]

/-! ### sizes, and the twiddle-folding loop -/

theorem isPow2_iff (n : Nat) : isPow2 n = true ↔ n ≠ 0 ∧ n &&& (n - 1) = 0 := by
  simp [isPow2]

theorem isPow2_two_pow (m : Nat) : isPow2 (2^m) = true := by
  have hpos := Nat.two_pow_pos m
  rw [isPow2_iff]
  refine ⟨by omega, ?_⟩
  rw [Nat.and_two_pow_sub_one_eq_mod, Nat.mod_self]

theorem exists_of_isPow2 : ∀ n, isPow2 n = true → ∃ m, n = 2^m := by
  intro n
  induction n using Nat.strongRecOn with
  | _ n ih =>
    intro h
    rw [isPow2_iff] at h
    obtain ⟨h0, h1⟩ := h
    by_cases hn1 : n = 1
    · exact ⟨0, hn1⟩
    · have hd : (n / 2) &&& ((n - 1) / 2) = 0 := by rw [← Nat.and_div_two, h1]
      by_cases hev : n % 2 = 0
      · have hq : (n - 1) / 2 = n / 2 - 1 := by omega
        rw [hq] at hd
        obtain ⟨m, hm⟩ := ih (n / 2) (by omega) (by
          rw [isPow2_iff]
          exact ⟨by omega, hd⟩)
        exact ⟨m + 1, by rw [Nat.pow_succ]; omega⟩
      · have hq : (n - 1) / 2 = n / 2 := by omega
        rw [hq, Nat.and_self] at hd
        omega

theorem ceilPow2_spec : ∀ (d j len : Nat), len - 2^j = d → ∃ m, j ≤ m ∧ ceilPow2 (2^j) len = 2^m := by
  intro d
  induction d using Nat.strongRecOn with
  | _ d ih =>
    intro j len hd
    rw [ceilPow2]
    by_cases h : 2^j < len ∧ 0 < 2^j
    · rw [dif_pos h, ← Nat.pow_succ]
      obtain ⟨m, hm1, hm2⟩ := ih (len - 2^(j+1)) (by rw [Nat.pow_succ]; omega) (j+1) len rfl
      exact ⟨m, by omega, hm2⟩
    · rw [dif_neg h]; exact ⟨j, Nat.le_refl _, rfl⟩

theorem two_pow_shiftRight_one (m : Nat) (h : 1 ≤ m) : 2^m >>> 1 = 2^(m-1) := by
  rw [Nat.shiftRight_eq_div_pow, Nat.pow_one]
  obtain ⟨q, rfl⟩ : ∃ q, m = q + 1 := ⟨m - 1, by omega⟩
  rw [Nat.pow_succ]; simp

/-- The twiddle-folding loop run on the canonical table of size `max(n, 4)` (what a fresh object has
    after a transform of size `n`). -/
def foldHalfRef (A : Arith K) (f : K → K) (m : Nat) (buf : Array K) : Array K :=
  foldHalf A f (wArr A (max m 2)) (2^(max m 2)) (2^m) buf

theorem foldHalf_canon (A : Arith K) (f : K → K) (k m : Nat) (hk : 2 ≤ k) (hm : m ≤ k) (buf : Array K) :
    foldHalf A f (wArr A k) (2^k) (2^m) buf = foldHalfRef A f m buf := by
  unfold foldHalfRef foldHalf
  apply forRange_congr
  intro i x _ hi
  by_cases hm0 : m = 0
  · subst hm0; simp at hi
  rw [two_pow_shiftRight_one m (by omega)] at hi
  obtain ⟨e, rfl⟩ : ∃ e, k = max m 2 + e := ⟨k - max m 2, by omega⟩
  generalize hM : max m 2 = M at *
  have hM2 : 2 ≤ M := by omega
  have hmM : m ≤ M := by omega
  -- index on the small table
  have hidx : ∀ (N : Nat) (hN : 2 ≤ N) (hmN : m ≤ N), 2^N - 2^N >>> 2 - 2^N / 2^m * i = (3 * 2^(N-2) - 2^(N-m) * i) := by
    intro N hN hmN
    rw [Nat.shiftRight_eq_div_pow, Nat.pow_div hmN (by omega), Nat.pow_div hN (by omega)]
    have : 2^N = 4 * 2^(N-2) := by
      rw [show (4 : Nat) = 2^2 from rfl, ← Nat.pow_add]; congr 1; omega
    omega
  rw [hidx (M+e) (by omega) (by omega), hidx M hM2 hmM]
  have hsm : 2^(M-m) * i ≤ 2 * 2^(M-2) := by
    have h1 : 2^(M-m) * 2^(m-1) = 2 * 2^(M-2) := by
      rw [← Nat.pow_add, show (2 : Nat) * 2^(M-2) = 2^(M-2+1) by rw [Nat.pow_succ]; omega]; congr 1; omega
    rw [← h1]; exact Nat.mul_le_mul_left _ (by omega)
  have hscale : 3 * 2^(M+e-2) - 2^(M+e-m) * i = (3 * 2^(M-2) - 2^(M-m) * i) * 2^e := by
    rw [Nat.sub_mul, show M + e - 2 = (M - 2) + e by omega, show M + e - m = (M - m) + e by omega,
      Nat.pow_add, Nat.pow_add]
    congr 1
    · rw [Nat.mul_assoc]
    · rw [Nat.mul_assoc, Nat.mul_assoc, Nat.mul_comm (2^e) i]
  have hle : 3 * 2^(M-2) - 2^(M-m) * i ≤ 2^M := by
    have : 2^M = 4 * 2^(M-2) := by
      rw [show (4 : Nat) = 2^2 from rfl, ← Nat.pow_add]; congr 1; omega
    omega
  have r1 := wArr_read A M e _ hle
  have r2 := wArr_read A M 0 _ hle
  rw [Nat.pow_zero, Nat.mul_one, Nat.add_zero] at r2
  rw [hscale]
  simp only [r1, r2]

/-! ### the public functions on reachable objects -/

/-- An object some call history can produce: canonical tables of some size `2^k ≥ 4`. -/
def Reach (A : Arith K) (s : State K) : Prop := ∃ k, 2 ≤ k ∧ Canon A k s

theorem reach_new (A : Arith K) : Reach A (new A) := ⟨2, Nat.le_refl _, by rw [new_eq]; exact canon_canonState A 2 _⟩

theorem reach_canonState (A : Arith K) (k : Nat) (hk : 2 ≤ k) (buf : Array K) : Reach A (canonState A k buf) :=
  ⟨k, hk, canon_canonState A k buf⟩

theorem canon_withBuf {A : Arith K} {k : Nat} {s : State K} (h : Canon A k s) (b : Array K) :
    Canon A k { s with buf := b } := h

theorem fftInternal_canonState (A : Arith K) (k m : Nat) (buf : Array K) (inv : Bool) :
    fftInternal A { w := wArr A k, rev := revArr k, buf := buf } (2^m) inv
      = { w := wArr A (max k m), rev := revArr (max k m), buf := fftRef A m inv buf } :=
  fftInternal_canon A k m (canonState A k buf) (canon_canonState A k buf) inv

/-! #### table-free reference versions of the public functions -/

def fftIntoRef (A : Arith K) (v : Array Int) (m : Nat) (res : Array K) : Array K :=
  accC A res (fftRef A m false (fillRe A v (Array.replicate (2^m) A.zero)))

def fftInvIntoRef (A : Arith K) (v : Array K) (res : List Int) : List Int :=
  if v.size = 1 then
    match res with
    | [] => []
    | r :: rs => (r + A.roundRe (v.getD 0 A.zero)) :: rs
  else
    let m := Nat.log2 v.size
    addPrefix res (roundPairs A (fftRef A (m - 1) true ((foldHalfRef A A.half m v).extract 0 (v.size >>> 1))))

/-- the single-transform part of `multiply_into` without an object (tables of exactly the transform's size) -/
def multiplyDirectRef (A : Arith K) (a b : Array Int) (res : List Int) : List Int :=
  let len := a.size + b.size - 1
  let n := ceilPow2 2 len
  let m := Nat.log2 n
  let buf := fftRef A m false (fillIm A b (fillRe A a (Array.replicate n A.zero)))
  let buf := foldHalfRef A id m (unpack A n buf)
  let buf := fftRef A (m - 1) true (buf.extract 0 (n >>> 1))
  addPrefix res ((roundPairs A buf).take len)

/-- `multiply_into` without an object: the same block recursion (`mulBlocks`) around `multiplyDirectRef`. -/
def multiplyIntoRef (A : Arith K) (a b : Array Int) (res : List Int) : List Int :=
  (mulBlocks (fun (_ : Unit) a b res => ((), multiplyDirectRef A a b res)) () a b res).2

theorem fftIntoCore_canon (A : Arith K) (k m : Nat) (s : State K) (h : Canon A k s) (v : Array Int) (res : Array K) :
    ∃ buf, fftIntoCore A s v (2^m) res = (canonState A (max k m) buf, fftIntoRef A v m res) := by
  unfold fftIntoCore fftIntoRef
  simp only []
  rw [fftInternal_canon A k m _ (canon_withBuf h _)]
  exact ⟨_, rfl⟩

theorem fftInvIntoCore_canon (A : Arith K) (k m : Nat) (hk : 2 ≤ k) (s : State K) (h : Canon A k s)
    (v : Array K) (hv : v.size = 2^m) (res : List Int) :
    ∃ k' buf, 2 ≤ k' ∧ fftInvIntoCore A s v res = (canonState A k' buf, fftInvIntoRef A v res) := by
  unfold fftInvIntoCore fftInvIntoRef
  simp only []
  by_cases h1 : v.size = 1
  · rw [if_pos h1, if_pos h1]
    exact ⟨k, s.buf, hk, Prod.ext h.eq rfl⟩
  · rw [if_neg h1, if_neg h1]
    have hm : 1 ≤ m := by
      cases m with
      | zero => simp at hv; exact absurd hv h1
      | succ m => omega
    rw [hv, updateNCore_canon A k m s h, Nat.log2_two_pow, two_pow_shiftRight_one m hm]
    by_cases hmk : m ≤ k
    · rw [if_pos hmk]
      rw [h.2, h.1, size_revArr, foldHalf_canon A _ k m hk hmk, fftInternal_canonState]
      exact ⟨_, _, by omega, rfl⟩
    · rw [if_neg hmk]
      simp only [canonState, size_revArr]
      rw [foldHalf_canon A _ m m (by omega) (Nat.le_refl _), fftInternal_canonState]
      exact ⟨_, _, by omega, rfl⟩

theorem multiplyDirect_canon (A : Arith K) (k : Nat) (hk : 2 ≤ k) (s : State K) (h : Canon A k s)
    (a b : Array Int) (res : List Int) :
    ∃ k' buf, 2 ≤ k' ∧ multiplyDirect A s a b res = (canonState A k' buf, multiplyDirectRef A a b res) := by
  unfold multiplyDirect multiplyDirectRef
  obtain ⟨m, hm1, hm2⟩ := ceilPow2_spec _ 1 (a.size + b.size - 1) rfl
  rw [Nat.pow_one] at hm2
  simp only []
  rw [hm2, Nat.log2_two_pow, two_pow_shiftRight_one m hm1,
    fftInternal_canon A k m _ (canon_withBuf h _)]
  simp only [canonState, size_revArr]
  rw [foldHalf_canon A _ (max k m) m (by omega) (by omega), fftInternal_canonState]
  exact ⟨_, _, by omega, rfl⟩

/-- `multiply_into` on an object with canonical tables: canonical tables afterwards, and the result is the table-free
    `multiplyIntoRef` (every block of the recursion starts from an object with canonical tables). -/
theorem multiplyInto_canon (A : Arith K) (k : Nat) (hk : 2 ≤ k) (s : State K) (h : Canon A k s)
    (a b : Array Int) (res : List Int) :
    ∃ k' buf, 2 ≤ k' ∧ multiplyInto A s a b res = (canonState A k' buf, multiplyIntoRef A a b res) := by
  have hsim := mulBlocks_sim (fun (s : State K) (_ : Unit) => Reach A s) (multiplyDirect A)
    (fun (_ : Unit) a b res => ((), multiplyDirectRef A a b res))
    (fun s _ a b res _ _ hR => by
      obtain ⟨k, hk, hc⟩ := hR
      obtain ⟨k', buf, hk', hb⟩ := multiplyDirect_canon A k hk s hc a b res
      rw [hb]
      exact ⟨reach_canonState A k' hk' buf, rfl⟩)
    _ a b rfl s () res ⟨k, hk, h⟩
  obtain ⟨⟨k', hk', hc'⟩, h2⟩ := hsim
  refine ⟨k', (multiplyInto A s a b res).1.buf, hk', ?_⟩
  unfold multiplyIntoRef
  rw [← h2]
  exact Prod.ext hc'.eq rfl

/-! #### results of the `?`-functions as functions of the arguments only -/

def fftIntoRef? (A : Arith K) (v : Array Int) (n : Nat) (res : Array K) : Except Panic (Array K) :=
  let n := fftSize v.size n
  if v.size > n then .error .assert
  else if !isPow2 n then .error .assert
  else .ok (fftIntoRef A v (Nat.log2 n) res)

def fftInvIntoRef? (A : Arith K) (v : Array K) (res : List Int) : Except Panic (List Int) :=
  if !isPow2 v.size then .error .assert else .ok (fftInvIntoRef A v res)

def multiplyRef (A : Arith K) (a b : Array Int) : List Int :=
  if a.size = 0 ∨ b.size = 0 then [] else multiplyIntoRef A a b (List.replicate (a.size + b.size - 1) 0)

def fftMulInvRef? (A : Arith K) (a b : Array Int) (n : Nat) : Except Panic (List Int) :=
  match fftIntoRef? A a n (Array.replicate (fftSize a.size n) A.zero) with
  | .error e => .error e
  | .ok fa =>
    match fftIntoRef? A b n (Array.replicate (fftSize b.size n) A.zero) with
    | .error e => .error e
    | .ok fb => fftInvIntoRef? A (pointwise A fa fb) (List.replicate (pointwise A fa fb).size 0)

def fftMulInvIntoRef? (A : Arith K) (a b : Array Int) (n : Nat) (res : List Int) : Except Panic (List Int) :=
  match fftIntoRef? A a n (Array.replicate (fftSize a.size n) A.zero) with
  | .error e => .error e
  | .ok fa =>
    match fftIntoRef? A b n (Array.replicate (fftSize b.size n) A.zero) with
    | .error e => .error e
    | .ok fb => fftInvIntoRef? A (pointwise A fa fb) res

/-- the forward transforms of all operands as a function of the arguments only -/
def fftAllRef? (A : Arith K) : List (Array Int) → Nat → Except Panic (List (Array K))
  | [], _ => .ok []
  | v :: vs, n =>
    match fftIntoRef? A v n (Array.replicate (fftSize v.size n) A.zero) with
    | .error e => .error e
    | .ok f =>
      match fftAllRef? A vs n with
      | .error e => .error e
      | .ok fs => .ok (f :: fs)

def spectralRef? (A : Arith K) (e : SExpr) (vs : List (Array Int)) (n : Nat) (res : List Int) : Except Panic (List Int) :=
  match fftAllRef? A vs n with
  | .error e' => .error e'
  | .ok fs => fftInvIntoRef? A (spectrum A e fs n) res

/-- The result of a call as a function of its arguments only. -/
def resultRef (A : Arith K) : Op K → Except Panic (Out K)
  | .updateN n => if n = 0 then .error .overflow else if !isPow2 n then .error .assert else .ok .unit
  | .multiply a b => .ok (.ints (multiplyRef A a b))
  | .multiplyInto a b res => .ok (.ints (multiplyIntoRef A a b res))
  | .fft v n => (fftIntoRef? A v n (Array.replicate (fftSize v.size n) A.zero)).map .cplx
  | .fftInto v n res => (fftIntoRef? A v n res).map .cplx
  | .fftInv v => (fftInvIntoRef? A v (List.replicate v.size 0)).map .ints
  | .fftInvInto v res => (fftInvIntoRef? A v res).map .ints
  | .fftMulInv a b n => (fftMulInvRef? A a b n).map .ints
  | .fftMulInvFresh a b n => (fftMulInvRef? A a b n).map .ints
  | .fftMulInvInto a b n res => (fftMulInvIntoRef? A a b n res).map .ints
  | .spectral e vs n res => (spectralRef? A e vs n res).map .ints

theorem updateN?_reach (A : Arith K) (s : State K) (hs : Reach A s) (n : Nat) :
    (updateN? A s n = if n = 0 then .error .overflow else if !isPow2 n then .error .assert else .ok (updateNCore A s n))
    ∧ (isPow2 n = true → Reach A (updateNCore A s n)) := by
  refine ⟨rfl, fun hp => ?_⟩
  obtain ⟨k, hk, hc⟩ := hs
  obtain ⟨m, rfl⟩ := exists_of_isPow2 n hp
  rw [updateNCore_canon A k m s hc]
  split
  · exact ⟨k, hk, hc⟩
  · exact reach_canonState A m (by omega) _

theorem fftInto?_reach (A : Arith K) (s : State K) (hs : Reach A s) (v : Array Int) (n : Nat) (res : Array K) :
    (∃ e, fftInto? A s v n res = .error e ∧ fftIntoRef? A v n res = .error e) ∨
    (∃ s' r, fftInto? A s v n res = .ok (s', r) ∧ fftIntoRef? A v n res = .ok r ∧ Reach A s') := by
  obtain ⟨k, hk, hc⟩ := hs
  unfold fftInto? fftIntoRef?
  simp only []
  by_cases h1 : v.size > fftSize v.size n
  · rw [if_pos h1, if_pos h1]; exact Or.inl ⟨_, rfl, rfl⟩
  · rw [if_neg h1, if_neg h1]
    by_cases h2 : isPow2 (fftSize v.size n) = true
    · rw [h2]
      simp only [Bool.not_true, Bool.false_eq_true, if_false]
      obtain ⟨m, hm⟩ := exists_of_isPow2 _ h2
      rw [hm, Nat.log2_two_pow]
      obtain ⟨buf, hb⟩ := fftIntoCore_canon A k m s hc v res
      rw [hb]
      exact Or.inr ⟨_, _, rfl, rfl, reach_canonState A _ (by omega) _⟩
    · have : isPow2 (fftSize v.size n) = false := by simpa using h2
      rw [this]
      exact Or.inl ⟨_, rfl, rfl⟩

theorem fftInvInto?_reach (A : Arith K) (s : State K) (hs : Reach A s) (v : Array K) (res : List Int) :
    (∃ e, fftInvInto? A s v res = .error e ∧ fftInvIntoRef? A v res = .error e) ∨
    (∃ s' r, fftInvInto? A s v res = .ok (s', r) ∧ fftInvIntoRef? A v res = .ok r ∧ Reach A s') := by
  obtain ⟨k, hk, hc⟩ := hs
  unfold fftInvInto? fftInvIntoRef?
  by_cases h2 : isPow2 v.size = true
  · rw [h2]
    simp only [Bool.not_true, Bool.false_eq_true, if_false]
    obtain ⟨m, hm⟩ := exists_of_isPow2 _ h2
    obtain ⟨k', buf, hk', hb⟩ := fftInvIntoCore_canon A k m hk s hc v hm res
    rw [hb]
    exact Or.inr ⟨_, _, rfl, rfl, reach_canonState A _ hk' _⟩
  · have : isPow2 v.size = false := by simpa using h2
    rw [this]
    exact Or.inl ⟨_, rfl, rfl⟩

theorem fftInto?_result (A : Arith K) (s : State K) (hs : Reach A s) (v : Array Int) (n : Nat) (res : Array K) :
    (fftInto? A s v n res).map (·.2) = fftIntoRef? A v n res := by
  rcases fftInto?_reach A s hs v n res with ⟨e, h1, h2⟩ | ⟨s1, r, h1, h2, _⟩ <;> rw [h1, h2] <;> rfl

theorem fftInvInto?_result (A : Arith K) (s : State K) (hs : Reach A s) (v : Array K) (res : List Int) :
    (fftInvInto? A s v res).map (·.2) = fftInvIntoRef? A v res := by
  rcases fftInvInto?_reach A s hs v res with ⟨e, h1, h2⟩ | ⟨s1, r, h1, h2, _⟩ <;> rw [h1, h2] <;> rfl

theorem multiplyInto_reach (A : Arith K) (s : State K) (hs : Reach A s) (a b : Array Int) (res : List Int) :
    (multiplyInto A s a b res).2 = multiplyIntoRef A a b res ∧ Reach A (multiplyInto A s a b res).1 := by
  obtain ⟨k, hk, hc⟩ := hs
  obtain ⟨k', buf, hk', hb⟩ := multiplyInto_canon A k hk s hc a b res
  rw [hb]
  exact ⟨rfl, reach_canonState A _ hk' _⟩

theorem multiply_reach (A : Arith K) (s : State K) (hs : Reach A s) (a b : Array Int) :
    (multiply A s a b).2 = multiplyRef A a b ∧ Reach A (multiply A s a b).1 := by
  unfold multiply multiplyRef
  split
  · exact ⟨rfl, hs⟩
  · exact multiplyInto_reach A s hs a b _

theorem fftMulInv?_reach (A : Arith K) (s : State K) (hs : Reach A s) (sInv : Option (State K))
    (hi : ∀ s', sInv = some s' → Reach A s') (a b : Array Int) (n : Nat) :
    (∃ e, fftMulInv? A s sInv a b n = .error e ∧ fftMulInvRef? A a b n = .error e) ∨
    (∃ s' r, fftMulInv? A s sInv a b n = .ok (s', r) ∧ fftMulInvRef? A a b n = .ok r ∧ Reach A s') := by
  unfold fftMulInv? fftMulInvRef? fft?
  rcases fftInto?_reach A s hs a n (Array.replicate (fftSize a.size n) A.zero) with ⟨e, h1, h2⟩ | ⟨s1, fa, h1, h2, hr1⟩
  · rw [h1, h2]; exact Or.inl ⟨_, rfl, rfl⟩
  · rw [h1, h2]
    simp only []
    rcases fftInto?_reach A s1 hr1 b n (Array.replicate (fftSize b.size n) A.zero) with ⟨e, h3, h4⟩ | ⟨s2, fb, h3, h4, hr2⟩
    · rw [h3, h4]; exact Or.inl ⟨_, rfl, rfl⟩
    · rw [h3, h4]
      simp only []
      cases sInv with
      | none =>
        simp only [fftInv?]
        rcases fftInvInto?_reach A s2 hr2 (pointwise A fa fb) (List.replicate (pointwise A fa fb).size 0) with ⟨e, h5, h6⟩ | ⟨s3, r, h5, h6, hr3⟩
        · rw [h5, h6]; exact Or.inl ⟨_, rfl, rfl⟩
        · rw [h5, h6]; exact Or.inr ⟨_, _, rfl, rfl, hr3⟩
      | some s' =>
        simp only [fftInv?]
        rcases fftInvInto?_reach A s' (hi s' rfl) (pointwise A fa fb) (List.replicate (pointwise A fa fb).size 0) with ⟨e, h5, h6⟩ | ⟨s3, r, h5, h6, hr3⟩
        · rw [h5, h6]; exact Or.inl ⟨_, rfl, rfl⟩
        · rw [h5, h6]; exact Or.inr ⟨_, _, rfl, rfl, hr2⟩

theorem fftMulInvInto?_reach (A : Arith K) (s : State K) (hs : Reach A s) (a b : Array Int) (n : Nat) (res : List Int) :
    (∃ e, fftMulInvInto? A s a b n res = .error e ∧ fftMulInvIntoRef? A a b n res = .error e) ∨
    (∃ s' r, fftMulInvInto? A s a b n res = .ok (s', r) ∧ fftMulInvIntoRef? A a b n res = .ok r ∧ Reach A s') := by
  unfold fftMulInvInto? fftMulInvIntoRef? fft?
  rcases fftInto?_reach A s hs a n (Array.replicate (fftSize a.size n) A.zero) with ⟨e, h1, h2⟩ | ⟨s1, fa, h1, h2, hr1⟩
  · rw [h1, h2]; exact Or.inl ⟨_, rfl, rfl⟩
  · rw [h1, h2]
    simp only []
    rcases fftInto?_reach A s1 hr1 b n (Array.replicate (fftSize b.size n) A.zero) with ⟨e, h3, h4⟩ | ⟨s2, fb, h3, h4, hr2⟩
    · rw [h3, h4]; exact Or.inl ⟨_, rfl, rfl⟩
    · rw [h3, h4]
      simp only []
      exact fftInvInto?_reach A s2 hr2 (pointwise A fa fb) res

theorem fftAll?_reach (A : Arith K) (vs : List (Array Int)) (n : Nat) : ∀ (s : State K), Reach A s →
    (∃ e, fftAll? A s vs n = .error e ∧ fftAllRef? A vs n = .error e) ∨
    (∃ s' r, fftAll? A s vs n = .ok (s', r) ∧ fftAllRef? A vs n = .ok r ∧ Reach A s') := by
  induction vs with
  | nil => intro s hs; exact Or.inr ⟨s, [], rfl, rfl, hs⟩
  | cons v vs ih =>
    intro s hs
    unfold fftAll? fftAllRef? fft?
    rcases fftInto?_reach A s hs v n (Array.replicate (fftSize v.size n) A.zero) with ⟨e, h1, h2⟩ | ⟨s1, f, h1, h2, hr1⟩
    · rw [h1, h2]; exact Or.inl ⟨_, rfl, rfl⟩
    · rw [h1, h2]
      simp only []
      rcases ih s1 hr1 with ⟨e, h3, h4⟩ | ⟨s2, fs, h3, h4, hr2⟩
      · rw [h3, h4]; exact Or.inl ⟨_, rfl, rfl⟩
      · rw [h3, h4]; exact Or.inr ⟨_, _, rfl, rfl, hr2⟩

theorem spectral?_reach (A : Arith K) (s : State K) (hs : Reach A s) (e : SExpr) (vs : List (Array Int)) (n : Nat) (res : List Int) :
    (∃ e', spectral? A s e vs n res = .error e' ∧ spectralRef? A e vs n res = .error e') ∨
    (∃ s' r, spectral? A s e vs n res = .ok (s', r) ∧ spectralRef? A e vs n res = .ok r ∧ Reach A s') := by
  unfold spectral? spectralRef?
  rcases fftAll?_reach A vs n s hs with ⟨e', h1, h2⟩ | ⟨s1, fs, h1, h2, hr1⟩
  · rw [h1, h2]; exact Or.inl ⟨_, rfl, rfl⟩
  · rw [h1, h2]
    simp only []
    exact fftInvInto?_reach A s1 hr1 _ res

/-- Every call on a reachable object returns what `resultRef` says (a function of the arguments
    only), and leaves a reachable object. -/
theorem call_reach (A : Arith K) (s : State K) (hs : Reach A s) (op : Op K) :
    result A s op = resultRef A op ∧ Reach A (step A s op) := by
  unfold result step
  cases op with
  | updateN n =>
    simp only [call, resultRef]
    rw [(updateN?_reach A s hs n).1]
    by_cases h0 : n = 0
    · simp only [h0, if_true]; exact ⟨rfl, hs⟩
    · simp only [h0, if_false]
      by_cases hp : isPow2 n = true
      · simp only [hp, Bool.not_true, Bool.false_eq_true, if_false]
        exact ⟨rfl, (updateN?_reach A s hs n).2 hp⟩
      · have : isPow2 n = false := by simpa using hp
        simp only [this, Bool.not_false, if_true]
        exact ⟨rfl, hs⟩
  | multiply a b =>
    simp only [call, resultRef]
    exact ⟨by rw [← (multiply_reach A s hs a b).1]; rfl, (multiply_reach A s hs a b).2⟩
  | multiplyInto a b res =>
    simp only [call, resultRef]
    exact ⟨by rw [← (multiplyInto_reach A s hs a b res).1]; rfl, (multiplyInto_reach A s hs a b res).2⟩
  | fft v n =>
    simp only [call, resultRef, fft?]
    rcases fftInto?_reach A s hs v n (Array.replicate (fftSize v.size n) A.zero) with ⟨e, h1, h2⟩ | ⟨s1, r, h1, h2, hr⟩
    · rw [h1, h2]; exact ⟨rfl, hs⟩
    · rw [h1, h2]; exact ⟨rfl, hr⟩
  | fftInto v n res =>
    simp only [call, resultRef]
    rcases fftInto?_reach A s hs v n res with ⟨e, h1, h2⟩ | ⟨s1, r, h1, h2, hr⟩
    · rw [h1, h2]; exact ⟨rfl, hs⟩
    · rw [h1, h2]; exact ⟨rfl, hr⟩
  | fftInv v =>
    simp only [call, resultRef, fftInv?]
    rcases fftInvInto?_reach A s hs v (List.replicate v.size 0) with ⟨e, h1, h2⟩ | ⟨s1, r, h1, h2, hr⟩
    · rw [h1, h2]; exact ⟨rfl, hs⟩
    · rw [h1, h2]; exact ⟨rfl, hr⟩
  | fftInvInto v res =>
    simp only [call, resultRef]
    rcases fftInvInto?_reach A s hs v res with ⟨e, h1, h2⟩ | ⟨s1, r, h1, h2, hr⟩
    · rw [h1, h2]; exact ⟨rfl, hs⟩
    · rw [h1, h2]; exact ⟨rfl, hr⟩
  | fftMulInv a b n =>
    simp only [call, resultRef]
    rcases fftMulInv?_reach A s hs none (fun _ h => by cases h) a b n with ⟨e, h1, h2⟩ | ⟨s1, r, h1, h2, hr⟩
    · rw [h1, h2]; exact ⟨rfl, hs⟩
    · rw [h1, h2]; exact ⟨rfl, hr⟩
  | fftMulInvFresh a b n =>
    simp only [call, resultRef]
    rcases fftMulInv?_reach A s hs (some (new A)) (fun _ h => by cases h; exact reach_new A) a b n with ⟨e, h1, h2⟩ | ⟨s1, r, h1, h2, hr⟩
    · rw [h1, h2]; exact ⟨rfl, hs⟩
    · rw [h1, h2]; exact ⟨rfl, hr⟩
  | fftMulInvInto a b n res =>
    simp only [call, resultRef]
    rcases fftMulInvInto?_reach A s hs a b n res with ⟨e, h1, h2⟩ | ⟨s1, r, h1, h2, hr⟩
    · rw [h1, h2]; exact ⟨rfl, hs⟩
    · rw [h1, h2]; exact ⟨rfl, hr⟩
  | spectral e vs n res =>
    simp only [call, resultRef]
    rcases spectral?_reach A s hs e vs n res with ⟨e', h1, h2⟩ | ⟨s1, r, h1, h2, hr⟩
    · rw [h1, h2]; exact ⟨rfl, hs⟩
    · rw [h1, h2]; exact ⟨rfl, hr⟩

theorem clone_eq (s : State K) : clone s = s := by cases s; rfl

/-- Every constructible object (new / default / clone / after calls, nested at will) has canonical tables. -/
theorem reach_build (A : Arith K) : ∀ b : Build K, Reach A (b.state A)
  | .new => reach_new A
  | .default => reach_new A
  | .clone b => by
    show Reach A (clone (b.state A))
    rw [clone_eq]; exact reach_build A b
  | .call b op => (call_reach A _ (reach_build A b) op).2

theorem reach_after (A : Arith K) (h : List (Op K)) : Reach A (after A h) := by
  unfold after
  suffices ∀ s, Reach A s → Reach A (h.foldl (step A) s) from this _ (reach_new A)
  induction h with
  | nil => intro s hs; exact hs
  | cons op h ih => intro s hs; exact ih _ (call_reach A s hs op).2

/-! ### `*_into` accumulates -/

theorem multiplyDirect_eq (A : Arith K) (s : State K) (a b : Array Int) (res : List Int) :
    multiplyDirect A s a b res
      = ((multiplyDirect A s a b []).1, addPrefix res ((multiplyDirect A s a b (List.replicate (a.size + b.size - 1) 0)).2)) := by
  unfold multiplyDirect
  simp only []
  rw [addPrefix_zeros _ _ (List.length_take_le _ _)]

/-- `multiply_into` adds to the destination a list of at most `|a|+|b|-1` entries that does not depend on the
    destination (for ANY state and arithmetic, destination of any length). -/
theorem multiplyInto_value (A : Arith K) (a b : Array Int) (ha : a.size ≠ 0) (hb : b.size ≠ 0) :
    ∃ V : State K → List Int, (∀ s, (V s).length ≤ a.size + b.size - 1) ∧
      ∀ s res, (multiplyInto A s a b res).2 = addPrefix res (V s) :=
  mulBlocks_adds (multiplyDirect A)
    (fun s a b => (multiplyDirect A s a b (List.replicate (a.size + b.size - 1) 0)).2)
    (fun s a b => (multiplyDirect A s a b []).1)
    (multiplyDirect_eq A)
    (fun s a b => by
      unfold multiplyDirect
      simp only []
      rw [length_addPrefix, List.length_replicate]
      exact Nat.le_refl _)
    _ a b rfl ha hb

/-- `multiply_into` adds to the destination exactly what `multiply` returns (for ANY state and arithmetic). -/
theorem multiplyInto_adds (A : Arith K) (s : State K) (a b : Array Int) (res : List Int) :
    (multiplyInto A s a b res).2 = addPrefix res (multiply A s a b).2 := by
  unfold multiply
  by_cases he : a.size = 0 ∨ b.size = 0
  · rw [if_pos he]
    unfold multiplyInto
    rw [mulBlocks_eq, if_pos he, addPrefix_nil]
  · rw [if_neg he]
    obtain ⟨V, hVlen, hV⟩ := multiplyInto_value A a b (by omega) (by omega)
    rw [hV s res, hV s (List.replicate _ 0), addPrefix_zeros _ _ (hVlen s)]

theorem multiplyInto_length (A : Arith K) (s : State K) (a b : Array Int) (res : List Int) :
    (multiplyInto A s a b res).2.length = res.length :=
  mulBlocks_length (multiplyDirect A)
    (fun s a b res => by unfold multiplyDirect; simp only []; rw [length_addPrefix]) _ a b rfl s res

theorem multiply_length (A : Arith K) (s : State K) (a b : Array Int) (ha : a.size ≠ 0) (hb : b.size ≠ 0) :
    (multiply A s a b).2.length = a.size + b.size - 1 := by
  unfold multiply
  rw [if_neg (by omega), multiplyInto_length, List.length_replicate]

/-! ### several objects alive at the same time -/

/-- every object of the pool has canonical tables -/
def PoolOk (A : Arith K) (pool : Array (State K)) : Prop := ∀ i, Reach A (pool.getD i (new A))

theorem poolOk_set (A : Arith K) (pool : Array (State K)) (h : PoolOk A pool) (k : Nat) (v : State K) (hv : Reach A v) :
    PoolOk A (pool.setIfInBounds k v) := by
  intro i
  have := h i
  rw [Array.getD_eq_getD_getElem?] at this ⊢
  rw [Array.getElem?_setIfInBounds]
  split
  · split
    · exact hv
    · simp only [Option.getD_none]; exact reach_new A
  · exact this

theorem poolStep_ok (A : Arith K) (pool : Array (State K)) (h : PoolOk A pool) (op : PoolOp K) :
    PoolOk A (poolStep A pool op) := by
  cases op with
  | call k op => exact poolOk_set A pool h k _ (call_reach A _ (h k) op).2
  | clone src dst => exact poolOk_set A pool h dst _ (by rw [clone_eq]; exact h src)
  | cloneFrom src dst => exact poolOk_set A pool h dst _ (by rw [clone_eq]; exact h src)
  | default dst => exact poolOk_set A pool h dst _ (reach_new A)
  | fresh dst => exact poolOk_set A pool h dst _ (reach_new A)
  | take src dst => exact poolOk_set A _ (poolOk_set A pool h src _ (reach_new A)) dst _ (h src)

theorem poolAfter_ok (A : Arith K) (prog : List (PoolOp K)) : ∀ (pool : Array (State K)), PoolOk A pool →
    PoolOk A (poolAfter A pool prog) := by
  unfold poolAfter
  induction prog with
  | nil => intro pool h; exact h
  | cons op prog ih => intro pool h; exact ih _ (poolStep_ok A pool h op)

end Rlib.Fft
