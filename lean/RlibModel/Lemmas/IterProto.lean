import RlibModel.Model.IterProto
import RlibModel.Lemmas.IterPermSpec
/-!
Lemmas for the second part of the C15 model (`Model/IterProto.lean`), core Lean only:
* std's default method bodies (loops over `next`) compute what the methods mean (`stdSem = specSem`);
* `arrangements` (distinct arrangements of a sorted multiset, directly) is `specPermutations`.
-/
namespace Rlib.Iter

/-! ### fold, count, last, collect, reduce -/

theorem stdFold_eq_foldl {β : Type} (f : β → Elem → β) :
    ∀ (l : List Elem) (acc : β), stdFold f acc l = l.foldl f acc := by
  intro l
  induction l with
  | nil => intro acc; rfl
  | cons x r ih => intro acc; simp only [stdFold, List.foldl_cons]; exact ih _

theorem stdCount_aux : ∀ (l : List Elem) (a : Nat), stdFold (fun c _ => c + 1) a l = a + l.length := by
  intro l
  induction l with
  | nil => intro a; rfl
  | cons x r ih => intro a; simp only [stdFold, List.length_cons]; rw [ih]; omega

theorem stdCount_eq (l : List Elem) : stdCount l = l.length := by
  unfold stdCount; rw [stdCount_aux]; omega

theorem stdLast_aux : ∀ (l : List Elem) (a : Option Elem),
    stdFold (fun _ x => some x) a l = (l.getLast?).or a := by
  intro l
  induction l with
  | nil => intro a; rfl
  | cons x r ih =>
    intro a
    simp only [stdFold]
    rw [ih]
    cases r with
    | nil => rfl
    | cons y t =>
      rw [List.getLast?_cons_cons]
      cases h : (y :: t).getLast? with
      | none => simp at h
      | some v => rfl

theorem stdLast_eq (l : List Elem) : stdLast l = l.getLast? := by
  unfold stdLast; rw [stdLast_aux]; cases l.getLast? <;> rfl

theorem stdCollect_aux : ∀ (l a : List Elem), stdFold (fun acc x => x :: acc) a l = l.reverse ++ a := by
  intro l
  induction l with
  | nil => intro a; rfl
  | cons x r ih => intro a; simp only [stdFold]; rw [ih]; simp

theorem stdCollect_eq (l : List Elem) : stdCollect l = l := by
  unfold stdCollect; rw [stdCollect_aux]; simp

theorem stdReduceLast_aux : ∀ (r : List Elem) (x : Elem),
    stdFold (fun _ y => y) x r = (r.getLast?).getD x := by
  intro r
  induction r with
  | nil => intro x; rfl
  | cons y t ih =>
    intro x
    simp only [stdFold]
    rw [ih]
    cases t with
    | nil => rfl
    | cons z u =>
      rw [List.getLast?_cons_cons]
      cases h : (z :: u).getLast? with
      | none => simp at h
      | some v => rfl

theorem stdReduceLast_eq (l : List Elem) : stdReduce (fun _ y => y) l = l.getLast? := by
  cases l with
  | nil => rfl
  | cons x r =>
    simp only [stdReduce]
    rw [stdReduceLast_aux]
    cases r with
    | nil => rfl
    | cons y t => rw [List.getLast?_cons_cons]; cases h : (y :: t).getLast? with
      | none => simp at h
      | some v => rfl

/-! ### nth, take -/

theorem stdAdvance_eq : ∀ (n : Nat) (l : List Elem),
    stdAdvance n l = if n ≤ l.length then some (l.drop n) else none := by
  intro n
  induction n with
  | zero => intro l; simp [stdAdvance]
  | succ n ih =>
    intro l
    cases l with
    | nil => simp [stdAdvance]
    | cons x r => simp only [stdAdvance, List.length_cons, List.drop_succ_cons, Nat.add_le_add_iff_right]; exact ih r

theorem stdNth_eq (n : Nat) (l : List Elem) : stdNth n l = specNth n l := by
  unfold stdNth specNth
  rw [stdAdvance_eq]
  by_cases h : n < l.length
  · rw [if_pos (Nat.le_of_lt h), if_pos h, List.drop_eq_getElem_cons h]
    simp only
    rw [List.getElem?_eq_getElem h]
  · rw [if_neg h, List.getElem?_eq_none (by omega)]
    by_cases h2 : n ≤ l.length
    · rw [if_pos h2, List.drop_eq_nil_of_le (by omega)]
    · rw [if_neg h2]

theorem stdTake_eq : ∀ (k : Nat) (l : List Elem), stdTake k l = specTake k l := by
  intro k
  induction k with
  | zero => intro l; simp [stdTake, specTake]
  | succ k ih =>
    intro l
    cases l with
    | nil => simp [stdTake, specTake]
    | cons x r =>
      simp only [stdTake, specTake, List.take_succ_cons, List.length_cons, List.drop_succ_cons,
        Nat.add_le_add_iff_right]
      rw [ih r]
      simp only [specTake]

/-! ### find, position, any, all -/

theorem restAfter_cons (p : Elem → Bool) (x : Elem) (r : List Elem) :
    restAfter p (x :: r) = if p x then some r else restAfter p r := by
  unfold restAfter
  rw [List.findIdx?_cons]
  by_cases h : p x = true
  · simp [h]
  · simp only [h, Bool.false_eq_true, if_false]
    cases r.findIdx? p <;> simp

theorem stdFind_eq (p : Elem → Bool) : ∀ l : List Elem, stdFind p l = specFind p l := by
  intro l
  induction l with
  | nil => rfl
  | cons x r ih =>
    unfold specFind at ih ⊢
    rw [stdFind, restAfter_cons, List.find?_cons]
    by_cases h : p x = true
    · simp [h]
    · simp only [h, Bool.false_eq_true, if_false]; exact ih

theorem stdPosition_aux (p : Elem → Bool) : ∀ (l : List Elem) (i : Nat),
    stdPosition p i l = ((l.findIdx? p).map (· + i), restAfter p l) := by
  intro l
  induction l with
  | nil => intro i; rfl
  | cons x r ih =>
    intro i
    rw [stdPosition, restAfter_cons, List.findIdx?_cons]
    by_cases h : p x = true
    · simp [h]
    · simp only [h, Bool.false_eq_true, if_false]
      rw [ih]
      congr 1
      cases r.findIdx? p with
      | none => rfl
      | some j => simp only [Option.map_some]; congr 1; omega

theorem stdPosition_eq (p : Elem → Bool) (l : List Elem) : stdPosition p 0 l = specPosition p l := by
  rw [stdPosition_aux]
  unfold specPosition
  congr 1
  cases l.findIdx? p <;> simp

theorem stdAny_eq (p : Elem → Bool) : ∀ l : List Elem, stdAny p l = specAny p l := by
  intro l
  induction l with
  | nil => rfl
  | cons x r ih =>
    unfold specAny at ih ⊢
    rw [stdAny, restAfter_cons, List.any_cons]
    by_cases h : p x = true
    · simp [h]
    · simp only [h, Bool.false_eq_true, if_false, Bool.false_or]; exact ih

theorem stdAll_eq (p : Elem → Bool) : ∀ l : List Elem, stdAll p l = specAll p l := by
  intro l
  induction l with
  | nil => rfl
  | cons x r ih =>
    unfold specAll at ih ⊢
    rw [stdAll, restAfter_cons, List.all_cons]
    by_cases h : p x = true
    · simp only [h, if_true, Bool.true_and, Bool.not_true, Bool.false_eq_true, if_false]; exact ih
    · simp [h]

/-! ### min / max: the fold keeps the first least / the last greatest element -/

/-- `le` is a total preorder. -/
structure TotalPre (le : Elem → Elem → Bool) : Prop where
  total : ∀ a b, le a b = true ∨ le b a = true
  trans : ∀ a b c, le a b = true → le b c = true → le a c = true

theorem TotalPre.refl {le : Elem → Elem → Bool} (h : TotalPre le) (a : Elem) : le a a = true := by
  rcases h.total a a with h' | h' <;> exact h'

theorem foldMin_split {le : Elem → Elem → Bool} (h : TotalPre le) : ∀ (l : List Elem) (acc : Elem),
    ∃ pre post, acc :: l = pre ++ stdFold (fun x y => if le x y then x else y) acc l :: post ∧
      (∀ y ∈ pre, le y (stdFold (fun x y => if le x y then x else y) acc l) = false) ∧
      (∀ y ∈ post, le (stdFold (fun x y => if le x y then x else y) acc l) y = true) := by
  intro l
  induction l with
  | nil => intro acc; exact ⟨[], [], rfl, by simp, by simp⟩
  | cons b t ih =>
    intro acc
    simp only [stdFold]
    by_cases hab : le acc b = true
    · rw [if_pos hab]
      obtain ⟨pre, post, e, h1, h2⟩ := ih acc
      generalize stdFold (fun x y => if le x y then x else y) acc t = m at e h1 h2
      cases pre with
      | nil =>
        simp only [List.nil_append, List.cons.injEq] at e
        obtain ⟨rfl, rfl⟩ := e
        refine ⟨[], b :: t, rfl, by simp, ?_⟩
        intro y hy
        rcases List.mem_cons.mp hy with rfl | hy
        · exact hab
        · exact h2 y hy
      | cons a pre' =>
        simp only [List.cons_append, List.cons.injEq] at e
        obtain ⟨rfl, rfl⟩ := e
        refine ⟨acc :: b :: pre', post, by simp, ?_, h2⟩
        intro y hy
        rcases List.mem_cons.mp hy with rfl | hy
        · exact h1 y (List.mem_cons_self ..)
        · rcases List.mem_cons.mp hy with rfl | hy
          · -- le y m would give le acc m by transitivity
            have ham := h1 acc (List.mem_cons_self ..)
            cases hbm : le y m with
            | false => rfl
            | true => rw [h.trans acc y m hab hbm] at ham; cases ham
          · exact h1 y (List.mem_cons_of_mem _ hy)
    · rw [if_neg hab]
      obtain ⟨pre, post, e, h1, h2⟩ := ih b
      generalize stdFold (fun x y => if le x y then x else y) b t = m at e h1 h2
      refine ⟨acc :: pre, post, by rw [e]; rfl, ?_, h2⟩
      intro y hy
      rcases List.mem_cons.mp hy with rfl | hy
      · -- `b < y` strictly and `m ≤ b`
        cases hym : le y m with
        | false => rfl
        | true =>
          exfalso
          apply hab
          have hmb : le m b = true := by
            cases pre with
            | nil =>
              simp only [List.nil_append, List.cons.injEq] at e
              rw [← e.1]; exact h.refl b
            | cons a pre' =>
              simp only [List.cons_append, List.cons.injEq] at e
              have := h1 a (List.mem_cons_self ..)
              rw [← e.1] at this
              rcases h.total b m with h' | h'
              · rw [h'] at this; cases this
              · exact h'
          exact h.trans y m b hym hmb
      · exact h1 y hy

theorem stdMinBy_eq {le : Elem → Elem → Bool} (h : TotalPre le) (l : List Elem) :
    stdMinBy le l = specMinBy le l := by
  cases l with
  | nil => rfl
  | cons x r =>
    unfold stdMinBy specMinBy
    simp only [stdReduce]
    obtain ⟨pre, post, e, h1, h2⟩ := foldMin_split h r x
    generalize stdFold (fun x y => if le x y then x else y) x r = m at e h1 h2
    symm
    rw [List.find?_eq_some_iff_append]
    have hall : ∀ z ∈ x :: r, le m z = true := by
      intro z hz
      rw [e] at hz
      rcases List.mem_append.mp hz with hz | hz
      · have := h1 z hz
        rcases h.total m z with h' | h'
        · exact h'
        · rw [h'] at this; cases this
      · rcases List.mem_cons.mp hz with rfl | hz
        · exact h.refl _
        · exact h2 z hz
    refine ⟨List.all_eq_true.mpr hall, pre, post, e, ?_⟩
    intro a ha
    have hm : m ∈ x :: r := by rw [e]; simp
    simp only [Bool.not_eq_eq_eq_not, Bool.not_true]
    rw [List.all_eq_false]
    exact ⟨m, hm, by rw [h1 a ha]; simp⟩

theorem foldMax_split {le : Elem → Elem → Bool} (h : TotalPre le) : ∀ (l : List Elem) (acc : Elem),
    ∃ pre post, acc :: l = pre ++ stdFold (fun x y => if le x y then y else x) acc l :: post ∧
      (∀ y ∈ pre, le y (stdFold (fun x y => if le x y then y else x) acc l) = true) ∧
      (∀ y ∈ post, le (stdFold (fun x y => if le x y then y else x) acc l) y = false) := by
  intro l
  induction l with
  | nil => intro acc; exact ⟨[], [], rfl, by simp, by simp⟩
  | cons b t ih =>
    intro acc
    simp only [stdFold]
    by_cases hab : le acc b = true
    · -- `b` replaces `acc`
      rw [if_pos hab]
      obtain ⟨pre, post, e, h1, h2⟩ := ih b
      generalize stdFold (fun x y => if le x y then y else x) b t = m at e h1 h2
      refine ⟨acc :: pre, post, by rw [e]; rfl, ?_, h2⟩
      intro y hy
      rcases List.mem_cons.mp hy with rfl | hy
      · have hbm : le b m = true := by
          cases pre with
          | nil =>
            simp only [List.nil_append, List.cons.injEq] at e
            rw [← e.1]; exact h.refl b
          | cons a pre' =>
            simp only [List.cons_append, List.cons.injEq] at e
            have := h1 a (List.mem_cons_self ..)
            rw [← e.1] at this
            exact this
        exact h.trans y b m hab hbm
      · exact h1 y hy
    · -- `acc` stays: `acc > b` strictly
      rw [if_neg hab]
      obtain ⟨pre, post, e, h1, h2⟩ := ih acc
      generalize stdFold (fun x y => if le x y then y else x) acc t = m at e h1 h2
      cases pre with
      | nil =>
        simp only [List.nil_append, List.cons.injEq] at e
        obtain ⟨rfl, rfl⟩ := e
        refine ⟨[], b :: t, rfl, by simp, ?_⟩
        intro y hy
        rcases List.mem_cons.mp hy with rfl | hy
        · simpa using hab
        · exact h2 y hy
      | cons a pre' =>
        simp only [List.cons_append, List.cons.injEq] at e
        obtain ⟨rfl, rfl⟩ := e
        refine ⟨acc :: b :: pre', post, by simp, ?_, h2⟩
        intro y hy
        rcases List.mem_cons.mp hy with rfl | hy
        · exact h1 y (List.mem_cons_self ..)
        · rcases List.mem_cons.mp hy with rfl | hy
          · have ham := h1 acc (List.mem_cons_self ..)
            have hya : le y acc = true := by
              rcases h.total acc y with h' | h'
              · exact absurd h' hab
              · exact h'
            exact h.trans y acc m hya ham
          · exact h1 y (List.mem_cons_of_mem _ hy)

theorem stdMaxBy_eq {le : Elem → Elem → Bool} (h : TotalPre le) (l : List Elem) :
    stdMaxBy le l = specMaxBy le l := by
  cases l with
  | nil => rfl
  | cons x r =>
    unfold stdMaxBy specMaxBy
    simp only [stdReduce]
    obtain ⟨pre, post, e, h1, h2⟩ := foldMax_split h r x
    generalize stdFold (fun x y => if le x y then y else x) x r = m at e h1 h2
    symm
    rw [List.find?_eq_some_iff_append]
    have hall : ∀ z ∈ x :: r, le z m = true := by
      intro z hz
      rw [e] at hz
      rcases List.mem_append.mp hz with hz | hz
      · exact h1 z hz
      · rcases List.mem_cons.mp hz with rfl | hz
        · exact h.refl _
        · have := h2 z hz
          rcases h.total m z with h' | h'
          · rw [h'] at this; cases this
          · exact h'
    refine ⟨List.all_eq_true.mpr hall, post.reverse, pre.reverse, by rw [e]; simp, ?_⟩
    intro a ha
    have hm : m ∈ x :: r := by rw [e]; simp
    simp only [Bool.not_eq_eq_eq_not, Bool.not_true]
    rw [List.all_eq_false]
    exact ⟨m, hm, by rw [h2 a (List.mem_reverse.mp ha)]; simp⟩

theorem totalPre_leElem : TotalPre leElem where
  total := by
    intro a b
    unfold leElem
    rw [lexLeB_iff, lexLeB_iff]
    rcases lex_trichotomy a b with h | h | h
    · exact Or.inl (fun h' => lex_asymm h h')
    · rw [h]; exact Or.inl (lex_irrefl _)
    · exact Or.inr (fun h' => lex_asymm h h')
  trans := by
    intro a b c h1 h2
    unfold leElem at *
    rw [lexLeB_iff] at h1 h2 ⊢
    exact lex_le_trans h1 h2

theorem totalPre_leKey (k : KeyFn) : TotalPre (leKey k) where
  total := by intro a b; unfold leKey; simp only [decide_eq_true_eq]; omega
  trans := by intro a b c; unfold leKey; simp only [decide_eq_true_eq]; omega

/-- std's default bodies compute what the methods mean. -/
theorem stdSem_eq_specSem : stdSem = specSem := by
  unfold stdSem specSem
  congr
  · funext n l; exact stdNth_eq n l
  · funext k l; exact stdTake_eq k l
  · funext p l; exact stdFind_eq p l
  · funext p l; exact stdPosition_eq p l
  · funext p l; exact stdAny_eq p l
  · funext p l; exact stdAll_eq p l
  · funext l; exact stdCount_eq l
  · funext l; exact stdLast_eq l
  · funext l; exact stdCollect_eq l
  · funext l; exact stdReduceLast_eq l
  · funext l; exact stdMinBy_eq totalPre_leElem l
  · funext l; exact stdMaxBy_eq totalPre_leElem l
  · funext k l; exact stdMinBy_eq (totalPre_leKey k) l
  · funext k l; exact stdMaxBy_eq (totalPre_leKey k) l

/-! ### checked sum / product -/

theorem foldChecked_ok (t : IntTy) (op : Int → Int → Int) : ∀ (l : List Int) (acc v : Int),
    foldChecked t op acc l = .ok v → v = l.foldl op acc := by
  intro l
  induction l with
  | nil => intro acc v h; simp only [foldChecked, Except.ok.injEq] at h; exact h.symm
  | cons x r ih =>
    intro acc v h
    simp only [foldChecked] at h
    unfold checked at h
    split at h
    · rename_i e heq; cases h
    · rename_i a heq
      split at heq
      · simp only [Except.ok.injEq] at heq; subst heq; exact ih _ _ h
      · cases heq

/-! ### distinct arrangements of a sorted multiset -/

theorem dedupInts_spec : ∀ l : List Int, NonDec l →
    (dedupInts l).Pairwise (· < ·) ∧ ∀ z, z ∈ dedupInts l ↔ z ∈ l := by
  intro l
  induction l with
  | nil => intro _; exact ⟨List.Pairwise.nil, fun z => Iff.rfl⟩
  | cons a t ih =>
    intro h
    rw [nonDec_cons] at h
    obtain ⟨ih1, ih2⟩ := ih h.2
    cases t with
    | nil => exact ⟨List.pairwise_singleton _ _, fun z => Iff.rfl⟩
    | cons b t =>
      unfold dedupInts
      by_cases hab : a = b
      · subst hab
        simp only [beq_self_eq_true, if_true]
        refine ⟨ih1, fun z => ?_⟩
        rw [ih2 z]; simp
      · have hne : (a == b) = false := by simpa using hab
        simp only [hne, Bool.false_eq_true, if_false]
        have hltb : a < b := by have := h.1 b (List.mem_cons_self ..); omega
        refine ⟨List.pairwise_cons.mpr ⟨?_, ih1⟩, fun z => ?_⟩
        · intro c hc
          have hc' := (ih2 c).mp hc
          rcases List.mem_cons.mp hc' with rfl | hct
          · exact hltb
          · have := (nonDec_cons.mp h.2).1 c hct; omega
        · rw [List.mem_cons, ih2 z]; simp

theorem arrangements_spec : ∀ (n : Nat) (s : List Int), s.length = n → NonDec s →
    (arrangements n s).Pairwise (· < ·) ∧ ∀ z, z ∈ arrangements n s ↔ z.Perm s := by
  intro n
  induction n with
  | zero =>
    intro s hs _
    have : s = [] := List.eq_nil_of_length_eq_zero hs
    subst this
    refine ⟨List.pairwise_singleton _ _, fun z => ?_⟩
    simp [arrangements]
  | succ n ih =>
    intro s hs hnd
    obtain ⟨d1, d2⟩ := dedupInts_spec s hnd
    have ihx : ∀ x ∈ s, (arrangements n (s.erase x)).Pairwise (· < ·) ∧
        ∀ z, z ∈ arrangements n (s.erase x) ↔ z.Perm (s.erase x) := by
      intro x hx
      apply ih
      · rw [List.length_erase_of_mem hx, hs]; rfl
      · exact List.Pairwise.sublist (List.erase_sublist) hnd
    refine ⟨?_, fun z => ?_⟩
    · unfold arrangements
      rw [List.pairwise_flatMap]
      refine ⟨fun x hx => ?_, ?_⟩
      · have := (ihx x ((d2 x).mp hx)).1
        rw [List.pairwise_map]
        exact this.imp (fun hlt => by rw [lex_cons]; exact Or.inr ⟨rfl, hlt⟩)
      · refine d1.imp ?_
        intro a b hab u hu v hv
        rw [List.mem_map] at hu hv
        obtain ⟨u', _, rfl⟩ := hu
        obtain ⟨v', _, rfl⟩ := hv
        rw [lex_cons]; exact Or.inl hab
    · unfold arrangements
      rw [List.mem_flatMap]
      constructor
      · rintro ⟨x, hx, hz⟩
        have hxs := (d2 x).mp hx
        rw [List.mem_map] at hz
        obtain ⟨r, hr, rfl⟩ := hz
        exact (((ihx x hxs).2 r).mp hr).cons x |>.trans (List.perm_cons_erase hxs).symm
      · intro hz
        cases z with
        | nil => have := hz.length_eq; rw [hs] at this; cases this
        | cons x r =>
          have hxs : x ∈ s := hz.subset (List.mem_cons_self ..)
          refine ⟨x, (d2 x).mpr hxs, ?_⟩
          rw [List.mem_map]
          refine ⟨r, ((ihx x hxs).2 r).mpr ?_, rfl⟩
          have := hz.erase x
          rwa [List.erase_cons_head] at this

theorem specPermutationsFast_char (d : List Int) :
    (specPermutationsFast d).Pairwise (· < ·) ∧ ∀ z, z ∈ specPermutationsFast d ↔ z.Perm d := by
  unfold specPermutationsFast
  have hp := sortInts_perm d
  obtain ⟨h1, h2⟩ := arrangements_spec d.length (sortInts d) hp.length_eq (sortInts_nonDec d)
  exact ⟨h1, fun z => (h2 z).trans ⟨fun h => h.trans hp, fun h => h.trans hp.symm⟩⟩

theorem specPermutationsFast_eq' (d : List Int) : specPermutationsFast d = specPermutations d := by
  obtain ⟨f1, f2⟩ := specPermutationsFast_char d
  obtain ⟨s1, s2⟩ := specPermutations_char d
  exact sorted_ext_lex _ _ f1 s1 (fun a => by rw [f2 a, s2 a])

end Rlib.Iter
