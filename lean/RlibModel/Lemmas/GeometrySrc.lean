import RlibModel.Generated.GeometrySrc
import RlibModel.Model.Geometry
import Lean.Elab.Tactic
/-!
Second tie of C10: the definitions REGENERATED from `rlib/geometry/src/{point,line,circle,util}.rs` on every run
(`Generated/GeometrySrc.lean`, written by `tools/rs2lean_float.py`) are equal to the hand-written model `Model/Geometry.lean`.

Both sides are terms over the same abstract arithmetic record `G : Geo K`, so every equality is stated — and holds — for EVERY `G`
and every argument: no hypothesis at all.  In particular it holds for `floatGeo eps` (the IEEE doubles the driver executes: the Rust
text and the model perform the same operations in the same order, bit for bit) and for `realGeo eps` (the theorems of `Props/C10.lean`).
A source change that re-associates, reorders or algebraically rewrites float operations changes the term and breaks these proofs even
when it is equivalent over the reals: that is intended (the model promises the operation ORDER of the source).

Proofs do not follow the layout of the generated text: `src_eq` tries `rfl` (for the current source every definition but
`intersect_cc` unfolds to the model's term up to `let`s), then unfolds all generated definitions (`@[src_def]`, private helpers never
named) and the model's, and walks the decision tree: it splits on one comparison (`G.lt …` / `G.ne …`) at a time, prunes both sides and
closes the leaves by `rfl` — so early returns instead of `else if` chains, hoisted `let`s, helper functions (also with `bool`
parameters) and a tuple rebinding instead of `swap` do not need new proofs (harmless/C10_h1, and intersect_cl / intersect_cc of C10_h2).
-/
namespace Rlib.GeometrySrc
open Rlib.Geometry

/-- an `if` on a Boolean becomes `cond` — which carries no `Decidable` instance.  (After `simp` has unfolded a condition the instance
    argument of the `ite` still mentions the folded form; `split_ifs`, `generalize` and instance-synthesising rewrites then fail.  The
    instance is an ordinary implicit argument here so that it is unified, whatever it looks like.) -/
theorem ite_bool {α : Sort _} (b : Bool) {inst : Decidable (b = true)} (x y : α) : @ite α (b = true) inst x y = cond b x y := by
  cases b <;> simp

/-- unfold every regenerated definition (`@[src_def]`: private helpers are never named) and every definition of the model; `↓ite_bool`
    turns every `if` into `cond` BEFORE its condition is rewritten (afterwards the instance would be stale and nothing would match) -/
macro "src_unfold" : tactic => `(tactic|
  simp only [↓ite_bool, src_def, Geometry.slen, Geometry.len, Geometry.dp, Geometry.cp, Geometry.padd, Geometry.psub, Geometry.pmul,
    Geometry.pdiv, Geometry.lineNew, Geometry.lineBetween, Geometry.lineEval, Geometry.lineDist, Geometry.lineContains,
    Geometry.lineOrt, Geometry.position, Geometry.dist, Geometry.parallel, Geometry.intersectLL, Geometry.flipToLine,
    Geometry.intersectCL, Geometry.towards, Geometry.intersectCCOrdered, Geometry.intersectCC])

open Lean in
/-- the first Boolean atom (anything but `&&`, `||`, `!`, `true`, `false`) of a Boolean term -/
def boolAtom? : Nat → Expr → Option Expr
  | 0, _ => none
  | fuel + 1, b =>
    match b.getAppFn.constName?, b.getAppNumArgs with
    | some ``and, 2 | some ``or, 2 => (boolAtom? fuel (b.getArg! 0)).orElse fun _ => boolAtom? fuel (b.getArg! 1)
    | some ``not, 1 => boolAtom? fuel (b.getArg! 0)
    | some ``Bool.true, 0 | some ``Bool.false, 0 => none
    | _, _ => if b.hasLooseBVars then none else some b

open Lean Meta Elab Tactic in
/-- `bool_split`: take the first `cond b … …` of the goal whose condition contains no further `cond`, generalize the first Boolean atom
    of `b` (every occurrence in the goal, on both sides) and split on its two values. -/
elab "bool_split" : tactic => withMainContext do
  let tgt ← instantiateMVars (← getMainTarget)
  let some it := tgt.find? (fun e => e.isAppOfArity ``cond 4 && !(e.getArg! 1).hasLooseBVars &&
      ((e.getArg! 1).find? (·.isConstOf ``cond)).isNone) | throwError "bool_split: no `cond`"
  let some atom := boolAtom? 64 (it.getArg! 1) | throwError "bool_split: no Boolean atom in the condition {it.getArg! 1}"
  let (fvs, g) ← (← getMainGoal).generalize #[{ expr := atom, xName? := some `bb }] (transparency := .default)
  let subs ← g.cases fvs[0]!
  replaceMainGoal (subs.map (·.mvarId)).toList

/-- evaluate the Boolean connectives and the `cond`s whose condition is now a literal; turn newly exposed `if`s into `cond`s -/
macro "src_prune" : tactic => `(tactic|
  simp only [Bool.true_and, Bool.and_true, Bool.false_and, Bool.and_false, Bool.true_or, Bool.or_true, Bool.false_or, Bool.or_false,
    Bool.not_true, Bool.not_false, cond_true, cond_false, ite_bool])

/-- `rfl`, or: unfold both sides, then walk the decision tree (split on one comparison at a time, prune, `rfl` at the leaves) -/
macro "src_eq" : tactic => `(tactic|
  first
  | rfl
  | (src_unfold; repeat' (first | rfl | (bool_split <;> try src_prune))))

variable {K : Type} (G : Geo K)

/-! ### point.rs -/

theorem point_new_eq_model (x y : K) : Point_new G x y = ⟨x, y⟩ := by src_eq
theorem point_slen_eq_model (p : Point K) : Point_slen G p = slen G p := by src_eq
theorem point_len_eq_model (p : Point K) : Point_len G p = len G p := by src_eq
theorem point_dp_eq_model (p q : Point K) : Point_dp G p q = dp G p q := by src_eq
theorem point_cp_eq_model (p q : Point K) : Point_cp G p q = cp G p q := by src_eq

/-- all four operand forms (`Point + Point`, `Point + &Point`, `&Point + &Point`, `&Point + Point`) of the `impl_bin!` expansion -/
theorem point_add_eq_model (p q : Point K) :
    Point_add_vv G p q = padd G p q ∧ Point_add_vr G p q = padd G p q ∧
    Point_add_rr G p q = padd G p q ∧ Point_add_rv G p q = padd G p q := by
  refine ⟨?_, ?_, ?_, ?_⟩ <;> src_eq

theorem point_sub_eq_model (p q : Point K) :
    Point_sub_vv G p q = psub G p q ∧ Point_sub_vr G p q = psub G p q ∧
    Point_sub_rr G p q = psub G p q ∧ Point_sub_rv G p q = psub G p q := by
  refine ⟨?_, ?_, ?_, ?_⟩ <;> src_eq

theorem point_mul_eq_model (p : Point K) (k : K) : Point_mul_vv G p k = pmul G p k := by src_eq
theorem point_div_eq_model (p : Point K) (k : K) : Point_div_vv G p k = pdiv G p k := by src_eq

/-! ### line.rs -/

theorem line_new_eq_model (a b c : K) : Line_new G a b c = lineNew G a b c := by src_eq
theorem line_between_eq_model (u v : Point K) : Line_between G u v = lineBetween G u v := by src_eq
theorem line_dist_eq_model (l : Line K) (p : Point K) : Line_dist G l p = lineDist G l p := by src_eq
theorem line_contains_eq_model (l : Line K) (p : Point K) : Line_contains G l p = lineContains G l p := by src_eq
theorem line_ort_eq_model (l : Line K) : Line_ort G l = lineOrt l := by src_eq

/-! ### circle.rs -/

theorem circle_new_eq_model (c : Point K) (r : K) : Circle_new G c r = ⟨c, r⟩ := by src_eq
theorem position_eq_model (c : Circle K) (p : Point K) : Circle_position G c p = position G c p := by src_eq

/-! ### util.rs -/

theorem dist_eq_model (a b : Point K) : GeometrySrc.dist G a b = Geometry.dist G a b := by src_eq
theorem parallel_eq_model (u v : Line K) : GeometrySrc.parallel G u v = Geometry.parallel G u v := by src_eq
theorem intersect_ll_eq_model (u v : Line K) : intersect_ll G u v = intersectLL G u v := by src_eq
theorem intersect_cl_eq_model (c : Circle K) (l : Line K) : intersect_cl G c l = intersectCL G c l := by src_eq
theorem intersect_cc_eq_model (a b : Circle K) : intersect_cc G a b = intersectCC G a b := by src_eq

end Rlib.GeometrySrc
