import RlibModel.Lemmas.Reader
/-!
C08 lemmas, part 2: `read_line`, the `Readable` instances, tuples, vectors, scripts.
-/
set_option linter.unusedSimpArgs false
namespace Rlib.Reader

/-! ### read_line -/

/-- Recursive form of the line splitter (what the loop of `read_line` computes byte by byte):
    line content and the bytes after the terminator. -/
def lineSplit : List UInt8 → List UInt8 × List UInt8
  | [] => ([], [])
  | c :: r =>
    if c = 10 then ([], r)
    else if c = 13 ∧ r.head? = some 10 then ([], r.tail)
    else (c :: (lineSplit r).1, (lineSplit r).2)

theorem lineSplit_length : ∀ (rest : List UInt8), (lineSplit rest).2.length ≤ rest.length := by
  intro rest
  induction rest with
  | nil => simp [lineSplit]
  | cons c r ih =>
    simp only [lineSplit]
    split
    · simp
    · split
      · simp only [List.length_tail, List.length_cons]; omega
      · simp only [List.length_cons]; omega

theorem lineSplit_length_lt (rest : List UInt8) (h : rest ≠ []) : (lineSplit rest).2.length < rest.length := by
  cases rest with
  | nil => exact absurd rfl h
  | cons c r =>
    simp only [lineSplit]
    split
    · simp
    · split
      · simp only [List.length_tail, List.length_cons]; omega
      · have := lineSplit_length r
        simp only [List.length_cons]; omega

theorem lineLoop_spec (BUF : Nat) (hB : 0 < BUF) : ∀ (fuel : Nat) (s : RState) (acc : Array UInt8) (rs : Bool),
    Inv BUF s → (R s).length < fuel →
    ∃ a' s', lineLoop fuel s acc rs = .ok (a', (rs || !(R s).isEmpty), s') ∧
      a'.toList = acc.toList ++ (lineSplit (R s)).1 ∧ R s' = (lineSplit (R s)).2 ∧ Inv BUF s' := by
  intro fuel
  induction fuel with
  | zero => intro s _ _ _ h; omega
  | succ n ih =>
    intro s acc rs hi hf
    obtain ⟨s1, h1, h2, h3⟩ := ensure_spec BUF hB s hi
    cases he : s1.eof
    · obtain ⟨c, hc, hR, hia⟩ := peek_ready BUF s1 h3 he
      have hRs : R s = c :: R (adv s1) := by rw [← h2, hR]
      have hlen : (R (adv s1)).length < n := by rw [hRs] at hf; simp at hf; omega
      by_cases h13 : c = 13
      · -- CR: look at the next byte
        obtain ⟨c2, s2, p1, p2, p3, p4⟩ := peek_spec BUF hB (adv s1) hia
        rcases p4 with ⟨q1, q2, q3⟩ | ⟨q1, q2, q3⟩
        · -- input ends after the CR
          have hlen2 : (R s2).length < n := by rw [p2]; exact hlen
          obtain ⟨a', s', k1, k2, k3, k4⟩ := ih s2 (acc.push c) true p3.1 hlen2
          refine ⟨a', s', ?_, ?_, ?_, k4⟩
          · simp only [lineLoop, h1, he, hc, p1]
            simp [h13, q2]
            rw [h13] at k1; simpa [hRs] using k1
          · rw [k2, p2, q1, hRs, q1]; simp [lineSplit, h13]
          · rw [k3, p2, q1, hRs, q1]; simp [lineSplit, h13]
        · by_cases h10 : c2 = 10
          · refine ⟨acc, adv s2, ?_, ?_, ?_, q3⟩
            · simp only [lineLoop, h1, he, hc, p1]
              simp [h13, h10, hRs]
            · rw [hRs, ← p2, q2]; simp [lineSplit, h13, h10]
            · rw [hRs, ← p2, q2]; simp [lineSplit, h13, h10]
          · have hlen2 : (R s2).length < n := by rw [p2]; exact hlen
            obtain ⟨a', s', k1, k2, k3, k4⟩ := ih s2 (acc.push c) true p3.1 hlen2
            have hh : (R (adv s1)).head? ≠ some 10 := by
              rw [← p2, q2]; simp; exact h10
            refine ⟨a', s', ?_, ?_, ?_, k4⟩
            · simp only [lineLoop, h1, he, hc, p1]
              simp [h13, h10]
              rw [h13] at k1; simpa [hRs] using k1
            · rw [k2, p2, hRs]; simp [lineSplit, h13, hh]
            · rw [k3, p2, hRs]; simp [lineSplit, h13, hh]
      · by_cases h10 : c = 10
        · refine ⟨acc, adv s1, ?_, ?_, ?_, hia⟩
          · simp only [lineLoop, h1, he, hc]
            simp [h10, hRs]
          · rw [hRs]; simp [lineSplit, h10]
          · rw [hRs]; simp [lineSplit, h10]
        · obtain ⟨a', s', k1, k2, k3, k4⟩ := ih (adv s1) (acc.push c) true hia hlen
          refine ⟨a', s', ?_, ?_, ?_, k4⟩
          · simp only [lineLoop, h1, he, hc]
            simp [h13, h10]
            simpa [hRs] using k1
          · rw [k2, hRs]; simp [lineSplit, h13, h10]
          · rw [k3, hRs]; simp [lineSplit, h13, h10]
    · have hr : R s = [] := by
        rcases h3.2 with ⟨_, hr⟩ | ⟨he', _⟩
        · rw [← h2]; exact hr
        · rw [he] at he'; cases he'
      refine ⟨acc, s1, ?_, ?_, ?_, h3.1⟩
      · simp [lineLoop, h1, he, hr]
      · rw [hr]; simp [lineSplit]
      · rw [h2, hr]; simp [lineSplit]

/-- What `specLine` strips: one CR at the end of the bytes before the LF. -/
def stripCR (line : List UInt8) : List UInt8 := if line.getLast? = some 13 then line.dropLast else line

theorem lineSplit_char : ∀ (rest : List UInt8),
    (lineSplit rest).2 = (rest.dropWhile (fun c => c != 10)).tail ∧
    (lineSplit rest).1 = (if rest.dropWhile (fun c => c != 10) = [] then rest.takeWhile (fun c => c != 10)
                          else stripCR (rest.takeWhile (fun c => c != 10))) := by
  intro rest
  induction rest with
  | nil => simp [lineSplit]
  | cons c r ih =>
    by_cases h10 : c = 10
    · subst h10; simp [lineSplit, stripCR]
    · have hne : (c != 10) = true := by simp [h10]
      by_cases hcr : c = 13 ∧ r.head? = some 10
      · obtain ⟨h13, hh⟩ := hcr
        cases r with
        | nil => simp at hh
        | cons d r' =>
          simp only [List.head?_cons, Option.some.injEq] at hh
          subst hh; subst h13
          simp [lineSplit, stripCR]
      · simp only [lineSplit, h10, hcr, if_false, List.dropWhile_cons, hne, if_true, List.takeWhile_cons]
        refine ⟨ih.1, ?_⟩
        rw [ih.2]
        by_cases hd : r.dropWhile (fun c => c != 10) = []
        · simp [hd]
        · simp only [hd, if_false]
          cases ht : r.takeWhile (fun c => c != 10) with
          | nil =>
            -- then `r` starts with LF, so `c` is not CR
            have hh : r.head? = some 10 := by
              cases r with
              | nil => simp at hd
              | cons d r' =>
                simp only [List.takeWhile_cons] at ht
                by_cases hd10 : d = 10
                · simp [hd10]
                · simp [hd10] at ht
            have h13 : c ≠ 13 := fun h => hcr ⟨h, hh⟩
            simp [stripCR, h13]
          | cons x l =>
            simp only [stripCR, List.getLast?_cons_cons, List.dropLast_cons_cons]
            split <;> rfl

theorem specLine_nil : specLine [] = (none, []) := by simp [specLine]

theorem specLine_eq (rest : List UInt8) (h : rest ≠ []) :
    specLine rest = (some (lineSplit rest).1, (lineSplit rest).2) := by
  obtain ⟨h2, h1⟩ := lineSplit_char rest
  simp only [specLine, h, if_false]
  rw [h1, h2]
  cases hd : rest.dropWhile (fun c => c != 10) with
  | nil => simp
  | cons x r => simp [stripCR]

theorem readLine_spec (BUF : Nat) (hB : 0 < BUF) (fuel : Nat) (s : RState) (hi : Inv BUF s)
    (hf : (R s).length < fuel) :
    ∃ s', readLine fuel s = .ok ((specLine (R s)).1, s') ∧ R s' = (specLine (R s)).2 ∧ Inv BUF s' := by
  obtain ⟨a', s', k1, k2, k3, k4⟩ := lineLoop_spec BUF hB fuel s #[] false hi hf
  by_cases hr : R s = []
  · refine ⟨s', ?_, ?_, k4⟩
    · simp [readLine, k1, hr, specLine_nil]
    · rw [k3, hr, specLine_nil]; simp [lineSplit]
  · refine ⟨s', ?_, ?_, k4⟩
    · simp only [readLine, k1, specLine_eq _ hr]
      have : (R s).isEmpty = false := by simp [hr]
      simp [this, k2]
    · rw [k3, specLine_eq _ hr]

theorem specLine_length (rest : List UInt8) : (specLine rest).2.length ≤ rest.length := by
  by_cases h : rest = []
  · subst h; simp [specLine_nil]
  · rw [specLine_eq _ h]; exact lineSplit_length rest

theorem specLines_fuel : ∀ (n m : Nat) (rest : List UInt8), rest.length < n → rest.length < m →
    specLines n rest = specLines m rest := by
  intro n
  induction n with
  | zero => intro m rest h; omega
  | succ n ih =>
    intro m rest hn hm
    cases m with
    | zero => omega
    | succ m =>
      by_cases h : rest = []
      · subst h; simp [specLines, specLine_nil]
      · have hl := lineSplit_length_lt rest h
        simp only [specLines, specLine_eq _ h]
        rw [ih m _ (by omega) (by omega)]

theorem readLines_spec (BUF : Nat) (hB : 0 < BUF) (fuel : Nat) : ∀ (n : Nat) (s : RState) (acc : Array (List UInt8)),
    Inv BUF s → (R s).length < fuel → (R s).length < n →
    ∃ s', readLines fuel n s acc = .ok (acc.toList ++ specLines n (R s), s') ∧ R s' = [] ∧ Inv BUF s' := by
  intro n
  induction n with
  | zero => intro s _ _ _ h; omega
  | succ n ih =>
    intro s acc hi hf hn
    obtain ⟨s1, h1, h2, h3⟩ := readLine_spec BUF hB fuel s hi hf
    by_cases hr : R s = []
    · rw [hr, specLine_nil] at h1 h2
      refine ⟨s1, ?_, h2, h3⟩
      simp [readLines, h1, hr, specLines, specLine_nil]
    · have hl := lineSplit_length_lt (R s) hr
      rw [specLine_eq _ hr] at h1 h2
      have h2' : R s1 = (lineSplit (R s)).2 := h2
      obtain ⟨s2, k1, k2, k3⟩ := ih s1 (acc.push (lineSplit (R s)).1) h3 (by rw [h2']; omega) (by rw [h2']; omega)
      refine ⟨s2, ?_, k2, k3⟩
      simp only [readLines, h1, k1, specLines, specLine_eq _ hr, h2']
      simp

/-! ### String, char, integers, is_eof -/

theorem length_dropWhile_le (p : UInt8 → Bool) : ∀ (l : List UInt8), (l.dropWhile p).length ≤ l.length := by
  intro l
  induction l with
  | nil => simp
  | cons c r ih =>
    simp only [List.dropWhile_cons]
    split
    · simp only [List.length_cons]; omega
    · simp

theorem specSkipWs_length (rest : List UInt8) : (specSkipWs rest).length ≤ rest.length :=
  length_dropWhile_le _ _

theorem specTok_length (rest : List UInt8) : (specTok rest).2.length ≤ rest.length :=
  length_dropWhile_le _ _

theorem foldE_push : ∀ (tok : List UInt8) (acc : Array UInt8),
    ∃ a, foldE (fun (acc : Array UInt8) c => Except.ok (acc.push c)) acc tok = .ok a ∧ a.toList = acc.toList ++ tok := by
  intro tok
  induction tok with
  | nil => intro acc; exact ⟨acc, rfl, by simp⟩
  | cons c r ih =>
    intro acc
    obtain ⟨a, h1, h2⟩ := ih (acc.push c)
    exact ⟨a, by simp only [foldE]; exact h1, by rw [h2]; simp⟩

theorem readString_spec (BUF : Nat) (hB : 0 < BUF) (fuel : Nat) (s : RState) (hi : Inv BUF s)
    (hf : (R s).length < fuel) :
    ∃ s', readString fuel s = .ok ((specString (R s)).1, s') ∧ R s' = (specString (R s)).2 ∧ Inv BUF s' := by
  obtain ⟨s1, h1, h2, h3⟩ := skipWs_spec BUF hB fuel s hi hf
  have hl := specSkipWs_length (R s)
  obtain ⟨a, f1, f2⟩ := foldE_push (specTok (R s1)).1 #[]
  obtain ⟨s2, k1, k2, k3⟩ := (tokenLoop_spec _ BUF hB fuel s1 #[] h3.1 (by rw [h2]; omega)).2 a f1
  refine ⟨s2, ?_, ?_, k3⟩
  · simp only [readString, h1, k1, specString, ← h2]
    simp [f2]
  · rw [k2, h2]; rfl

theorem ready_eof_iff (BUF : Nat) (s : RState) (h : Ready BUF s) : s.eof = (R s).isEmpty := by
  rcases h.2 with ⟨he, hr⟩ | ⟨he, hlt⟩
  · simp [he, hr]
  · obtain ⟨c, _, hR, _⟩ := front BUF s h.1 hlt
    simp [he, hR]

theorem isEof_spec (BUF : Nat) (hB : 0 < BUF) (fuel : Nat) (s : RState) (hi : Inv BUF s)
    (hf : (R s).length < fuel) :
    ∃ s', isEof fuel s = .ok ((specIsEof (R s)).1, s') ∧ R s' = (specIsEof (R s)).2 ∧ Inv BUF s' := by
  obtain ⟨s1, h1, h2, h3⟩ := skipWs_spec BUF hB fuel s hi hf
  refine ⟨s1, ?_, h2, h3.1⟩
  simp only [isEof, h1, specIsEof, ← h2, ready_eof_iff BUF s1 h3]

theorem readChar_spec (BUF : Nat) (hB : 0 < BUF) (fuel : Nat) (s : RState) (hi : Inv BUF s)
    (hf : (R s).length < fuel) (c : UInt8) (r : List UInt8) (hs : specChar (R s) = some (c, r)) :
    ∃ s', readChar fuel s = .ok (c, s') ∧ R s' = r ∧ Inv BUF s' := by
  obtain ⟨s1, h1, h2, h3⟩ := skipWs_spec BUF hB fuel s hi hf
  have hR1 : R s1 = c :: r := by
    rw [h2]
    simp only [specChar] at hs
    cases hh : specSkipWs (R s) with
    | nil => rw [hh] at hs; simp at hs
    | cons x y => rw [hh] at hs; simp at hs; rw [hs.1, hs.2]
  have he : s1.eof = false := by rw [ready_eof_iff BUF s1 h3, hR1]; rfl
  obtain ⟨c', p1, p2, p3⟩ := peek_ready BUF s1 h3 he
  rw [hR1] at p2
  simp only [List.cons.injEq] at p2
  refine ⟨adv s1, ?_, p2.2.symm, p3⟩
  simp [readChar, h1, p1, p2.1]

/-- `read_signed!` / `read_unsigned!` agree with `specInt`, panics included. -/
theorem readInt_spec (t : IntTy) (BUF : Nat) (hB : 0 < BUF) (fuel : Nat) (s : RState) (hi : Inv BUF s)
    (hf : (R s).length < fuel) :
    (∀ e, specInt t (R s) = .error e → readInt t fuel s = .error e) ∧
    (∀ v r, specInt t (R s) = .ok (v, r) →
      ∃ s', readInt t fuel s = .ok (v, s') ∧ R s' = r ∧ Inv BUF s') := by
  obtain ⟨s1, h1, h2, h3⟩ := skipWs_spec BUF hB fuel s hi hf
  have hl := specSkipWs_length (R s)
  -- the state the digit loop starts in, and the matching `neg` / remaining bytes of the spec
  have key : ∃ s2 neg, Inv BUF s2 ∧ (R s2).length < fuel ∧
      readInt t fuel s = tokenLoop (digitStep t neg) fuel s2 0 ∧
      specInt t (R s) = specFoldTok (digitStep t neg) 0 (R s2) := by
    cases hsg : t.signed
    · refine ⟨s1, false, h3.1, by rw [h2]; omega, ?_, ?_⟩
      · simp [readInt, h1, hsg]
      · simp [specInt, hsg, h2]
    · obtain ⟨c, s2, p1, p2, p3, p4⟩ := peek_spec BUF hB s1 h3.1
      rcases p4 with ⟨q1, q2, q3⟩ | ⟨q1, q2, q3⟩
      · refine ⟨s2, false, p3.1, by rw [p2, h2]; omega, ?_, ?_⟩
        · simp [readInt, h1, hsg, p1, q2]
        · rw [h2] at q1
          simp [specInt, hsg, q1, p2, h2]
      · by_cases h45 : c = 45
        · refine ⟨adv s2, true, q3, ?_, ?_, ?_⟩
          · have : (R s2).length = (R (adv s2)).length + 1 := by rw [q2]; simp
            rw [p2, h2] at this; omega
          · simp [readInt, h1, hsg, p1, h45]
          · have hr1 : specSkipWs (R s) = c :: R (adv s2) := by rw [← h2, ← p2, q2]
            simp [specInt, hsg, hr1, h45]
        · refine ⟨s2, false, p3.1, by rw [p2, h2]; omega, ?_, ?_⟩
          · simp [readInt, h1, hsg, p1, h45]
          · have hr1 : specSkipWs (R s) = c :: R (adv s2) := by rw [← h2, ← p2, q2]
            have hr2 : R s2 = specSkipWs (R s) := by rw [p2, h2]
            have hb : (c == 45) = false := by simp [h45]
            simp [specInt, hsg, hr1, h45, hr2, hb]
  obtain ⟨s2, neg, i2, l2, e1, e2⟩ := key
  obtain ⟨te, tok⟩ := tokenLoop_spec (digitStep t neg) BUF hB fuel s2 0 i2 l2
  rw [e1, e2]
  simp only [specFoldTok]
  constructor
  · intro e h
    cases hfe : foldE (digitStep t neg) 0 (specTok (R s2)).1 with
    | error e0 => rw [hfe] at h; simp at h; rw [← h]; exact te e0 hfe
    | ok v => rw [hfe] at h; simp at h
  · intro v r h
    cases hfe : foldE (digitStep t neg) 0 (specTok (R s2)).1 with
    | error e0 => rw [hfe] at h; simp at h
    | ok v0 =>
      rw [hfe] at h; simp at h
      obtain ⟨s', k1, k2, k3⟩ := tok v0 hfe
      exact ⟨s', by rw [k1, h.1], by rw [k2, h.2], k3⟩

/-! ### Refinement of whole operations and scripts -/

/-- An operation of the model refines its specification: where the spec is defined, the model
    panics exactly when the spec does, and otherwise returns the same value and leaves a state whose
    remaining bytes are the spec's (invariant kept). -/
def Refines {α : Type} (BUF : Nat) (res : Except Panic (α × RState))
    (spec : Option (Except Panic (α × List UInt8))) : Prop :=
  match spec with
  | none => True
  | some (.error e) => res = .error e
  | some (.ok (a, r)) => ∃ s', res = .ok (a, s') ∧ R s' = r ∧ Inv BUF s'

theorem specInt_length (t : IntTy) (rest : List UInt8) (v : Int) (r : List UInt8)
    (h : specInt t rest = .ok (v, r)) : r.length ≤ rest.length := by
  simp only [specInt, specFoldTok] at h
  split at h
  · cases h
  · simp only [Except.ok.injEq, Prod.mk.injEq] at h
    rw [← h.2]
    have h1 := specSkipWs_length rest
    split
    · have := specTok_length (specSkipWs rest).tail
      simp only [List.length_tail] at this; omega
    · have := specTok_length (specSkipWs rest); omega

theorem specAtom_length (a : Atom) (rest : List UInt8) (v : Val) (r : List UInt8)
    (h : specAtom a rest = some (.ok (v, r))) : r.length ≤ rest.length := by
  cases a with
  | int t =>
    simp only [specAtom, Option.some.injEq] at h
    cases hs : specInt t rest with
    | error e => rw [hs] at h; cases h
    | ok p =>
      rw [hs] at h; simp only [Except.ok.injEq, Prod.mk.injEq] at h
      have := specInt_length t rest p.1 p.2 hs
      rw [← h.2]; exact this
  | str =>
    simp only [specAtom, Option.some.injEq, Except.ok.injEq, Prod.mk.injEq] at h
    rw [← h.2]
    have h1 := specSkipWs_length rest
    have h2 := specTok_length (specSkipWs rest)
    simp only [specString]; omega
  | chr =>
    simp only [specAtom] at h
    cases hs : specChar rest with
    | none => rw [hs] at h; cases h
    | some p =>
      rw [hs] at h; simp only [Option.some.injEq, Except.ok.injEq, Prod.mk.injEq] at h
      simp only [specChar] at hs
      have h1 := specSkipWs_length rest
      cases hh : specSkipWs rest with
      | nil => rw [hh] at hs; cases hs
      | cons x y =>
        rw [hh] at hs h1; simp only [Option.some.injEq] at hs
        rw [← h.2, ← hs]; simp only [List.length_cons] at h1; show y.length ≤ rest.length; omega

theorem readAtom_spec (BUF : Nat) (hB : 0 < BUF) (fuel : Nat) (a : Atom) (s : RState) (hi : Inv BUF s)
    (hf : (R s).length < fuel) : Refines BUF (readAtom fuel a s) (specAtom a (R s)) := by
  cases a with
  | int t =>
    obtain ⟨he, ho⟩ := readInt_spec t BUF hB fuel s hi hf
    simp only [specAtom, readAtom]
    cases hs : specInt t (R s) with
    | error e => simp only [Refines]; rw [he e hs]
    | ok p =>
      obtain ⟨s', k1, k2, k3⟩ := ho p.1 p.2 hs
      simp only [Refines]
      exact ⟨s', by rw [k1], k2, k3⟩
  | str =>
    obtain ⟨s', k1, k2, k3⟩ := readString_spec BUF hB fuel s hi hf
    simp only [specAtom, readAtom, Refines]
    exact ⟨s', by rw [k1], k2, k3⟩
  | chr =>
    simp only [specAtom, readAtom]
    cases hs : specChar (R s) with
    | none => simp [Refines]
    | some p =>
      obtain ⟨s', k1, k2, k3⟩ := readChar_spec BUF hB fuel s hi hf p.1 p.2 hs
      simp only [Refines]
      exact ⟨s', by rw [k1], k2, k3⟩

theorem specTuple_length : ∀ (as : List Atom) (rest : List UInt8) (vs : List Val) (r : List UInt8),
    specTuple as rest = some (.ok (vs, r)) → r.length ≤ rest.length := by
  intro as
  induction as with
  | nil => intro rest vs r h; simp only [specTuple, Option.some.injEq, Except.ok.injEq, Prod.mk.injEq] at h; rw [← h.2]; exact Nat.le_refl _
  | cons a as ih =>
    intro rest vs r h
    simp only [specTuple] at h
    split at h
    · cases h
    · cases h
    · rename_i v r1 ha
      have l1 := specAtom_length a rest v r1 ha
      split at h
      · cases h
      · cases h
      · rename_i vs' r2 ht
        have l2 := ih r1 vs' r2 ht
        simp only [Option.some.injEq, Except.ok.injEq, Prod.mk.injEq] at h
        rw [← h.2]; omega

theorem readTuple_spec (BUF : Nat) (hB : 0 < BUF) (fuel : Nat) : ∀ (as : List Atom) (s : RState), Inv BUF s →
    (R s).length < fuel → Refines BUF (readTuple fuel as s) (specTuple as (R s)) := by
  intro as
  induction as with
  | nil => intro s hi _; simp only [readTuple, specTuple, Refines]; exact ⟨s, rfl, rfl, hi⟩
  | cons a as ih =>
    intro s hi hf
    have ha := readAtom_spec BUF hB fuel a s hi hf
    simp only [readTuple, specTuple]
    cases hs : specAtom a (R s) with
    | none => simp [Refines]
    | some x =>
      cases x with
      | error e => rw [hs] at ha; simp only [Refines] at ha; simp [Refines, ha]
      | ok p =>
        rw [hs] at ha
        obtain ⟨s1, k1, k2, k3⟩ := ha
        have l1 := specAtom_length a (R s) p.1 p.2 hs
        have ht := ih s1 k3 (by rw [k2]; omega)
        rw [k2] at ht
        simp only [k1]
        cases hts : specTuple as p.2 with
        | none => simp [Refines]
        | some y =>
          cases y with
          | error e => rw [hts] at ht; simp only [Refines] at ht; simp [Refines, ht]
          | ok q =>
            rw [hts] at ht
            obtain ⟨s2, j1, j2, j3⟩ := ht
            simp only [Refines, j1]
            exact ⟨s2, rfl, j2, j3⟩

theorem specVec_length (as : List Atom) : ∀ (n : Nat) (rest : List UInt8) (rows : List (List Val)) (r : List UInt8),
    specVec as n rest = some (.ok (rows, r)) → r.length ≤ rest.length := by
  intro n
  induction n with
  | zero => intro rest rows r h; simp only [specVec, Option.some.injEq, Except.ok.injEq, Prod.mk.injEq] at h; rw [← h.2]; exact Nat.le_refl _
  | succ n ih =>
    intro rest rows r h
    simp only [specVec] at h
    split at h
    · cases h
    · cases h
    · rename_i row r1 ha
      have l1 := specTuple_length as rest row r1 ha
      split at h
      · cases h
      · cases h
      · rename_i rows' r2 ht
        have l2 := ih r1 rows' r2 ht
        simp only [Option.some.injEq, Except.ok.injEq, Prod.mk.injEq] at h
        rw [← h.2]; omega

theorem readVec_spec (BUF : Nat) (hB : 0 < BUF) (fuel : Nat) (as : List Atom) : ∀ (n : Nat) (s : RState), Inv BUF s →
    (R s).length < fuel → Refines BUF (readVec fuel as n s) (specVec as n (R s)) := by
  intro n
  induction n with
  | zero => intro s hi _; simp only [readVec, specVec, Refines]; exact ⟨s, rfl, rfl, hi⟩
  | succ n ih =>
    intro s hi hf
    have ha := readTuple_spec BUF hB fuel as s hi hf
    simp only [readVec, specVec]
    cases hs : specTuple as (R s) with
    | none => simp [Refines]
    | some x =>
      cases x with
      | error e => rw [hs] at ha; simp only [Refines] at ha; simp [Refines, ha]
      | ok p =>
        rw [hs] at ha
        obtain ⟨s1, k1, k2, k3⟩ := ha
        have l1 := specTuple_length as (R s) p.1 p.2 hs
        have ht := ih s1 k3 (by rw [k2]; omega)
        rw [k2] at ht
        simp only [k1]
        cases hts : specVec as n p.2 with
        | none => simp [Refines]
        | some y =>
          cases y with
          | error e => rw [hts] at ht; simp only [Refines] at ht; simp [Refines, ht]
          | ok q =>
            rw [hts] at ht
            obtain ⟨s2, j1, j2, j3⟩ := ht
            simp only [Refines, j1]
            exact ⟨s2, rfl, j2, j3⟩

/-- Every operation of the public API refines its specification on the remaining bytes. -/
theorem runOp_spec (BUF : Nat) (hB : 0 < BUF) (fuel : Nat) (op : Op) (s : RState) (hi : Inv BUF s)
    (hf : (R s).length < fuel) : Refines BUF (runOp fuel op s) (specOp op (R s)) := by
  cases op with
  | read a =>
    have ha := readAtom_spec BUF hB fuel a s hi hf
    simp only [runOp, specOp]
    cases hs : specAtom a (R s) with
    | none => simp [Refines]
    | some x =>
      rw [hs] at ha
      cases x with
      | error e => simp only [Refines] at ha; simp [Refines, ha]
      | ok p => obtain ⟨s1, k1, k2, k3⟩ := ha; simp only [Refines, k1]; exact ⟨s1, rfl, k2, k3⟩
  | tuple as =>
    have ha := readTuple_spec BUF hB fuel as s hi hf
    simp only [runOp, specOp]
    cases hs : specTuple as (R s) with
    | none => simp [Refines]
    | some x =>
      rw [hs] at ha
      cases x with
      | error e => simp only [Refines] at ha; simp [Refines, ha]
      | ok p => obtain ⟨s1, k1, k2, k3⟩ := ha; simp only [Refines, k1]; exact ⟨s1, rfl, k2, k3⟩
  | vec as n =>
    have ha := readVec_spec BUF hB fuel as n s hi hf
    simp only [runOp, specOp]
    cases hs : specVec as n (R s) with
    | none => simp [Refines]
    | some x =>
      rw [hs] at ha
      cases x with
      | error e => simp only [Refines] at ha; simp [Refines, ha]
      | ok p => obtain ⟨s1, k1, k2, k3⟩ := ha; simp only [Refines, k1]; exact ⟨s1, rfl, k2, k3⟩
  | line =>
    obtain ⟨s1, k1, k2, k3⟩ := readLine_spec BUF hB fuel s hi hf
    simp only [runOp, specOp, Refines, k1]; exact ⟨s1, rfl, k2, k3⟩
  | lines =>
    obtain ⟨s1, k1, k2, k3⟩ := readLines_spec BUF hB fuel fuel s #[] hi hf hf
    simp only [runOp, specOp, Refines, k1]
    refine ⟨s1, ?_, k2, k3⟩
    rw [specLines_fuel fuel ((R s).length + 1) (R s) hf (Nat.lt_succ_self _)]
    simp
  | eof =>
    obtain ⟨s1, k1, k2, k3⟩ := isEof_spec BUF hB fuel s hi hf
    simp only [runOp, specOp, Refines, k1]; exact ⟨s1, rfl, k2, k3⟩

theorem specOp_length (op : Op) (rest : List UInt8) (o : Out) (r : List UInt8)
    (h : specOp op rest = some (.ok (o, r))) : r.length ≤ rest.length := by
  cases op with
  | read a =>
    simp only [specOp] at h
    split at h
    · cases h
    · cases h
    · rename_i v r1 ha
      simp only [Option.some.injEq, Except.ok.injEq, Prod.mk.injEq] at h
      rw [← h.2]; exact specAtom_length a rest v r1 ha
  | tuple as =>
    simp only [specOp] at h
    split at h
    · cases h
    · cases h
    · rename_i v r1 ha
      simp only [Option.some.injEq, Except.ok.injEq, Prod.mk.injEq] at h
      rw [← h.2]; exact specTuple_length as rest v r1 ha
  | vec as n =>
    simp only [specOp] at h
    split at h
    · cases h
    · cases h
    · rename_i v r1 ha
      simp only [Option.some.injEq, Except.ok.injEq, Prod.mk.injEq] at h
      rw [← h.2]; exact specVec_length as n rest v r1 ha
  | line =>
    simp only [specOp, Option.some.injEq, Except.ok.injEq, Prod.mk.injEq] at h
    rw [← h.2]; exact specLine_length rest
  | lines =>
    simp only [specOp, Option.some.injEq, Except.ok.injEq, Prod.mk.injEq] at h
    rw [← h.2]; simp
  | eof =>
    simp only [specOp, Option.some.injEq, Except.ok.injEq, Prod.mk.injEq] at h
    rw [← h.2]; exact specSkipWs_length rest

/-- A script whose specification trace is defined everywhere (no `char` read at end of input)
    produces exactly that trace, from any state satisfying the invariant. -/
theorem runScript_spec (BUF : Nat) (hB : 0 < BUF) (fuel : Nat) : ∀ (ops : List Op) (s : RState), Inv BUF s →
    (R s).length < fuel → Res.undef ∉ specScript ops (R s) → runScript fuel ops s = specScript ops (R s) := by
  intro ops
  induction ops with
  | nil => intro s _ _ _; rfl
  | cons op ops ih =>
    intro s hi hf hd
    have ho := runOp_spec BUF hB fuel op s hi hf
    simp only [runScript, specScript] at hd ⊢
    cases hs : specOp op (R s) with
    | none => rw [hs] at hd; simp at hd
    | some x =>
      rw [hs] at ho hd
      cases x with
      | error e => simp only [Refines] at ho; simp [ho]
      | ok p =>
        obtain ⟨s1, k1, k2, k3⟩ := ho
        have l1 := specOp_length op (R s) p.1 p.2 hs
        simp only [k1]
        simp only [List.mem_cons, not_or] at hd
        rw [ih s1 k3 (by rw [k2]; omega) (by rw [k2]; exact hd.2), k2]

/-! ### The only panic a specification can raise is integer overflow -/

theorem checked_error (t : IntTy) (z : Int) (e : Panic) (h : checked t z = .error e) : e = .overflow := by
  unfold checked at h
  split at h
  · cases h
  · simp only [Except.error.injEq] at h; exact h.symm

theorem digitStep_error (t : IntTy) (neg : Bool) (acc : Int) (c : UInt8) (e : Panic)
    (h : digitStep t neg acc c = .error e) : e = .overflow := by
  unfold digitStep at h
  cases hm : checked t (acc * 10) with
  | error e' =>
    rw [hm] at h; simp only [Except.error.injEq] at h
    rw [← h]; exact checked_error _ _ _ hm
  | ok m =>
    rw [hm] at h; simp only at h
    by_cases hc : c < 48
    · simp only [hc, if_true, Except.error.injEq] at h; exact h.symm
    · simp only [hc, if_false] at h; exact checked_error _ _ _ h

theorem foldE_digitStep_error (t : IntTy) (neg : Bool) : ∀ (tok : List UInt8) (acc : Int) (e : Panic),
    foldE (digitStep t neg) acc tok = .error e → e = .overflow := by
  intro tok
  induction tok with
  | nil => intro acc e h; simp [foldE] at h
  | cons c r ih =>
    intro acc e h
    simp only [foldE] at h
    split at h
    · rename_i e' he
      simp only [Except.error.injEq] at h
      rw [← h]; exact digitStep_error t neg acc c e' he
    · exact ih _ e h

theorem specInt_error (t : IntTy) (rest : List UInt8) (e : Panic) (h : specInt t rest = .error e) :
    e = .overflow := by
  simp only [specInt, specFoldTok] at h
  split at h
  · rename_i e' he
    simp only [Except.error.injEq] at h
    rw [← h]; exact foldE_digitStep_error _ _ _ _ e' he
  · cases h

theorem specAtom_error (a : Atom) (rest : List UInt8) (e : Panic) (h : specAtom a rest = some (.error e)) :
    e = .overflow := by
  cases a with
  | int t =>
    simp only [specAtom, Option.some.injEq] at h
    split at h
    · rename_i e' he
      simp only [Except.error.injEq] at h
      rw [← h]; exact specInt_error t rest e' he
    · cases h
  | str => simp [specAtom] at h
  | chr =>
    simp only [specAtom] at h
    split at h
    · cases h
    · cases h

theorem specTuple_error : ∀ (as : List Atom) (rest : List UInt8) (e : Panic),
    specTuple as rest = some (.error e) → e = .overflow := by
  intro as
  induction as with
  | nil => intro rest e h; simp [specTuple] at h
  | cons a as ih =>
    intro rest e h
    simp only [specTuple] at h
    split at h
    · cases h
    · rename_i e' he
      simp only [Option.some.injEq, Except.error.injEq] at h
      rw [← h]; exact specAtom_error a rest e' he
    · split at h
      · cases h
      · rename_i e' he
        simp only [Option.some.injEq, Except.error.injEq] at h
        rw [← h]; exact ih _ e' he
      · cases h

theorem specVec_error (as : List Atom) : ∀ (n : Nat) (rest : List UInt8) (e : Panic),
    specVec as n rest = some (.error e) → e = .overflow := by
  intro n
  induction n with
  | zero => intro rest e h; simp [specVec] at h
  | succ n ih =>
    intro rest e h
    simp only [specVec] at h
    split at h
    · cases h
    · rename_i e' he
      simp only [Option.some.injEq, Except.error.injEq] at h
      rw [← h]; exact specTuple_error as rest e' he
    · split at h
      · cases h
      · rename_i e' he
        simp only [Option.some.injEq, Except.error.injEq] at h
        rw [← h]; exact ih _ e' he
      · cases h

theorem specOp_error_overflow (op : Op) (rest : List UInt8) (e : Panic) (h : specOp op rest = some (.error e)) :
    e = .overflow := by
  cases op with
  | read a =>
    simp only [specOp] at h
    split at h
    · cases h
    · rename_i e' he
      simp only [Option.some.injEq, Except.error.injEq] at h
      rw [← h]; exact specAtom_error a rest e' he
    · cases h
  | tuple as =>
    simp only [specOp] at h
    split at h
    · cases h
    · rename_i e' he
      simp only [Option.some.injEq, Except.error.injEq] at h
      rw [← h]; exact specTuple_error as rest e' he
    · cases h
  | vec as n =>
    simp only [specOp] at h
    split at h
    · cases h
    · rename_i e' he
      simp only [Option.some.injEq, Except.error.injEq] at h
      rw [← h]; exact specVec_error as n rest e' he
    · cases h
  | line => simp [specOp] at h
  | lines => simp [specOp] at h
  | eof => simp [specOp] at h

/-! ### Initial state -/

theorem init_inv (BUF : Nat) (src : List Event) (h : SrcOk src) : Inv BUF (init BUF src) := by
  constructor
  · simp [init]
  · exact Nat.le_refl _
  · exact Nat.zero_le _
  · exact h
  · intro he; simp [init] at he

theorem init_R (BUF : Nat) (src : List Event) : R (init BUF src) = srcBytes src := by
  simp [R, window_eq, init]

end Rlib.Reader
