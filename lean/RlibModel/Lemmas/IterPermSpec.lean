import RlibModel.Lemmas.IterPermAll
/-!
The executable by-definition specifications of C15's permutation part (`specPermutations`: sort all
arrangements and drop duplicates; `specNextPermutation`: the first of them above the input) are what the
model computes.  Core Lean only.
-/
namespace Rlib.Iter

theorem lexLtB_iff : ∀ a b : List Int, lexLtB a b = true ↔ a < b
  | [], [] => by simp [lexLtB]
  | [], _ :: _ => by simp [lexLtB]
  | _ :: _, [] => by simp [lexLtB]
  | x :: a, y :: b => by
    rw [lex_cons, lexLtB]
    simp only [Bool.or_eq_true, decide_eq_true_eq, Bool.and_eq_true, beq_iff_eq, lexLtB_iff a b]

theorem lexLeB_iff (a b : List Int) : lexLeB a b = true ↔ ¬ b < a := by
  unfold lexLeB
  rw [← lexLtB_iff b a]
  cases lexLtB b a <;> simp

/-! ### all arrangements -/

theorem perm_of_mem_insertAll (x : Int) : ∀ (l z : List Int), z ∈ insertAll x l → z.Perm (x :: l) := by
  intro l
  induction l with
  | nil => intro z hz; simp [insertAll] at hz; rw [hz]
  | cons a l ih =>
    intro z hz
    simp only [insertAll, List.mem_cons, List.mem_map] at hz
    rcases hz with rfl | ⟨z', hz', rfl⟩
    · exact List.Perm.refl _
    · exact ((ih z' hz').cons a).trans (List.Perm.swap x a l)

theorem mem_allPerms : ∀ (xs zs : List Int), zs ∈ allPerms xs ↔ zs.Perm xs := by
  intro xs zs
  refine ⟨?_, mem_allPerms_of_perm xs zs⟩
  induction xs generalizing zs with
  | nil => intro h; simp [allPerms] at h; rw [h]
  | cons x xs ih =>
    intro h
    simp only [allPerms, List.mem_flatMap] at h
    obtain ⟨y, hy, hz⟩ := h
    exact (perm_of_mem_insertAll x y zs hz).trans ((ih y hy).cons x)

/-! ### strictly sorted lists of sequences are determined by their members -/

theorem sorted_ext_lex : ∀ (l1 l2 : List (List Int)), l1.Pairwise (· < ·) → l2.Pairwise (· < ·) →
    (∀ a, a ∈ l1 ↔ a ∈ l2) → l1 = l2 := by
  intro l1
  induction l1 with
  | nil =>
    intro l2 _ _ h
    cases l2 with
    | nil => rfl
    | cons b t => exact absurd ((h b).mpr (List.mem_cons_self ..)) (by simp)
  | cons a t1 ih =>
    intro l2 h1 h2 h
    cases l2 with
    | nil => exact absurd ((h a).mp (List.mem_cons_self ..)) (by simp)
    | cons b t2 =>
      rw [List.pairwise_cons] at h1 h2
      have hab : a = b := by
        have ha := (h a).mp (List.mem_cons_self ..)
        have hb := (h b).mpr (List.mem_cons_self ..)
        rcases List.mem_cons.mp ha with e | ha'
        · exact e
        · rcases List.mem_cons.mp hb with e | hb'
          · exact e.symm
          · exact absurd (h2.1 a ha') (fun h' => lex_asymm h' (h1.1 b hb'))
      subst hab
      congr 1
      apply ih t2 h1.2 h2.2
      intro c
      constructor
      · intro hc
        have := (h c).mp (List.mem_cons_of_mem _ hc)
        rcases List.mem_cons.mp this with e | h'
        · exact absurd (h1.1 c hc) (by rw [e]; exact lex_irrefl _)
        · exact h'
      · intro hc
        have := (h c).mpr (List.mem_cons_of_mem _ hc)
        rcases List.mem_cons.mp this with e | h'
        · exact absurd (h2.1 c hc) (by rw [e]; exact lex_irrefl _)
        · exact h'

/-! ### `dedupAdj` of a sorted list -/

theorem lex_le_trans {a b c : List Int} (h1 : ¬ b < a) (h2 : ¬ c < b) : ¬ c < a := by
  intro h
  rcases lex_trichotomy a b with h' | h' | h'
  · rcases lex_trichotomy b c with h'' | h'' | h''
    · exact lex_asymm (lex_trans h' h'') h
    · rw [h''] at h'; exact lex_asymm h' h
    · exact h2 h''
  · rw [h'] at h; exact h2 h
  · exact h1 h'

theorem dedupAdj_spec : ∀ l : List (List Int), l.Pairwise (fun a b => ¬ b < a) →
    (dedupAdj l).Pairwise (· < ·) ∧ ∀ z, z ∈ dedupAdj l ↔ z ∈ l := by
  intro l
  induction l with
  | nil => intro _; exact ⟨List.Pairwise.nil, fun z => Iff.rfl⟩
  | cons a t ih =>
    intro h
    rw [List.pairwise_cons] at h
    obtain ⟨ih1, ih2⟩ := ih h.2
    cases t with
    | nil => exact ⟨List.pairwise_singleton _ _, fun z => Iff.rfl⟩
    | cons b t =>
      unfold dedupAdj
      by_cases hab : a = b
      · subst hab
        simp only [beq_self_eq_true, if_true]
        refine ⟨ih1, fun z => ?_⟩
        rw [ih2 z]
        simp
      · have hne : (a == b) = false := by simpa using hab
        simp only [hne, Bool.false_eq_true, if_false]
        have hltb : a < b := by
          rcases lex_trichotomy a b with h' | h' | h'
          · exact h'
          · exact absurd h' hab
          · exact absurd h' (h.1 b (List.mem_cons_self ..))
        refine ⟨List.pairwise_cons.mpr ⟨?_, ih1⟩, fun z => ?_⟩
        · intro c hc
          have hc' := (ih2 c).mp hc
          rcases List.mem_cons.mp hc' with rfl | hct
          · exact hltb
          · have hbc : ¬ c < b := (List.pairwise_cons.mp h.2).1 c hct
            rcases lex_trichotomy b c with h' | h' | h'
            · exact lex_trans hltb h'
            · rw [← h']; exact hltb
            · exact absurd h' hbc
        · rw [List.mem_cons, ih2 z]; simp

/-- `specPermutations d` is strictly increasing and its members are exactly the arrangements of `d`. -/
theorem specPermutations_char (d : List Int) :
    (specPermutations d).Pairwise (· < ·) ∧ ∀ z, z ∈ specPermutations d ↔ z.Perm d := by
  unfold specPermutations
  have hsorted : ((allPerms d).mergeSort lexLeB).Pairwise (fun a b => ¬ b < a) := by
    have := List.pairwise_mergeSort (le := lexLeB)
      (by intro a b c h1 h2; rw [lexLeB_iff] at h1 h2 ⊢; exact lex_le_trans h1 h2)
      (by
        intro a b
        rw [Bool.or_eq_true, lexLeB_iff, lexLeB_iff]
        rcases lex_trichotomy a b with h | h | h
        · exact Or.inl (fun h' => lex_asymm h h')
        · rw [h]; exact Or.inl (lex_irrefl _)
        · exact Or.inr (fun h' => lex_asymm h h'))
      (allPerms d)
    exact this.imp (fun h => (lexLeB_iff _ _).mp h)
  obtain ⟨h1, h2⟩ := dedupAdj_spec _ hsorted
  refine ⟨h1, fun z => ?_⟩
  rw [h2 z, List.mem_mergeSort, mem_allPerms]

/-- Two non-decreasing arrangements of the same elements are equal. -/
theorem nonDec_unique {a b : List Int} (ha : NonDec a) (hb : NonDec b) (h : a.Perm b) : a = b := by
  rcases lex_trichotomy a b with h' | h' | h'
  · exact absurd h' (nonDec_min b a hb h)
  · exact h'
  · exact absurd h' (nonDec_min a b ha h.symm)

/-- The by-definition successor (`specNextPermutation`) is what the structural `nextPermutation` computes. -/
theorem specNextPermutation_eq (xs : List Int) : specNextPermutation xs = nextPermutation xs := by
  obtain ⟨hs, hm⟩ := specPermutations_char xs
  unfold specNextPermutation nextPermutation
  cases hnp : np xs with
  | none =>
    have hInc := (np_none_iff xs).mp hnp
    have hnil : (specPermutations xs).filter (fun zs => lexLtB xs zs) = [] := by
      rw [List.filter_eq_nil_iff]
      intro z hz
      rw [lexLtB_iff]
      exact nonInc_max xs z hInc ((hm z).mp hz)
    rw [hnil]
    simp only
    have : sortInts xs = xs.reverse :=
      nonDec_unique (sortInts_nonDec xs) (List.pairwise_reverse.mpr (hInc.imp (fun h => h)))
        ((sortInts_perm xs).trans (List.reverse_perm xs).symm)
    rw [this]
  | some v =>
    obtain ⟨hv1, hv2, hv3⟩ := np_spec xs v hnp
    have hvmem : v ∈ (specPermutations xs).filter (fun zs => lexLtB xs zs) := by
      rw [List.mem_filter, lexLtB_iff]
      exact ⟨(hm v).mpr hv1, hv2⟩
    have hfs : ((specPermutations xs).filter (fun zs => lexLtB xs zs)).Pairwise (· < ·) := hs.filter _
    cases hf : (specPermutations xs).filter (fun zs => lexLtB xs zs) with
    | nil => rw [hf] at hvmem; cases hvmem
    | cons h t =>
      simp only
      rw [hf] at hvmem hfs
      have hhmem : h ∈ (specPermutations xs).filter (fun zs => lexLtB xs zs) := by
        rw [hf]; exact List.mem_cons_self ..
      rw [List.mem_filter, lexLtB_iff] at hhmem
      have hnot : ¬ h < v := hv3 h ((hm h).mp hhmem.1) hhmem.2
      rcases List.mem_cons.mp hvmem with e | hvt
      · rw [e]
      · exact absurd ((List.pairwise_cons.mp hfs).1 v hvt) hnot

end Rlib.Iter
