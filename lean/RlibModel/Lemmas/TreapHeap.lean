import RlibModel.Lemmas.Treap
/-!
Helper lemmas for C16: min-heap order on priorities is preserved by every operation
(`merge_heap`, `splitAt_heap` ported from `spikes/TreapHeap.lean`), walks keep the shape, and a
heap-ordered tree with pairwise distinct priorities is the Cartesian tree of its in-order
priority sequence.
-/
namespace Rlib.Treap
variable {T E G M V : Type} (I : TItem T E G M V)

/-- root priority is at least `p` (vacuous for the empty tree) -/
def rootGe (p : Nat) : Tree T → Prop
  | .nil => True
  | .node _ q _ _ => p ≤ q

/-- min-heap on priorities along every edge -/
def Heap : Tree T → Prop
  | .nil => True
  | .node _ p l r => rootGe p l ∧ rootGe p r ∧ Heap l ∧ Heap r

theorem rootGeB_iff (p : Nat) (t : Tree T) : rootGeB p t = true ↔ rootGe p t := by
  cases t <;> simp [rootGeB, rootGe]

theorem isHeap_iff (t : Tree T) : isHeap t = true ↔ Heap t := by
  induction t with
  | nil => simp [isHeap, Heap]
  | node it p l r ihl ihr => simp [isHeap, Heap, rootGeB_iff, ihl, ihr, and_assoc]

theorem rootGe_setItem (p : Nat) (t : Tree T) (o : Option T) : rootGe p (t.setItem? o) ↔ rootGe p t := by
  cases t <;> cases o <;> simp [Tree.setItem?, rootGe]
theorem Heap_setItem (t : Tree T) (o : Option T) : Heap (t.setItem? o) ↔ Heap t := by
  cases t <;> cases o <;> simp [Tree.setItem?, Heap]

theorem rootGe_mono {p q : Nat} (h : p ≤ q) (t : Tree T) : rootGe q t → rootGe p t := by
  cases t <;> simp [rootGe]; omega

theorem Heap_single (it : T) (p : Nat) : Heap (single it p) := by simp [single, Heap, rootGe]

/-! ### shape-level facts: `skel` -/

@[simp] theorem skel_setItem (t : Tree T) (o : Option T) : skel (t.setItem? o) = skel t := by
  cases t <;> cases o <;> rfl

theorem rootGe_skel (p : Nat) (t : Tree T) : rootGe p (skel t) ↔ rootGe p t := by
  cases t <;> simp [skel, rootGe]

theorem Heap_skel (t : Tree T) : Heap (skel t) ↔ Heap t := by
  induction t with
  | nil => simp [skel, Heap]
  | node it p l r ihl ihr => simp [skel, Heap, rootGe_skel, ihl, ihr]

theorem Heap_of_skel_eq {a b : Tree T} (h : skel a = skel b) (hb : Heap b) : Heap a := by
  rw [← Heap_skel] at hb ⊢; rw [h]; exact hb

theorem prios_skel (t : Tree T) : prios (skel t) = prios t := by
  induction t with
  | nil => rfl
  | node it p l r ihl ihr => simp [skel, prios, ihl, ihr]

theorem height_skel (t : Tree T) : height (skel t) = height t := by
  induction t with
  | nil => rfl
  | node it p l r ihl ihr => simp [skel, height, ihl, ihr]

theorem skel_first (t : Tree T) : skel (first I t).2 = skel t := by
  fun_induction first I t with
  | case1 => rfl
  | case2 => rfl
  | case3 it p il pl ll rl r q s ih =>
    simp only [skel] at ih ⊢
    rw [ih]; simp [q, pushParts, skel]

theorem skel_last (t : Tree T) : skel (last I t).2 = skel t := by
  fun_induction last I t with
  | case1 => rfl
  | case2 => rfl
  | case3 it p l ir pr lr rr q s ih =>
    simp only [skel] at ih ⊢
    rw [ih]; simp [q, pushParts, skel]

theorem skel_collect (t : Tree T) : skel (collect I t).2 = skel t := by
  fun_induction collect I t with
  | case1 => rfl
  | case2 it p l r q a b iha ihb =>
    simp only [skel] at iha ihb ⊢
    rw [iha, ihb]; simp [q, pushParts]

theorem skel_pick (w : Nat) (t : Tree T) : skel (pick I w t).2 = skel t := by
  unfold pick
  split
  · exact skel_first I t
  · split
    · exact skel_last I t
    · exact skel_collect I t

theorem Heap_ofItem? (o : Option T) (p : Nat) : Heap (ofItem? o p) := by
  cases o with
  | none => trivial
  | some it => exact Heap_single it p

theorem skel_tagRoot (m : M) (t : Tree T) : skel (tagRoot I m t) = skel t := by
  cases t <;> rfl

/-! ### merge / split keep the heap order -/

theorem merge_heap (a b : Tree T) (ha : Heap a) (hb : Heap b) :
    Heap (merge I a b) ∧ ∀ p, rootGe p a → rootGe p b → rootGe p (merge I a b) := by
  fun_induction merge I a b with
  | case1 b => exact ⟨hb, fun _ _ h => h⟩
  | case2 a _ => exact ⟨ha, fun _ h _ => h⟩
  | case3 ia pa_ la ra ib pb lb rb hlt q ih =>
    obtain ⟨h1, h2, h3, h4⟩ := ha
    have hq1 : rootGe pa_ q.2.1 := by simp only [q, pushParts, rootGe_setItem]; exact h1
    have hq2 : rootGe pa_ q.2.2 := by simp only [q, pushParts, rootGe_setItem]; exact h2
    have hH1 : Heap q.2.1 := by simp only [q, pushParts, Heap_setItem]; exact h3
    have hH2 : Heap q.2.2 := by simp only [q, pushParts, Heap_setItem]; exact h4
    obtain ⟨i1, i2⟩ := ih hH2 hb
    refine ⟨⟨hq1, i2 pa_ hq2 (by simp only [rootGe]; omega), hH1, i1⟩, ?_⟩
    intro p hp _; simpa [upd, rootGe] using hp
  | case4 ia pa_ la ra ib pb lb rb hlt q ih =>
    obtain ⟨h1, h2, h3, h4⟩ := hb
    have hq1 : rootGe pb q.2.1 := by simp only [q, pushParts, rootGe_setItem]; exact h1
    have hq2 : rootGe pb q.2.2 := by simp only [q, pushParts, rootGe_setItem]; exact h2
    have hH1 : Heap q.2.1 := by simp only [q, pushParts, Heap_setItem]; exact h3
    have hH2 : Heap q.2.2 := by simp only [q, pushParts, Heap_setItem]; exact h4
    obtain ⟨i1, i2⟩ := ih ha hH1
    refine ⟨⟨i2 pb (by simp only [rootGe]; omega) hq1, hq2, i1, hH2⟩, ?_⟩
    intro p _ hp; simpa [upd, rootGe] using hp

theorem splitAt_heap (t : Tree T) (pos : Nat) (h : Heap t) :
    Heap (splitAt I t pos).1 ∧ Heap (splitAt I t pos).2 ∧
    ∀ p, rootGe p t → rootGe p (splitAt I t pos).1 ∧ rootGe p (splitAt I t pos).2 := by
  fun_induction splitAt I t pos with
  | case1 pos => simp [Heap, rootGe]
  | case2 pos it p l r q lsz hgt s ih =>
    obtain ⟨h1, h2, h3, h4⟩ := h
    have hq1 : rootGe p q.2.1 := by simp only [q, pushParts, rootGe_setItem]; exact h1
    have hq2 : rootGe p q.2.2 := by simp only [q, pushParts, rootGe_setItem]; exact h2
    have hH1 : Heap q.2.1 := by simp only [q, pushParts, Heap_setItem]; exact h3
    have hH2 : Heap q.2.2 := by simp only [q, pushParts, Heap_setItem]; exact h4
    obtain ⟨i1, i2, i3⟩ := ih hH2
    refine ⟨⟨hq1, (i3 p hq2).1, hH1, i1⟩, i2, ?_⟩
    intro p' hp'
    exact ⟨by simpa [upd, rootGe] using hp', rootGe_mono (by simpa [rootGe] using hp') _ (i3 p hq2).2⟩
  | case3 pos it p l r q lsz hle s ih =>
    obtain ⟨h1, h2, h3, h4⟩ := h
    have hq1 : rootGe p q.2.1 := by simp only [q, pushParts, rootGe_setItem]; exact h1
    have hq2 : rootGe p q.2.2 := by simp only [q, pushParts, rootGe_setItem]; exact h2
    have hH1 : Heap q.2.1 := by simp only [q, pushParts, Heap_setItem]; exact h3
    have hH2 : Heap q.2.2 := by simp only [q, pushParts, Heap_setItem]; exact h4
    obtain ⟨i1, i2, i3⟩ := ih hH1
    refine ⟨i1, ⟨(i3 p hq1).2, hq2, i2, hH2⟩, ?_⟩
    intro p' hp'
    exact ⟨rootGe_mono (by simpa [rootGe] using hp') _ (i3 p hq1).1, by simpa [upd, rootGe] using hp'⟩

/-- for **any** predicate (monotone or not): splits only cut edges -/
theorem splitBy_heap (pred : T → Bool) (t : Tree T) (h : Heap t) :
    Heap (splitBy I pred t).1 ∧ Heap (splitBy I pred t).2 ∧
    ∀ p, rootGe p t → rootGe p (splitBy I pred t).1 ∧ rootGe p (splitBy I pred t).2 := by
  fun_induction splitBy I pred t with
  | case1 => simp [Heap, rootGe]
  | case2 it p l r q hgt s ih =>
    obtain ⟨h1, h2, h3, h4⟩ := h
    have hq1 : rootGe p q.2.1 := by simp only [q, pushParts, rootGe_setItem]; exact h1
    have hq2 : rootGe p q.2.2 := by simp only [q, pushParts, rootGe_setItem]; exact h2
    have hH1 : Heap q.2.1 := by simp only [q, pushParts, Heap_setItem]; exact h3
    have hH2 : Heap q.2.2 := by simp only [q, pushParts, Heap_setItem]; exact h4
    obtain ⟨i1, i2, i3⟩ := ih hH2
    refine ⟨⟨hq1, (i3 p hq2).1, hH1, i1⟩, i2, ?_⟩
    intro p' hp'
    exact ⟨by simpa [upd, rootGe] using hp', rootGe_mono (by simpa [rootGe] using hp') _ (i3 p hq2).2⟩
  | case3 it p l r q hle s ih =>
    obtain ⟨h1, h2, h3, h4⟩ := h
    have hq1 : rootGe p q.2.1 := by simp only [q, pushParts, rootGe_setItem]; exact h1
    have hq2 : rootGe p q.2.2 := by simp only [q, pushParts, rootGe_setItem]; exact h2
    have hH1 : Heap q.2.1 := by simp only [q, pushParts, Heap_setItem]; exact h3
    have hH2 : Heap q.2.2 := by simp only [q, pushParts, Heap_setItem]; exact h4
    obtain ⟨i1, i2, i3⟩ := ih hH1
    refine ⟨i1, ⟨(i3 p hq1).2, hq2, i2, hH2⟩, ?_⟩
    intro p' hp'
    exact ⟨rootGe_mono (by simpa [rootGe] using hp') _ (i3 p hq1).1, by simpa [upd, rootGe] using hp'⟩

theorem insertAt_heap (t : Tree T) (pos : Nat) (it : T) (p : Nat) (h : Heap t) : Heap (insertAt I t pos it p) := by
  obtain ⟨s1, s2, _⟩ := splitAt_heap I t pos h
  exact (merge_heap I _ _ (merge_heap I _ _ s1 (Heap_single it p)).1 s2).1

theorem removeAt_heap (t : Tree T) (pos : Nat) (h : Heap t) : Heap (removeAt I t pos).2 := by
  obtain ⟨a1, a2, _⟩ := splitAt_heap I t pos h
  obtain ⟨_, b2, _⟩ := splitAt_heap I (splitAt I t pos).2 1 a2
  have := (merge_heap I _ _ a1 b2).1
  simp only [removeAt]
  split <;> exact this

/-! ### histories -/

def AllHeap (ts : List (Tree T)) : Prop := ∀ t ∈ ts, Heap t

variable {I}
theorem AllHeap.get {ts : List (Tree T)} (h : AllHeap ts) {i : Nat} {t : Tree T} (ht : ts[i]? = some t) : Heap t :=
  h t (List.mem_of_getElem? ht)
theorem AllHeap.set {ts : List (Tree T)} (h : AllHeap ts) (i : Nat) {x : Tree T} (hx : Heap x) : AllHeap (ts.set i x) := by
  intro t ht
  rcases List.mem_or_eq_of_mem_set ht with h' | h'
  · exact h t h'
  · exact h' ▸ hx
theorem AllHeap.push {ts : List (Tree T)} (h : AllHeap ts) {x : Tree T} (hx : Heap x) : AllHeap (ts ++ [x]) := by
  intro t ht
  rcases List.mem_append.1 ht with h' | h'
  · exact h t h'
  · exact (List.mem_singleton.1 h') ▸ hx
theorem AllHeap.erase {ts : List (Tree T)} (h : AllHeap ts) (j : Nat) : AllHeap (ts.eraseIdx j) :=
  fun t ht => h t (List.mem_of_mem_eraseIdx ht)
variable (I)

/-- every operation keeps every live treap heap-ordered — no hypothesis on the item, the
    predicates or the priorities -/
theorem step_heap (ts : List (Tree T)) (op : Op E M V) (h : AllHeap ts) :
    ∀ r : List (Tree T) × Obs E G, stepM I ts op = some r → AllHeap r.1 := by
  intro r hr
  cases op with
  | new => simp only [stepM, Option.some.injEq] at hr; subst hr; exact h.push trivial
  | item v p => simp only [stepM, Option.some.injEq] at hr; subst hr; exact h.push (Heap_single _ _)
  | merge i j =>
    simp only [stepM] at hr
    split at hr
    · cases hr
    · split at hr
      · rename_i a b hti htj
        simp only [Option.some.injEq] at hr; subst hr
        exact (h.set i (merge_heap I a b (h.get hti) (h.get htj)).1).erase j
      · cases hr
  | splitAt i k =>
    simp only [stepM] at hr
    split at hr
    · rename_i t hti
      simp only [Option.some.injEq] at hr; subst hr
      obtain ⟨s1, s2, _⟩ := splitAt_heap I t k (h.get hti)
      exact (h.set i s1).push s2
    · cases hr
  | splitBy i g =>
    simp only [stepM] at hr
    split at hr
    · rename_i t hti
      simp only [Option.some.injEq] at hr; subst hr
      obtain ⟨s1, s2, _⟩ := splitBy_heap I (fun it => g (I.own it)) t (h.get hti)
      exact (h.set i s1).push s2
    · cases hr
  | insertAt i k v p =>
    simp only [stepM] at hr
    split at hr
    · rename_i t hti
      simp only [Option.some.injEq] at hr; subst hr
      exact h.set i (insertAt_heap I t k _ p (h.get hti))
    · cases hr
  | removeAt i k =>
    simp only [stepM] at hr
    split at hr
    · rename_i t hti
      simp only [Option.some.injEq] at hr; subst hr
      exact h.set i (removeAt_heap I t k (h.get hti))
    · cases hr
  | first i =>
    simp only [stepM] at hr
    split at hr
    · rename_i t hti
      simp only [Option.some.injEq] at hr; subst hr
      exact h.set i (Heap_of_skel_eq (skel_first I t) (h.get hti))
    · cases hr
  | last i =>
    simp only [stepM] at hr
    split at hr
    · rename_i t hti
      simp only [Option.some.injEq] at hr; subst hr
      exact h.set i (Heap_of_skel_eq (skel_last I t) (h.get hti))
    · cases hr
  | collect i =>
    simp only [stepM] at hr
    split at hr
    · rename_i t hti
      simp only [Option.some.injEq] at hr; subst hr
      exact h.set i (Heap_of_skel_eq (skel_collect I t) (h.get hti))
    · cases hr
  | size i =>
    simp only [stepM] at hr
    split at hr
    · simp only [Option.some.injEq] at hr; subst hr; exact h
    · cases hr
  | agg i =>
    simp only [stepM] at hr
    split at hr
    · simp only [Option.some.injEq] at hr; subst hr; exact h
    · cases hr
  | tag i m =>
    simp only [stepM] at hr
    split at hr
    · rename_i t hti
      simp only [Option.some.injEq] at hr; subst hr
      exact h.set i (Heap_of_skel_eq (skel_tagRoot I m t) (h.get hti))
    · cases hr
  | drop i =>
    simp only [stepM] at hr
    split at hr
    · simp only [Option.some.injEq] at hr; subst hr; exact h.erase i
    · cases hr
  | moveAt i k j pos p =>
    simp only [stepM] at hr
    split at hr
    · rename_i t u0 hti htj
      have h1 : AllHeap (ts.set i (removeAt I t k).2) := h.set i (removeAt_heap I t k (h.get hti))
      split at hr
      · simp only [Option.some.injEq] at hr; subst hr; exact h1
      · split at hr
        · rename_i u huj
          simp only [Option.some.injEq] at hr; subst hr
          exact h1.set j (insertAt_heap I u pos _ p (h1.get huj))
        · cases hr
    · cases hr
  | takeAt i k p =>
    simp only [stepM] at hr
    split at hr
    · rename_i t hti
      have h1 : AllHeap (ts.set i (removeAt I t k).2) := h.set i (removeAt_heap I t k (h.get hti))
      split at hr
      · simp only [Option.some.injEq] at hr; subst hr; exact h1
      · simp only [Option.some.injEq] at hr; subst hr; exact h1.push (Heap_single _ _)
    · cases hr
  | dup i w p =>
    simp only [stepM] at hr
    split at hr
    · rename_i t hti
      split at hr
      · simp only [Option.some.injEq] at hr; subst hr
        exact (h.set i (Heap_of_skel_eq (skel_pick I w t) (h.get hti))).push (Heap_ofItem? _ _)
      · simp only [Option.some.injEq] at hr; subst hr; exact h.push trivial
    · cases hr
  | collect2 i j =>
    simp only [stepM] at hr
    split at hr
    · cases hr
    · split at hr
      · rename_i a b hti htj
        simp only [Option.some.injEq] at hr; subst hr
        exact (h.set i (Heap_of_skel_eq (skel_collect I a) (h.get hti))).set j (Heap_of_skel_eq (skel_collect I b) (h.get htj))
      · cases hr
  | insertTag i k v m p =>
    simp only [stepM] at hr
    split at hr
    · rename_i t hti
      simp only [Option.some.injEq] at hr; subst hr
      exact h.set i (insertAt_heap I t k _ p (h.get hti))
    · cases hr
  | moveRoot i w j pos p =>
    simp only [stepM] at hr
    split at hr
    · rename_i t u0 hti htj
      have hx : Heap (if w = 0 then Tree.nil else t) := by
        split
        · trivial
        · exact h.get hti
      have h1 : AllHeap (ts.set i (if w = 0 then Tree.nil else t)) := h.set i hx
      split at hr
      · simp only [Option.some.injEq] at hr; subst hr; exact h
      · split at hr
        · rename_i u huj
          simp only [Option.some.injEq] at hr; subst hr
          exact h1.set j (insertAt_heap I u pos _ p (h1.get huj))
        · cases hr
    · cases hr

theorem run_heap (ops : List (Op E M V)) (ts : List (Tree T)) (h : AllHeap ts) :
    ∀ r : List (Tree T) × List (Obs E G), runM I ts ops = some r → AllHeap r.1 := by
  induction ops generalizing ts with
  | nil => intro r hr; simp only [runM, Option.some.injEq] at hr; subst hr; exact h
  | cons op ops ih =>
    intro r hr
    simp only [runM] at hr
    cases hm : stepM (G := G) I ts op with
    | none => rw [hm] at hr; cases hr
    | some r1 =>
      obtain ⟨ts', o⟩ := r1
      rw [hm] at hr
      simp only at hr
      cases hr2 : runM (G := G) I ts' ops with
      | none => rw [hr2] at hr; cases hr
      | some r2 =>
        obtain ⟨ts'', os⟩ := r2
        rw [hr2] at hr
        simp only [Option.some.injEq] at hr; subst hr
        exact ih ts' (step_heap I ts op h _ hm) (ts'', os) hr2

/-! ### priorities travel with their elements -/

@[simp] theorem prios_setItem (t : Tree T) (o : Option T) : prios (t.setItem? o) = prios t := by
  cases t <;> cases o <;> rfl

theorem prios_length (t : Tree T) : (prios t).length = t.count := by
  induction t with
  | nil => rfl
  | node it p l r ihl ihr => simp [prios, Tree.count, ihl, ihr]; omega

theorem prios_merge (a b : Tree T) : prios (merge I a b) = prios a ++ prios b := by
  fun_induction merge I a b with
  | case1 b => simp [prios]
  | case2 a _ => simp [prios]
  | case3 ia pa_ la ra ib pb lb rb hlt q ih =>
    simp only [upd, prios, ih]
    simp [q, pushParts]
  | case4 ia pa_ la ra ib pb lb rb hlt q ih =>
    simp only [upd, prios, ih]
    simp [q, pushParts]

theorem prios_splitAt (hI : Lawful I) (t : Tree T) (pos : Nat) (h : WFt I t) :
    prios (splitAt I t pos).1 = (prios t).take pos ∧ prios (splitAt I t pos).2 = (prios t).drop pos := by
  fun_induction splitAt I t pos with
  | case1 pos => simp [prios]
  | case2 pos it p l r q lsz hgt s ih =>
    have hwl : WFt I q.2.1 := WFt_pushParts_l I hI it l r h.1
    have hwr : WFt I q.2.2 := WFt_pushParts_r I hI it l r h.2.1
    have hlsz : lsz = l.count := by
      simp only [lsz]; rw [item_sz I _ hwl]; simp [q]
    obtain ⟨i1, i2⟩ := ih hwr
    have e2 : prios q.2.2 = prios r := by simp [q, pushParts]
    have e1 : prios q.2.1 = prios l := by simp [q, pushParts]
    rw [e2] at i1 i2
    refine ⟨?_, ?_⟩
    · simp only [upd, prios, e1]
      rw [take_mid _ _ _ pos (pos - lsz - 1) (by rw [prios_length]; omega), show prios s.1 = _ from i1]
    · simp only [prios]; rw [i2, drop_mid _ _ _ pos (pos - lsz - 1) (by rw [prios_length]; omega)]
  | case3 pos it p l r q lsz hle s ih =>
    have hwl : WFt I q.2.1 := WFt_pushParts_l I hI it l r h.1
    have hlsz : lsz = l.count := by
      simp only [lsz]; rw [item_sz I _ hwl]; simp [q]
    obtain ⟨i1, i2⟩ := ih hwl
    have e2 : prios q.2.2 = prios r := by simp [q, pushParts]
    have e1 : prios q.2.1 = prios l := by simp [q, pushParts]
    rw [e1] at i1 i2
    refine ⟨?_, ?_⟩
    · simp only [prios]; rw [i1, List.take_append_of_le_length (by rw [prios_length]; omega)]
    · simp only [upd, prios, e2]
      rw [List.drop_append_of_le_length (by rw [prios_length]; omega), show prios s.2 = _ from i2]

theorem prios_insertAt (hI : Lawful I) (t : Tree T) (pos : Nat) (it : T) (p : Nat) (h : WFt I t) :
    prios (insertAt I t pos it p) = (prios t).take pos ++ p :: (prios t).drop pos := by
  obtain ⟨s1, s2⟩ := prios_splitAt I hI t pos h
  simp [insertAt, prios_merge, s1, s2, single, prios]

/-! ### the shape is canonical -/

theorem nodupB_iff (l : List Nat) : nodupB l = true ↔ l.Nodup := by
  induction l with
  | nil => simp [nodupB]
  | cons x xs ih => simp [nodupB, ih, List.nodup_cons]

theorem prios_ge (t : Tree T) (h : Heap t) (p : Nat) (hp : rootGe p t) : ∀ q ∈ prios t, p ≤ q := by
  induction t generalizing p with
  | nil => intro q hq; simp [prios] at hq
  | node it p' l r ihl ihr =>
    obtain ⟨h1, h2, h3, h4⟩ := h
    have hpp : p ≤ p' := hp
    intro q hq
    simp only [prios, List.mem_append, List.mem_cons] at hq
    rcases hq with hq | rfl | hq
    · exact ihl h3 p (rootGe_mono hpp _ h1) q hq
    · exact hpp
    · exact ihr h4 p (rootGe_mono hpp _ h2) q hq

theorem cartShape_append (A B : List Nat) : cartShape (A ++ B) = A.foldr consLeft (cartShape B) := by
  induction A with
  | nil => rfl
  | cons a A ih => simp [cartShape, ih]

theorem foldr_consLeft_node (A : List Nat) (p : Nat) (L R : Tree Unit) (h : ∀ a ∈ A, p ≤ a) :
    A.foldr consLeft (.node () p L R) = .node () p (A.foldr consLeft L) R := by
  induction A with
  | nil => rfl
  | cons a A ih =>
    have ha : ¬ a < p := by have := h a (List.mem_cons_self); omega
    rw [List.foldr_cons, ih (fun b hb => h b (List.mem_cons_of_mem _ hb))]
    simp [consLeft, ha]

/-- A heap-ordered tree whose priorities are pairwise distinct is the Cartesian tree of its
    in-order priority sequence: the shape does not depend on the history that produced it. -/
theorem skel_eq_cartShape (t : Tree T) (h : Heap t) (hd : (prios t).Nodup) : skel t = cartShape (prios t) := by
  induction t with
  | nil => rfl
  | node it p l r ihl ihr =>
    obtain ⟨h1, h2, h3, h4⟩ := h
    simp only [prios] at hd ⊢
    obtain ⟨dl, dr, dlr⟩ := List.pairwise_append.1 hd
    have dr' := List.nodup_cons.1 dr
    have e1 : cartShape (p :: prios r) = .node () p .nil (skel r) := by
      rw [cartShape, ← ihr h4 dr'.2]
      cases r with
      | nil => rfl
      | node ir q rl rr =>
        have hq : p ≤ q := h2
        have hne : p ≠ q := by
          intro e; apply dr'.1; rw [e]; simp [prios]
        simp only [skel, consLeft]
        rw [if_pos (by omega)]
    rw [cartShape_append, e1, foldr_consLeft_node _ _ _ _ (prios_ge l h3 p h1)]
    have e2 : (prios l).foldr consLeft .nil = cartShape (prios l) := by
      have := cartShape_append (prios l) []
      simpa [cartShape] using this.symm
    rw [e2, ← ihl h3 dl]
    rfl

end Rlib.Treap
