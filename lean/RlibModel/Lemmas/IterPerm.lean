import RlibModel.Model.Iter
/-!
Helper lemmas for `next_permutation` / `iter_permutations` of C15 (`permutations.rs`).
Part 1: the structural formulation `np` computes the lexicographic successor (ported from the spike).
Core Lean only; `<` on `List Int` is core's lexicographic order.
-/
namespace Rlib.Iter

abbrev NonInc (l : List Int) : Prop := l.Pairwise (· ≥ ·)
abbrev NonDec (l : List Int) : Prop := l.Pairwise (· ≤ ·)

theorem nonInc_cons {a : Int} {l : List Int} : NonInc (a :: l) ↔ (∀ y ∈ l, a ≥ y) ∧ NonInc l := List.pairwise_cons
theorem nonDec_cons {a : Int} {l : List Int} : NonDec (a :: l) ↔ (∀ y ∈ l, a ≤ y) ∧ NonDec l := List.pairwise_cons

theorem lex_cons {a b : Int} {as bs : List Int} : a :: as < b :: bs ↔ a < b ∨ (a = b ∧ as < bs) :=
  List.cons_lt_cons_iff

theorem lex_irrefl : ∀ l : List Int, ¬ l < l
  | [] => List.not_lt_nil _
  | a :: as => by
    rw [lex_cons]
    rintro (h | ⟨_, h⟩)
    · omega
    · exact lex_irrefl as h

/-- A non-increasing list is the lexicographically greatest arrangement of its elements. -/
theorem nonInc_max : ∀ (l zs : List Int), NonInc l → zs.Perm l → ¬ l < zs := by
  intro l
  induction l with
  | nil => intro zs _ hp; rw [List.perm_nil.mp hp]; exact List.not_lt_nil _
  | cons a l ih =>
    intro zs hs hp
    cases zs with
    | nil => exact List.not_lt_nil _
    | cons z zs' =>
      rw [nonInc_cons] at hs
      rw [lex_cons]
      rintro (h | ⟨rfl, h⟩)
      · have hz : z ∈ a :: l := hp.subset (List.mem_cons_self ..)
        rcases List.mem_cons.mp hz with rfl | hz
        · omega
        · have := hs.1 z hz; omega
      · exact ih zs' hs.2 (List.Perm.cons_inv hp) h

/-- A non-decreasing list is the least arrangement. -/
theorem nonDec_min : ∀ (l zs : List Int), NonDec l → zs.Perm l → ¬ zs < l := by
  intro l
  induction l with
  | nil => intro zs _ hp; rw [List.perm_nil.mp hp]; exact List.not_lt_nil _
  | cons a l ih =>
    intro zs hs hp
    cases zs with
    | nil => exact absurd hp.length_eq (by simp)
    | cons z zs' =>
      rw [nonDec_cons] at hs
      rw [lex_cons]
      rintro (h | ⟨rfl, h⟩)
      · have hz : z ∈ a :: l := hp.subset (List.mem_cons_self ..)
        rcases List.mem_cons.mp hz with rfl | hz
        · omega
        · have := hs.1 z hz; omega
      · exact ih zs' hs.2 (List.Perm.cons_inv hp) h

theorem np_none_iff : ∀ xs, np xs = none ↔ NonInc xs := by
  intro xs
  induction xs with
  | nil => simp [np]
  | cons x rest ih =>
    unfold np
    cases h : np rest with
    | some r =>
      simp only [reduceCtorEq, false_iff]
      intro hs; rw [nonInc_cons] at hs
      have := ih.mpr hs.2; rw [h] at this; cases this
    | none =>
      have hr := ih.mp h
      cases rest with
      | nil => simp
      | cons hd tl =>
        simp only
        by_cases hx : x < hd
        · simp only [hx, if_true, reduceCtorEq, false_iff]
          intro hs; rw [nonInc_cons] at hs
          have := hs.1 hd (List.mem_cons_self ..); omega
        · simp only [hx, if_false, true_iff]
          rw [nonInc_cons]
          refine ⟨?_, hr⟩
          intro y hy
          rw [nonInc_cons] at hr
          rcases List.mem_cons.mp hy with rfl | hy
          · omega
          · have := hr.1 y hy; omega

theorem dropWhile_le (x : Int) : ∀ l : List Int, NonInc l → ∀ o ∈ l.dropWhile (· > x), o ≤ x := by
  intro l
  induction l with
  | nil => intro _ o ho; simp at ho
  | cons a l ih =>
    intro hs o ho
    rw [nonInc_cons] at hs
    by_cases ha : a > x
    · rw [List.dropWhile_cons_of_pos (by simpa using ha)] at ho; exact ih hs.2 o ho
    · rw [List.dropWhile_cons_of_neg (by simpa using ha)] at ho
      rcases List.mem_cons.mp ho with rfl | ho
      · omega
      · have := hs.1 o ho; omega

theorem takeWhile_gt (x : Int) : ∀ l : List Int, ∀ b ∈ l.takeWhile (· > x), b > x := by
  intro l
  induction l with
  | nil => intro b hb; simp at hb
  | cons a l ih =>
    intro b hb
    by_cases ha : a > x
    · rw [List.takeWhile_cons_of_pos (by simpa using ha)] at hb
      rcases List.mem_cons.mp hb with rfl | hb
      · exact ha
      · exact ih b hb
    · rw [List.takeWhile_cons_of_neg (by simpa using ha)] at hb; simp at hb

/-- What `swapRev x rest` is, for a non-increasing `rest` whose head exceeds `x`:
    `rest = D ++ [y] ++ O` with `D ≥ y > x ≥ O`. -/
structure SwapFacts (x : Int) (rest : List Int) (y : Int) (D O : List Int) : Prop where
  eq : swapRev x rest = y :: (O.reverse ++ x :: D.reverse)
  split : rest = (D ++ [y]) ++ O
  ygt : y > x
  dge : ∀ d ∈ D, d ≥ y
  ole : ∀ o ∈ O, o ≤ x
  dInc : NonInc D
  oInc : NonInc O

theorem swapFacts (x hd : Int) (tl : List Int) (hs : NonInc (hd :: tl)) (hx : x < hd) :
    ∃ y D O, SwapFacts x (hd :: tl) y D O := by
  have hB : (hd :: tl).takeWhile (· > x) = hd :: tl.takeWhile (· > x) :=
    List.takeWhile_cons_of_pos (by simpa using hx)
  have hne : (hd :: tl).takeWhile (· > x) ≠ [] := by rw [hB]; simp
  obtain ⟨y, hy, hsplitB⟩ : ∃ y, ((hd :: tl).takeWhile (· > x)).getLast? = some y ∧
      ((hd :: tl).takeWhile (· > x)).dropLast ++ [y] = (hd :: tl).takeWhile (· > x) :=
    ⟨_, List.getLast?_eq_some_getLast hne, List.dropLast_concat_getLast hne⟩
  have hsplit : hd :: tl = (((hd :: tl).takeWhile (· > x)).dropLast ++ [y]) ++ (hd :: tl).dropWhile (· > x) := by
    rw [hsplitB, List.takeWhile_append_dropWhile]
  have hs' := hs
  rw [hsplit] at hs'
  have hs'' : NonInc ((hd :: tl).takeWhile (· > x)).dropLast ∧ _ := (List.pairwise_append.mp (List.pairwise_append.mp hs').1)
  have hyB : y ∈ (hd :: tl).takeWhile (· > x) := by rw [← hsplitB]; simp
  refine ⟨y, _, _, ⟨by simp only [swapRev, hy], hsplit, takeWhile_gt x _ y hyB, ?_,
    dropWhile_le x _ hs, hs''.1, (List.pairwise_append.mp hs').2.1⟩⟩
  intro d hd'
  exact hs''.2.2 d hd' y (by simp)

theorem swap_perm {x y : Int} {rest D O : List Int} (h : SwapFacts x rest y D O) :
    (swapRev x rest).Perm (x :: rest) := by
  rw [h.eq, h.split]
  apply List.perm_iff_count.mpr
  intro a
  simp [List.count_cons, List.count_append, List.count_reverse]
  omega

theorem swap_tail_nonDec {x y : Int} {rest D O : List Int} (h : SwapFacts x rest y D O) :
    NonDec (O.reverse ++ x :: D.reverse) := by
  apply List.pairwise_append.mpr
  refine ⟨List.pairwise_reverse.mpr ?_, ?_, ?_⟩
  · exact h.oInc.imp (fun h => h)
  · refine nonDec_cons.mpr ⟨fun d hd => ?_, List.pairwise_reverse.mpr (h.dInc.imp (fun h => h))⟩
    have := h.dge d (List.mem_reverse.mp hd); have := h.ygt; omega
  · intro o ho e he
    have h1 := h.ole o (List.mem_reverse.mp ho)
    rcases List.mem_cons.mp he with rfl | he
    · exact h1
    · have := h.dge e (List.mem_reverse.mp he); have := h.ygt; omega

/-- `np` returns the lexicographic successor among all arrangements (duplicates allowed). -/
theorem np_spec : ∀ xs ys, np xs = some ys →
    ys.Perm xs ∧ xs < ys ∧ ∀ zs, zs.Perm xs → xs < zs → ¬ zs < ys := by
  intro xs
  induction xs with
  | nil => intro ys h; simp [np] at h
  | cons x rest ih =>
    intro ys h
    unfold np at h
    cases hr : np rest with
    | some r =>
      rw [hr] at h; simp only [Option.some.injEq] at h; subst h
      obtain ⟨p1, p2, p3⟩ := ih r hr
      refine ⟨List.Perm.cons x p1, lex_cons.mpr (Or.inr ⟨rfl, p2⟩), ?_⟩
      intro zs hz hlt
      cases zs with
      | nil => exact absurd hz.length_eq (by simp)
      | cons z zs' =>
        rw [lex_cons] at hlt ⊢
        rcases hlt with hlt | ⟨rfl, hlt⟩
        · rintro (h | ⟨h, _⟩) <;> omega
        · rintro (h | ⟨_, h⟩)
          · omega
          · exact p3 zs' (List.Perm.cons_inv hz) hlt h
    | none =>
      rw [hr] at h
      have hInc := (np_none_iff rest).mp hr
      cases rest with
      | nil => simp at h
      | cons hd tl =>
        simp only at h
        by_cases hx : x < hd
        · simp only [hx, if_true, Option.some.injEq] at h; subst h
          obtain ⟨y, D, O, F⟩ := swapFacts x hd tl hInc hx
          have hperm := swap_perm F
          refine ⟨hperm, by rw [F.eq]; exact lex_cons.mpr (Or.inl F.ygt), ?_⟩
          intro zs hz hlt
          cases zs with
          | nil => exact absurd hz.length_eq (by simp)
          | cons z zs' =>
            rw [F.eq]
            rw [lex_cons] at hlt ⊢
            rcases hlt with hlt | ⟨rfl, hlt⟩
            · -- z > x, so z is one of the elements greater than x, hence ≥ y
              have hzmem : z ∈ x :: hd :: tl := hz.subset (List.mem_cons_self ..)
              have hzr : z ∈ hd :: tl := by
                rcases List.mem_cons.mp hzmem with rfl | h
                · omega
                · exact h
              rw [F.split] at hzr
              have hzy : z ≥ y := by
                rcases List.mem_append.mp hzr with h | h
                · rcases List.mem_append.mp h with h | h
                  · exact F.dge z h
                  · simp at h; omega
                · have := F.ole z h; omega
              rintro (h | ⟨rfl, h⟩)
              · omega
              · have hp2 : (z :: zs').Perm (z :: (O.reverse ++ x :: D.reverse)) := by
                  rw [← F.eq]; exact hz.trans hperm.symm
                exact nonDec_min _ zs' (swap_tail_nonDec F) (List.Perm.cons_inv hp2) h
            · exact absurd hlt (nonInc_max _ zs' hInc (List.Perm.cons_inv hz))
        · simp [hx] at h

/-- The `false` branch: exactly on non-increasing input. -/
theorem nextPermutation_false (xs : List Int) :
    (nextPermutation xs).2 = false ↔ NonInc xs := by
  unfold nextPermutation
  cases h : np xs with
  | none => simp [(np_none_iff xs).mp h]
  | some ys =>
    simp only [Bool.true_eq_false, false_iff]
    intro hs; rw [(np_none_iff xs).mpr hs] at h; cases h

/-- … and then the result is the reversed, hence sorted, arrangement. -/
theorem nextPermutation_wrap (xs : List Int) (h : NonInc xs) :
    (nextPermutation xs).1 = xs.reverse ∧ NonDec xs.reverse := by
  unfold nextPermutation
  rw [(np_none_iff xs).mpr h]
  exact ⟨rfl, List.pairwise_reverse.mpr (h.imp (fun h => h))⟩

/-! ## Part 2: the index-level loop of the Rust code computes the same thing (and never panics) -/

theorem nonInc_adj {l : List Int} (h : NonInc l) {k : Nat} {a b : Int}
    (ha : l[k]? = some a) (hb : l[k + 1]? = some b) : a ≥ b := by
  obtain ⟨h1, rfl⟩ := List.getElem?_eq_some_iff.mp ha
  obtain ⟨h2, rfl⟩ := List.getElem?_eq_some_iff.mp hb
  exact (List.pairwise_iff_getElem.mp h) k (k + 1) h1 h2 (by omega)

theorem getElem?_mid (pre : List Int) (x : Int) (R : List Int) (t : Nat) :
    (pre ++ x :: R)[pre.length + 1 + t]? = R[t]? := by
  rw [List.getElem?_append_right (by omega)]
  have : pre.length + 1 + t - pre.length = t + 1 := by omega
  rw [this, List.getElem?_cons_succ]

theorem getElem?_pivot (pre : List Int) (x : Int) (R : List Int) :
    (pre ++ x :: R)[pre.length]? = some x := by
  rw [List.getElem?_append_right (by omega)]
  simp

/-- Every list is non-increasing, or splits at its rightmost ascent. -/
theorem ascent_split : ∀ d : List Int, NonInc d ∨
    ∃ pre x hd tl, d = pre ++ x :: hd :: tl ∧ NonInc (hd :: tl) ∧ x < hd := by
  intro d
  induction d with
  | nil => exact Or.inl List.Pairwise.nil
  | cons a t ih =>
    rcases ih with h | ⟨pre, x, hd, tl, e, h1, h2⟩
    · cases t with
      | nil => exact Or.inl (List.pairwise_singleton _ _)
      | cons hd tl =>
        by_cases hx : a < hd
        · exact Or.inr ⟨[], a, hd, tl, rfl, h, hx⟩
        · left
          rw [nonInc_cons]
          refine ⟨?_, h⟩
          intro y hy
          rw [nonInc_cons] at h
          rcases List.mem_cons.mp hy with rfl | hy
          · omega
          · have := h.1 y hy; omega
    · exact Or.inr ⟨a :: pre, x, hd, tl, by rw [e]; rfl, h1, h2⟩

/-- The structural version on a list split at its rightmost ascent. -/
theorem np_split (x hd : Int) (tl : List Int) (h1 : NonInc (hd :: tl)) (h2 : x < hd) :
    ∀ pre, np (pre ++ x :: hd :: tl) = some (pre ++ swapRev x (hd :: tl)) := by
  intro pre
  induction pre with
  | nil =>
    simp only [List.nil_append]
    unfold np
    rw [(np_none_iff _).mpr h1]
    simp only [h2, if_true]
  | cons p pre ih =>
    simp only [List.cons_append]
    unfold np
    rw [ih]

/-- The scan for the rightmost ascent finds nothing in a non-increasing list. -/
theorem findAscent_nonInc (d : List Int) (h : NonInc d) :
    ∀ k, k ≤ d.length - 1 → findAscent d k = .ok none := by
  intro k
  induction k with
  | zero => intro _; rfl
  | succ k ih =>
    intro hk
    have hk1 : k + 1 < d.length := by omega
    have ha := List.getElem?_eq_getElem (l := d) (i := k) (by omega)
    have hb := List.getElem?_eq_getElem (l := d) (i := k + 1) hk1
    have := nonInc_adj h ha hb
    rw [findAscent, ha, hb]
    simp only
    rw [if_neg (by omega)]
    exact ih (by omega)

/-- The scan stops at the split point. -/
theorem findAscent_split (pre : List Int) (x hd : Int) (tl : List Int)
    (h1 : NonInc (hd :: tl)) (h2 : x < hd) :
    ∀ t, t ≤ tl.length →
      findAscent (pre ++ x :: hd :: tl) (pre.length + t + 1) = .ok (some (pre.length + 1)) := by
  intro t
  induction t with
  | zero =>
    intro _
    have ha := getElem?_pivot pre x (hd :: tl)
    have hb := getElem?_mid pre x (hd :: tl) 0
    rw [findAscent]
    simp only [Nat.add_zero] at hb ⊢
    rw [ha, hb]
    simp only [List.getElem?_cons_zero]
    rw [if_pos h2]
  | succ t ih =>
    intro ht
    have ha := getElem?_mid pre x (hd :: tl) t
    have hb := getElem?_mid pre x (hd :: tl) (t + 1)
    have h1' : pre.length + (t + 1) = pre.length + 1 + t := by omega
    have h2' : pre.length + 1 + t + 1 = pre.length + 1 + (t + 1) := by omega
    have hva := List.getElem?_eq_getElem (l := hd :: tl) (i := t) (by simp; omega)
    have hvb := List.getElem?_eq_getElem (l := hd :: tl) (i := t + 1) (by simp; omega)
    have := nonInc_adj h1 hva hvb
    rw [findAscent, h1', h2', ha, hb, hva, hvb]
    simp only
    rw [if_neg (by omega)]
    have := ih (by omega)
    rw [show pre.length + 1 + t = pre.length + t + 1 by omega]
    exact this

theorem findJ_eq (d : List Int) (i j : Nat) : findJ d i j =
    if j + 1 < d.length then
      match d[j + 1]?, d[i - 1]? with
      | some a, some p => if a > p then findJ d i (j + 1) else .ok j
      | _, _ => .error .index
    else .ok j := by
  exact findJ.eq_1 d i j

/-- The `while` loop stops at the last element greater than the pivot. -/
theorem findJ_split (pre : List Int) (x y : Int) (D O : List Int)
    (hy : y > x) (hD : ∀ e ∈ D, e ≥ y) (hO : ∀ o ∈ O, o ≤ x) :
    ∀ k t, k + t = D.length →
      findJ (pre ++ x :: ((D ++ [y]) ++ O)) (pre.length + 1) (pre.length + 1 + t)
        = .ok (pre.length + 1 + D.length) := by
  intro k
  induction k with
  | zero =>
    intro t ht
    have ht' : t = D.length := by omega
    subst ht'
    rw [findJ_eq]
    by_cases hlen : pre.length + 1 + D.length + 1 < (pre ++ x :: ((D ++ [y]) ++ O)).length
    · rw [if_pos hlen]
      have hO' : 0 < O.length := by simp at hlen; omega
      have ha : (pre ++ x :: ((D ++ [y]) ++ O))[pre.length + 1 + D.length + 1]? = some O[0] := by
        rw [show pre.length + 1 + D.length + 1 = pre.length + 1 + (D.length + 1) by omega, getElem?_mid,
          List.getElem?_append_right (by simp)]
        simp
      have hp : (pre ++ x :: ((D ++ [y]) ++ O))[pre.length + 1 - 1]? = some x := by
        rw [show pre.length + 1 - 1 = pre.length by omega]; exact getElem?_pivot _ _ _
      rw [ha, hp]
      simp only
      have := hO O[0] (List.getElem_mem _)
      rw [if_neg (by omega)]
    · rw [if_neg hlen]
  | succ k ih =>
    intro t ht
    rw [findJ_eq]
    have hlen : pre.length + 1 + t + 1 < (pre ++ x :: ((D ++ [y]) ++ O)).length := by simp; omega
    rw [if_pos hlen]
    have htl : t + 1 < (D ++ [y]).length := by simp; omega
    have ha : (pre ++ x :: ((D ++ [y]) ++ O))[pre.length + 1 + t + 1]? = some ((D ++ [y])[t + 1]) := by
      rw [show pre.length + 1 + t + 1 = pre.length + 1 + (t + 1) by omega, getElem?_mid,
        List.getElem?_append_left htl, List.getElem?_eq_getElem htl]
    have hp : (pre ++ x :: ((D ++ [y]) ++ O))[pre.length + 1 - 1]? = some x := by
      rw [show pre.length + 1 - 1 = pre.length by omega]; exact getElem?_pivot _ _ _
    rw [ha, hp]
    simp only
    have hmem : (D ++ [y])[t + 1] ∈ D ++ [y] := List.getElem_mem _
    have hgt : (D ++ [y])[t + 1] > x := by
      rcases List.mem_append.mp hmem with h | h
      · have := hD _ h; omega
      · simp at h; omega
    rw [if_pos hgt]
    have := ih (t + 1) (by omega)
    rw [show pre.length + 1 + (t + 1) = pre.length + 1 + t + 1 by omega] at this
    exact this

/-- `next_permutation` as the Rust code runs it — index by index — never panics and returns exactly
    what the structural formulation returns. -/
theorem nextPermutationIdx_eq (d : List Int) : nextPermutationIdx d = .ok (nextPermutation d) := by
  rcases ascent_split d with h | ⟨pre, x, hd, tl, e, h1, h2⟩
  · unfold nextPermutationIdx nextPermutation
    rw [findAscent_nonInc d h _ (Nat.le_refl _), (np_none_iff d).mpr h]
  · obtain ⟨y, D, O, F⟩ := swapFacts x hd tl h1 h2
    unfold nextPermutationIdx nextPermutation
    have hlen : d.length - 1 = pre.length + tl.length + 1 := by rw [e]; simp; omega
    have hfa : findAscent d (d.length - 1) = .ok (some (pre.length + 1)) := by
      rw [hlen, e]; exact findAscent_split pre x hd tl h1 h2 tl.length (Nat.le_refl _)
    have hnp : np d = some (pre ++ swapRev x (hd :: tl)) := by rw [e]; exact np_split x hd tl h1 h2 pre
    have e' : d = pre ++ x :: ((D ++ [y]) ++ O) := by rw [e, F.split]
    have hfj : findJ d (pre.length + 1) (pre.length + 1) = .ok (pre.length + 1 + D.length) := by
      have := findJ_split pre x y D O F.ygt F.dge F.ole D.length 0 (by omega)
      rw [e']; exact this
    have hsw : swapAt d (pre.length + 1 - 1) (pre.length + 1 + D.length)
        = .ok (pre ++ y :: ((D ++ [x]) ++ O)) := by
      unfold swapAt
      have hp : d[pre.length + 1 - 1]? = some x := by
        rw [e', show pre.length + 1 - 1 = pre.length by omega]; exact getElem?_pivot _ _ _
      have hj : d[pre.length + 1 + D.length]? = some y := by
        rw [e', getElem?_mid, List.getElem?_append_left (by simp), List.getElem?_append_right (by simp)]
        simp
      rw [hp, hj]
      simp only
      rw [e', show pre.length + 1 - 1 = pre.length by omega]
      rw [List.set_append_right _ _ (Nat.le_refl _), Nat.sub_self, List.set_cons_zero,
        List.set_append_right _ _ (by omega),
        show pre.length + 1 + D.length - pre.length = (D.length) + 1 by omega, List.set_cons_succ,
        List.set_append_left _ _ (by simp), List.set_append_right _ _ (Nat.le_refl _), Nat.sub_self,
        List.set_cons_zero]
    have hrv : reverseFrom (pre ++ y :: ((D ++ [x]) ++ O)) (pre.length + 1)
        = .ok (pre ++ swapRev x (hd :: tl)) := by
      unfold reverseFrom
      rw [if_pos (by simp)]
      have e1 : pre ++ y :: ((D ++ [x]) ++ O) = (pre ++ [y]) ++ ((D ++ [x]) ++ O) := by simp
      rw [e1, List.take_left' (by simp), List.drop_left' (by simp), F.eq]
      simp
    rw [hfa]
    simp only
    rw [hfj]
    simp only
    rw [hsw]
    simp only
    rw [hrv, hnp]

end Rlib.Iter
