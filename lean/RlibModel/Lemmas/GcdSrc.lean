import RlibModel.Generated.GcdSrc
import RlibModel.Lemmas.Gcd
/-!
# The definitions regenerated from `rlib/gcd/src/lib.rs` equal the hand-written model

`Rlib.GcdSrc.*` is written by `tools/rs2lean.py` from the Rust source text on every run of `./check C11`.
For each function, with an explicit sufficient recursion budget, the generated definition returns exactly what the
hand-written model `Rlib.Gcd.*` returns — the value or the same panic — for all integer arguments.  These proofs are
re-checked against the freshly generated text on every run: when the source changes meaning they stop compiling.

The proofs avoid depending on the layout of the generated text more than necessary (they unfold the definition and
let `simp`/`split` normalise it), so that harmless rewrites of the source that survive translation keep them valid.
-/
set_option linter.unusedTactic false
set_option linter.unreachableTactic false
namespace Rlib.GcdSrc
open Rlib

/-- One unfolding of the model's Euclid loop. -/
theorem gcdLoop_step (a b : Int) (hb : b ≠ 0) : Gcd.gcdLoop a b = Gcd.gcdLoop b (a.tmod b) := by
  rw [Gcd.gcdLoop, dif_neg hb]

theorem gcdLoop_zero (a : Int) : Gcd.gcdLoop a 0 = a := by
  rw [Gcd.gcdLoop, dif_pos rfl]

theorem natAbs_tmod_lt (a b : Int) (hb : b ≠ 0) : (a.tmod b).natAbs < b.natAbs := by
  rw [Int.natAbs_tmod]
  exact Nat.mod_lt _ (by omega)

/-! ### Euclid's loop, whatever the source calls it

`gcd` delegates to *some* loop or helper (`gcd_callee0`, an alias the translator emits for the first thing `gcd` calls).  The two
ways of writing Euclid's iteration are covered by one generic lemma each — the recurrence is all they need — so the proofs
below do not mention the helper's name: a `while` loop (the state `(a, b)` comes back) and a tail-recursive helper function
(the value comes back).  Renaming the helper, turning the loop into such a helper or back, `loop { if b == 0 { break } … }`
all leave `gcd_eq_model` valid; a different iteration scheme (e.g. two remainders per round) needs its own lemma here. -/

/-- `while b != 0 { a %= b; swap(a, b) }` as a loop definition: budget `|b| + 1` ⇒ final state `(gcdLoop a b, 0)`. -/
theorem euclid_pair_shape (f : Nat → Int → Int → Except Panic (Int × Int))
    (hs : ∀ n a b, f (n + 1) a b = if b = 0 then .ok (a, b) else f n b (a.tmod b)) :
    ∀ (fuel : Nat) (a b : Int), b.natAbs + 1 ≤ fuel → f fuel a b = .ok (Gcd.gcdLoop a b, 0) := by
  intro fuel
  induction fuel with
  | zero => intro a b h; omega
  | succ n ih =>
    intro a b h
    rw [hs]
    by_cases hb : b = 0
    · subst hb
      simp [gcdLoop_zero]
    · have hlt := natAbs_tmod_lt a b hb
      rw [if_neg hb, gcdLoop_step a b hb, ih b (a.tmod b) (by omega)]

/-- `fn euclid(a, b) { if b == 0 { return a } euclid(b, a % b) }` as a recursive definition. -/
theorem euclid_value_shape (f : Nat → Int → Int → Except Panic Int)
    (hs : ∀ n a b, f (n + 1) a b = if b = 0 then .ok a else f n b (a.tmod b)) :
    ∀ (fuel : Nat) (a b : Int), b.natAbs + 1 ≤ fuel → f fuel a b = .ok (Gcd.gcdLoop a b) := by
  intro fuel
  induction fuel with
  | zero => intro a b h; omega
  | succ n ih =>
    intro a b h
    rw [hs]
    by_cases hb : b = 0
    · subst hb
      simp [gcdLoop_zero]
    · have hlt := natAbs_tmod_lt a b hb
      rw [if_neg hb, gcdLoop_step a b hb, ih b (a.tmod b) (by omega)]

/-- Proves the recurrence of `gcd_callee0` by unfolding it one step (`src_def`: without naming it). -/
macro "euclid_step" : tactic =>
  `(tactic| (intro n a b
             simp only [gcd_callee0, src_def]
             by_cases hb : b = 0 <;> simp [hb] <;> (try (split <;> simp_all))))

/-- `gcd` as translated from the source = the model's `gcd`, for every budget `≥ |b| + 1`. -/
theorem gcd_eq_model (fuel : Nat) (a b : Int) (h : b.natAbs + 1 ≤ fuel) :
    GcdSrc.gcd fuel a b = .ok (Gcd.gcd a b) := by
  have hb : ((b.natAbs : Nat) : Int).natAbs + 1 ≤ fuel := by rw [Int.natAbs_natCast]; exact h
  first
  | (have hl := euclid_pair_shape gcd_callee0 (by euclid_step) fuel (a.natAbs : Int) (b.natAbs : Int) hb
     simp only [gcd_callee0] at hl
     simp only [GcdSrc.gcd, Gcd.gcd, hl])
  | (have hl := euclid_value_shape gcd_callee0 (by euclid_step) fuel (a.natAbs : Int) (b.natAbs : Int) hb
     simp only [gcd_callee0] at hl
     simp only [GcdSrc.gcd, Gcd.gcd, hl])

/-- `lcm` as translated from the source = the model's `lcm` (value, or `divzero` for `(0, 0)`). -/
theorem lcm_eq_model (fuel : Nat) (a b : Int) (h : b.natAbs + 1 ≤ fuel) :
    GcdSrc.lcm fuel a b = Gcd.lcm a b := by
  simp only [GcdSrc.lcm, Gcd.lcm, gcd_eq_model fuel a b h]
  try (split <;> simp_all)

/-- `egcd` as translated from the source = the model's `egcd`, for every budget `≥ |a| + 1`. -/
theorem egcd_eq_model : ∀ (fuel : Nat) (a b c : Int), a.natAbs + 1 ≤ fuel →
    GcdSrc.egcd fuel a b c = Gcd.egcd a b c := by
  intro fuel
  induction fuel with
  | zero => intro a b c h; omega
  | succ n ih =>
    intro a b c h
    by_cases ha : a = 0
    · subst ha
      rw [Gcd.egcd_zero_left]
      by_cases hb : b = 0
      · simp [GcdSrc.egcd, hb]
      · by_cases hc : c.tmod b = 0 <;> simp [GcdSrc.egcd, hb, hc]
    · have hlt := natAbs_tmod_lt b a ha
      rw [Gcd.egcd_step a b c ha]
      simp only [GcdSrc.egcd, ha, if_false, ih (b.tmod a) a c (by omega)]
      rcases Gcd.egcd (b.tmod a) a c with e | _ | ⟨y0, x0⟩ <;> simp

/-- `crt` as translated from the source = the model's `crt`, for every budget `≥ max(|m1|, |m2|) + 1`. -/
theorem crt_eq_model (fuel : Nat) (a1 m1 a2 m2 : Int) (h1 : m1.natAbs + 1 ≤ fuel) (h2 : m2.natAbs + 1 ≤ fuel) :
    GcdSrc.crt fuel a1 m1 a2 m2 = Gcd.crt a1 m1 a2 m2 := by
  simp only [GcdSrc.crt, Gcd.crt, gcd_eq_model fuel m1 m2 h2, egcd_eq_model fuel m1 (-m2) (a2 - a1) h1]
  rcases Gcd.egcd m1 (-m2) (a2 - a1) with e | _ | ⟨x, y⟩ <;> simp only []
  split_ifs <;> simp_all

/-! ### Budget-free forms: some budget works, and every larger one gives the same answer -/

theorem gcd_fuel_irrelevant (f1 f2 : Nat) (a b : Int) (h1 : b.natAbs + 1 ≤ f1) (h2 : b.natAbs + 1 ≤ f2) :
    GcdSrc.gcd f1 a b = GcdSrc.gcd f2 a b := by
  rw [gcd_eq_model f1 a b h1, gcd_eq_model f2 a b h2]

end Rlib.GcdSrc
