import RlibModel.Lemmas.ReaderOps
/-!
C08 lemmas, part 3: reading back a decimal rendering returns the value (`parse_decimal`), for every
integer type of at least 8 bits and every representable value, the minimum of signed types included
(the reader accumulates negative numbers downwards, so `MIN` never overflows).
-/
set_option linter.unusedSimpArgs false
namespace Rlib.Reader

/-- Decimal digits of `v`, most significant first, as ASCII bytes (no sign, `0` ↦ `"0"`). -/
def decimal (v : Nat) : List UInt8 :=
  if _h : v < 10 then [UInt8.ofNat (48 + v)] else decimal (v / 10) ++ [UInt8.ofNat (48 + v % 10)]
termination_by v
decreasing_by omega

/-- Text of an integer as a writer would produce it: optional `-`, then the digits of `|x|`. -/
def render (x : Int) : List UInt8 := if x < 0 then 45 :: decimal x.natAbs else decimal x.natAbs

theorem decimal_lt (v : Nat) (h : v < 10) : decimal v = [UInt8.ofNat (48 + v)] := by
  rw [decimal, dif_pos h]

theorem decimal_ge (v : Nat) (h : ¬ v < 10) : decimal v = decimal (v / 10) ++ [UInt8.ofNat (48 + v % 10)] := by
  rw [decimal, dif_neg h]

theorem digit_facts : ∀ d : Fin 10, isWs (UInt8.ofNat (48 + d.val)) = false ∧
    ¬ (UInt8.ofNat (48 + d.val) < 48) ∧ (UInt8.ofNat (48 + d.val)).toNat - 48 = d.val ∧
    UInt8.ofNat (48 + d.val) ≠ 45 := by decide

/-- A byte of a decimal rendering. -/
def IsDigit (c : UInt8) : Prop := ∃ d : Fin 10, c = UInt8.ofNat (48 + d.val)

theorem decimal_digits : ∀ (v : Nat), ∀ c ∈ decimal v, IsDigit c := by
  intro v
  induction v using Nat.strongRecOn with
  | _ v ih =>
    intro c hc
    by_cases h : v < 10
    · rw [decimal_lt v h] at hc
      simp only [List.mem_singleton] at hc
      exact ⟨⟨v, h⟩, hc⟩
    · rw [decimal_ge v h] at hc
      rcases List.mem_append.mp hc with hc | hc
      · exact ih (v / 10) (by omega) c hc
      · simp only [List.mem_singleton] at hc
        exact ⟨⟨v % 10, by omega⟩, hc⟩

theorem decimal_ne_nil (v : Nat) : decimal v ≠ [] := by
  by_cases h : v < 10
  · rw [decimal_lt v h]; simp
  · rw [decimal_ge v h]; simp

theorem foldE_append {α : Type} (step : α → UInt8 → Except Panic α) : ∀ (l : List UInt8) (a : α) (c : UInt8),
    foldE step a (l ++ [c]) = (match foldE step a l with
      | .error e => .error e
      | .ok a' => step a' c) := by
  intro l
  induction l with
  | nil => intro a c; simp only [List.nil_append, foldE]; cases step a c <;> rfl
  | cons x r ih =>
    intro a c
    simp only [List.cons_append, foldE]
    cases step a x with
    | error e => rfl
    | ok a' => exact ih a' c

theorem IntTy.min_le_zero (t : IntTy) : t.minVal ≤ 0 := by
  unfold IntTy.minVal
  split
  · have : (0 : Int) < 2 ^ (t.bits - 1) := Int.pow_pos (by decide)
    omega
  · exact Int.le_refl _

theorem IntTy.zero_le_max (t : IntTy) : 0 ≤ t.maxVal := by
  unfold IntTy.maxVal
  split
  · have : (0 : Int) < 2 ^ (t.bits - 1) := Int.pow_pos (by decide)
    omega
  · have : (0 : Int) < 2 ^ t.bits := Int.pow_pos (by decide)
    omega

theorem fits_iff (t : IntTy) (z : Int) : t.fits z = true ↔ t.minVal ≤ z ∧ z ≤ t.maxVal := by
  simp [IntTy.fits]

theorem pow_ge_128 (k : Nat) (h : 7 ≤ k) : (128 : Int) ≤ 2 ^ k := by
  have h1 : (2 : Nat) ^ 7 ≤ 2 ^ k := Nat.pow_le_pow_right (by decide) h
  have h2 : ((2 ^ k : Nat) : Int) = (2 : Int) ^ k := by simp
  rw [← h2]
  have : (128 : Nat) ≤ 2 ^ k := h1
  omega

/-- `(digit) as $t` is the digit for every type of at least 8 bits. -/
theorem wrap_digit (t : IntTy) (h8 : 8 ≤ t.bits) (d : Nat) (hd : d < 10) : t.wrap (d : Int) = d := by
  have hp : (128 : Int) ≤ 2 ^ (t.bits - 1) := pow_ge_128 _ (by omega)
  have hq : (128 : Int) ≤ 2 ^ t.bits := pow_ge_128 _ (by omega)
  unfold IntTy.wrap wrapS wrapU
  have hm : (d : Int) % 2 ^ t.bits = d := Int.emod_eq_of_lt (by omega) (by omega)
  split
  · simp only [hm]
    rw [if_pos (by omega)]
  · exact hm

/-- The digit loop over the rendering of `v` yields `v` (or `-v` when accumulating downwards),
    provided the result is representable: no intermediate overflow. -/
theorem foldE_decimal (t : IntTy) (h8 : 8 ≤ t.bits) (neg : Bool) : ∀ (v : Nat),
    t.fits (if neg then -(v : Int) else (v : Int)) = true →
    foldE (digitStep t neg) 0 (decimal v) = .ok (if neg then -(v : Int) else (v : Int)) := by
  have hmin := IntTy.min_le_zero t
  have hmax := IntTy.zero_le_max t
  intro v
  induction v using Nat.strongRecOn with
  | _ v ih =>
    intro hfit
    have hf := (fits_iff t _).mp hfit
    by_cases h : v < 10
    · obtain ⟨_, g2, g3, _⟩ := digit_facts ⟨v, h⟩
      simp only at g2 g3
      rw [decimal_lt v h]
      have h0 : t.fits (0 * 10) = true := (fits_iff t _).mpr ⟨by omega, by omega⟩
      simp only [foldE, digitStep, checked, h0, if_true, g2, if_false, g3, wrap_digit t h8 v h]
      cases neg
      · simp only [Bool.false_eq_true, if_false] at hfit ⊢
        have : (0 : Int) * 10 + (v : Int) = v := by omega
        rw [this, hfit]; rfl
      · simp only [if_true] at hfit ⊢
        have : (0 : Int) * 10 - (v : Int) = -(v : Int) := by omega
        rw [this, hfit]; rfl
    · obtain ⟨_, g2, g3, _⟩ := digit_facts ⟨v % 10, by omega⟩
      simp only at g2 g3
      rw [decimal_ge v h, foldE_append]
      have hdiv : ((v / 10 : Nat) : Int) = (v : Int) / 10 := by omega
      have hmod : ((v % 10 : Nat) : Int) = (v : Int) % 10 := by omega
      have hfit' : t.fits (if neg then -((v / 10 : Nat) : Int) else ((v / 10 : Nat) : Int)) = true := by
        apply (fits_iff t _).mpr
        cases neg
        · simp only [Bool.false_eq_true, if_false] at hf ⊢; omega
        · simp only [if_true] at hf ⊢; omega
      rw [ih (v / 10) (by omega) hfit']
      simp only [digitStep, checked]
      have hten : t.fits ((if neg then -((v / 10 : Nat) : Int) else ((v / 10 : Nat) : Int)) * 10) = true := by
        apply (fits_iff t _).mpr
        cases neg
        · simp only [Bool.false_eq_true, if_false] at hf ⊢; omega
        · simp only [if_true] at hf ⊢; omega
      simp only [hten, if_true, g2, if_false, g3, wrap_digit t h8 (v % 10) (by omega)]
      cases neg
      · simp only [Bool.false_eq_true, if_false] at hfit ⊢
        have : ((v / 10 : Nat) : Int) * 10 + ((v % 10 : Nat) : Int) = v := by omega
        rw [this, hfit]; rfl
      · simp only [if_true] at hfit ⊢
        have : -((v / 10 : Nat) : Int) * 10 - ((v % 10 : Nat) : Int) = -(v : Int) := by omega
        rw [this, hfit]; rfl

theorem takeWhile_append_stop (p : UInt8 → Bool) : ∀ (l tail : List UInt8), (∀ c ∈ l, p c = true) →
    (tail = [] ∨ ∃ c r, tail = c :: r ∧ p c = false) →
    (l ++ tail).takeWhile p = l ∧ (l ++ tail).dropWhile p = tail := by
  intro l
  induction l with
  | nil =>
    intro tail _ ht
    rcases ht with rfl | ⟨c, r, rfl, hc⟩
    · simp
    · simp [List.takeWhile_cons, List.dropWhile_cons, hc]
  | cons x r ih =>
    intro tail hl ht
    have hx : p x = true := hl x (List.mem_cons_self)
    obtain ⟨h1, h2⟩ := ih tail (fun c hc => hl c (List.mem_cons_of_mem _ hc)) ht
    simp [List.takeWhile_cons, List.dropWhile_cons, hx, h1, h2]

/-- **parse_decimal**: after any whitespace, the text of `x` followed by whitespace or the end of input
    reads back as `x`, for every integer type (≥ 8 bits) that can represent `x` — `MIN` and `MAX` included. -/
theorem specInt_render (t : IntTy) (h8 : 8 ≤ t.bits) (x : Int) (hx : t.fits x = true) (hs : x < 0 → t.signed = true)
    (ws tail : List UInt8) (hws : ∀ c ∈ ws, isWs c = true)
    (htail : tail = [] ∨ ∃ c r, tail = c :: r ∧ isWs c = true) :
    specInt t (ws ++ render x ++ tail) = .ok (x, tail) := by
  have hdig : ∀ c ∈ decimal x.natAbs, (!isWs c) = true := by
    intro c hc
    obtain ⟨d, rfl⟩ := decimal_digits _ c hc
    rw [(digit_facts d).1]; rfl
  have htail' : tail = [] ∨ ∃ c r, tail = c :: r ∧ (!isWs c) = false := by
    rcases htail with h | ⟨c, r, h1, h2⟩
    · exact Or.inl h
    · exact Or.inr ⟨c, r, h1, by simp [h2]⟩
  obtain ⟨tk1, tk2⟩ := takeWhile_append_stop (fun c => !isWs c) (decimal x.natAbs) tail hdig htail'
  -- first byte of the digits
  obtain ⟨d0, rest0, hd0⟩ : ∃ d0 rest0, decimal x.natAbs = d0 :: rest0 := by
    cases hh : decimal x.natAbs with
    | nil => exact absurd hh (decimal_ne_nil _)
    | cons a b => exact ⟨a, b, rfl⟩
  have hd0dig : IsDigit d0 := decimal_digits x.natAbs d0 (by rw [hd0]; exact List.mem_cons_self)
  obtain ⟨dd, hdd⟩ := hd0dig
  have hd0ws : isWs d0 = false := by rw [hdd]; exact (digit_facts dd).1
  have hd045 : d0 ≠ 45 := by rw [hdd]; exact (digit_facts dd).2.2.2
  by_cases hneg : x < 0
  · have hsg := hs hneg
    have hskip : specSkipWs (ws ++ render x ++ tail) = 45 :: (decimal x.natAbs ++ tail) := by
      have : ws ++ render x ++ tail = ws ++ (45 :: (decimal x.natAbs ++ tail)) := by
        simp [render, hneg]
      rw [this]
      exact (takeWhile_append_stop isWs ws _ hws (Or.inr ⟨45, _, rfl, by decide⟩)).2
    have hfit : t.fits (if true then -((x.natAbs : Nat) : Int) else ((x.natAbs : Nat) : Int)) = true := by
      have : -((x.natAbs : Nat) : Int) = x := by omega
      simp only [if_true, this]; exact hx
    have hfold := foldE_decimal t h8 true x.natAbs hfit
    simp only [specInt, hskip, hsg, List.head?_cons, Bool.true_and, beq_self_eq_true, if_true, List.tail_cons,
      specFoldTok, specTok, tk1, tk2, hfold]
    have : -((x.natAbs : Nat) : Int) = x := by omega
    simp [this]
  · have hskip : specSkipWs (ws ++ render x ++ tail) = decimal x.natAbs ++ tail := by
      have : ws ++ render x ++ tail = ws ++ (decimal x.natAbs ++ tail) := by
        simp [render, hneg]
      rw [this]
      refine (takeWhile_append_stop isWs ws _ hws (Or.inr ⟨d0, rest0 ++ tail, by rw [hd0]; rfl, hd0ws⟩)).2
    have hfit : t.fits (if false then -((x.natAbs : Nat) : Int) else ((x.natAbs : Nat) : Int)) = true := by
      have : ((x.natAbs : Nat) : Int) = x := by omega
      simp only [Bool.false_eq_true, if_false, this]; exact hx
    have hfold := foldE_decimal t h8 false x.natAbs hfit
    have hhead : (decimal x.natAbs ++ tail).head? = some d0 := by rw [hd0]; rfl
    have hb : (d0 == 45) = false := by simp [hd045]
    have hnegb : (t.signed && (decimal x.natAbs ++ tail).head? == some 45) = false := by
      rw [hhead]; simp [hd045]
    simp only [specInt, hskip, hnegb, Bool.false_eq_true, if_false, specFoldTok, specTok, tk1, tk2, hfold]
    have : ((x.natAbs : Nat) : Int) = x := by omega
    simp [this]

end Rlib.Reader
