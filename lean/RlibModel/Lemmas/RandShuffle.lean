import RlibModel.Lemmas.Rand
import Mathlib.Data.List.Perm.Basic
import Mathlib.Data.List.Count
/-! Helper lemmas for C14, shuffle part: `swap` is a transposition (permutation, involution),
`shuffleLoop` never panics and permutes; Fisher–Yates with draws `d_i ∈ [0, i]` is onto. -/
namespace Rlib.Rand

variable {α : Type}

/-! ### `swap` -/

theorem swap_eq (v : List α) (i j : Nat) (hi : i < v.length) (hj : j < v.length) :
    swap v i j = .ok ((v.set i v[j]).set j v[i]) := by
  unfold swap
  rw [dif_pos ⟨hi, hj⟩]

theorem swap_oob (v : List α) (i j : Nat) (h : ¬ (i < v.length ∧ j < v.length)) : swap v i j = .error .index := by
  unfold swap
  rw [dif_neg h]

theorem swap_length (v v' : List α) (i j : Nat) (h : swap v i j = .ok v') : v'.length = v.length := by
  unfold swap at h
  split at h
  · injection h with h; subst h; simp
  · cases h

/-- element-wise description of the result of a swap -/
theorem swapped_getElem? (v : List α) (i j : Nat) (hi : i < v.length) (hj : j < v.length) (idx : Nat) :
    ((v.set i v[j]).set j v[i])[idx]? = if idx = j then some v[i] else if idx = i then some v[j] else v[idx]? := by
  simp only [List.getElem?_set, List.length_set]
  by_cases h1 : j = idx
  · subst h1; simp [hj]
  · by_cases h2 : i = idx
    · subst h2; simp [h1, hi, Ne.symm h1]
    · simp [h1, h2, Ne.symm h1, Ne.symm h2]

theorem swapped_perm (v : List α) (i j : Nat) (hi : i < v.length) (hj : j < v.length) :
    ((v.set i v[j]).set j v[i]).Perm v := by
  classical
  rw [List.perm_iff_count]
  intro b
  have hj' : j < (v.set i v[j]).length := by simpa using hj
  rw [List.count_set hj', List.count_set hi, List.getElem_set]
  have hci : v[i] = b → 1 ≤ List.count b v := fun h => List.one_le_count_iff.mpr (h ▸ List.getElem_mem hi)
  have hcj : v[j] = b → 1 ≤ List.count b v := fun h => List.one_le_count_iff.mpr (h ▸ List.getElem_mem hj)
  by_cases hij : i = j
  · subst hij
    simp only [if_true, beq_iff_eq]
    by_cases hb : v[i] = b
    · have := hci hb; simp only [hb, if_true]; omega
    · simp only [hb, if_false]; omega
  · simp only [if_neg hij, beq_iff_eq]
    by_cases hb : v[i] = b <;> by_cases hb' : v[j] = b
    · have := hci hb; simp only [hb, hb', if_true]; omega
    · have := hci hb; simp only [hb, hb', if_true, if_false]; omega
    · have := hcj hb'; simp only [hb, hb', if_true, if_false]; omega
    · simp only [hb, hb', if_false]; omega

theorem swap_perm (v v' : List α) (i j : Nat) (h : swap v i j = .ok v') : v'.Perm v := by
  unfold swap at h
  split at h
  · rename_i hh
    injection h with h; subst h
    exact swapped_perm v i j hh.1 hh.2
  · cases h

/-- swapping the same two positions again restores the list -/
theorem swap_invol (v v' : List α) (i j : Nat) (h : swap v i j = .ok v') : swap v' i j = .ok v := by
  have hlen := swap_length v v' i j h
  unfold swap at h
  split at h
  · rename_i hh
    injection h with h
    have hi' : i < v'.length := by omega
    have hj' : j < v'.length := by omega
    rw [swap_eq v' i j hi' hj']
    congr 1
    apply List.ext_getElem?
    intro idx
    rw [swapped_getElem? v' i j hi' hj' idx]
    have e : ∀ k, v'[k]? = if k = j then some v[i] else if k = i then some v[j] else v[k]? := by
      intro k; rw [← h]; exact swapped_getElem? v i j hh.1 hh.2 k
    have ei : v'[i] = if i = j then v[i] else v[j] := by
      have := e i
      rw [List.getElem?_eq_getElem hi'] at this
      by_cases hij : i = j
      · simp only [hij, if_true] at this ⊢; exact Option.some.inj this
      · simp only [hij, if_false, if_true] at this ⊢; exact Option.some.inj this
    have ej : v'[j] = v[i] := by
      have := e j
      rw [List.getElem?_eq_getElem hj'] at this
      simp only [if_true] at this; exact Option.some.inj this
    by_cases h1 : idx = j
    · subst h1
      rw [if_pos rfl, ei]
      by_cases hij : i = idx
      · subst hij; simp
      · simp [hij, List.getElem?_eq_getElem hh.2]
    · rw [if_neg h1]
      by_cases h2 : idx = i
      · subst h2
        rw [if_pos rfl, ej, List.getElem?_eq_getElem hh.1]
      · rw [if_neg h2, e idx, if_neg h1, if_neg h2]
  · cases h

/-! ### the loop -/

theorem usize_min : usizeTy.minVal = 0 := rfl
theorem usize_max : usizeTy.maxVal = 2 ^ 64 - 1 := rfl

/-- `self.next(0..=i)` for an index `i`: the raw word modulo `i + 1` -/
theorem gen_usize_incl (i raw : Nat) (hi : i + 1 < 2 ^ 64) :
    gen usizeTy (.incl 0 i) raw = .ok ((raw % (i + 1) : Nat) : Int) := by
  have hi' : (i : Int) + 1 < 2 ^ 64 := by exact_mod_cast hi
  show genIncl usizeTy 0 i raw = _
  rw [genIncl_eq usizeTy (by decide) 0 i raw (by rw [usize_min, usize_max]; omega) (by rw [usize_min, usize_max]; omega)
    (by omega) (by rw [usize_min, usize_max]; omega)]
  congr 1
  simp

/-- one iteration, when the index is inside the slice: it cannot panic -/
theorem shuffleLoop_step (draw : Nat → Nat) (n i : Nat) (v : List α) (hi : i < v.length) (h64 : v.length < 2 ^ 64) :
    ∃ (j : Nat) (hj : j < v.length), j = draw (i - 1) % (i + 1) ∧
      shuffleLoop draw (n + 1) i v = shuffleLoop draw n (i + 1) ((v.set i v[j]).set j v[i]) := by
  have hj : draw (i - 1) % (i + 1) < v.length := Nat.lt_of_lt_of_le (Nat.mod_lt _ (by omega)) (by omega)
  refine ⟨_, hj, rfl, ?_⟩
  rw [shuffleLoop, gen_usize_incl i _ (by omega)]
  simp only [Int.toNat_natCast]
  rw [swap_eq v i _ hi hj]

theorem shuffleLoop_perm (draw : Nat → Nat) (n i : Nat) (v : List α) (hn : n = 0 ∨ i + n ≤ v.length)
    (h64 : v.length < 2 ^ 64) : ∃ v', shuffleLoop draw n i v = .ok v' ∧ v'.Perm v := by
  induction n generalizing i v with
  | zero => exact ⟨v, rfl, List.Perm.refl _⟩
  | succ n ih =>
    have hi : i < v.length := by omega
    obtain ⟨j, hj, _, hstep⟩ := shuffleLoop_step draw n i v hi h64
    have hp := swapped_perm v i j hi hj
    obtain ⟨v', hv', hperm⟩ := ih (i + 1) ((v.set i v[j]).set j v[i]) (by simp; omega) (by simpa using h64)
    exact ⟨v', by rw [hstep, hv'], hperm.trans hp⟩

/-- the loop only looks at the draws numbered `i-1 … i+n-2` -/
theorem shuffleLoop_congr (d d' : Nat → Nat) (n i : Nat) (v : List α) (hi : 1 ≤ i)
    (h : ∀ x, i - 1 ≤ x → x < i - 1 + n → d x = d' x) : shuffleLoop d n i v = shuffleLoop d' n i v := by
  induction n generalizing i v with
  | zero => rfl
  | succ n ih =>
    rw [shuffleLoop, shuffleLoop, h (i - 1) (le_refl _) (by omega)]
    cases gen usizeTy (.incl 0 i) (d' (i - 1)) with
    | error p => rfl
    | ok j =>
      simp only []
      cases swap v i j.toNat with
      | error p => rfl
      | ok v' =>
        simp only []
        exact ih (i + 1) v' (by omega) (fun x h1 h2 => h x (by omega) (by omega))

/-- `n + 1` iterations = `n` iterations followed by the last one -/
theorem shuffleLoop_snoc (draw : Nat → Nat) (n i : Nat) (v : List α) :
    shuffleLoop draw (n + 1) i v =
      match shuffleLoop draw n i v with
      | .error p => .error p
      | .ok w => shuffleLoop draw 1 (i + n) w := by
  induction n generalizing i v with
  | zero => rfl
  | succ n ih =>
    rw [shuffleLoop]
    conv => rhs; rw [shuffleLoop]
    cases gen usizeTy (.incl 0 i) (draw (i - 1)) with
    | error p => rfl
    | ok j =>
      simp only []
      cases swap v i j.toNat with
      | error p => rfl
      | ok v' =>
        simp only []
        rw [ih (i + 1) v']
        have : i + 1 + n = i + (n + 1) := by omega
        rw [this]

/-! ### Fisher–Yates is onto -/

theorem take_perm_of_agree (u v : List α) (m : Nat) (hp : u.Perm v) (hag : ∀ idx, m ≤ idx → u[idx]? = v[idx]?) :
    (u.take m).Perm (v.take m) := by
  have hd : u.drop m = v.drop m := by
    apply List.ext_getElem?
    intro k
    rw [List.getElem?_drop, List.getElem?_drop]
    exact hag _ (by omega)
  have h1 : (u.take m ++ u.drop m).Perm (v.take m ++ v.drop m) := by
    rw [List.take_append_drop, List.take_append_drop]; exact hp
  rw [hd] at h1
  exact (List.perm_append_right_iff _).mp h1

/-- After the iterations `1 … k` every rearrangement of the first `k + 1` elements (rest untouched)
    has been produced by suitable in-range draws. -/
theorem shuffleLoop_onto (v : List α) (h64 : v.length < 2 ^ 64) (k : Nat) (hk : k = 0 ∨ k + 1 ≤ v.length) (u : List α)
    (hp : u.Perm v) (hag : ∀ idx, k + 1 ≤ idx → u[idx]? = v[idx]?) :
    ∃ draw : Nat → Nat, (∀ x, draw x ≤ x + 1) ∧ shuffleLoop draw k 1 v = .ok u := by
  induction k generalizing u with
  | zero =>
    refine ⟨fun _ => 0, fun _ => Nat.zero_le _, ?_⟩
    have hu : u = v := by
      have ht := take_perm_of_agree u v 1 hp hag
      have hlen := hp.length_eq
      cases u with
      | nil => cases v with
        | nil => rfl
        | cons b t' => simp at hlen
      | cons a t => cases v with
        | nil => simp at hlen
        | cons b t' =>
          simp only [List.take_succ_cons, List.take_zero] at ht
          have hab : a = b := by simpa using ht
          have htt : t = t' := by
            apply List.ext_getElem?
            intro idx
            have := hag (idx + 1) (by omega)
            simpa using this
          rw [hab, htt]
    rw [hu]; rfl
  | succ k ih =>
    have hi : k + 1 < v.length := by omega
    have hlen := hp.length_eq
    have hiu : k + 1 < u.length := by omega
    -- the element that has to end up at index k+1 before the last swap sits at some j ≤ k+1 of u
    have ht := take_perm_of_agree u v (k + 2) hp (fun idx h => hag idx (by omega))
    have hmem : v[k + 1] ∈ v.take (k + 2) := List.mem_take_iff_getElem.mpr ⟨k + 1, by simp; omega, rfl⟩
    have hmem' : v[k + 1] ∈ u.take (k + 2) := ht.symm.subset hmem
    obtain ⟨j, hj, huj⟩ := List.mem_take_iff_getElem.mp hmem'
    have hj1 : j < k + 2 := by omega
    have hju : j < u.length := by omega
    -- w = u with positions k+1 and j exchanged
    have hsw := swap_eq u (k + 1) j hiu hju
    generalize hw : (u.set (k + 1) u[j]).set j u[k + 1] = w at hsw
    have hwp : w.Perm v := (swap_perm u w (k + 1) j hsw).trans hp
    have hwag : ∀ idx, k + 1 ≤ idx → w[idx]? = v[idx]? := by
      intro idx hidx
      rw [← hw, swapped_getElem? u (k + 1) j hiu hju idx]
      by_cases h1 : idx = j
      · have : j = k + 1 := by omega
        subst h1
        rw [if_pos rfl]
        have e : u[k + 1] = u[idx] := by congr 1; omega
        rw [e, huj, List.getElem?_eq_getElem (by omega)]
        congr 1
        simp [this]
      · rw [if_neg h1]
        by_cases h2 : idx = k + 1
        · subst h2
          rw [if_pos rfl, huj, List.getElem?_eq_getElem hi]
        · rw [if_neg h2]
          exact hag idx (by omega)
    obtain ⟨draw, hdr, hloop⟩ := ih (Or.inr (by omega)) w hwp hwag
    refine ⟨fun x => if x = k then j else draw x, ?_, ?_⟩
    · intro x
      by_cases hx : x = k
      · simp only [hx, if_true]; omega
      · simp only [hx, if_false]; exact hdr x
    · rw [shuffleLoop_snoc]
      have hc : shuffleLoop (fun x => if x = k then j else draw x) k 1 v = shuffleLoop draw k 1 v :=
        shuffleLoop_congr _ _ k 1 v (le_refl _) (fun x _ h2 => by simp only [Nat.sub_self, Nat.zero_add] at h2; simp [Nat.ne_of_lt h2])
      rw [hc, hloop]
      simp only []
      have hwl : w.length = v.length := hwp.length_eq
      obtain ⟨j', hj', hj'e, hstep⟩ := shuffleLoop_step (fun x => if x = k then j else draw x) 0 (1 + k) w (by omega) (by omega)
      have hjj : j' = j := by
        rw [hj'e]
        have : 1 + k - 1 = k := by omega
        simp only [this, if_true]
        exact Nat.mod_eq_of_lt (by omega)
      subst hjj
      rw [hstep]
      have hinv := swap_invol u w (k + 1) j' hsw
      have e1 : 1 + k = k + 1 := by omega
      rw [swap_eq w (k + 1) j' (by omega) hj'] at hinv
      injection hinv with hinv
      simp only [e1]
      rw [shuffleLoop, hinv]

end Rlib.Rand
